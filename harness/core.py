"""Shared plumbing of the checks: failure types, the per-case context, sub-check descriptors.

Everything in /verif/props is written against this small API:

    def prop(case, ctx):          # case is a JSON-serialisable dict drawn by Hypothesis
        Y = gen.build_tt(case["Y"])
        v = ctx.lib(teneva.sum, Y)            # exceptions raised inside teneva => OracleFailure
        ctx.check(abs(v - ref) <= tol, "sum differs", got=v, ref=ref, tol=tol)
        ctx.label("d==2"); ctx.nontrivial(rank >= 2)

The code under test is imported from VERIF_REPO (default /repo): the working tree is the build.
"""
import os
import sys
import json
import hashlib
import traceback

REPO = os.environ.get("VERIF_REPO", "/repo")
if REPO not in sys.path:
    sys.path.insert(0, REPO)

VERIF = os.path.dirname(os.path.dirname(os.path.abspath(__file__)))


class OracleFailure(Exception):
    """The code under test contradicts the property on this case."""

    def __init__(self, msg, details=None):
        super().__init__(msg)
        self.msg = msg
        self.details = details or {}

    def __str__(self):
        if self.details:
            try:
                return self.msg + " | " + json.dumps(jsonable(self.details), sort_keys=True)[:1500]
            except Exception:
                return self.msg
        return self.msg


class KnownFinding(Exception):
    """The case hits a finding recorded as `open:` in KNOWN_FINDINGS.txt (excluded, counted)."""

    def __init__(self, slug, what=""):
        super().__init__(slug)
        self.slug = slug
        self.what = what


def jsonable(x):
    import numpy as np
    if isinstance(x, dict):
        return {str(k): jsonable(v) for k, v in x.items()}
    if isinstance(x, (list, tuple)):
        return [jsonable(v) for v in x]
    if isinstance(x, np.ndarray):
        return jsonable(x.tolist())
    if isinstance(x, (np.integer,)):
        return int(x)
    if isinstance(x, (np.floating,)):
        return float(x)
    if isinstance(x, (np.bool_,)):
        return bool(x)
    if isinstance(x, float):
        if x != x or x in (float("inf"), float("-inf")):
            return repr(x)
        return x
    if isinstance(x, (int, str, bool)) or x is None:
        return x
    return repr(x)


def digest(case):
    return hashlib.sha1(json.dumps(case, sort_keys=True, default=repr).encode()).hexdigest()[:16]


class Ctx:
    """Per-case context handed to a property function."""

    def __init__(self):
        self.labels = set()
        self.nt = False
        self.extra_evals = 0
        self.extra_nt = []

    # -- bookkeeping -------------------------------------------------------------------------
    def label(self, *names):
        for n in names:
            if n:
                self.labels.add(str(n))

    def nontrivial(self, flag=True):
        if flag:
            self.nt = True

    def inner(self, n=1, nontrivial_key=None):
        """Count executions enumerated inside one generated case (fault points, pivots, ...)."""
        self.extra_evals += n
        if nontrivial_key is not None:
            self.extra_nt.append(str(nontrivial_key))

    # -- calling the code under test ---------------------------------------------------------
    def lib(self, fn, *a, **k):
        """Call the code under test; an exception on an in-domain input is a failure of the property."""
        try:
            return fn(*a, **k)
        except (OracleFailure, KnownFinding):
            raise
        except Exception as e:  # noqa: BLE001 - the contract is "does not raise"
            tb = traceback.extract_tb(e.__traceback__)
            where = ""
            for fr in reversed(tb):
                if "/teneva/" in fr.filename:
                    where = f"{os.path.basename(fr.filename)}:{fr.lineno} in {fr.name}"
                    break
            name = getattr(fn, "__name__", repr(fn))
            raise OracleFailure(f"{name} raised {type(e).__name__}: {e}", {"where": where})

    def raises(self, exc, fn, *a, **k):
        """The documented contract is that this call is rejected with `exc`."""
        name = getattr(fn, "__name__", repr(fn))
        try:
            fn(*a, **k)
        except exc:
            return
        except Exception as e:  # noqa: BLE001
            raise OracleFailure(f"{name} should raise {exc.__name__}, raised {type(e).__name__}: {e}")
        raise OracleFailure(f"{name} should raise {exc.__name__}, returned normally")

    # -- assertions --------------------------------------------------------------------------
    def check(self, cond, msg, /, **details):
        if not cond:
            raise OracleFailure(msg, details)

    def known(self, slug, what=""):
        raise KnownFinding(slug, what)


class Sub:
    """One sub-check of a property.

    Exactly one of `strategy`, `enumerate`, `custom` is given:
      strategy(tier)                      -> Hypothesis strategy of JSON-able case dicts
      enumerate(tier, shard, nshards)     -> iterable of JSON-able cases (this shard's share of a finite space)
      custom(tier, seed, shard, nshards, stats) -> None; drives `stats.run_case` itself (stateful machines)
    `prop(case, ctx)` is the pure property function (also used for replay).
    """

    def __init__(self, name, prop, strategy=None, enumerate=None, custom=None,
                 quick=100, thorough=2000, shards=16, exhaustive=False, shrink_cap_s=None):
        self.name = name
        self.prop = prop
        self.strategy = strategy
        self.enumerate = enumerate
        self.custom = custom
        self.quick = quick
        self.thorough = thorough
        self.shards = shards
        self.exhaustive = exhaustive
        self.shrink_cap_s = shrink_cap_s


def load_known_findings():
    """Parse /verif/KNOWN_FINDINGS.txt -> {property: {slug: text}} for `open:` lines only."""
    path = os.path.join(VERIF, "KNOWN_FINDINGS.txt")
    out = {}
    if not os.path.exists(path):
        return out
    for line in open(path):
        line = line.strip()
        if not line.startswith("open:"):
            continue
        body = line[len("open:"):].strip()
        fields = dict(tok.split("=", 1) for tok in body.split() if "=" in tok and tok.split("=", 1)[0] in ("property", "signature"))
        pid, slug = fields.get("property"), fields.get("signature")
        if pid and slug:
            text = body.split("signature=" + slug, 1)[1].strip()
            out.setdefault(pid, {})[slug] = text
    return out
