"""Reference computations written independently of teneva (dense NumPy algebra) and the tolerance model.

Abs-majorant tolerance: for a multilinear expression E of the cores, |fl(E) - E| <= K*eps*E(|cores|).
The reference evaluates the same expression on |G_k| to get the scale, so cancellation never yields a
false alarm; with small-integer cores the bound collapses to exact equality for integer-valued results.
"""
import math
import numpy as np

EPS = np.finfo(float).eps


def dense(Y):
    """Dense array denoted by the cores: explicit left-to-right chain (not teneva.full)."""
    Z = np.asarray(Y[0], dtype=float)[0]            # (n_0, r_1)
    for G in Y[1:]:
        Z = np.einsum('...a,aib->...ib', Z, np.asarray(G, dtype=float))
    return Z[..., 0]


def dense_abs(Y):
    return dense([np.abs(G) for G in Y])


def K_of(Y, extra=0):
    d = len(Y)
    return 32.0 * (d + sum(G.shape[2] for G in Y) + max(G.shape[1] for G in Y) + extra)


def tol_dense(Y, extra=0):
    """Elementwise tolerance for any evaluation of the entries of Y."""
    return K_of(Y, extra) * EPS * dense_abs(Y)


def shape_of(Y):
    return [G.shape[1] for G in Y]


def ranks_of(Y):
    return [1] + [G.shape[2] for G in Y]


def wellformed(Y, shape=None, finite=True, int_ok=False):
    """Return None if Y is a well-formed TT-tensor (optionally of the given shape), else a reason string.
    int_ok: integer core arrays are acceptable (results computed from integer-stored operands; their values are checked separately)."""
    if not isinstance(Y, list):
        return f"not a list but {type(Y).__name__}"
    if len(Y) == 0:
        return "empty list"
    if shape is not None and len(Y) != len(shape):
        return f"dimension {len(Y)} != expected {len(shape)}"
    prev = 1
    for k, G in enumerate(Y):
        if not isinstance(G, np.ndarray):
            return f"core {k} is {type(G).__name__}"
        if G.ndim != 3:
            return f"core {k} has ndim {G.ndim}"
        if G.dtype.kind != 'f' and not (int_ok and G.dtype.kind in 'iu'):
            return f"core {k} has dtype {G.dtype}"
        if G.shape[0] != prev:
            return f"core {k} left rank {G.shape[0]} != {prev}"
        if shape is not None and G.shape[1] != int(shape[k]):
            return f"core {k} mode size {G.shape[1]} != {int(shape[k])}"
        if G.shape[2] < 1 or G.shape[1] < 1:
            return f"core {k} has empty shape {G.shape}"
        if finite and not np.all(np.isfinite(G)):
            return f"core {k} has non-finite entries"
        prev = G.shape[2]
    if prev != 1:
        return f"last rank {prev} != 1"
    return None


def unfold(F, k):
    """k-th unfolding (first k modes x the rest) of a dense array, k = 1..d-1."""
    F = np.asarray(F)
    rows = int(np.prod(F.shape[:k], dtype=np.int64))
    return F.reshape(rows, -1)


def unfold_svals(F, k):
    return np.linalg.svd(unfold(F, k), compute_uv=False)


def tails(s):
    """tails[q] = sqrt(sum_{j>=q} s_j^2), q = 0..len(s)."""
    s = np.asarray(s, dtype=float)
    t = np.sqrt(np.concatenate([np.cumsum((s ** 2)[::-1])[::-1], [0.0]]))
    return t


def fro(A):
    """Frobenius norm, rescaled so that entries beyond 1e+-154 do not overflow / underflow when squared."""
    A = np.asarray(A, dtype=float).ravel()
    if A.size == 0:
        return 0.0
    m = float(np.max(np.abs(A)))
    if m == 0.0 or not np.isfinite(m):
        return m if m == 0.0 else float(np.linalg.norm(A))
    if 1e-100 < m < 1e100:
        return float(np.linalg.norm(A))
    return m * float(np.linalg.norm(A / m))


def interface_ref(Y, P=None, i=None, ltr=False):
    """Un-normalised interface vectors by an independent recursion. Returns list of d+1 vectors."""
    d = len(Y)
    mats = []
    for k in range(d):
        G = Y[k]
        if i is None:
            if P is None:
                M = G.sum(axis=1)
            else:
                p = np.asarray(P if isinstance(P[0], (int, float)) else P[k], dtype=float)
                M = np.tensordot(G, p[:G.shape[1]], axes=([1], [0]))
        else:
            M = G[:, i[k], :]
            if P is not None:
                p = P if isinstance(P[0], (int, float)) else P[k]
                M = M * p[i[k]]
        mats.append(M)
    phi = [None] * (d + 1)
    if not ltr:
        phi[d] = np.ones(1)
        for k in range(d - 1, -1, -1):
            phi[k] = mats[k] @ phi[k + 1]
    else:
        phi[0] = np.ones(1)
        for k in range(d):
            phi[k + 1] = phi[k] @ mats[k]
    return phi


def gram_ref(Y1, Y2):
    """<Y1, Y2> as (mantissa, exponent) with unbounded exponent: v * 2**p, renormalised by frexp per core."""
    v = np.ones((1, 1))
    p = 0
    for G1, G2 in zip(Y1, Y2):
        # scale the cores themselves so that their product cannot overflow
        m1 = np.max(np.abs(G1)); m2 = np.max(np.abs(G2))
        if m1 == 0 or m2 == 0:
            return 0.0, 0
        e1 = math.frexp(m1)[1]; e2 = math.frexp(m2)[1]
        A = np.ldexp(G1, -e1); B = np.ldexp(G2, -e2)
        p += e1 + e2
        r1, n, r2 = A.shape
        s1, _, s2 = B.shape
        # v: (r1, s1) ; new v[c, e] = sum_{a,b,i} v[a,b] A[a,i,c] B[b,i,e]
        v = np.einsum('ab,aic,bie->ce', v, A, B)
        m = np.max(np.abs(v))
        if m == 0:
            return 0.0, 0
        e = math.frexp(m)[1]
        v = np.ldexp(v, -e)
        p += e
    val = float(v[0, 0])
    if val == 0:
        return 0.0, 0
    m, e = math.frexp(val)
    return m * 2.0, p + e - 1      # |mantissa| in [1, 2)


def log2_abs(v, p=0):
    """log2|v * 2**p| for python floats/ints with big p."""
    if v == 0:
        return -math.inf
    m, e = math.frexp(abs(v))
    return math.log2(m) + e + p


def ortho_defect_left(G):
    """|| Q^T Q - I ||_max for the left unfolding (r1*n, r2) of a core."""
    r1, n, r2 = G.shape
    Q = G.reshape(r1 * n, r2)
    return float(np.max(np.abs(Q.T @ Q - np.eye(r2)))) if r2 else 0.0


def ortho_defect_right(G):
    r1, n, r2 = G.shape
    Q = G.reshape(r1, n * r2)
    return float(np.max(np.abs(Q @ Q.T - np.eye(r1)))) if r1 else 0.0


def ratio_interval(num2, tnum, den2, tden):
    """Interval [lo, hi] containing sqrt(num2/den2) when num2, den2 are only known up to tnum, tden; None if undefined."""
    if den2 - tden <= 0 or den2 <= 0:
        return None
    lo = math.sqrt(max(0.0, num2 - tnum) / (den2 + tden))
    hi = math.sqrt((num2 + tnum) / (den2 - tden))
    return lo * (1 - 1e-12), hi * (1 + 1e-12)


def accuracy_interval(Y1, Y2):
    """Interval that teneva.accuracy(Y1, Y2) = ||Y1-Y2||/||Y2|| (computed through Gram values) must lie in."""
    F1, F2 = dense(Y1), dense(Y2)
    A1, A2 = dense_abs(Y1), dense_abs(Y2)
    d = len(Y1)
    r1, r2 = ranks_of(Y1), ranks_of(Y2)
    K = 32.0 * (d + sum((a + b) ** 2 for a, b in zip(r1, r2)) + max(shape_of(Y1)))
    D = F1 - F2
    return ratio_interval(float((D * D).sum()), 4 * K * EPS * float(((A1 + A2) ** 2).sum()),
                          float((F2 * F2).sum()), K * EPS * float((A2 * A2).sum()))


def erank_ref(Y):
    n, r = shape_of(Y), ranks_of(Y)
    d = len(n)
    if d == 2:
        return float(r[1])
    sz = sum(n[k] * r[k] * r[k + 1] for k in range(d))
    b = n[0] + n[d - 1]
    a = sum(n[1:d - 1])
    return (math.sqrt(b * b + 4 * a * sz) - b) / (2 * a)
