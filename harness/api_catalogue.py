"""One table of every exported teneva callable with builders of valid arguments (used by C09, C10, C11).

`build(op, seed, variant)` returns a Call: the function, positional args, keyword args and the per-entry contract notes
    mutable  : names / positions of arguments that the function fills on purpose (info / cache dictionaries, in-place flag)
    alias_ok : the documented pass-through helpers that may hand back their argument
    seed_kw  : name of the seed argument (None for deterministic functions)
All randomness of a builder comes from default_rng(seed); `variant` selects among the documented argument combinations.
"""
import io
import contextlib
import numpy as np

import harness.core  # noqa: F401
import teneva


class Call:
    def __init__(self, name, fn, args, kwargs=None, mutable=(), alias_ok=False, seed_kw=None, note=""):
        self.name, self.fn, self.args, self.kwargs = name, fn, list(args), dict(kwargs or {})
        self.mutable, self.alias_ok, self.seed_kw, self.note = set(mutable), alias_ok, seed_kw, note

    def run(self):
        with contextlib.redirect_stdout(io.StringIO()):
            return self.fn(*self.args, **self.kwargs)


# ------------------------------------------------------------------------------------------- argument material

def mk_shape(rng, d=None, n_lo=2, n_hi=4, d_lo=2, d_hi=4):
    d = d or int(rng.integers(d_lo, d_hi + 1))
    return [int(x) for x in rng.integers(n_lo, n_hi + 1, size=d)]


def mk_tt(rng, n=None, r_hi=3, nonneg=False, r=None):
    n = n or mk_shape(rng)
    d = len(n)
    if r is None:
        r = [1] + [int(x) for x in rng.integers(1, r_hi + 1, size=d - 1)] + [1]
    Y = [rng.normal(size=(r[k], n[k], r[k + 1])) for k in range(d)]
    if nonneg:
        Y = [np.abs(G) for G in Y]
    return Y


def mk_idx(rng, n, m):
    return np.vstack([rng.integers(0, k, size=m) for k in n]).T


def cover_idx(rng, n, m):
    m = max(m, max(n))
    I = np.empty((m, len(n)), dtype=int)
    for k in range(len(n)):
        I[:, k] = rng.permutation(np.concatenate([np.arange(n[k]), rng.integers(0, n[k], size=m - n[k])]))
    return I


def dense_of(Y):
    Z = Y[0][0]
    for G in Y[1:]:
        Z = np.einsum('...a,aib->...ib', Z, G)
    return Z[..., 0]


def relayout(x, layout):
    """Same values, different memory layout: C, F (Fortran) or N (non-contiguous strided view)."""
    if isinstance(x, np.ndarray) and x.ndim >= 1 and x.size > 0:
        if layout == "C":
            return np.ascontiguousarray(x).copy()
        if layout == "F":
            return np.asfortranarray(x).copy(order="F")
        big = np.zeros(x.shape[:-1] + (2 * x.shape[-1],), dtype=x.dtype)
        v = big[..., ::2]
        v[...] = x
        return v
    if isinstance(x, list) and x and all(isinstance(g, np.ndarray) for g in x):
        return [relayout(g, layout) for g in x]
    return x


# ------------------------------------------------------------------------------------------- the catalogue

def _f_lookup(F):
    return lambda I: F[tuple(np.asarray(I, dtype=int).T)]


def build(op, seed, variant=0):
    rng = np.random.default_rng(seed)
    v = variant
    C = Call
    n = mk_shape(rng)
    d = len(n)
    Y = mk_tt(rng, n)
    Y2 = mk_tt(rng, n)
    I = mk_idx(rng, n, 5)

    if op == "add_many":
        items = [mk_tt(rng, n, 2) for _ in range(3)] + ([1.5] if v % 2 else [])
        if v % 8 == 6:
            items = items[:1]               # a list with a single summand
        return C(op, teneva.add_many, [items], dict(e=1e-8, r=[1e12, 3][v % 2], trunc_freq=1 + v % 3))
    if op == "outer_many":
        if v % 4 == 3:
            return C(op, teneva.outer_many, [[Y]])      # a list with a single factor: still a new tensor
        if v % 4 == 2:
            return C(op, teneva.outer_many, [[Y, Y2]])
        return C(op, teneva.outer_many, [[Y, mk_tt(rng), Y2]])
    if op == "copy":
        # TT-tensor, dense array, number, None, and the arrays the docs file under "numpy array": 0-d, 1-d, a squeezed 1x1x1 core
        arg = [Y, dense_of(Y), 3.5, None, np.array(float(rng.normal())), rng.normal(size=3), np.squeeze(rng.normal(size=(1, 1, 1)))][v % 7]
        return C(op, teneva.copy, [arg], alias_ok=(v % 7 in (2, 3)))
    if op == "interface":
        P = [list(rng.uniform(0.1, 1, size=k)) for k in n]
        return C(op, teneva.interface, [Y], dict(P=P if v % 2 else None, i=list(map(int, I[0])) if v % 4 >= 2 else None,
                                                 norm=[None, 'linalg', 'natural'][v % 3], ltr=bool(v % 2)))
    if op == "get":
        return C(op, teneva.get, [Y, [I[0], I, I.tolist(), list(map(int, I[0]))][v % 4]])
    if op == "get_and_grad":
        return C(op, teneva.get_and_grad, [Y, [I[0], list(map(int, I[0]))][v % 2]])
    if op == "get_many":
        return C(op, teneva.get_many, [Y, [I, I.tolist()][v % 2]])
    if op == "getter":
        return C(op, teneva.getter, [Y], note="needs numba")
    if op == "mean":
        P = [list(rng.uniform(0.1, 1, size=k)) for k in n]
        return C(op, teneva.mean, [Y], dict(P=P if v % 2 else None))
    if op == "norm":
        return C(op, teneva.norm, [Y], dict(use_stab=bool(v % 2)))
    if op in ("qtt_to_tt", "tt_to_qtt", "optima_qtt"):
        q = 1 + v % 2
        dd = 2 + (v // 2) % 2
        T = mk_tt(rng, [2 ** q] * dd, 2)
        if v % 8 >= 6:
            # mode slices of the first core of wildly different magnitude (the first core is handed to the factorisation as a view)
            T[0] = T[0] * np.array([1e120, 1e-200, 1.0, 1e-250])[:T[0].shape[1]][None, :, None]
        if op == "tt_to_qtt":
            return C(op, teneva.tt_to_qtt, [T], dict(e=1e-10, r=[100, 2][v % 2]))
        if op == "optima_qtt":
            return C(op, teneva.optima_qtt, [T], dict(k=1 + v % 5))
        Z = mk_tt(rng, [2] * (q * dd), 2)
        return C(op, teneva.qtt_to_tt, [Z, q])
    if op == "sum":
        return C(op, teneva.sum, [Y])
    if op == "accuracy":
        if v % 3 == 2:
            return C(op, teneva.accuracy, [dense_of(Y), dense_of(Y2)])
        return C(op, teneva.accuracy, [Y, Y2])
    if op in ("add", "sub", "mul"):
        fn = getattr(teneva, op)
        a, b = [(Y, Y2), (Y, 2.5), (-3, Y), (2, 4.5)][v % 4]
        return C(op, fn, [a, b])
    if op == "mul_scalar":
        return C(op, teneva.mul_scalar, [Y, Y2], dict(use_stab=bool(v % 2)))
    if op == "outer":
        return C(op, teneva.outer, [Y, mk_tt(rng)])
    if op in ("als", "anova", "ANOVA"):
        if op == "als" and v % 4 == 2:
            n = [4, 3, 4]                    # rank-adaptive mode needs d >= 3; 20 samples leave index pairs without data
            d = 3
            I = mk_idx(rng, n, 5)
        It = cover_idx(rng, n, 20)
        yt = rng.normal(size=len(It))
        if op == "als":
            kw = dict(nswp=2, e=None, info={}, lamb=[0.01, 0.3, 0.01, 2.0][v % 4])     # (the regularisation varies between neighbour variants)
            if v % 4 == 1:
                kw["w"] = rng.uniform(0.5, 2, size=len(It))
            if v % 4 == 2 and d >= 3:
                kw["r"] = 3
            if v % 4 == 3:
                kw.update(I_vld=I, y_vld=rng.normal(size=len(I)))
            if v % 8 == 5:
                It = cover_idx(rng, n, 60)
                yt = rng.normal(size=len(It))
                kw.update(lamb=None, w=rng.uniform(0.5, 2, size=len(It)))       # unregularised weighted least squares
            if v % 16 == 13:
                # unregularised, unweighted, training data listed in sorted order (full grid / sorted by a column): the samples
                # of a slice are then stored consecutively
                It = np.array(sorted(map(tuple, np.vstack([cover_idx(rng, n, 80)] * 1)), key=lambda t: t[::-1] if (v // 16) % 2 else t), dtype=int)
                yt = rng.normal(size=len(It))
                kw.update(lamb=None, w=None)
            if v % 16 == 9:
                # experimental mode-swapping option of the rank-adaptive method (documented arguments allow_swap / swap_tol)
                n = [5, 2, 4, 3]
                d = 4
                It = cover_idx(rng, n, 60)
                yt = rng.normal(size=len(It))
                Iv = mk_idx(rng, n, 8)
                kw = dict(nswp=2, e=None, info={}, lamb=0.01, r=3, allow_swap=True, I_vld=Iv, y_vld=rng.normal(size=len(Iv)))
                return C(op, teneva.als, [It, yt, mk_tt(rng, n, 2)], kw, mutable={"info"})
            args = [It if v % 2 else It.tolist(), yt if v % 2 else yt.tolist(), mk_tt(rng, n, 2)]
            return C(op, teneva.als, args, kw, mutable={"info"})
        if op == "anova":
            return C(op, teneva.anova, [It, yt], dict(r=2 + v % 2, order=1 + v % 2, noise=[1e-10, 0.0][v % 2], seed=int(seed % 1000)), seed_kw="seed")
        return C(op, lambda *a, **k: teneva.ANOVA(*a, **k).cores(2), [It, yt], dict(order=1 + v % 2, seed=int(seed % 1000)), seed_kw="seed")
    if op in ("als_func", "anova_func", "ANOVA_func", "sample_func", "optima_func_tt_beam"):
        dd = 2 + v % 2
        nn = 3 + v % 2
        X = rng.uniform(-1, 1, size=(15, dd))
        yv = np.cos(X.sum(axis=1))
        if op == "als_func":
            if v % 4 == 3:
                X = rng.uniform(-1, 1, size=(80, dd))
                yv = np.cos(X.sum(axis=1))
                return C(op, teneva.als_func, [X, yv, mk_tt(rng, [nn] * dd, 2)], dict(a=-1., b=1., nswp=2, e=None, info={}, lamb=None), mutable={"info"})
            return C(op, teneva.als_func, [X, yv, mk_tt(rng, [nn] * dd, 2)], dict(a=-1., b=1., nswp=2, e=None, info={}, lamb=[0.01, 0.3, 2.0][v % 3]), mutable={"info"})
        if op == "anova_func":
            return C(op, teneva.anova_func, [X, yv, nn], dict(a=-1., b=1., lamb=[1e-5, 1e-2, 1e-5, 0.5][v % 4], e=[1e-8, None][v % 2]))
        if op == "ANOVA_func":
            return C(op, lambda *a, **k: teneva.ANOVA_func(*a, **k).cores(), [X, yv, nn])
        A = mk_tt(rng, [nn] * dd, 2)
        if op == "sample_func":
            return C(op, teneva.sample_func, [A], dict(seed=int(seed % 1000)), seed_kw="seed")
        return C(op, teneva.optima_func_tt_beam, [mk_tt(rng, [nn] * dd, 1)], dict(k=1 + v % 4, ret_all=bool(v % 2)))
    if op in ("core_dot", "core_dot_inv", "core_dot_maxvol", "core_qr_rand", "core_stab"):
        r1, nn, r2 = int(rng.integers(1, 4)), int(rng.integers(2, 5)), int(rng.integers(1, 4))
        G = rng.normal(size=(r1, nn, r2))
        ltr = bool(v % 2)
        if op == "core_dot":
            R = rng.normal(size=(r2, r2 + 1)) if ltr else rng.normal(size=(r1 + 1, r1))
            return C(op, teneva.core_dot, [G, R, ltr])
        if op == "core_dot_inv":
            R = rng.normal(size=(r2, r2)) if ltr else rng.normal(size=(r1, r1))
            return C(op, teneva.core_dot_inv, [G, R + 3 * np.eye(len(R)), ltr])
        if op == "core_dot_maxvol":
            R = rng.normal(size=(r2, r2)) if ltr else rng.normal(size=(r1, r1))
            return C(op, teneva.core_dot_maxvol, [G, R], dict(ltr=ltr))
        if op == "core_qr_rand":
            return C(op, teneva.core_qr_rand, [G, 1 + v % 2, ltr], dict(seed=int(seed % 1000)), seed_kw="seed")
        if v % 3 == 2:
            G = G * 1e-120
        return C(op, teneva.core_stab, [G], dict(p0=v % 3), alias_ok=(v % 3 == 2))
    if op == "core_qtt_to_tt":
        q = 1 + v % 3
        r = [int(x) for x in rng.integers(1, 3, size=q + 1)]
        return C(op, teneva.core_qtt_to_tt, [[rng.normal(size=(r[k], 2, r[k + 1])) for k in range(q)]])
    if op == "core_tt_to_qtt":
        G = rng.normal(size=(int(rng.integers(1, 3)), 2 ** (1 + v % 3), int(rng.integers(1, 3))))
        return C(op, teneva.core_tt_to_qtt, [G], dict(e=[0., 1e-8][v % 2], r=[1e12, 2][v % 2]))
    if op in ("cross", "cache_to_data"):
        F = dense_of(mk_tt(rng, n, 2))
        cache = {} if (v % 2 or op == "cache_to_data") else None
        kw = dict(nswp=2, dr_min=v % 2, dr_max=1, info={}, cache=cache)
        if v % 4 >= 2:
            kw.update(I_vld=I, y_vld=F[tuple(I.T)])
        if op == "cross":
            return C(op, teneva.cross, [_f_lookup(F), mk_tt(rng, n, 2)], kw, mutable={"info", "cache"})
        teneva.cross(_f_lookup(F), mk_tt(rng, n, 2), **kw)
        return C(op, teneva.cache_to_data, [cache])
    if op == "cross_act":
        nn = [3] * (2 + v % 2)
        Xs = [mk_tt(rng, nn, 2), mk_tt(rng, nn, 2)]
        return C(op, teneva.cross_act, [lambda X: X[:, 0] + 2 * X[:, 1], Xs, mk_tt(rng, nn, 1)], dict(e=1e-6, nswp=2, dr=1, dr2=[0, 1, 2][v % 3], seed=int(seed % 1000)), seed_kw="seed")
    if op == "accuracy_on_data":
        return C(op, teneva.accuracy_on_data, [Y, [I, I.tolist()][v % 2], rng.normal(size=len(I))], dict(e_trunc=[None, 1e-6][v % 2]))
    if op == "func_basis":
        return C(op, teneva.func_basis, [rng.uniform(-1, 1, size=(6, 2)) if v % 2 else rng.uniform(-1, 1, size=6)], dict(m=1 + v % 5))
    if op == "func_diff_matrix":
        # the grid (a, b, n) comes from the builder seed, the derivative order and the kind from the variant
        return C(op, teneva.func_diff_matrix, [-1. - int(rng.integers(0, 3)) * 0.5, 2., 3 + int(rng.integers(0, 6))], dict(m=1 + v % 4, kind=['cheb', 'sin'][(v // 4) % 2]))
    if op == "func_diff_matrix_apply":
        A = mk_tt(rng, [4, 4], 2)
        D = teneva.func_diff_matrix(0., 1., 4, kind='sin')
        return C(op, teneva.func_diff_matrix_apply, [A, D], dict(kind='sin'))
    if op in ("func_get", "func_gets", "func_int", "func_sum", "func_int_general"):
        nn = [int(x) for x in rng.integers(2, 6, size=2 + v % 2)]
        A = mk_tt(rng, nn, 2)
        a = [-1. - 0.5 * k for k in range(len(nn))]
        b = [2. + k for k in range(len(nn))]
        if op == "func_get":
            X = np.array([rng.uniform(a[k] - 0.5, b[k] + 0.5, size=5) for k in range(len(nn))]).T
            if v % 3 == 0:
                return C(op, teneva.func_get, [X, A, a, b], dict(z=-7.))
            if v % 3 == 1:
                return C(op, teneva.func_get, [X[0], A, np.array(a), np.array(b)])
            return C(op, teneva.func_get, [X, A])
        if op == "func_gets":
            return C(op, teneva.func_gets, [A], dict(m=[None, 5, [3] * len(nn)][v % 3], kind=['cheb', 'sin'][(v // 3) % 2]))
        if op == "func_int":
            return C(op, teneva.func_int, [A], dict(kind=['cheb', 'sin'][v % 2]))
        if op == "func_sum":
            return C(op, teneva.func_sum, [A, a if v % 2 else -1., b if v % 2 else 1.], dict(kind=['cheb', 'sin'][(v // 2) % 2]))
        m = 4
        A = mk_tt(rng, [m] * 2, 2)
        Xn = np.cos(np.pi * (np.arange(m) + 0.5) / m)
        basis = lambda x: teneva.func_basis(np.asarray(x), m)
        return C(op, teneva.func_int_general, [A, Xn if v % 2 else np.array([Xn, Xn]), basis])
    if op in ("func_get_full", "func_gets_full", "func_int_full", "func_sum_full"):
        nn = [int(x) for x in rng.integers(2, 5, size=1 + v % 3)]
        A = rng.normal(size=nn)
        if op == "func_get_full":
            X = rng.uniform(-1.3, 1.3, size=(5, len(nn)))
            return C(op, teneva.func_get_full, [X, A, -1., 1.], dict(z=3.))
        if op == "func_gets_full":
            return C(op, teneva.func_gets_full, [A, -1., 1.], dict(m=[None, 4][v % 2]))
        if op == "func_int_full":
            return C(op, teneva.func_int_full, [A])
        return C(op, teneva.func_sum_full, [A, -2., 2.])
    if op == "grid_flat":
        return C(op, teneva.grid_flat, [[n, np.array(n), 5][v % 3]])
    if op == "grid_prep_opt":
        arg = [2.5, [1., 2., 3.], np.array([1., 2., 3.]), np.array([1, 2, 3])][v % 4]
        return C(op, teneva.grid_prep_opt, [arg], dict(d=3, kind=[float, int][v % 2], reps=[None, 2][(v // 4) % 2]), alias_ok=True)
    if op == "grid_prep_opts":
        return C(op, teneva.grid_prep_opts, [[-1., np.array([-1., -2., 0.])][v % 2], [1., 2., 3.], [4, np.array([4, 5, 6])][v % 2]], dict(d=3, reps=[None, 3][v % 2]), alias_ok=True)
    if op in ("ind_qtt_to_tt", "ind_tt_to_qtt"):
        q = 1 + v % 3
        dd = 1 + v % 2
        It = rng.integers(0, 2 ** q, size=(4, dd))
        if op == "ind_tt_to_qtt":
            return C(op, teneva.ind_tt_to_qtt, [[It, It.tolist(), It[0]][v % 3], 2 ** q])
        Iq = rng.integers(0, 2, size=(4, q * dd))
        return C(op, teneva.ind_qtt_to_tt, [[Iq, Iq.tolist(), Iq[0]][v % 3], q])
    if op in ("ind_to_poi", "poi_scale", "poi_to_ind"):
        a = [-1., 0.5, 2.][:d] + [0.] * max(0, d - 3)
        b = [1., 3.5, 2.5][:d] + [1.] * max(0, d - 3)
        kind = ['uni', 'cheb'][v % 2]
        if op == "ind_to_poi":
            return C(op, teneva.ind_to_poi, [[I, I.tolist(), I[0]][v % 3], a if v % 2 else np.array(a), b, n], dict(kind=kind))
        X = np.array([rng.uniform(a[k] - 0.2, b[k] + 0.2, size=5) for k in range(d)]).T
        if op == "poi_scale":
            return C(op, teneva.poi_scale, [[X, X.tolist(), X[0]][v % 3], a, np.array(b)], dict(kind=[kind, [-2., 5.]][(v // 2) % 2]))
        return C(op, teneva.poi_to_ind, [[X, X.tolist(), X[0]][v % 3], a, b, n if v % 2 else np.array(n)], dict(kind=kind))
    if op == "matrix_delta":
        q = 1 + v % 3
        return C(op, teneva.matrix_delta, [q, int(rng.integers(-2 ** q, 2 ** q)), int(rng.integers(-2 ** q, 2 ** q))], dict(v=2.5))
    if op == "vector_delta":
        q = 1 + v % 3
        return C(op, teneva.vector_delta, [q, int(rng.integers(-2 ** q, 2 ** q))], dict(v=-1.5))
    if op in ("maxvol", "maxvol_rect"):
        r = int(rng.integers(1, 4))
        A = rng.normal(size=(r + int(rng.integers(1, 6)), r))
        if op == "maxvol":
            return C(op, teneva.maxvol, [A], dict(e=1.05, k=[100, 1][v % 2]))
        return C(op, teneva.maxvol_rect, [A], dict(e=1.1, dr_min=v % 2, dr_max=[None, 1, 2][v % 3]))
    if op in ("optima_tt", "optima_tt_beam", "optima_tt_max", "optima_tt_maxvol"):
        if op == "optima_tt_maxvol":
            T = mk_tt(rng, [4] * (2 + v % 2), 2)
            return C(op, teneva.optima_tt_maxvol, [T], dict(k=2, how=['l2r', 'r2l', 'both', 'smart'][v % 4]))
        if op == "optima_tt_beam":
            return C(op, teneva.optima_tt_beam, [Y], dict(k=1 + v % 4, l2r=bool(v % 2), ret_all=bool((v // 2) % 2)))
        return C(op, getattr(teneva, op), [Y], dict(k=1 + v % 6))
    if op in ("erank", "ranks", "shape", "size", "show", "full"):
        return C(op, getattr(teneva, op), [Y])
    if op == "full_matrix":
        q = 1 + v % 3
        return C(op, teneva.full_matrix, [mk_tt(rng, [4] * q, 2) if q > 1 else [rng.normal(size=(1, 4, 1))]])
    if op in ("sample", "sample_square"):
        T = mk_tt(rng, n, 2, nonneg=(op == "sample"))
        if op == "sample":
            return C(op, teneva.sample, [T], dict(m=1 + v % 7, seed=int(seed % 1000)), seed_kw="seed")
        if v % 6 == 5:
            # sharply peaked rank-1 tensor and m close to the effective support: the first batch has too few distinct rows,
            # so the documented retry with a doubled m_fact is taken
            c = np.array([1., 0.3, 0.1, 0.03]).reshape(1, 4, 1)
            return C(op, teneva.sample_square, [[c.copy() for _ in range(4)]], dict(m=20, unique=True, seed=int(seed % 1000)), seed_kw="seed")
        if v % 6 == 4:
            # a mode of size 1 inside the train (rank > 1 on both sides)
            n1 = [3, 1, 4] if (v // 6) % 2 == 0 else [4, 3, 1, 2]
            return C(op, teneva.sample_square, [mk_tt(rng, n1, 2)], dict(m=2 + v % 5, unique=bool((v // 6) % 2), seed=int(seed % 1000)), seed_kw="seed")
        return C(op, teneva.sample_square, [T], dict(m=1 + v % 4, unique=bool(v % 2), seed=int(seed % 1000)), seed_kw="seed")
    if op in ("sample_lhs", "sample_rand", "sample_tt"):
        nn = [n, np.array(n)][v % 2]
        if op == "sample_tt":
            return C(op, teneva.sample_tt, [nn], dict(r=1 + v % 2, seed=int(seed % 1000)), seed_kw="seed")
        return C(op, getattr(teneva, op), [nn, 1 + v % 9], dict(seed=int(seed % 1000)), seed_kw="seed")
    if op == "sample_rand_poi":
        return C(op, teneva.sample_rand_poi, [[-1., 0.][:2], np.array([1., 3.]), 4 + v % 3], dict(seed=int(seed % 1000)), seed_kw="seed")
    if op == "cdf_confidence":
        return C(op, teneva.cdf_confidence, [rng.uniform(0, 1, size=7)], dict(alpha=0.05))
    if op == "cdf_getter":
        x = rng.normal(size=8)
        def run(x_):
            cdf = teneva.cdf_getter(x_)
            return cdf(np.array([-0.3, 0.1, 5.0])), cdf(0.2)
        return C(op, run, [[x, x.tolist()][v % 2]])
    if op in ("matrix_skeleton", "matrix_svd"):
        A = rng.normal(size=(int(rng.integers(1, 7)), int(rng.integers(1, 7))))
        if v % 6 == 4:
            # exactly-zero matrix (wide or square first, tall for the next variant round): zero singular values survive the rank cut
            a_, b_ = sorted(A.shape)
            A = np.zeros((a_, b_) if (v // 6) % 2 == 0 else (b_, a_))
        elif v % 6 == 5:
            A = np.outer(A[:, 0], np.ones(A.shape[1]))  # rank one with exactly repeated columns
        elif v % 6 == 3 and (v // 6) % 2 == 1:
            # columns of wildly different magnitude (1e120 next to 1e-200): any transient in-place rescaling of the argument loses the small ones
            A = A * np.array([1e120, 1e-200, 1.0, 1e-250, 1e60, 1e-120])[:A.shape[1]][None, :]
        if v % 6 == 2:
            A = rng.normal(size=(20, 26) if (v // 6) % 2 == 0 else (33, 17))      # a rank cap far below the size of the matrix
            if op == "matrix_svd":
                return C(op, teneva.matrix_svd, [A], dict(e=1e-10, r=2))
            return C(op, teneva.matrix_skeleton, [A], dict(e=1e-10, r=2, rel=bool((v // 6) % 2), give_to="lrm"[(v // 12) % 3]))
        if op == "matrix_svd":
            return C(op, teneva.matrix_svd, [A], dict(e=[1e-10, 0.5][v % 2], r=[1e12, 2][(v // 2) % 2]))
        if v % 5 == 4:
            A = A[:min(A.shape), :min(A.shape)]
            A = A + A.T
            return C(op, teneva.matrix_skeleton, [A], dict(e=1e-10, hermitian=True))
        return C(op, teneva.matrix_skeleton, [A], dict(e=[1e-10, 0.5][v % 2], r=[1e12, 2][(v // 2) % 2], rel=bool(v % 2), give_to=['m', 'l', 'r'][v % 3]))
    if op == "svd":
        return C(op, teneva.svd, [dense_of(Y)], dict(e=[1e-10, 0.3][v % 2], r=[1e12, 2][(v // 2) % 2]))
    if op == "svd_matrix":
        q = 1 + v % 3
        return C(op, teneva.svd_matrix, [rng.normal(size=(2 ** q, 2 ** q))], dict(e=1e-8))
    if op == "svd_incomplete":
        nn = [4, 5, 4][:2 + v % 2]
        T = mk_tt(rng, nn, 2)
        Is, idx, idx_many = teneva.sample_tt(nn, 2, seed=int(seed % 1000))
        return C(op, teneva.svd_incomplete, [Is, dense_of(T)[tuple(Is.T)], idx, idx_many], dict(e=1e-10, r=3))
    if op == "const":
        kw = {}
        if v % 3 >= 1:
            kw["I_zero"] = [I[:3], I[:3].tolist()][v % 2]
        if v % 3 == 2:
            inz = [int(x) for x in I[4]]
            if any(list(map(int, row)) == inz for row in I[:3]):
                inz = None
            kw["i_non_zero"] = inz
        return C(op, teneva.const, [[n, np.array(n)][v % 2]], dict(v=[2.5, -1., 0.][v % 3], **kw))
    if op == "delta":
        return C(op, teneva.delta, [[n, np.array(n)][v % 2], [I[0], list(map(int, I[0]))][v % 2]], dict(v=-3.))
    if op == "poly":
        return C(op, teneva.poly, [[n, np.array(n)][v % 2]], dict(shift=[0.5, np.arange(d) * 0.5, list(np.arange(d) * 1.0)][v % 3], power=1 + v % 3, scale=2.))
    if op in ("rand", "rand_norm", "rand_stab"):
        r = [2, [1] + [2] * (d - 1) + [1], np.array([1] + [3] * (d - 1) + [1])][v % 3]
        kw = {"rand": dict(a=-2., b=3.), "rand_norm": dict(m=1., s=2.), "rand_stab": dict(noise=1e-6)}[op]
        return C(op, getattr(teneva, op), [[n, np.array(n)][v % 2], r], dict(seed=int(seed % 1000), **kw), seed_kw="seed")
    if op == "rand_custom":
        g = np.random.default_rng(seed + 1)
        return C(op, teneva.rand_custom, [n, [2, [1] + [2] * (d - 1) + [1]][v % 2], lambda size: g.normal(size=size)])
    if op in ("orthogonalize", "truncate"):
        if op == "orthogonalize":
            return C(op, teneva.orthogonalize, [Y], dict(k=[None, 0, d - 1, d // 2][v % 4], use_stab=bool(v % 2)))
        if v % 8 == 5:
            # large modes and ranks with a small cap (the unfoldings are much larger than the cap), SVD mode
            Yb = mk_tt(rng, [18, 17, 16], 16)
            return C(op, teneva.truncate, [Yb], dict(e=1e-10, r=2, is_eigh=False))
        if v % 8 == 3:
            # tolerance and cap handed over as 0-d / one-element arrays (a value taken from an option array): arguments like any other
            # (bond spectra decaying by factors of two, so that any change of the effective tolerance by a factor of two changes a rank)
            Yd = mk_tt(rng, [4, 5, 4, 4], r=[1, 4, 6, 4, 1])
            Yd = [G * (2.0 ** -np.arange(G.shape[2]))[None, None, :] for G in Yd]
            return C(op, teneva.truncate, [Yd], dict(e=[np.array(0.02), np.array([0.1])[0:1].reshape(())][(v // 8) % 2], r=[np.array(5), 1e12][(v // 16) % 2], use_stab=bool((v // 4) % 2)))
        return C(op, teneva.truncate, [Y], dict(e=[1e-10, 0.3][v % 2], r=[1e12, 2][(v // 2) % 2], orth=(v % 5 != 4), use_stab=bool((v // 4) % 2), is_eigh=bool((v // 8) % 2)))
    if op in ("orthogonalize_left", "orthogonalize_right"):
        i = int(rng.integers(0, d - 1)) + (op == "orthogonalize_right")
        inplace = bool(v % 2)
        return C(op, getattr(teneva, op), [Y, i], dict(inplace=inplace), mutable={0} if inplace else (), alias_ok=inplace)
    raise KeyError(op)


OPS = ["add_many", "outer_many", "copy", "interface", "get", "get_and_grad", "get_many", "getter", "mean", "norm", "qtt_to_tt", "sum",
       "tt_to_qtt", "accuracy", "add", "mul", "mul_scalar", "outer", "sub", "als", "als_func", "ANOVA", "anova", "ANOVA_func", "anova_func",
       "core_dot", "core_dot_inv", "core_dot_maxvol", "core_qr_rand", "core_qtt_to_tt", "core_stab", "core_tt_to_qtt", "cross", "cross_act",
       "accuracy_on_data", "cache_to_data", "func_basis", "func_diff_matrix", "func_diff_matrix_apply", "func_get", "func_gets", "func_int",
       "func_int_general", "func_sum", "func_get_full", "func_gets_full", "func_int_full", "func_sum_full", "grid_flat", "grid_prep_opt",
       "grid_prep_opts", "ind_qtt_to_tt", "ind_to_poi", "ind_tt_to_qtt", "poi_scale", "poi_to_ind", "matrix_delta", "maxvol", "maxvol_rect",
       "optima_qtt", "optima_tt", "optima_tt_beam", "optima_tt_max", "optima_tt_maxvol", "optima_func_tt_beam", "erank", "ranks", "shape",
       "size", "sample", "sample_square", "sample_lhs", "sample_rand", "sample_rand_poi", "sample_tt", "sample_func", "cdf_confidence",
       "cdf_getter", "matrix_skeleton", "matrix_svd", "svd", "svd_matrix", "svd_incomplete", "const", "delta", "poly", "rand", "rand_custom",
       "rand_norm", "rand_stab", "full", "full_matrix", "orthogonalize", "orthogonalize_left", "orthogonalize_right", "truncate",
       "vector_delta", "show"]


def exported_names():
    """Public names of the package as imported by teneva/__init__.py (no leading underscore, callables only)."""
    out = []
    for name in dir(teneva):
        if name.startswith("_"):
            continue
        obj = getattr(teneva, name)
        if callable(obj) and getattr(obj, "__module__", "").startswith("teneva"):
            out.append(name)
    return sorted(out)
