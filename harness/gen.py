"""Hypothesis strategies shared by the property modules.

A TT-tensor is described by a small JSON *spec* and materialised by `build_tt(spec)`:

    {"n": [3,1,4], "r": [1,2,5,1], "fam": "float", "seed": 123, ...}            bulk values from default_rng(seed)
    {"n": [2,2],   "r": [1,2,1],   "fam": "explicit", "cores": [[...], [...]]}    every entry drawn by Hypothesis

Hypothesis draws every field (including `seed`), so the whole case shrinks and replays; our own
RNG use is confined to `default_rng(spec["seed"])`, a pure function of the drawn integer.

Value families
    smallint        integers in -3..3 (all sums of products exact in binary64 -> bit-for-bit oracles)
    dyadic          k/8, k in -16..16 (exact for short products)
    float           uniform in [-4, 4]
    gauss           standard normal
    scaled          gauss cores, core k multiplied by 2**s_k, s_k in -30..30
    rank_deficient  gauss with a duplicated / zeroed fibre in one core
    zero            one core all zeros
    explicit        entries drawn one by one (small tensors only)
Rank profile families: rank1, uniform, ragged, over_ranked (some rank larger than a core can carry).
"""
import numpy as np
from hypothesis import strategies as st

FAMILIES = ("smallint", "dyadic", "float", "gauss", "scaled", "rank_deficient", "zero", "explicit")
RANK_FAMILIES = ("rank1", "uniform", "ragged", "over_ranked")

seeds = st.integers(0, 2**31 - 1)


def _flush(x, lo=2.0 ** -20):
    return 0.0 if abs(x) < lo else x


def reals(lo, hi):
    """Finite floats in [lo, hi] without the underflow regime (|x| >= 2**-20 or x == 0): the properties speak
    about the rounding of sums of products, not about gradual underflow."""
    return st.floats(lo, hi, allow_nan=False, allow_infinity=False, allow_subnormal=False).map(_flush)


def _cap_shape(n, size_max):
    n = list(n)
    while int(np.prod(n, dtype=object)) > size_max:
        k = int(np.argmax(n))
        n[k] -= 1
    return n


@st.composite
def shapes(draw, d_min=2, d_max=6, n_min=1, n_max=5, size_max=4096, force_one=None):
    d = draw(st.integers(d_min, d_max))
    n = [draw(st.integers(n_min, n_max)) for _ in range(d)]
    fo = draw(st.integers(0, 3)) == 0 if force_one is None else force_one
    if fo and n_min <= 1:
        n[draw(st.integers(0, d - 1))] = 1
    return _cap_shape(n, size_max)


@st.composite
def rank_profiles(draw, n, r_max=6, families=RANK_FAMILIES, entries_max=2500):
    d = len(n)
    fam = draw(st.sampled_from(list(families)))
    if fam == "rank1":
        r = [1] * (d + 1)
    elif fam == "uniform":
        q = draw(st.integers(1, r_max))
        r = [1] + [q] * (d - 1) + [1]
    elif fam == "ragged":
        r = [1] + [draw(st.integers(1, r_max)) for _ in range(d - 1)] + [1]
    else:  # over_ranked: at least one bond exceeds what a neighbour core can carry
        r = [1] + [draw(st.integers(1, r_max)) for _ in range(d - 1)] + [1]
        k = draw(st.integers(1, d - 1))
        lim = min(r[k - 1] * n[k - 1], n[k] * r[k + 1])
        r[k] = min(r_max + 2, lim + draw(st.integers(1, 2)))
    # keep the number of core entries bounded (construction, not rejection)
    while sum(r[k] * n[k] * r[k + 1] for k in range(d)) > entries_max:
        k = int(np.argmax(r[1:-1])) + 1
        if r[k] == 1:
            break
        r[k] -= 1
    return fam, r


@st.composite
def tt_specs(draw, d_min=2, d_max=6, n_min=1, n_max=5, r_max=6, size_max=4096,
             families=FAMILIES, rank_families=RANK_FAMILIES, shape=None, entries_max=2500, int_storage=False, int_mixed=False):
    n = list(shape) if shape is not None else draw(shapes(d_min, d_max, n_min, n_max, size_max))
    rfam, r = draw(rank_profiles(n, r_max, rank_families, entries_max))
    fam = draw(st.sampled_from(list(families)))
    d = len(n)
    spec = {"n": n, "r": r, "fam": fam, "rfam": rfam}
    lay = draw(st.sampled_from(["C", "C", "C", "F", "N"]))
    if lay != "C":
        spec["layout"] = lay          # memory layout of the cores: Fortran-ordered or non-contiguous strided views
    entries = sum(r[k] * n[k] * r[k + 1] for k in range(d))
    if fam == "explicit":
        if entries > 40:
            fam = spec["fam"] = "float"
        else:
            val = st.one_of(st.integers(-3, 3).map(float),
                            reals(-4, 4))
            spec["cores"] = [[draw(val) for _ in range(r[k] * n[k] * r[k + 1])] for k in range(d)]
            return spec
    spec["seed"] = draw(seeds)
    if int_storage and fam == "smallint":
        # small-integer cores kept in integer arrays (all cores, or every other one): the same denoted tensor, another storage type
        store = draw(st.sampled_from(["float64", "int64", "int32", "mixed", "int64"]))
        if store != "float64":
            spec["store"] = store
    if int_mixed and fam in ("float", "gauss", "dyadic") and draw(st.integers(0, 3)) == 0:
        # some cores hold small integers and are kept in integer arrays, their neighbours are ordinary float cores
        # (what scaling a hand-written integer tensor by a number, or mixing tables with fitted factors, produces)
        spec["int_at"] = sorted(set(draw(st.lists(st.integers(0, d - 1), min_size=1, max_size=d))))
        spec["int_dtype"] = draw(st.sampled_from(["int64", "int32"]))
    if fam == "scaled":
        spec["exp"] = [draw(st.integers(-30, 30)) for _ in range(d)]
    if fam in ("rank_deficient", "zero"):
        spec["k"] = draw(st.integers(0, d - 1))
        spec["mode"] = draw(st.integers(0, 3))
    return spec


def relayout(x, layout):
    """Same values, different memory layout: C, F (Fortran) or N (non-contiguous strided view)."""
    if layout == "F":
        return np.asfortranarray(x).copy(order="F")
    if layout == "N":
        big = np.zeros(x.shape[:-1] + (2 * x.shape[-1],), dtype=x.dtype)
        v = big[..., ::2]
        v[...] = x
        return v
    return x


def build_tt(spec, as_float=False):
    """as_float=True: the float64 copy of a tensor whose spec asks for integer storage (the reference side of an oracle)"""
    Y = _build_tt(spec)
    store = spec.get("store")
    if store and not as_float:
        Y = [G.astype(np.int64 if store == "mixed" else store) if (store != "mixed" or k % 2 == 0) else G for k, G in enumerate(Y)]
    if spec.get("int_at") and not as_float:
        Y = [G.astype(spec["int_dtype"]) if k in spec["int_at"] else G for k, G in enumerate(Y)]
    lay = spec.get("layout", "C")
    return [relayout(G, lay) for G in Y] if lay != "C" else Y


def _build_tt(spec):
    n, r, fam = spec["n"], spec["r"], spec["fam"]
    d = len(n)
    if fam == "explicit":
        return [np.array(spec["cores"][k], dtype=float).reshape(r[k], n[k], r[k + 1]) for k in range(d)]
    rng = np.random.default_rng(spec["seed"])
    Y = []
    for k in range(d):
        sh = (r[k], n[k], r[k + 1])
        if fam == "smallint" or k in spec.get("int_at", ()):
            G = rng.integers(-3, 4, size=sh).astype(float)
        elif fam == "dyadic":
            G = rng.integers(-16, 17, size=sh) / 8.0
        elif fam == "float":
            G = rng.uniform(-4, 4, size=sh)
        else:
            G = rng.normal(size=sh)
        if fam == "scaled":
            G = G * 2.0 ** spec["exp"][k]
        Y.append(G)
    if fam == "rank_deficient":
        k, mode = spec["k"], spec["mode"]
        G = Y[k]
        if mode == 0 and G.shape[2] >= 2:
            G[:, :, -1] = G[:, :, 0]            # duplicated right fibre
        elif mode == 1 and G.shape[0] >= 2:
            G[-1, :, :] = 2 * G[0, :, :]        # proportional left fibre
        elif mode == 2 and G.shape[2] >= 2:
            G[:, :, -1] = 0.0                   # zero column
        else:
            G[:, 0, :] = 0.0                    # zero slice
    if fam == "zero":
        Y[spec["k"]][...] = 0.0
    return Y


def is_degenerate_value_family(spec):
    return spec["fam"] in ("rank_deficient", "zero")


@st.composite
def indices(draw, n, m_max=8):
    """A batch of multi-indices for shape n as a list of lists."""
    m = draw(st.integers(1, m_max))
    return [[draw(st.integers(0, k - 1)) for k in n] for _ in range(m)]


@st.composite
def multi_index(draw, n):
    return [draw(st.integers(0, k - 1)) for k in n]


numbers = st.one_of(st.integers(-5, 5), st.sampled_from([0, 1, -1, 0.0, 2.5, -0.375, 1e-3, 1e3, -7.0]),
                    st.sampled_from([1e-17, -1e-17, 1e-16, -1.0000001e-16, 3e-16, 1e-30, -1e-30]),
                    reals(-10, 10))


def spec_labels(spec):
    n, r = spec["n"], spec["r"]
    d = len(n)
    labs = ["fam:" + spec["fam"], "rfam:" + spec.get("rfam", "?"), "layout:" + spec.get("layout", "C")]
    if d == 2:
        labs.append("d==2")
    if 1 in n:
        labs.append("has_mode_1")
    if max(r) >= 2:
        labs.append("rank>=2")
    for k in range(1, d):
        if r[k] > min(r[k - 1] * n[k - 1], n[k] * r[k + 1]):
            labs.append("over_ranked")
            break
    return labs
