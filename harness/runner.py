"""Runner: tiers, sharding over processes, seeds, shrinking, replay files, evidence, exit codes.

    python -m harness.runner <ID> quick|thorough [--only sub1,sub2] [--shards N]
    python -m harness.runner <ID> --replay <file>

exit 0  property held on everything explored (KNOWN-FINDING lines may be printed)
exit 1  at least one `VIOLATION property=<ID> replay=<path>` line was printed
exit 2  harness error / inconclusive (never a VIOLATION)
"""
import os
import sys
import json
import time
import glob
import hashlib
import importlib
import traceback
import warnings
import multiprocessing as mp

from harness.core import (VERIF, REPO, OracleFailure, KnownFinding, Ctx, Sub, digest, jsonable,
                          load_known_findings)

NPROC = int(os.environ.get("VERIF_NPROC", "16"))


def prop_module(pid):
    names = [os.path.basename(p)[:-3] for p in glob.glob(os.path.join(VERIF, "props", pid.lower() + "_*.py"))]
    if len(names) != 1:
        raise SystemExit(f"harness: no unique module for {pid}: {names}")
    return importlib.import_module("props." + names[0])


def hseed(seed, pid, sub, shard):
    h = hashlib.sha256(f"{seed}|{pid}|{sub}|{shard}".encode()).digest()
    return int.from_bytes(h[:8], "big")


def shorten(x, limit=24):
    if isinstance(x, dict):
        return {k: shorten(v, limit) for k, v in x.items()}
    if isinstance(x, list):
        if len(x) > limit:
            return [shorten(v, limit) for v in x[:limit]] + [f"...(+{len(x) - limit} more)"]
        return [shorten(v, limit) for v in x]
    return x


class ShardStats:
    """Executes cases of one sub-check inside one process and accumulates what evidence needs."""

    def __init__(self, pid, sub, tier, open_known):
        self.pid, self.sub, self.tier = pid, sub, tier
        self.open_known = open_known            # slug -> text for this property
        self.evaluations = 0
        self.nt_digests = set()
        self.classes = {}
        self.samples = []
        self.excluded_known = {}
        self.best = None                        # (case, message, kind, digest)
        self.first_fail_t = None
        self.cap = sub.shrink_cap_s if sub.shrink_cap_s is not None else (25.0 if tier == "quick" else 240.0)
        self.t0 = time.time()

    def run_case(self, case):
        dg = digest(case)
        if self.first_fail_t is not None and time.time() - self.first_fail_t > self.cap:
            # shrink budget used up: only the current best reproduces, everything else passes untested
            if self.best is not None and dg == self.best[3]:
                raise OracleFailure(self.best[1])
            return
        ctx = Ctx()
        try:
            self.sub.prop(case, ctx)
        except KnownFinding as kf:
            self.evaluations += 1 + ctx.extra_evals
            if kf.slug in self.open_known:
                self.excluded_known[kf.slug] = self.excluded_known.get(kf.slug, 0) + 1
                return
            self._fail(case, f"finding '{kf.slug}' is not listed as open in KNOWN_FINDINGS.txt: {kf.what}", "violation", dg)
            raise OracleFailure("unlisted finding " + kf.slug)
        except OracleFailure as e:
            self.evaluations += 1 + ctx.extra_evals
            self._fail(case, str(e), "violation", dg)
            raise
        except Exception as e:  # noqa: BLE001 - a bug in the harness, reported as such (exit 2)
            self.evaluations += 1
            self._fail(case, "HARNESS " + "".join(traceback.format_exception(type(e), e, e.__traceback__))[-3000:], "harness", dg)
            raise
        self.evaluations += 1 + ctx.extra_evals
        for lab in ctx.labels:
            self.classes[lab] = self.classes.get(lab, 0) + 1
        if ctx.nt:
            self.nt_digests.add(dg)
            self.classes["nontrivial"] = self.classes.get("nontrivial", 0) + 1
            if len(self.samples) < 2:
                self.samples.append(shorten(jsonable(case)))
        for key in ctx.extra_nt:
            self.nt_digests.add(dg + ":" + key)

    def _fail(self, case, message, kind, dg):
        if self.first_fail_t is None:
            self.first_fail_t = time.time()
        self.best = (jsonable(case), message, kind, dg)

    def result(self, error=None):
        return {
            "sub": self.sub.name, "evaluations": self.evaluations, "nt": sorted(self.nt_digests),
            "classes": self.classes, "samples": self.samples, "excluded_known": self.excluded_known,
            "best": self.best, "error": error, "wall_s": time.time() - self.t0,
        }


def run_shard(args):
    pid, sub_name, tier, seed, shard, nshards = args
    warnings.simplefilter("ignore")
    import numpy as np
    np.seterr(all="ignore")
    mod = prop_module(pid)
    sub = [s for s in mod.SUBCHECKS if s.name == sub_name][0]
    open_known = load_known_findings().get(pid, {})
    stats = ShardStats(pid, sub, tier, open_known)
    error = None
    try:
        if sub.enumerate is not None:
            for case in sub.enumerate(tier, shard, nshards):
                try:
                    stats.run_case(case)
                except OracleFailure:
                    break
        elif sub.custom is not None:
            try:
                sub.custom(tier, hseed(seed, pid, sub_name, shard), shard, nshards, stats)
            except OracleFailure:
                pass
        else:
            import hypothesis
            from hypothesis import given, settings, HealthCheck, Phase
            n = sub.quick if tier == "quick" else sub.thorough
            n = max(1, n)

            @hypothesis.seed(hseed(seed, pid, sub_name, shard))
            @settings(max_examples=n, database=None, deadline=None, derandomize=False,
                      report_multiple_bugs=False, suppress_health_check=list(HealthCheck),
                      phases=[Phase.generate, Phase.shrink], print_blob=False)
            @given(sub.strategy(tier))
            def test(case):
                stats.run_case(case)

            try:
                test()
            except OracleFailure:
                pass
            except Exception as e:  # noqa: BLE001
                if stats.best is None:
                    error = "".join(traceback.format_exception(type(e), e, e.__traceback__))[-3000:]
    except Exception as e:  # noqa: BLE001
        if stats.best is None:
            error = "".join(traceback.format_exception(type(e), e, e.__traceback__))[-3000:]
    return stats.result(error)


SCRATCH = os.path.realpath(REPO) != "/repo"      # a mutation run against a scratch copy: keep outputs apart


def save_failure(pid, sub, case, message, seed, tier):
    d = os.path.join(VERIF, "failures", "_scratch" if SCRATCH else "", pid)
    os.makedirs(d, exist_ok=True)
    path = os.path.join(d, f"{sub}-{digest(case)[:8]}.json")
    with open(path, "w") as f:
        json.dump({"property": pid, "sub": sub, "case": case, "message": message[:4000],
                   "seed": seed, "tier": tier}, f, indent=1, sort_keys=True)
    return path


def replay_file(pid, path, mod=None):
    """Run one saved case directly through its property function. Returns (ok, message)."""
    mod = mod or prop_module(pid)
    rec = json.load(open(path))
    subs = [s for s in mod.SUBCHECKS if s.name == rec["sub"]]
    if not subs:
        return None, f"unknown sub-check {rec['sub']}"
    open_known = load_known_findings().get(pid, {})
    ctx = Ctx()
    try:
        subs[0].prop(rec["case"], ctx)
    except KnownFinding as kf:
        if kf.slug in open_known:
            return True, f"known finding {kf.slug}"
        return False, f"unlisted finding {kf.slug}: {kf.what}"
    except OracleFailure as e:
        return False, str(e)
    return True, "ok"


def _replay_task(args):
    pid, path = args
    try:
        ok, msg = replay_file(pid, path)
        return path, ok, msg
    except Exception as e:  # noqa: BLE001
        return path, "error", "".join(traceback.format_exception(type(e), e, e.__traceback__))[-2000:]


def _child_main(fn, task, conn):
    try:
        conn.send(fn(task))
    finally:
        conn.close()


def run_in_children(fn, tasks, on_death):
    """Run fn(task) for every task, each in its own forked process, at most NPROC at a time.  A child that dies without an
    answer (killed by the kernel for memory, a crash of the interpreter) yields on_death(task, reason) instead of a hang:
    multiprocessing.Pool never notices a lost worker."""
    from multiprocessing.connection import wait
    ctx = mp.get_context("fork")
    pending = list(tasks)
    running = {}
    out = []
    while pending or running:
        while pending and len(running) < NPROC:
            t = pending.pop(0)
            rd, wr = ctx.Pipe(duplex=False)
            pr = ctx.Process(target=_child_main, args=(fn, t, wr))
            pr.start()
            wr.close()
            running[pr] = (t, rd)
        wait([c for (_, c) in running.values()] + [pr.sentinel for pr in running], timeout=5.0)
        for pr in list(running):
            t, rd = running[pr]
            got = None
            if rd.poll():
                try:
                    got = ("ok", rd.recv())
                except (EOFError, OSError) as e:
                    got = ("dead", f"no answer ({type(e).__name__})")
            elif not pr.is_alive():
                got = ("dead", f"process ended with exit code {pr.exitcode} without an answer")
            if got is None:
                continue
            pr.join()
            rd.close()
            del running[pr]
            out.append(got[1] if got[0] == "ok" else on_death(t, got[1]))
    return out


def validate_evidence(ev):
    schema_path = "/root/.vp/EVIDENCE.schema.json"
    try:
        import jsonschema
        if os.path.exists(schema_path):
            jsonschema.validate(ev, json.load(open(schema_path)))
            return "jsonschema"
    except ImportError:
        pass
    for k in ("property_id", "tier", "seed", "level", "coverage", "wall_s"):
        assert k in ev, k
    cov = ev["coverage"]
    assert isinstance(cov["evaluations"], int) and cov["evaluations"] >= 1
    assert isinstance(cov["distinct_nontrivial"], int) and cov["distinct_nontrivial"] >= 2
    assert isinstance(cov["rule"], str) and isinstance(cov["samples"], list) and cov["samples"]
    return "builtin"


def main(argv):
    if len(argv) < 2:
        print(__doc__)
        return 2
    pid = argv[0].upper()
    warnings.simplefilter("ignore")
    mod = prop_module(pid)

    if argv[1] == "--replay":
        ok, msg = replay_file(pid, argv[2], mod)
        if ok is None:
            print("harness:", msg)
            return 2
        if ok:
            print(f"replay ok: {argv[2]} ({msg})")
            return 0
        print(f"replay fails: {msg}")
        print(f"VIOLATION property={pid} replay={argv[2]}")
        return 1

    tier = argv[1]
    if tier not in ("quick", "thorough"):
        print("harness: tier must be quick or thorough")
        return 2
    only = None
    nshards_override = None
    for i, a in enumerate(argv):
        if a == "--only":
            only = set(argv[i + 1].split(","))
        if a == "--shards":
            nshards_override = int(argv[i + 1])
    seed = int(os.environ.get("VERIF_SEED", "1"))
    t0 = time.time()
    known = load_known_findings().get(pid, {})

    violations = []      # (sub, path, message)
    harness_errors = []
    evaluations = 0
    nt = set()
    classes = {}
    samples = []
    subinfo = {}
    excluded_known = {}

    # 1. committed regression corpus (seconds-long replay tier)
    replays = sorted(glob.glob(os.path.join(VERIF, "replays", pid, "*.json")))
    n_replay_ok = 0
    # (each replay runs in its own forked child: the runner process itself never calls the library, so that the shard processes
    #  forked from it start from a state no library call has touched - module-level caches would otherwise be inherited)
    if replays:
        replay_results = run_in_children(_replay_task, [(pid, path) for path in replays],
                                         lambda t, why: (t[1], "error", f"replay process: {why}"))
    else:
        replay_results = []
    for path, ok, msg in replay_results:
        if ok == "error":
            harness_errors.append(("replay", path, msg))
            continue
        evaluations += 1
        if ok is None:
            harness_errors.append(("replay", path, msg))
        elif ok:
            n_replay_ok += 1
        else:
            violations.append(("replay", os.path.relpath(path, VERIF), msg))

    # 2. generated search
    subs = [s for s in mod.SUBCHECKS if only is None or s.name in only]
    tasks = []
    for s in subs:
        ns = nshards_override or s.shards
        for sh in range(ns):
            tasks.append((pid, s.name, tier, seed, sh, ns))
    results = []
    if tasks:
        results = run_in_children(run_shard, tasks, lambda t, why: {
            "sub": t[1], "evaluations": 0, "nt": [], "classes": {}, "samples": [], "excluded_known": {}, "best": None,
            "error": f"shard {t[4]}/{t[5]} of {t[1]}: {why}", "wall_s": 0.0})

    per_sub_fail = {}
    for r in results:
        si = subinfo.setdefault(r["sub"], {"evaluations": 0, "distinct_nontrivial": 0, "wall_s": 0.0, "shards": 0})
        si["evaluations"] += r["evaluations"]
        si["wall_s"] = round(max(si["wall_s"], r["wall_s"]), 2)
        si["shards"] += 1
        evaluations += r["evaluations"]
        for dg in r["nt"]:
            nt.add(r["sub"] + ":" + dg)
        for k, v in r["classes"].items():
            key = r["sub"] + "/" + k
            classes[key] = classes.get(key, 0) + v
        for k, v in r["excluded_known"].items():
            excluded_known[k] = excluded_known.get(k, 0) + v
        if r["error"]:
            harness_errors.append((r["sub"], None, r["error"]))
        if r["best"] is not None:
            case, message, kind, _ = r["best"]
            cur = per_sub_fail.get(r["sub"])
            size = len(json.dumps(case))
            if cur is None or (kind == "violation" and cur[2] != "violation") or (kind == cur[2] and size < cur[3]):
                per_sub_fail[r["sub"]] = (case, message, kind, size)
    for sname in subinfo:
        subinfo[sname]["distinct_nontrivial"] = len([1 for x in nt if x.startswith(sname + ":")])
    for s in subs:
        got = [r for r in results if r["sub"] == s.name]
        for r in got[:2]:
            for smp in r["samples"][:1]:
                if len(samples) < 12:
                    samples.append({"sub": s.name, "case": smp})
    for sname, (case, message, kind, _) in sorted(per_sub_fail.items()):
        path = save_failure(pid, sname, case, message, seed, tier)
        if kind == "violation":
            violations.append((sname, os.path.relpath(path, VERIF), message))
        else:
            harness_errors.append((sname, os.path.relpath(path, VERIF), message))

    wall = time.time() - t0

    # 3. report
    for sname in [s.name for s in subs]:
        si = subinfo.get(sname, {})
        status = "FAIL" if any(v[0] == sname for v in violations) else ("ERROR" if any(h[0] == sname for h in harness_errors) else "ok")
        print(f"  {pid}/{sname:<28} evals={si.get('evaluations', 0):<8} nontrivial={si.get('distinct_nontrivial', 0):<7} wall={si.get('wall_s', 0):<7} {status}")
    for slug, text in sorted(known.items()):
        print(f"KNOWN-FINDING: property={pid} {slug}: {text} (excluded in this run: {excluded_known.get(slug, 0)})")
    for sname, path, message in violations:
        print(f"  violation in {sname}: {message[:1200]}")
        print(f"VIOLATION property={pid} replay={path}")
    for sname, path, message in harness_errors:
        print(f"HARNESS-ERROR {pid}/{sname} case={path}\n{message[:3000]}", file=sys.stderr)

    if not samples:
        samples = [{"note": "no non-trivial case was produced in this run"}]
    level = getattr(mod, "LEVEL", "exploration")
    exhaustive_subs = sorted(s.name for s in subs if s.exhaustive)
    ev = {
        "property_id": pid, "tier": tier, "seed": seed, "level": level,
        "coverage": {
            "evaluations": int(evaluations),
            "distinct_nontrivial": int(len(nt)),
            "rule": getattr(mod, "RULE", ""),
            "samples": samples,
            "classes": classes,
            "subchecks": subinfo,
            "excluded_known": excluded_known,
            "replays_passed": n_replay_ok,
            "exhaustive_subchecks": exhaustive_subs,
            "tolerances": getattr(mod, "TOLERANCES", ""),
            "repo": REPO,
        },
        "assumptions": list(getattr(mod, "ASSUMPTIONS", [])),
        "wall_s": round(wall, 2),
        "violations": len(violations),
    }
    if getattr(mod, "EXHAUSTIVE", False) and only is None:
        ev["coverage"]["exhaustive"] = True
    ev = jsonable(ev)
    os.makedirs(os.path.join(VERIF, "evidence"), exist_ok=True)
    evpath = os.path.join(VERIF, "evidence", pid + ".json")
    if SCRATCH:
        os.makedirs(os.path.join(VERIF, "failures", "_scratch"), exist_ok=True)
        evpath = os.path.join(VERIF, "failures", "_scratch", pid + ".evidence.json")
    evidence_problem = None
    try:
        validate_evidence(ev)
    except Exception as e:  # noqa: BLE001
        evidence_problem = f"{type(e).__name__}: {str(e)[:500]}"
    with open(evpath, "w") as f:
        json.dump(ev, f, indent=1, sort_keys=True)
    print(f"{pid} {tier} seed={seed}: evaluations={evaluations} distinct_nontrivial={len(nt)} "
          f"violations={len(violations)} harness_errors={len(harness_errors)} wall={wall:.1f}s evidence={os.path.relpath(evpath, VERIF)}")
    if violations:
        return 1
    if harness_errors:
        return 2
    if evidence_problem:
        print("harness: evidence does not validate: " + evidence_problem, file=sys.stderr)
        return 2
    return 0


if __name__ == "__main__":
    sys.exit(main(sys.argv[1:]))
