"""Test doubles passed through teneva's public API: instrumented objective, auditing / forcing generators."""
import numpy as np

from harness.core import OracleFailure


class Objective:
    """Element oracle of a dense target for cross: records every batch, checks the index domain, can inject faults.

    none_at    : return None at this (1-based) call
    out        : the values are returned as an array of that dtype (they must be exact in it) or as a list of Python floats
    max_calls  : safety net against non-terminating runs: return None after that many calls (flag `runaway`)
    """

    def __init__(self, F, none_at=None, max_calls=4000, out=None):
        self.F = np.asarray(F, dtype=float)
        self.out = out             # how the batch of values is handed back: None (float64 array) / a dtype name / 'list'
        self.shape = self.F.shape
        self.none_at = none_at
        self.max_calls = max_calls
        self.batches = []          # list of int arrays as received (copies)
        self.calls = 0
        self.runaway = False

    def __call__(self, I):
        self.calls += 1
        d = len(self.shape)
        if not isinstance(I, np.ndarray):
            raise OracleFailure("objective received a non-array batch", {"type": type(I).__name__})
        if I.ndim != 2 or I.shape[1] != d:
            raise OracleFailure("objective received a batch that is not [samples, d]", {"shape": list(I.shape), "d": d})
        if I.dtype.kind not in "iu":
            raise OracleFailure("objective received non-integer indices", {"dtype": str(I.dtype)})
        if I.shape[0] and (I.min() < 0 or np.any(I >= np.array(self.shape)[None, :])):
            raise OracleFailure("objective received an index outside the tensor bounds", {"min": int(I.min()), "max": I.max(axis=0).tolist(), "shape": list(self.shape)})
        if self.none_at is not None and self.calls == self.none_at:
            self.batches.append(None)
            return None
        if self.calls > self.max_calls:
            self.runaway = True
            return None
        self.batches.append(I.copy())
        y = self.F[tuple(I.T)].copy()
        if self.out == "list":
            return [float(v) for v in y]
        return y if self.out is None else y.astype(self.out)

    @property
    def evaluated(self):
        return int(sum(len(b) for b in self.batches if b is not None))

    def sizes(self):
        return [len(b) for b in self.batches if b is not None]


class AuditGen:
    """Duck-typed random generator handed to teneva as `seed`: records requests, answers from a real Generator.

    teneva._rand(seed) uses any non-int, non-None object it is given as the generator itself.
    """

    def __init__(self, seed=0):
        self.g = np.random.default_rng(seed)
        self.log = []

    def _rec(self, name, args, kw, out):
        self.log.append((name, args, {k: (v if not isinstance(v, np.ndarray) else v.copy()) for k, v in kw.items()},
                         np.shape(out)))
        return out

    def uniform(self, *a, **k):
        return self._rec("uniform", a, k, self.g.uniform(*a, **k))

    def normal(self, *a, **k):
        return self._rec("normal", a, k, self.g.normal(*a, **k))

    def choice(self, *a, **k):
        return self._rec("choice", a, k, self.g.choice(*a, **k))

    def shuffle(self, x, **k):
        self.g.shuffle(x, **k)
        self.log.append(("shuffle", (len(x),), k, None))

    def permutation(self, *a, **k):
        return self._rec("permutation", a, k, self.g.permutation(*a, **k))

    def integers(self, *a, **k):
        return self._rec("integers", a, k, self.g.integers(*a, **k))

    def random(self, *a, **k):
        return self._rec("random", a, k, self.g.random(*a, **k))


def poison_heap(value=np.nan, k=0):
    """Allocate and free arrays of many sizes filled with `value`: a later np.empty of such a size that is read before
    being written shows the garbage (NumPy's small-block cache and the allocator hand the blocks out again)."""
    keep = []
    for size in list(range(1, 260)) + [300, 384, 512, 600, 768, 1024, 2048, 4096]:
        for _ in range(1 + k % 2):
            keep.append(np.full(size, value))
    del keep
