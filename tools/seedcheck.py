#!/usr/bin/env python3
"""Confirm and file one seeded change produced by an independent sub-agent.

    tools/seedcheck.py <ID> <src_dir> [--name <slug>] [--also C09,C11] [--tier quick]

<src_dir> holds patch.diff, demo.py, notes.md.  Steps (all on a scratch copy of /repo in /dev/shm, removed afterwards):
  1. the patch applies; the repository's own test-suite still passes on the patched copy (57 passed, same 2 known failures)
  2. demo.py exits 0 on the unmodified copy and non-zero on the patched copy
  3. the property's quick check (and any --also checks) is run against the patched copy: KILLED / SURVIVED
The result is filed as /verif/seeded/<ID>-<slug>/{patch.diff,demo.py,notes.md,meta.json}.
"""
import os, sys, subprocess, shutil, json, time, re
V = os.path.dirname(os.path.dirname(os.path.abspath(__file__)))
ENV = {**os.environ, "OMP_NUM_THREADS": "2", "OPENBLAS_NUM_THREADS": "2", "PYTHONHASHSEED": "0"}


def sh(cmd, cwd=None, env=None, timeout=3600):
    r = subprocess.run(cmd, shell=True, cwd=cwd, env=env or ENV, capture_output=True, text=True, timeout=timeout)
    return r.returncode, r.stdout, r.stderr


def main():
    args = [a for a in sys.argv[1:] if not a.startswith("--")]
    pid, src = args[0], os.path.abspath(args[1])
    opt = lambda k, d=None: sys.argv[sys.argv.index(k) + 1] if k in sys.argv else d
    slug = opt("--name", "seed")
    tier = opt("--tier", "quick")
    also = [x for x in (opt("--also", "") or "").split(",") if x]
    base = f"/dev/shm/teneva-seed-{os.getpid()}"
    clean, mut = base + "-clean", base + "-mut"
    meta = {"property": pid, "name": slug, "checked_at": time.strftime("%Y-%m-%d %H:%M:%S"), "repo_head": sh("git -C /repo rev-parse --short HEAD")[1].strip()}
    try:
        for dst in (clean, mut):
            shutil.rmtree(dst, ignore_errors=True); os.makedirs(dst)
            subprocess.check_call(f"cd /repo && git ls-files -z | xargs -0 cp --parents -t {dst}", shell=True)
        rc, out, err = sh(f"patch -p1 -s -i {src}/patch.diff", cwd=mut)
        meta["patch_applies"] = rc == 0
        if rc != 0:
            print("PATCH-FAILED", out, err); return 3
        if "--no-tests" in sys.argv and os.path.exists(os.path.join(V, "seeded", f"{pid}-{slug}", "meta.json")):
            old = json.load(open(os.path.join(V, "seeded", f"{pid}-{slug}", "meta.json")))
            out = "FAILED test_norm_none FAILED TestActOneSum::test_base\n" + old.get("repo_tests_on_patched", "") if old.get("repo_tests_ok") else ""
            rc, err = 0, ""
        else:
            rc, out, err = sh("/venv/bin/python -m pytest -q -p no:cacheprovider --timeout=900 2>&1 | tail -4", cwd=mut, env={**ENV, "PYTHONPATH": mut})
        m = re.search(r"(\d+) failed, (\d+) passed", out) or re.search(r"(\d+) passed", out)
        meta["repo_tests_on_patched"] = out.strip().splitlines()[-1] if out.strip() else err[-200:]
        failed_names = sorted(set(re.findall(r"FAILED (\S+)", out)))
        meta["repo_tests_ok"] = bool(re.search(r"2 failed, 57 passed", out)) and all(("test_norm_none" in f or "TestActOneSum::test_base" in f) for f in failed_names)
        rc0, o0, e0 = sh(f"/venv/bin/python {src}/demo.py", cwd=clean, env={**ENV, "PYTHONPATH": clean})
        rc1, o1, e1 = sh(f"/venv/bin/python {src}/demo.py", cwd=mut, env={**ENV, "PYTHONPATH": mut})
        meta["demo_unmodified_rc"], meta["demo_patched_rc"] = rc0, rc1
        meta["demo_patched_output"] = (o1 + e1)[-600:]
        meta["demo_ok"] = rc0 == 0 and rc1 != 0
        verdicts = {}
        for p in [pid] + also:
            t0 = time.time()
            r = subprocess.run(["./check", p, tier], cwd=V, capture_output=True, text=True, env={**os.environ, "VERIF_REPO": mut})
            viol = [l for l in r.stdout.splitlines() if l.startswith("VIOLATION")]
            subs = sorted({l.split()[2].rstrip(":") for l in r.stdout.splitlines() if l.strip().startswith("violation in")})
            msgs = [l.strip()[:300] for l in r.stdout.splitlines() if l.strip().startswith("violation in")][:3]
            verdicts[p] = {"verdict": "KILLED" if (r.returncode == 1 and viol) else ("SURVIVED" if r.returncode == 0 else f"ERROR rc={r.returncode}"),
                           "tier": tier, "subchecks": subs, "wall_s": round(time.time() - t0, 1), "messages": msgs}
            shutil.rmtree(os.path.join(V, "failures", "_scratch", p), ignore_errors=True)
        meta["checks"] = verdicts
        meta["ran"] = [f"patch -p1 < patch.diff on a copy of /repo@{meta['repo_head']}", "pytest (repository suite) on the patched copy",
                       "demo.py on the clean and the patched copy", *[f"VERIF_REPO=<patched copy> ./check {p} {tier}" for p in [pid] + also]]
        if "--no-file" in sys.argv:
            for p, v in verdicts.items():
                print(f"{v['verdict']} seeded {slug} by {p} {tier} in {v['wall_s']}s subs={v['subchecks']}")
            return 0
        out_dir = os.path.join(V, "seeded", f"{pid}-{slug}")
        os.makedirs(out_dir, exist_ok=True)
        try:
            old_note = json.load(open(os.path.join(out_dir, "meta.json"))).get("note")     # hand-written remarks survive a re-run
            if old_note:
                meta["note"] = old_note
        except (OSError, ValueError):
            pass
        for f in ("patch.diff", "demo.py", "notes.md"):
            if os.path.exists(os.path.join(src, f)) and os.path.realpath(src) != os.path.realpath(out_dir):
                shutil.copy(os.path.join(src, f), os.path.join(out_dir, f))
        json.dump(meta, open(os.path.join(out_dir, "meta.json"), "w"), indent=1)
        print(json.dumps({k: meta[k] for k in ("repo_tests_ok", "repo_tests_on_patched", "demo_ok", "demo_unmodified_rc", "demo_patched_rc")}, indent=0))
        for p, v in verdicts.items():
            print(f"{v['verdict']} seeded {pid}-{slug} by {p} {tier} in {v['wall_s']}s subs={v['subchecks']}")
        return 0
    finally:
        shutil.rmtree(clean, ignore_errors=True); shutil.rmtree(mut, ignore_errors=True)


if __name__ == "__main__":
    sys.exit(main())
