#!/usr/bin/env python3
"""Writes notes/seeded_table.md from seeded/*/meta.json (which check kills which independently seeded change)."""
import json, glob, os
V = os.path.dirname(os.path.dirname(os.path.abspath(__file__)))
rows = []
for d in sorted(glob.glob(os.path.join(V, "seeded", "*", "meta.json"))):
    m = json.load(open(d))
    name = os.path.basename(os.path.dirname(d))
    notes = os.path.join(os.path.dirname(d), "notes.md")
    need = ""
    if os.path.exists(notes):
        txt = open(notes).read()
        lines = [l.strip().lstrip("#*-0123456789. ").strip() for l in txt.splitlines()]
        for keys in (("trigger",), ("needed", "needs", "manifest"), ("only when", "requires")):
            hit = [i for i, l in enumerate(lines) if any(k in l.lower() for k in keys)]
            if hit:
                i = hit[0]
                cand = lines[i] if len(lines[i]) > 60 else " ".join(lines[i:i + 3])
                need = cand[:260]
                break
    kills = "; ".join(f"{p}: {v['verdict']}" + (f" ({', '.join(v['subchecks'])})" if v.get("subchecks") else "") for p, v in m.get("checks", {}).items())
    if m.get("note"):
        need = "[" + m["note"] + "] " + need
    rows.append((name, "yes" if m.get("repo_tests_ok") else "NO", "yes" if m.get("demo_ok") else "NO", kills, need))
with open(os.path.join(V, "notes", "seeded_table.md"), "w") as f:
    f.write("| seeded change | repo tests pass | demo discriminates | checks (quick tier) | what it needs |\n|---|---|---|---|---|\n")
    for r in rows:
        f.write("| " + " | ".join(x.replace("|", "/") for x in r) + " |\n")
print(len(rows), "seeded changes;", sum(1 for r in rows if "KILLED" in r[3].split(";")[0]), "killed by the check of their own property;",
      sum(1 for r in rows if r[2] == "NO"), "no longer discriminated by their own demo on the current tree (made harmless by a later fix: see their note)")
