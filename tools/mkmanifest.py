#!/usr/bin/env python3
"""Regenerates /verif/MANIFEST.json from the table below (claimed = a props/cNN_*.py module exists)."""
import glob, json, os
V = os.path.dirname(os.path.dirname(os.path.abspath(__file__)))

T = {
 "C01": ("exploration", "generated TT specs / index batches / expression trees vs independent dense NumPy algebra (abs-majorant rounding bound, bit-for-bit on small-integer cores); tensors with up to 1e70 elements (also integer-stored count tensors whose entries pass 2^63) vs chains of small matrix products", "3/C01"),
 "C02": ("exploration", "generated spectra, threshold-adjacent accuracies and caps vs dense SVD tails of the input unfoldings (error bound, quasi-optimality bound, rank bounds), all four flag combinations; add_many vs a mirrored error recursion; the same tensor with cores unbalanced by 2^+-600", "3/C02"),
 "C03": ("exploration", "generated dense arrays (exact-rank, noisy, full-rank, scales 1e-6..1e6) vs LAPACK SVD of the unfoldings; matrix factorisations vs reference SVD sizes, tails and orthogonality of the factors; caps as NumPy scalars / 0-d arrays, inputs in C / Fortran / strided layout and integer storage", "3/C03"),
 "C04": ("exploration", "generated TT specs incl. rank-deficient / over-ranked / 2^+-30-scaled cores, every pivot enumerated per tensor; dense preservation, Gram defects, norm concentration, rank caps, in-place aliasing contract, ValueError contract; chains of 400..4000 cores for the stabilised variant vs a Gram recursion with unbounded exponent", "3/C04"),
 "C05": ("exploration", "generated low-rank targets and initial tensors; TT-cross result vs dense target, cached vs uncached run bit-identical with counter identities, info values recomputed independently; objective values handed back as float32 / integer arrays or lists must give the bit-identical run", "3/C05"),
 "C06": ("fault_enumeration", "per generated configuration a reference run records the oracle batches; then every budget m, every None-returning call k, every callback stop sweep and every subset of stop arguments is enumerated and checked for prefix determinism, counters, stop reason and well-formed finite result", "3/C06"),
 "C07": ("exploration", "generated training sets (duplicates, single-sample slices at chosen positions, weights), objective recomputed from a dense reference: monotone descent through the callback, ridge gradient of the last core, restart and permutation metamorphic relations, ValueError/skip contract, adaptive rank cap; regularisation number as NumPy scalar / 0-d array must give the bit-identical run", "3/C07"),
 "C08": ("exploration", "generated tall matrices (conditioning up to 1e8, duplicate / zero rows, integer ties) vs validity predicates: distinct rows, B[I]=identity, A=B A[I], dominance bound with independently recomputed B, monotone volume in the iteration limit, ValueError contracts; the same matrix in Fortran / strided / integer storage under the same predicates", "3/C08"),
 "C09": ("exploration", "API catalogue of every exported function x generated arguments in several memory layouts; deep byte snapshots before/after, np.shares_memory between results and arguments, write probes", "3/C09"),
 "C10": ("exploration", "Hypothesis rule-based state machine over global NumPy RNG state, heap poisoning and interleaved library calls; first-seen digest table per (function, preset, seed, spelling), legacy RNG state invariant, auditing generator objects; order-swap histories in forked children; a seeded routine fed from files written by objects with different random histories", "3/C10"),
 "C11": ("exploration", "degenerate input families x routines x flags (zero tensor, rank-deficient, over-ranked, rank 1, d=2, mode size 1, constant data, repeated samples): well-formedness, finiteness, -1 sentinel", "3/C11"),
 "C12": ("exploration", "generated polynomials in the exactness class as TT of Chebyshev series on generated boxes; evaluation, re-sampling, integration, differentiation, dense/TT agreement, fill value, custom bases, linearity and inverse pair vs analytic references", "3/C12"),
 "C13": ("exploration", "generated sample sets (full grids, sparse with duplicates, relabelled domains) with forcing/auditing generator as seed; independent recomputation of the additive model vs dense of the returned cores", "3/C13"),
 "C14": ("exploration", "forcing auditor: for every multi-index of small tensors the sampler is driven down that path and the product of the recorded conditional probabilities is compared with the entry share (exact decision, no statistics); structural checks for all samplers; chains of 12..64 modes incl. integer-stored count tensors whose sums pass 2^63", "3/C14"),
 "C15": ("exploration", "generated tensors incl. ties / constants / rank 1; validity (indices in bounds, value equals entry, min<=max) always, exactness vs dense extrema when nothing is pruned and for rank 1; QTT variant; functional variant vs fine-grid maximum; integer-stored cores vs their float64 copy (identical answers)", "3/C15"),
 "C16": ("exploration", "generated tensors with d up to 3000 and total log2-norm in [-30000, 30000]; stabilised results vs an frexp-renormalised Gram reference, power-of-two rescaling metamorphic relation bit-for-bit; integer-stored cores vs their float64 copy bit-for-bit", "3/C16"),
 "C17": ("exploration", "exhaustive enumeration of all multi-indices for all (q,d) with q*d bounded for the index maps; generated TT tensors of shape [2^q]*d for the value-preserving conversion", "3/C17"),
 "C18": ("exploration", "exhaustive over all indices for grid sizes up to a bound on generated boxes; exact Fraction / acos references for arbitrary points; option-spelling equivalence; flat grid and CDF helper vs definitions", "3/C18"),
 "C19": ("exploration", "exhaustive over positions for the delta constructors; generated shapes/values/zero lists for const and poly vs dense definitions; auditing generator as seed for the random constructors", "3/C19"),
 "C20": ("exploration", "generated low-rank tensors sampled at sample_tt's structured set; recovered tensor vs dense target, rank caps; tensors of 22..100 modes with chain-evaluated sample and test values", "3/C20"),
}
TEXT = {
 "exploration": "No counterexample among the generated cases of this run; the generator's class histogram and the non-trivial count are in the evidence file. Right level because the property quantifies over a continuous input space where search against an explicit oracle is what this technique family offers; it never establishes absence.",
 "fault_enumeration": "For each generated configuration every interruption point (each budget value, each objective call returning None, each callback stop sweep, each stop-argument subset) is enumerated, so within a configuration the fault space is covered exhaustively; configurations themselves are sampled.",
}
NOTE = "Trusted base: NumPy/SciPy/LAPACK reference computations, Hypothesis generation/shrinking, the tolerance model of DESIGN.md section 2.2. Assumes d >= 2 and finite inputs outside the underflow/overflow regime unless the property says otherwise."

READY = [l.strip() for l in open(os.path.join(V, "tools", "READY.txt")) if l.strip() and not l.startswith("#")]
checks, na = [], []
for pid in sorted(T):
    cat, tech, ref = T[pid]
    if pid in READY and glob.glob(os.path.join(V, "props", pid.lower() + "_*.py")):
        checks.append({
            "property_id": pid,
            "quick_cmd": f"./check {pid} quick",
            "thorough_cmd": f"./check {pid} thorough",
            "evidence_file": f"/verif/evidence/{pid}.json",
            "replay_cmd_template": f"./check {pid} --replay {{path}}",
            "engine": "pbt-runner",
            "level_claimed": {"category": cat, "text": TEXT[cat], "design_ref": "DESIGN.md section " + ref},
            "level_note": NOTE,
            "technique": "property-based testing (Hypothesis): " + tech,
        })
    else:
        na.append({"property_id": pid, "reason": "check not implemented yet in this revision of /verif (planned, see DESIGN.md section " + ref + ")"})
M = {
 "version": 1,
 "setup_cmd": "./setup.sh",
 "hooks": {"guard": "TENEVA_VERIF", "enable": "none needed: no source hooks; checks import /repo's working tree directly (VERIF_REPO overrides the path for the mutation harness)",
           "baseline_off_cmd": "cd /repo && /venv/bin/python -m pytest -ra -q -p no:cacheprovider --timeout=900 --continue-on-collection-errors",
           "source_commits": [], "add_only": True},
 "engines": [{"name": "pbt-runner", "path": "harness/runner.py", "serves_properties": [c["property_id"] for c in checks],
              "kind_free_text": "Hypothesis strategies + exhaustive enumerators sharded over 16 processes; explicit oracles per property in props/; shrunk failures become JSON replay files"}],
 "checks": checks,
 "not_applicable": na,
 "notes": "See DESIGN.md. Exit codes: 0 held, 1 VIOLATION line(s), 2 harness error/inconclusive. VERIF_SEED selects the Hypothesis seeds.",
}
json.dump(M, open(os.path.join(V, "MANIFEST.json"), "w"), indent=1)
print("claimed:", [c["property_id"] for c in checks])
