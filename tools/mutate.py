#!/usr/bin/env python3
"""Sensitivity harness: apply one patch to a scratch copy of /repo and run checks against it.

    tools/mutate.py <patch.diff> <ID>[,<ID>...] [--tests] [--tier quick] [--keep]

Copies /repo (tracked files only) to /dev/shm/teneva-mut-<pid>, applies the patch with `git apply`/`patch -p1`,
optionally runs the repository's own test-suite there (--tests; a mutant must pass it to count), runs
`VERIF_REPO=<copy> ./check <ID> <tier>` and prints KILLED / SURVIVED per property. The copy is removed afterwards.
"""
import os, sys, subprocess, shutil, time
V = os.path.dirname(os.path.dirname(os.path.abspath(__file__)))

def main():
    args = [a for a in sys.argv[1:] if not a.startswith("--")]
    patch, ids = os.path.abspath(args[0]), args[1].split(",")
    tier = "quick"
    if "--tier" in sys.argv:
        tier = sys.argv[sys.argv.index("--tier") + 1]
    dst = f"/dev/shm/teneva-mut-{os.getpid()}"
    shutil.rmtree(dst, ignore_errors=True)
    os.makedirs(dst)
    try:
        subprocess.check_call(f"cd /repo && git ls-files -z | xargs -0 cp --parents -t {dst}", shell=True)
        r = subprocess.run(["patch", "-p1", "-s", "-i", patch], cwd=dst, capture_output=True, text=True)
        if r.returncode != 0:
            print("PATCH-FAILED", r.stdout, r.stderr); return 3
        if "--tests" in sys.argv:
            t = subprocess.run("/venv/bin/python -m pytest -q -p no:cacheprovider --timeout=900 "
                               "--deselect test/test_act_one.py::TestActOneInterface::test_norm_none "
                               "--deselect test/test_act_one.py::TestActOneSum::test_base 2>&1 | grep -E 'FAILED|passed|failed' | tail -8",
                               shell=True, cwd=dst, capture_output=True, text=True, env={**os.environ, "PYTHONPATH": dst, "OMP_NUM_THREADS": "2", "OPENBLAS_NUM_THREADS": "2"})
            print("repo tests on mutant:", " ; ".join(t.stdout.strip().splitlines()) if t.stdout.strip() else t.stderr[-300:])
        rc_all = 0
        for pid in ids:
            t0 = time.time()
            r = subprocess.run(["./check", pid, tier], cwd=V, capture_output=True, text=True, env={**os.environ, "VERIF_REPO": dst})
            viol = [l for l in r.stdout.splitlines() if l.startswith("VIOLATION")]
            subs = sorted({l.split()[2].rstrip(":") for l in r.stdout.splitlines() if l.strip().startswith("violation in")})
            verdict = "KILLED" if r.returncode == 1 and viol else ("SURVIVED" if r.returncode == 0 else f"ERROR(rc={r.returncode})")
            print(f"{verdict} {os.path.basename(patch)} by {pid} {tier} in {time.time()-t0:.1f}s subs={subs}")
            if verdict == "KILLED" and "--save-replay" in sys.argv:
                name = sys.argv[sys.argv.index("--save-replay") + 1]
                import glob, json
                fdir = os.path.join(V, "failures", "_scratch", pid)
                os.makedirs(os.path.join(V, "replays", pid), exist_ok=True)
                for j, f in enumerate(sorted(glob.glob(os.path.join(fdir, "*.json")))):
                    rec = json.load(open(f))
                    rec["note"] = f"shrunk counterexample produced by {pid} {tier} against mutant {os.path.basename(patch)}"
                    rec["message"] = rec["message"][:600]
                    out = os.path.join(V, "replays", pid, f"{name}-{rec['sub']}.json")
                    json.dump(rec, open(out, "w"), indent=1, sort_keys=True)
                    print("  saved replay", os.path.relpath(out, V))
            if verdict != "KILLED":
                rc_all = 1
                if r.returncode not in (0, 1):
                    print(r.stderr[-1500:])
            if "-v" in sys.argv:
                print(r.stdout[-2500:])
        return rc_all
    finally:
        if "--keep" not in sys.argv:
            shutil.rmtree(dst, ignore_errors=True)
            for pid in ids:
                shutil.rmtree(os.path.join(V, "failures", "_scratch", pid), ignore_errors=True)

if __name__ == "__main__":
    sys.exit(main())
