#!/bin/bash
# Re-run every filed seeded change against the check of its property (quick tier) and print the kill table (4 at a time).
cd "$(dirname "$0")/.."
one() {
  d=$1; name=$(basename "$d"); pid=${name%%-*}; slug=${name#*-}
  also=$(python3 -c "import json;m=json.load(open('$d/meta.json'));print(','.join(k for k in m.get('checks',{}) if k!='$pid'))")
  tools/seedcheck.py "$pid" "$d" --name "$slug" --no-tests ${also:+--also $also} 2>&1 | grep -E "^(KILLED|SURVIVED|ERROR|PATCH)"
}
export -f one
ls -d seeded/*/ | xargs -P "${JOBS:-4}" -I{} bash -c 'one {}'
