#!/bin/bash
# Re-run every filed seeded change against the check of its property (quick tier) and print the kill table.
cd "$(dirname "$0")/.."
for d in seeded/*/; do
  name=$(basename "$d"); pid=${name%%-*}; slug=${name#*-}
  also=$(python3 -c "import json;m=json.load(open('$d/meta.json'));print(','.join(k for k in m.get('checks',{}) if k!='$pid'))")
  tools/seedcheck.py "$pid" "$d" --name "$slug" --no-tests ${also:+--also $also} 2>&1 | grep -E "^(KILLED|SURVIVED|ERROR|PATCH)"
done
