#!/bin/bash
# Sensitivity table: every patch in mutants/ against the quick check of the property it targets (4 at a time).
cd "$(dirname "$0")/.."
one() {
  declare -A REV=( [F01]=C02 [F02]=C03 [F03]=C07 [F04]=C10 [F05]=C11 [F06]=C12 [F07]=C14 [F08]=C15 [F09]=C08 [F10]=C10,C11 [F12]=C20 [F13]=C09 [F14]=C09 [F15]=C16 [F16]=C16
                   [F17]=C07 [F18]=C01 [F19]=C03 [F20]=C16 [F21]=C13 [F22]=C16,C04 [F23]=C13 [F24]=C11 [F25]=C18 [F26]=C14 [F27]=C01 [F28]=C08 )
  f=$1; b=$(basename "$f")
  if [[ $b == revert_F* ]]; then key=${b#revert_}; key=${key%%_*}; ids=${REV[$key]}; else ids=$(echo "${b%%_*}" | tr a-z A-Z); fi
  tools/mutate.py "$f" "$ids" 2>&1 | grep -E "^(KILLED|SURVIVED|ERROR|PATCH)"
}
export -f one
ls mutants/*.diff | xargs -P "${JOBS:-4}" -I{} bash -c 'one {}'
