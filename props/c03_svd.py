"""C03 - TT-SVD meets the sqrt(d-1)*e error bound with capped, quasi-optimal ranks; matrix variant; factorisations."""
import math
import numpy as np
from hypothesis import strategies as st

import harness.core  # noqa: F401
from harness.core import Sub
from harness import gen, oracle
from harness.oracle import EPS, dense, fro, tails, unfold_svals

import teneva

LEVEL = "exploration"
RULE = ("Hypothesis draws dense arrays (d 2..5, mode sizes 1..6) of three kinds - exact low TT-rank (dense of a gauss TT), exact rank "
        "plus noise, full-rank gauss - at magnitudes 10^[-6,6], accuracies e = ||A|| * 10^[-12,0.5] or placed at a rank threshold, caps; "
        "2^q x 2^q matrices (q 1..5) for the matrix variant; m x n matrices with prescribed spectra for matrix_skeleton / matrix_svd with "
        "rel in {F,T}, give_to in {m,l,r}, hermitian on symmetric input. Oracle = LAPACK SVD of the input unfoldings / matrix. "
        "Non-trivial = a rank was actually cut, or exact-rank recovery with a rank >= 2; distinct by SHA-1 of the case."
        " The rank cap reaches the routines as Python int / float or as np.int64 / np.int32 / np.intp / np.float64 / np.float32 / np.float16 / 0-d array of the same value."
        " The array itself is handed over in C order, Fortran order or as a strided view (same values).")
TOLERANCES = ("floor_svd = 64 eps R d ||A||; skeleton: | ||A-UV|| - tail(q) | <= 64 eps (m+n) s0; matrix_svd (eigh route): size equality only "
              "for e >= 1e-6 s0, error <= e + 8 sqrt(eps min(m,n)) s0; 1e-6 two-sided slack at exact thresholds")
ASSUMPTIONS = ["d >= 2 for svd (q >= 1 for svd_matrix)", "e > 0, r >= 1", "LAPACK SVD is the reference spectrum",
               "matrix_svd's rounding floor ~1e-7 s0 is a stated tolerance of the eigen-decomposition route (its own docs show it)"]


# ------------------------------------------------------------------------------------------- svd of dense arrays

@st.composite
def dense_specs(draw, tier, d_min=2, d_max=5, n_max=6, size_max=3000):
    kind = draw(st.sampled_from(["exact", "exact", "noisy", "full", "inttable"]))
    if tier == "thorough":
        size_max = 20000
    n = draw(gen.shapes(d_min=d_min, d_max=d_max, n_max=n_max, size_max=size_max))
    spec = {"kind": kind, "n": n, "seed": draw(gen.seeds), "scale10": draw(st.sampled_from([0, 0, 1, -1, 3, -3, 6, -6]))}
    if kind == "inttable":
        # a table of integers (counts, small-integer TT-tensor), possibly handed over as an integer array
        spec["scale10"] = 0
        spec["store"] = draw(st.sampled_from(["int64", "int32", "float64"]))
        spec["tt"] = draw(st.one_of(st.none(), gen.tt_specs(shape=n, r_max=3, families=("smallint",), rank_families=("rank1", "uniform", "ragged"))))
    elif kind != "full":
        spec["tt"] = draw(gen.tt_specs(shape=n, r_max=4, families=("gauss", "float"), rank_families=("rank1", "uniform", "ragged")))
        spec["noise10"] = draw(st.sampled_from([-3, -6, -9]))
    return spec


def build_dense(spec):
    rng = np.random.default_rng(spec["seed"])
    n = spec["n"]
    if spec["kind"] == "full":
        A = rng.normal(size=n)
    elif spec["kind"] == "inttable" and spec.get("tt") is None:
        A = rng.integers(-9, 10, size=n).astype(float)
    else:
        A = dense(gen.build_tt(spec["tt"]))
        if spec["kind"] == "noisy":
            A = A + 10.0 ** spec["noise10"] * max(fro(A), 1e-300) / math.sqrt(A.size) * rng.normal(size=n)
    return A * 10.0 ** spec["scale10"]


@st.composite
def svd_cases(draw, tier):
    return {"A": draw(dense_specs(tier)), "emode": draw(st.sampled_from(["log", "adjacent", "recover"])),
            "log10e": draw(st.floats(-12, 0.5, allow_nan=False)), "ksel": draw(st.integers(0, 7)), "qsel": draw(st.integers(0, 15)),
            "side": draw(st.sampled_from([-1, 1])), "cap": draw(st.sampled_from(["none", "none", "int", "float", "one"])),
            "capv": draw(st.integers(1, 8))}


def as_table(A, store, ctx):
    """What the library is given: an integer-valued array kept in an integer array when the case asks for it (same values)."""
    if store and store != "float64" and A.size and np.array_equal(A, np.round(A)) and np.abs(A).max() < 2 ** 31:
        ctx.label("stored_as:" + store)
        A = A.astype(store)
    # memory layout of the caller's array (the values are the same): C order, Fortran order, a strided view; chosen from the data itself
    lay = int(abs(float(A.flat[0])) * 8191 + A.size) % 4 if A.size else 0
    if lay == 1:
        ctx.label("layout:F")
        return np.asfortranarray(A)
    if lay == 2 and A.ndim >= 1:
        ctx.label("layout:strided")
        return np.repeat(A, 2, axis=-1)[..., ::2]
    return A


def cap_value(case):
    c = case["cap"]
    if c == "none":
        return 1e12
    if c == "one":
        return 1
    # the cap is documented as "int, float": the same number may reach the routine as a NumPy scalar or 0-d array (teneva.ranks(Y).max(), an
    # entry of an option array); the spelling is derived from fields every case has, so that old replays keep their meaning
    v = case["capv"] if c == "int" else case["capv"] + 0.5
    sel = (case["capv"] * 7 + len(repr(case.get("side", 0))) + int(case.get("seed", case["capv"]))) % 6
    if c == "int":
        return [v, np.int64(v), np.int32(v), np.intp(v), np.array(v), v][sel]
    return [v, np.float64(v), np.float32(v), np.array(v), v, np.float16(v)][sel]


def check_ttsvd(ctx, A, Y, e, cap, T, what):
    d = A.ndim
    nrm = fro(A)
    why = oracle.wellformed(Y, A.shape)
    ctx.check(why is None, f"{what}: result is not a well-formed TT-tensor of the array's shape: {why}")
    rk = oracle.ranks_of(Y)
    capi = max(1, int(cap))
    R = max(rk)
    fl = 64 * EPS * max(R, 1) * d * nrm
    err = fro(dense(Y) - A)
    binds = False
    cut = False
    for k in range(1, d):
        t = T[k]
        full = len(t) - 1
        ctx.check(rk[k] <= capi, f"{what}: rank exceeds the cap", bond=k, rank=rk[k], cap=cap)
        thr = e * (1 - 1e-6) - fl
        qk = next((q for q in range(len(t)) if t[q] <= thr), full)
        ctx.check(rk[k] <= max(1, min(capi, qk)), f"{what}: rank exceeds the smallest rank whose tail energy is <= e",
                  bond=k, rank=rk[k], smallest=qk, e=e, tail=float(t[min(qk, full)]))
        if rk[k] == capi:
            binds = True
        if rk[k] < full:
            cut = True
    if binds:
        ctx.label("cap_binds")
    else:
        ctx.check(err <= e * math.sqrt(d - 1) * (1 + 1e-9) + fl, f"{what}: error exceeds e*sqrt(d-1) although the cap does not bind",
                  err=err, bound=e * math.sqrt(d - 1), floor=fl, e=e, norm=nrm, ranks=rk)
    qo = math.sqrt(sum(float(T[k][min(rk[k], len(T[k]) - 1)]) ** 2 for k in range(1, d)))
    ctx.check(err <= qo * (1 + 1e-9) + fl, f"{what}: error exceeds the root-sum-square of the unfolding tails at the returned ranks",
              err=err, quasi_opt=qo, floor=fl, ranks=rk)
    return rk, err, cut, binds


def prop_svd(case, ctx):
    A = build_dense(case["A"])
    d = A.ndim
    nrm = fro(A)
    T = [None] + [tails(unfold_svals(A, k)) for k in range(1, d)]
    S = [None] + [unfold_svals(A, k) for k in range(1, d)]
    cap = cap_value(case)
    ctx.label("kind:" + case["A"]["kind"], "cap:" + case["cap"], "emode:" + case["emode"])
    if nrm > 1e3:
        ctx.label("scale>1e3")
    if nrm < 1e-3:
        ctx.label("scale<1e-3")
    if d == 2:
        ctx.label("d==2")
    e = max(nrm, 1e-300) * 10.0 ** case["log10e"]
    recover = False
    if case["emode"] == "adjacent":
        k = 1 + case["ksel"] % (d - 1)
        c = [float(T[k][q]) for q in range(1, len(T[k]) - 1) if T[k][q] > 1e-13 * nrm]
        if c:
            e = c[case["qsel"] % len(c)] * (1 + case["side"] * 1e-3)
            ctx.label("threshold_adjacent")
    elif case["emode"] == "recover" and case["A"]["kind"] == "exact":
        # exact-rank recovery needs a spectral gap: numerical ranks rho_k and e between 1e3*floor and sigma_min/10
        R = max(case["A"]["tt"]["r"])
        fl = 64 * EPS * R * d * nrm
        rho = [None] + [int(np.sum(S[k] > 1e3 * fl)) for k in range(1, d)]
        smin = min(float(S[k][rho[k] - 1]) for k in range(1, d) if rho[k] >= 1) if all(r >= 1 for r in rho[1:]) else 0.0
        if nrm > 0 and all(r >= 1 for r in rho[1:]) and smin / 10 > 1e3 * fl:
            e = math.sqrt(1e3 * fl * smin / 10)
            recover = True
            cap = 1e12
        else:
            ctx.label("no_gap")
    Y = ctx.lib(teneva.svd, as_table(A, case["A"].get("store"), ctx), e, cap)
    rk, err, cut, binds = check_ttsvd(ctx, A, Y, e, cap, T, "svd")
    if recover:
        ctx.label("recover")
        ctx.check(rk[1:d] == rho[1:], "svd: exact TT-ranks not recovered", got=rk, exact=rho + [1], e=e)
        ctx.check(err <= max(e * math.sqrt(d - 1), 1e-9 * nrm), "svd: exact-rank tensor not reproduced to rounding accuracy", err=err, norm=nrm)
        ctx.nontrivial(max(rk) >= 2)
    ctx.nontrivial(cut)


# ------------------------------------------------------------------------------------------- svd_matrix / full_matrix

@st.composite
def matrix_cases(draw, tier):
    q = draw(st.integers(1, 4 if tier == "quick" else 5))
    return {"q": q, "seed": draw(gen.seeds), "kind": draw(st.sampled_from(["gauss", "lowrank", "kron", "smallint"])),
            "scale10": draw(st.sampled_from([0, 0, 3, -3, 6, -6])), "log10e": draw(st.floats(-12, 0.3, allow_nan=False)),
            "cap": draw(st.sampled_from(["none", "none", "int", "one"])), "capv": draw(st.integers(1, 8)),
            "store": draw(st.sampled_from(["float64", "int64", "int32"]))}


def interleave(M, q):
    """Z[m_0..m_{q-1}] = M[sum (m_k % 2) 2^k, sum (m_k // 2) 2^k] by explicit index arithmetic."""
    Z = np.empty([4] * q)
    for idx in np.ndindex(*([4] * q)):
        i = sum((m % 2) << k for k, m in enumerate(idx))
        j = sum((m // 2) << k for k, m in enumerate(idx))
        Z[idx] = M[i, j]
    return Z


def prop_matrix(case, ctx):
    q = case["q"]
    N = 2 ** q
    rng = np.random.default_rng(case["seed"])
    kind = case["kind"]
    if kind == "gauss":
        M = rng.normal(size=(N, N))
    elif kind == "lowrank":
        M = rng.normal(size=(N, 2)) @ rng.normal(size=(2, N))
    elif kind == "kron":
        M = np.ones((1, 1))
        for _ in range(q):
            M = np.kron(rng.normal(size=(2, 2)), M)
    else:
        M = rng.integers(-3, 4, size=(N, N)).astype(float)
    M = M * 10.0 ** case["scale10"]
    nrm = fro(M)
    e = max(nrm, 1e-300) * 10.0 ** case["log10e"]
    cap = cap_value(case)
    ctx.label("kind:" + kind, f"q={q}", "cap:" + case["cap"])
    Y = ctx.lib(teneva.svd_matrix, as_table(M, case.get("store"), ctx), e, cap)
    Z = interleave(M, q)
    if q == 1:
        why = oracle.wellformed(Y, [4], int_ok=True)       # (the only core is the reshaped matrix itself: an integer table stays one)
        ctx.check(why is None, f"svd_matrix: {why}")
        back = ctx.lib(teneva.full_matrix, Y)
        ctx.check(np.array_equal(back, M), "full_matrix(svd_matrix(M)) != M for q = 1")
        return
    T = [None] + [tails(unfold_svals(Z, k)) for k in range(1, q)]
    rk, err, cut, binds = check_ttsvd(ctx, Z, Y, e, cap, T, "svd_matrix (after index interleaving)")
    back = ctx.lib(teneva.full_matrix, Y)
    ctx.check(back.shape == (N, N), "full_matrix: wrong shape", shape=back.shape)
    # full_matrix must be the exact inverse of the interleaving on whatever tensor svd_matrix returned
    ctx.check(np.array_equal(interleave(back, q), ctx.lib(teneva.full, Y)) , "full_matrix does not invert the index interleaving of svd_matrix")
    if not binds:
        fl = 64 * EPS * max(rk) * q * nrm
        ctx.check(fro(back - M) <= e * math.sqrt(q - 1) * (1 + 1e-9) + fl, "full_matrix(svd_matrix(M, e)) differs from M by more than e*sqrt(q-1)",
                  err=fro(back - M), e=e)
    # same result as svd of the explicitly interleaved array
    Y2 = ctx.lib(teneva.svd, Z, e, cap)
    ctx.check(oracle.ranks_of(Y2) == rk, "svd_matrix ranks differ from svd of the interleaved array", a=rk, b=oracle.ranks_of(Y2))
    ctx.check(fro(dense(Y2) - dense(Y)) <= 64 * EPS * q * max(rk) * nrm * 16, "svd_matrix differs from svd of the interleaved array")
    ctx.nontrivial(cut or q >= 2)


# ------------------------------------------------------------------------------------------- truncated factorisations

@st.composite
def fact_cases(draw, tier):
    m = draw(st.integers(1, 10 if tier == "quick" else 24))
    n = draw(st.integers(1, 10 if tier == "quick" else 24))
    if draw(st.integers(0, 7)) == 0:
        # a very wide / very tall matrix (the first unfolding of a long tensor: 4 x 1296, 2 x 2048): aspect ratio 100..300
        m = draw(st.integers(1, 4))
        n = m * draw(st.integers(100, 300))
        if draw(st.booleans()):
            m, n = n, m
    q = min(m, n)
    return {"m": m, "n": n, "seed": draw(gen.seeds),
            "sfam": draw(st.sampled_from(["geometric", "clustered", "repeated", "gapped", "lowrank", "gauss", "smallint"])),
            "ratio": draw(st.sampled_from([0.7, 0.3, 0.1, 1e-2, 1e-3])), "rk": draw(st.integers(1, q)),
            "scale10": draw(st.sampled_from([0, 0, 3, -3, 6, -6, 9, -9, 12, -12])),
            "emode": draw(st.sampled_from(["log", "adjacent"])), "log10e": draw(st.floats(-14, 0.3, allow_nan=False)),
            "qsel": draw(st.integers(0, 30)), "side": draw(st.sampled_from([-1, 1])),
            "cap": draw(st.sampled_from(["none", "none", "int", "float", "one"])), "capv": draw(st.integers(1, 8)),
            "rel": draw(st.booleans()), "give_to": draw(st.sampled_from(["m", "l", "r"])),
            "sym": draw(st.booleans()) and max(m, n) <= 24, "routine": draw(st.sampled_from(["skeleton", "skeleton", "svd"])),
            "store": draw(st.sampled_from(["float64", "int64", "int32"]))}


def build_matrix(case):
    rng = np.random.default_rng(case["seed"])
    m, n = case["m"], case["n"]
    f = case["sfam"]
    if case["sym"]:
        n = m
    q = min(m, n)
    if f == "gauss":
        A = rng.normal(size=(m, n))
    elif f == "smallint":
        A = rng.integers(-3, 4, size=(m, n)).astype(float)
    else:
        j = np.arange(q, dtype=float)
        rk = min(case["rk"], q)
        if f == "geometric":
            s = case["ratio"] ** j
        elif f == "clustered":
            s = np.where(j < (q + 1) // 2, 1.0 + 1e-3 * j, case["ratio"] * (1.0 + 1e-3 * j))
        elif f == "repeated":
            s = np.where(j < (q + 1) // 2, 1.0, case["ratio"])
        elif f == "gapped":
            s = np.where(j < 1, 1.0, case["ratio"] ** 3 * 0.5 ** j)
        else:
            s = np.where(j < rk, 1.0 / (1 + j), 0.0)
        U, _ = np.linalg.qr(rng.normal(size=(m, q)))
        V, _ = np.linalg.qr(rng.normal(size=(n, q)))
        if case["sym"]:
            V = U * np.where(rng.integers(0, 2, size=q) == 0, 1.0, -1.0)
        A = (U * s) @ V.T
    if case["sym"]:
        A = (A + A.T) / 2
    return A * 10.0 ** case["scale10"]


def prop_fact(case, ctx):
    A = build_matrix(case)
    m, n = A.shape
    s = np.linalg.svd(A, compute_uv=False)
    s0 = float(s[0])
    if s0 == 0:
        ctx.label("zero_matrix_skipped")        # relative tails undefined; C11 covers finiteness
        return
    rel = case["rel"]
    routine = case["routine"]
    if routine == "svd":
        rel = False
    t = tails(s)
    tt = t / s0 if rel else t
    e = (1.0 if rel else s0) * 10.0 ** case["log10e"]
    if case["emode"] == "adjacent":
        c = [float(tt[q]) for q in range(1, len(tt) - 1) if tt[q] > 1e-12 * (1.0 if rel else s0)]
        if c:
            e = c[case["qsel"] % len(c)] * (1 + case["side"] * 1e-3)
            ctx.label("threshold_adjacent")
    cap = cap_value(case)
    capi = max(1, int(cap))
    ctx.label("routine:" + routine, f"rel={rel}", "give_to:" + case["give_to"], "sfam:" + case["sfam"], "sym" if case["sym"] else "nonsym")
    herm = bool(case["sym"]) and routine == "skeleton"
    if routine == "skeleton":
        U, V = ctx.lib(teneva.matrix_skeleton, as_table(A, case.get("store"), ctx), e, cap, hermitian=herm, rel=rel, give_to=case["give_to"])
    else:
        U, V = ctx.lib(teneva.matrix_svd, as_table(A, case.get("store"), ctx), e, cap)
    ctx.check(U.ndim == 2 and V.ndim == 2 and U.shape[0] == m and V.shape[1] == n and U.shape[1] == V.shape[0],
              "factor shapes are inconsistent", U=U.shape, V=V.shape)
    ctx.check(np.all(np.isfinite(U)) and np.all(np.isfinite(V)), "non-finite factor")
    q = U.shape[1]
    ctx.check(1 <= q <= capi, "inner size exceeds max(1, r)", q=q, cap=cap)
    full = len(s)
    # expected size: smallest q with tail(q) <= e (relative to s0 when requested), at least 1, at most the cap
    scale = 1.0 if rel else s0
    fl_dec = (64 * EPS * (m + n)) if routine == "skeleton" else 8 * math.sqrt(EPS * min(m, n))   # in units of s0
    fl_dec_u = fl_dec * (1.0 if rel else s0)
    lo = next((k for k in range(len(tt)) if tt[k] <= e * (1 + 1e-6) + fl_dec_u), full)     # most aggressive admissible
    hi = next((k for k in range(len(tt)) if tt[k] <= e * (1 - 1e-6) - fl_dec_u), full)     # most conservative admissible
    lo_q, hi_q = max(1, min(capi, lo)), max(1, min(capi, hi))
    size_claim = routine == "skeleton" or e >= 1e-6 * scale
    if size_claim:
        ctx.check(lo_q <= q <= hi_q, "inner size is not the smallest one whose discarded tail energy is <= e",
                  q=q, admissible=[lo_q, hi_q], e=e, svals=s[:8].tolist(), rel=rel)
    err = fro(A - U @ V)
    fl = fl_dec * s0
    tq = float(t[min(q, full)])
    ctx.check(err <= tq * (1 + 1e-9) + fl, "U V is not the best approximation of its size (error exceeds the discarded tail)",
              err=err, tail=tq, floor=fl, q=q)
    ctx.check(err >= tq * (1 - 1e-9) - fl, "error below the Eckart-Young bound: reference inconsistent", err=err, tail=tq)
    if routine == "svd" and q < capi and not rel:
        ctx.check(err <= e + fl, "matrix_svd: error exceeds e although the cap does not bind", err=err, e=e, floor=fl)
    # distribution of the singular values between the factors
    tolI = 64 * EPS * (m + n)
    if routine == "skeleton":
        g = case["give_to"]
        if g == "l":
            ctx.check(np.max(np.abs(V @ V.T - np.eye(q))) <= tolI, "give_to='l': rows of V are not orthonormal")
        elif g == "r":
            ctx.check(np.max(np.abs(U.T @ U - np.eye(q))) <= tolI, "give_to='r': columns of U are not orthonormal")
        else:
            D = np.diag(s[:q])
            ctx.check(np.max(np.abs(U.T @ U - D)) <= tolI * s0 and np.max(np.abs(V @ V.T - D)) <= tolI * s0,
                      "give_to='m': U^T U and V V^T are not diag(s)")
    else:
        # rows of V are u_j^T A / w_j with w_j = sqrt(eigenvalue): relative error of w_j is ~eps (s0/s_j)^2
        keep = s[:q] > 1e-3 * s0
        G = V @ V.T
        idx = np.where(keep)[0]
        if len(idx):
            w = (s0 / s[idx]) ** 2
            tolG = 64 * EPS * (m + n) * np.sqrt(np.outer(w, w))
            D = np.abs(G[np.ix_(idx, idx)] - np.eye(len(idx)))
            ctx.check(bool(np.all(D <= tolG)), "matrix_svd: rows of V are not orthonormal", defect=float(np.max(D / tolG)))
    ctx.nontrivial(q < full or case["emode"] == "adjacent")


# ------------------------------------------------------------------------------------------- exact ties of the tail test

# multisets of small integer singular values whose tails contain perfect squares: tail^2 == e^2 holds exactly in binary64
TIE_SPECTRA = [[5, 4, 3], [13, 12, 5], [10, 8, 6], [8, 2, 2, 2, 2], [3, 2, 2, 1], [17, 15, 8], [7, 4, 4, 1], [9, 6, 6, 3], [6, 3, 2, 2, 2, 2, 1],
               [5, 5, 4, 3], [25, 24, 7], [4, 2, 2, 2, 2], [12, 4, 3], [15, 12, 9], [2, 1, 1, 1, 1]]


@st.composite
def tie_cases(draw, tier):
    return {"spec": draw(st.sampled_from(TIE_SPECTRA)), "pow2": draw(st.integers(-40, 40)), "q": draw(st.integers(0, 8)),
            "pad_rows": draw(st.integers(0, 3)), "pad_cols": draw(st.integers(0, 3)), "perm_seed": draw(gen.seeds),
            "rel": draw(st.booleans()), "give_to": draw(st.sampled_from(["m", "l", "r"])), "routine": draw(st.sampled_from(["skeleton", "svd", "ttsvd"])),
            "off": draw(st.sampled_from([0, 0, 0, 1, -1]))}


def prop_ties(case, ctx):
    """A signed permutation of diag(s) has singular values s exactly; with integer s the tail energies are exact integers, so
    'smallest size whose discarded tail energy is <= e' is decidable without tolerance, including e exactly AT a threshold."""
    sv = case["spec"]
    k = len(sv)
    rng = np.random.default_rng(case["perm_seed"])
    m, n = k + case["pad_rows"], k + case["pad_cols"]
    A = np.zeros((m, n))
    rows, cols = rng.permutation(m)[:k], rng.permutation(n)[:k]
    for j in range(k):
        A[rows[j], cols[j]] = sv[j] * (1 if rng.integers(0, 2) else -1)
    scale = 2.0 ** case["pow2"]
    A = A * scale
    s_lib = np.linalg.svd(A, compute_uv=False)
    if not np.array_equal(s_lib[:k], np.array(sv, dtype=float) * scale):
        ctx.label("svd_not_exact_skipped")
        return
    tails2 = [sum(x * x for x in sv[q:]) for q in range(k + 1)]          # exact integers, tails2[q] = energy discarded at size q
    squares = [q for q in range(1, k) if int(round(tails2[q] ** 0.5)) ** 2 == tails2[q]]
    if not squares:
        ctx.label("no_square_tail_skipped")
        return
    qt = squares[case["q"] % len(squares)]
    root = int(round(tails2[qt] ** 0.5))
    off = case["off"]
    rel = case["rel"] and case["routine"] == "skeleton"
    # e exactly at the threshold (off = 0) or one ulp-scale step beside it
    if rel:
        if sv[0] & (sv[0] - 1):           # s/s[0] is exact only for a power-of-two leading value
            rel = False
    e_int = root
    e = (e_int / sv[0] if rel else e_int * scale)
    if off:
        e = float(np.nextafter(e, e * (2 if off > 0 else 0)))
    e2 = e_int * e_int
    if off == 0:
        expect = next(q for q in range(k + 1) if tails2[q] <= e2)
    elif off > 0:
        expect = next(q for q in range(k + 1) if tails2[q] <= e2)        # just above: same size as at the threshold
    else:
        expect = next(q for q in range(k + 1) if tails2[q] < e2)         # just below: the tail that equals e^2 no longer fits
    expect = max(1, expect)
    ctx.label("routine:" + case["routine"], f"rel={rel}", f"off={off}")
    ctx.nontrivial(off == 0)
    if case["routine"] == "skeleton":
        U, V = ctx.lib(teneva.matrix_skeleton, A, e, 1e12, rel=rel, give_to=case["give_to"])
        got = U.shape[1]
    elif case["routine"] == "svd":
        # matrix_svd works on eigenvalues of A A^T = squares of the singular values: exact integers times a power of four
        U, V = ctx.lib(teneva.matrix_svd, A, e, 1e12)
        got = U.shape[1]
    else:
        Y = ctx.lib(teneva.svd, A, e, 1e12)
        got = Y[0].shape[2]
    if case["routine"] == "svd":
        w = np.linalg.eigvalsh(A @ A.T if m <= n else A.T @ A)
        exact = np.array_equal(np.sort(w)[::-1][:k], (np.array(sv, dtype=float) * scale) ** 2)
        if not exact:
            ctx.label("eigh_not_exact_skipped")
            return
    ctx.check(got == expect, "inner size at an exact threshold is not the smallest one whose discarded tail energy is <= e",
              got=int(got), expected=int(expect), svals=sv, e=e, tail_sq=tails2, off=off, rel=rel)


SUBCHECKS = [
    Sub("exact_ties", prop_ties, strategy=tie_cases, quick=150, thorough=1500),
    Sub("svd", prop_svd, strategy=svd_cases, quick=400, thorough=5000),
    Sub("svd_matrix", prop_matrix, strategy=matrix_cases, quick=60, thorough=600),
    Sub("factorisations", prop_fact, strategy=fact_cases, quick=600, thorough=8000),
]
