"""C18 - grid index <-> point maps round-trip exactly and clamp to the box.

Anchors: teneva/grid.py (grid_flat, grid_prep_opt, grid_prep_opts, ind_to_poi, poi_to_ind, poi_scale),
teneva/stat.py (cdf_getter).

Error model used by the float oracles (u = 2**-53, eps = 2u, M = max(|a|,|b|), ulp(M) = spacing of M):
  * a node computed in binary64 carries an absolute error of a few ulp(M) (the final `+ a` / `+ (a+b)/2` rounds at the
    scale of the box, not of the cell), so "node in the box", "end node == bound" and "node == exact node" are asserted
    with a slack of 8 (uni) / 16 (cheb) / 16..32 (position vs an independently rounded float reference) ulp(M);
  * the resolution precondition (cell >= 2**12 ulp(M); for the Chebyshev grid also the *smallest* cell, the one next to
    the boundary) makes these slacks <= 2**-7 of a cell, so the index round trip is exact for any implementation that
    keeps its node error within a few ulp(M);
  * an arbitrary point x is checked with a backward error: there must be x' with |x'-x| <= 2 ulp(M) such that the returned
    index is within 0.5 + tau of the exact grid parameter t(x') (Fraction arithmetic for `uni`, math.acos of an exactly
    computed, outward-rounded argument for `cheb`).  Ties (t = k + 1/2) and points within 2 ulp(M) of a cell boundary or
    of the box boundary therefore admit both neighbours.
  * the model is relative to the box (ulp(M), cell widths), so it holds unchanged for boxes near the ends of the double range
    (sub-check extreme_boxes, the 8 extra boxes of roundtrip_all_n).  No oracle forms a quantity that can overflow there: the
    node oracles work on the box and the nodes scaled by an exact power of two to M in [0.5, 1) (norm_exp), the point and
    scaling oracles on exact rationals (fractions.Fraction), the generators clamp every point to the finite doubles.
"""
import math
from fractions import Fraction as Fr

import numpy as np
from hypothesis import strategies as st

import harness.core  # noqa: F401  (sets sys.path for the code under test)
from harness.core import Sub

import teneva

LEVEL = "exploration"
EXHAUSTIVE = False
RULE = ("Boxes are built by construction from (magnitude 1e-8..1e8, offset class kappa=|centre|/half-width in {0, ~1, 1e3, "
        "1e6, 1e9}, dyadic boxes with exact ties, boxes with a bound at 0) and widened until the resolution precondition "
        "holds; n in 2..200 (thorough 2..2000), d in 1..4, kinds uni/cheb/custom limits. Every generated (box, n) is "
        "round-tripped over ALL its indices in one case (counted as inner evaluations); roundtrip_all_n enumerates every n of "
        "the tier range on 14 fixed boxes for both kinds. Points: inside, nodes +-3 ulp, cell midpoints +-1 ulp, box bounds "
        "+-3 ulp, outside, far outside. Non-trivial = kappa >= 1e3 or n >= 50 or a midpoint query (maps); shape with d >= 2 "
        "(grid_flat); a list option (prep_opts, reject); duplicates or >= 5 samples (cdf); distinct by SHA-1 of the case. "
        "index_dtypes: index arrays spelled as int8..uint64 / float64 arrays / lists (single sample also as a list of NumPy "
        "scalars), sizes spelled as int / float / NumPy integer scalar / narrow integer array / list of NumPy scalars / "
        "float32-64 array, three width classes: n in 2..300 with ALL indices the dtype can hold, n in 8000..70000 and n in "
        "2**30..2**32 with indices around 0, n/2, n-1, the top of the dtype and a half / a quarter of it; non-trivial = twice "
        "the largest index (or twice n-1) is not representable in the narrow dtype it was passed in. "
        "reject: EVERY (map, kind, d in 1..4, mismatched option(s) a / b / n / ab / abn, length L in {1,2,3,4,6,8} other than d, spelling "
        "list / array / tuple / list or tuple of NumPy scalars, other options as numbers or as length-d sequences, batch of 1..4 "
        "points); each case calls the batch (array and nested list) AND every single point of it. "
        "single_batch: options independently spelled as number / NumPy scalar (float64, float32, int64, int16 where exact) / "
        "list / tuple / array / list or tuple of NumPy scalars, d in 1..4, 1..5 points of all point classes, every row compared; "
        "non-trivial = >= 2 points and a spelling other than number / list / array. "
        "handed_out: a case of any other sub-check (grid_flat x4, prep_opts x3, cdf x2, roundtrip x2, points, scale, forms, "
        "repeat_calls, single_batch, index_dtypes, reject) re-run as a HISTORY: every library call (grid_flat, grid_prep_opt(s), "
        "ind_to_poi, poi_to_ind, poi_scale, cdf_getter and the function it returns) is made twice - first on deep copies of the "
        "arguments, then every returned array is overwritten in place (fill nan / -7, zero, += 1, shuffle, reverse, or a mix), then "
        "on the original arguments - and the sub-check judges the SECOND result; handed_out_small: every shape of grid_flat_small "
        "x 5 overwrites and every case of prep_opts; non-trivial = the inner rule and >= 1 array really changed. "
        "grid_flat_history: d in 1..4, n_k in 1..6 (thorough 1..9), 2..4 calls for one shape spelled list / tuple / int64 array / "
        "int32 array (d == 1: also the scalar spellings), each result overwritten (5 ways) or kept, calls for another shape "
        "(reversed / one more dimension / n_0 + 1) in between, then the round trip over grid_flat(n) on a generated box and "
        "func_gets_full (before / after / both; m as list / array / None) on <= 200 nodes; non-trivial = d >= 2, min n >= 2, "
        ">= 1 array really changed. "
        "extreme_boxes: the cases of roundtrip (x3), points (x2), scale (x2), forms, repeat_calls, single_batch, index_dtypes "
        "with every box (built and widened as above) multiplied by an exact power of two to one of the levels top (M = "
        "max(|a|,|b|) in [4.5e307, 9e307): every offset class, widths up to 1.8e308), toptop (M in [9e307, 1.8e308) where b - a "
        "(uni) / |a| + |b| (cheb) is still finite), high (M = 2**500..2**1020), low / bottom (the smallest non-zero of |a|, |b|, "
        "b - a in 2**-990..2**-500 / in [7.5e-301, 1.5e-300)); custom limits: M <= 2**1000; points of all classes, clamped to the "
        "finite doubles (so 'out' / 'far' points reach +-1.8e308); always non-trivial. roundtrip_all_n additionally enumerates "
        "every n on 8 fixed boxes of these magnitudes ([-8e307, 8e307], [0, 1.7e308], [-1.7e308, 0], [6.1e307, 8.9e307], "
        "[-3.3e305, 1e305], [-3e-300, 3e-300], [0, 1e-300], [1e-300, 1.001e-300]).")
TOLERANCES = ("round trip: exact; node in box / end node: 8 (uni), 16 (cheb) ulp(M); node position vs independent float "
              "reference: 16 / 32 ulp(M); arbitrary point: exists x' within 2 ulp(M) with |I - t(x')| <= 0.5 + 4 eps (n-1) "
              "(uni, Fraction) / 0.5 + 8 eps (n-1) with 8 eps slack on the arccos argument (cheb); poi_scale: 4 eps |r| "
              "(uni), ulp(M)/w + 4 eps |r| (cheb), 8 eps (|x||a'-b'| + |a b'| + |b a'|)/(b-a) + 4 eps |r| (custom limits, "
              "abs-majorant of the library formula), results always inside the target interval, exact bound when the "
              "unclipped value is beyond it by more than the tolerance; option forms: identical bits; single vs batch: "
              "identical bits (uni, poi_scale), 4 ulp(M) (cheb nodes: np.cos on a different array shape); cdf: 4 eps; index / size "
              "dtype spellings vs the int64 / Python-int spelling: identical bits (uni nodes, all indices), 4 ulp(M) (cheb nodes), "
              "plus the 16 / 32 ulp(M) node reference in Python int / float arithmetic; index dtype of poi_to_ind: integer "
              "with max >= n - 1; single_batch: every row of a batch vs its single-point call: identical bits (uni, poi_scale), "
              "4 ulp(M) (cheb nodes), equal or both admissible at a tie (cheb indices); spelled options vs plain lists: identical bits; "
              "handed_out / grid_flat_history: second call vs first call before the overwrite: identical bytes (same routine, equal "
              "arguments of the same shapes and dtypes, same process), np.shares_memory is False; func_gets_full vs func_get_full on "
              "the nodes of the reference flat grid: 1e-9 (1 + max|Z|) (the two are the same computation; a wrong order is O(1)); "
              "extreme_boxes: the same tolerances (they are relative to ulp(M) and the cell width, evaluated after an exact "
              "power-of-two scaling of box and nodes to M in [0.5, 1), resp. in exact rational arithmetic); poi_scale additionally "
              "2**-1072 / (b - a) for intermediates rounded in the subnormal range (< 1e-15 of the target interval for b - a >= 7.5e-301)")
ASSUMPTIONS = [
    "resolution precondition (b-a)/(n-1) >= 2**12 ulp(max(|a|,|b|)); for kind='cheb' additionally "
    "(b-a)/2*(1-cos(pi/(n-1))) >= 2**12 ulp(max(|a|,|b|)) (smallest Chebyshev cell); built in by widening the box",
    "a < b per dimension, n >= 2, finite points, custom limits a_new < b_new with |a_new|,|b_new| <= 2e3",
    "documented option types (int/float scalars, lists, 1-D ndarrays) everywhere; reject and single_batch additionally spell "
    "options as tuples, lists / tuples of NumPy scalars and (a, b; n of ind_to_poi) NumPy scalars: the maps take them through "
    "np.asanyarray like lists (observed on the unmodified tree; a correct-length tuple must give the answer of the list)",
    "reject: an option of a length L != d is asserted to raise ValueError (i) where grid_prep_opts validates it (documented "
    "Note; list / ndarray a, b, and n of ind_to_poi) and (ii) where 2 <= L != d >= 2 (no elementwise operation of [.., L] with "
    "[.., d] exists) - for the batch and for each single point alike.  L == 1 and d == 1 are broadcast by NumPy (or fail with "
    "IndexError in poi_to_ind) on the unmodified tree: there only 'batch accepted <=> every single point accepted' is asserted",
    "grid_flat returns [samples, d] (what func_full passes to ind_to_poi), not the [d, samples] of its docstring",
    "cdf_getter: finite 1-D sample, finite query points",
    "magnitudes: max(|a|,|b|) from 7.5e-301 up to the largest finite doubles for which the quantities the documented formulas "
    "are made of are finite - b - a for kind='uni' (maps and scaling), |a| + |b| (i.e. b - a and b + a) for kind='cheb' - and "
    "widths b - a >= 7.5e-301.  Observed on the unmodified tree and therefore NOT asserted: kind='cheb' with b + a overflowing "
    "(e.g. [1e308, 1.7e308]: ind_to_poi returns inf, poi_scale -1 for every point); kind='cheb' with b - a < 1.2e-308 (2 / (b - a) "
    "is inf: poi_scale returns nan / +-1, the round trip fails); custom limits when |x|, |a|, |b| times |a_new|, |b_new|, "
    "|a_new - b_new| exceeds 1.8e308 (the formula x (a_new - b_new) + a b_new - b a_new overflows: nan or a clipped value): "
    "custom limits are generated for max(|a|,|b|) <= 2**1000 only.  The uniform grid has no such restriction",
    "index_dtypes: every index / size is exactly representable in the dtype it is passed in; float index arrays are float64 "
    "(float32 / float16 index arrays are outside the documented 'multi-indices' and lose precision on the Chebyshev grid); "
    "NumPy integer scalars as n are asserted for ind_to_poi only (poi_to_ind raises IndexError on them for a single point or "
    "d >= 2 - observed, an accepted call must answer correctly); for n >= 2**30 on the Chebyshev grid the smallest cell is "
    "below the resolution precondition, so only the node oracles (no round trip) are asserted there",
    "handed_out / grid_flat_history: an array returned by a routine of the module is the caller's own: overwriting it in place "
    "must not change what any later call returns, and no later call may change it.  Exempt: a result that overlaps an ARGUMENT of "
    "its own call (grid_prep_opt hands back an ndarray argument of the right dtype unchanged) is not compared with results of "
    "earlier calls; the two calls of one history get distinct argument objects, so their results must not overlap.  Read-only "
    "results would be skipped (none on the unmodified tree).  grid_flat is also given a tuple (what func_gets_full passes: A.shape) "
    "and an int32 array; func_gets_full (teneva/func_full.py, the in-library consumer of grid_flat) is compared with func_get_full "
    "on ind_to_poi(reference flat grid), reshaped in Fortran order as its body does",
]

EPS = float(np.finfo(float).eps)
DBL_MAX = float(np.finfo(float).max)
RES = 4096.0
HALF = Fr(1, 2)
# (STRICT_N_LENGTH is gone: "poi_to_ind rejects every n of a wrong length" was a false alarm for d == 1, where a longer list is
#  broadcast; length_verdict() now states per call shape what is asserted and what is only observed.)
TINY = Fr(1, 10 ** 300)
SUBN = Fr(1, 2 ** 1072)                                     # 4 x the spacing of the subnormal doubles


# ------------------------------------------------------------------------------------------- helpers

def ulp(x):
    return float(np.spacing(abs(float(x))))


def scale_of(a, b):
    return max(abs(a), abs(b))


def fin(x):
    """x clamped to the finite doubles (generators only: a point of a case is always a finite number)."""
    return max(-DBL_MAX, min(DBL_MAX, float(x)))


def shift(x, k):
    """x moved by k units in the last place (saturating at the largest finite double)."""
    x = float(x)
    for _ in range(abs(k)):
        x = math.nextafter(x, math.inf if k > 0 else -math.inf)
    return fin(x)


def norm_exp(a, b):
    """e with max(|a|, |b|) * 2**-e in [0.5, 1).  The float oracles on nodes are evaluated on the box and the nodes scaled by
    2**-e: an exact operation (only a value below 2**-1022 * 2**e, 2**-969 of the box scale, is rounded, by < 2**-1074), so
    for a box of ordinary magnitude nothing changes, and for a box near the ends of the double range no reference, slack or
    bound of the oracle can overflow or fall into the subnormals; ulp(M) becomes 2**-53 exactly."""
    return math.frexp(scale_of(a, b))[1]


def down(x, e):
    """x * 2**-e for a float or an array."""
    return np.ldexp(x, -e) if isinstance(x, np.ndarray) else math.ldexp(float(x), -e)


def need_width(a, b, n, kind):
    """Smallest admissible b-a for the resolution precondition (for cheb: both the uniform and the end-cell rule)."""
    u = ulp(scale_of(a, b))
    need = (n - 1) * RES * u
    if kind != "uni":
        need = max(need, 2.0 * RES * u / (1.0 - math.cos(math.pi / (n - 1))))
    return need


def widen(a, b, n, kind):
    """Precondition by construction: keep a, move b up until the box resolves n nodes."""
    for _ in range(32):
        need = need_width(a, b, n, kind)
        if b - a >= need:
            return a, b
        b = a + 1.01 * need
    raise AssertionError("widen did not converge")


def require_pre(a, b, n, kind):
    if not (a < b and n >= 2 and b - a >= need_width(a, b, n, kind)):
        raise AssertionError(f"case violates the resolution precondition: {a!r} {b!r} {n} {kind}")


def kappa_of(a, b):
    e = norm_exp(a, b)
    a, b = down(a, e), down(b, e)
    return abs(a + b) / (b - a)


def param_point(kind, a, b, n, t):
    """Float point with grid parameter ~t (used by generators only)."""
    e = norm_exp(a, b)                                    # scaled: t * (b - a) and a + b must not overflow for a huge box
    a, b = down(a, e), down(b, e)
    if kind == "uni":
        return fin(np.ldexp(a + t * (b - a) / (n - 1), e))
    return fin(np.ldexp((a + b) / 2 + (b - a) / 2 * math.cos(math.pi * t / (n - 1)), e))


def pass_opt(vals, form, as_float=False):
    if form == "scalar":
        if any(v != vals[0] for v in vals):
            raise AssertionError("scalar form needs equal options")
        return float(vals[0]) if as_float else vals[0]
    if form == "array":
        return np.array(vals)
    return list(vals)


def clampF(x, lo, hi):
    return lo if x < lo else (hi if x > hi else x)


def index_bounds(kind, x, a, b, n):
    """Inclusive range [jlo, jhi] of the indices admissible for the point x (see the error model in the module doc)."""
    A, B, X = Fr(a), Fr(b), Fr(x)
    dx = 2 * Fr(ulp(scale_of(a, b)))
    if kind == "uni":
        tl = clampF((X - dx - A) / (B - A) * (n - 1), Fr(0), Fr(n - 1))
        th = clampF((X + dx - A) / (B - A) * (n - 1), Fr(0), Fr(n - 1))
        tau = Fr(4 * EPS * (n - 1))
        lo, hi = tl - HALF - tau, th + HALF + tau
        jlo, jhi = math.ceil(lo), math.floor(hi)
    else:
        mid, w = (A + B) / 2, (B - A) / 2
        drel = Fr(8 * EPS)
        sh = clampF((X + dx - mid) / w + drel, Fr(-1), Fr(1))
        sl = clampF((X - dx - mid) / w - drel, Fr(-1), Fr(1))
        shf = min(1.0, math.nextafter(float(sh), math.inf))
        slf = max(-1.0, math.nextafter(float(sl), -math.inf))
        tl = math.acos(shf) / math.pi * (n - 1)
        th = math.acos(slf) / math.pi * (n - 1)
        tau = 8 * EPS * (n - 1)
        jlo, jhi = math.ceil(tl - 0.5 - tau), math.floor(th + 0.5 + tau)
    return max(jlo, 0), min(jhi, n - 1)


def node_reference(kind, a, b, n):
    """Independently rounded float nodes of one dimension and the comparison slack in ulp(M)."""
    i = np.arange(n)
    if kind == "uni":
        return a + (i * (b - a)) / (n - 1), 16.0
    return (a + b) / 2 + (b - a) / 2 * np.sin(np.pi * (n - 1 - 2 * i) / (2 * (n - 1))), 32.0


def is_int_array(J):
    return isinstance(J, np.ndarray) and J.dtype.kind == "i"


def is_float_array(X):
    return isinstance(X, np.ndarray) and X.dtype.kind == "f"


# ------------------------------------------------------------------------------------------- box generators

KAPPA = {"k1": 1.0, "k1e3": 1e3, "k1e6": 1e6, "k1e9": 1e9}
BOX_CLASSES = ["k0", "k1", "k1e3", "k1e6", "k1e9", "dyadic", "zero_edge"]


@st.composite
def raw_boxes(draw):
    cls = draw(st.sampled_from(BOX_CLASSES))
    if cls == "dyadic":
        sh = draw(st.integers(-6, 6))
        p = draw(st.integers(-64, 64))
        q = draw(st.integers(1, 128))
        return cls, math.ldexp(p, sh), math.ldexp(p + q, sh)
    e = draw(st.integers(-8, 7))
    m = draw(st.floats(1.0, 10.0, exclude_max=True, allow_nan=False))
    s = m * 10.0 ** e                                   # 1e-8 <= s < 1e8
    if cls == "k0":
        return cls, -s, s
    if cls == "zero_edge":
        return (cls, 0.0, s) if draw(st.booleans()) else (cls, -s, 0.0)
    sign = draw(st.sampled_from([-1.0, 1.0]))
    f = draw(st.floats(0.5, 2.0, allow_nan=False))
    c = sign * s
    w = s * f / KAPPA[cls]
    return cls, c - w, c + w


def n_strategy(tier):
    nmax = 200 if tier == "quick" else 2000
    return st.one_of(st.integers(2, 9), st.integers(2, 64), st.integers(2, nmax), st.sampled_from([2, 3, 5, 9, 17, 33, 65, 129]))


# Boxes near the ends of the double range.  A box of ordinary magnitude (built and widened as above) is multiplied by 2**E -
# exactly, so the resolution precondition carries over as it is - to one of these levels (M = max(|a|, |b|), w = b - a):
#   top     M in [2**1022, 2**1023) = [4.5e307, 9e307): b - a <= 1.8e308 and a + b are both finite for every offset class;
#   toptop  M in [2**1023, 2**1024) = [9e307, 1.8e308), only where what the formulas of the kind need is still finite: b - a for
#           the uniform grid (every box that does not contain 0 in its interior, e.g. [1e308, 1.7e308], and [-a, b] with
#           a + b <= 1.8e308), |a| + |b| for the Chebyshev grid ([0, 1.7e308], [-4e307, 1.3e308]; the library forms b + a as
#           well as b - a and returns inf when it overflows - outside what it delivers, see ASSUMPTIONS);
#   high    M = 2**500 .. 2**1020 (3e150 .. 1e307);
#   low     the smallest non-zero of |a|, |b|, w in 2**-990 .. 2**-500 (1e-298 .. 3e-151);
#   bottom  the smallest non-zero of |a|, |b|, w in [2**-997, 2**-996) = [7.5e-301, 1.5e-300).
# Custom limits (|a_new|, |b_new| <= 2e3): M <= 2**1000 (1e301), because the library evaluates x (a_new - b_new) + a b_new -
# b a_new, whose terms must stay finite (see ASSUMPTIONS).
LEVELS = {"uni": ["top", "top", "toptop", "high", "low", "bottom"], "cheb": ["top", "top", "toptop", "high", "low", "bottom"],
          "custom": ["ctop", "chigh", "low", "bottom"]}


@st.composite
def to_extreme(draw, kind, a, b):
    """(level, a * 2**E, b * 2**E) for a drawn level of the kind."""
    lv = draw(st.sampled_from(LEVELS["uni" if kind == "uni" else ("cheb" if kind == "cheb" else "custom")]))
    ex = math.frexp(scale_of(a, b))[1]
    if lv == "toptop" and not (b - a if kind == "uni" else abs(a) + abs(b)) < math.ldexp(1.0, ex):
        lv = "top"
    exs = math.frexp(min(v for v in (abs(a), abs(b), b - a) if v > 0.0))[1]
    if lv == "top":
        E = 1023 - ex
    elif lv == "toptop":
        E = 1024 - ex
    elif lv == "high":
        E = draw(st.integers(500, 1020)) - ex
    elif lv == "ctop":
        E = 1000 - ex
    elif lv == "chigh":
        E = draw(st.integers(500, 1000)) - ex
    elif lv == "low":
        E = -draw(st.integers(500, 990)) - exs
    else:
        E = -996 - exs
    A, B = math.ldexp(a, E), math.ldexp(b, E)
    if not (math.ldexp(A, -E) == a and math.ldexp(B, -E) == b and math.isfinite(B - A) and A < B
            and (kind == "uni" or math.isfinite(A + B))):
        raise AssertionError(f"inexact scaling of the box {a!r} {b!r} by 2**{E}")
    return lv, A, B


@st.composite
def boxes_with_n(draw, tier, kind, d, same, extreme=False):
    """d boxes with grid sizes; `same` => one box replicated (scalar option forms); `extreme` => scaled by to_extreme."""
    out = []
    for k in range(1 if same else d):
        cls, a, b = draw(raw_boxes())
        n = draw(n_strategy(tier))
        b0 = b
        a, b = widen(a, b, n, kind)
        if b != b0:
            cls += "+widened"
        if extreme:
            lv, a, b = draw(to_extreme(kind, a, b))
            cls += "@" + lv
        out.append((cls, a, b, n))
    if same:
        out = out * d
    return [o[0] for o in out], [o[1] for o in out], [o[2] for o in out], [o[3] for o in out]


# ------------------------------------------------------------------------------------------- round trip over all indices

@st.composite
def roundtrip_cases(draw, tier, extreme=False):
    kind = draw(st.sampled_from(["uni", "cheb"]))
    d = draw(st.integers(1, 4))
    form = draw(st.sampled_from(["list", "array", "scalar"]))
    cls, a, b, n = draw(boxes_with_n(tier, kind, d, form == "scalar", extreme))
    return {"kind": kind, "a": a, "b": b, "n": n, "form": form, "nfloat": draw(st.booleans()),
            "row": draw(st.integers(0, max(n) - 1)), "cls": cls}


def prop_roundtrip(case, ctx):
    kind, a, b, n, form = case["kind"], case["a"], case["b"], case["n"], case["form"]
    d = len(a)
    for k in range(d):
        require_pre(a[k], b[k], n[k], kind)
    nmax = max(n)
    I = np.minimum(np.arange(nmax)[:, None], np.array(n, dtype=int)[None, :] - 1)       # column k runs over 0..n_k-1
    aa, bb = pass_opt(a, form), pass_opt(b, form)
    nn = pass_opt(n, form, as_float=case.get("nfloat", False))

    X = ctx.lib(teneva.ind_to_poi, I, aa, bb, nn, kind)
    ctx.check(is_float_array(X) and X.shape == (nmax, d), "ind_to_poi: result is not a float array [samples, d]",
              got=repr(getattr(X, "shape", None)))
    ctx.check(bool(np.all(np.isfinite(X))), "ind_to_poi: non-finite node")
    for k in range(d):
        # everything below on the box and the nodes scaled by 2**-e to M in [0.5, 1) (exact, see norm_exp): u = ulp(M) = 2**-53
        e = norm_exp(a[k], b[k])
        ak, bk, xk = down(a[k], e), down(b[k], e), down(X[:n[k], k], e)
        u = ulp(scale_of(ak, bk))
        slack = (8.0 if kind == "uni" else 16.0) * u
        info = dict(kind=kind, dim=k, a=a[k], b=b[k], n=n[k], ulp_M=ulp(scale_of(a[k], b[k])))
        first, last = (ak, bk) if kind == "uni" else (bk, ak)
        ctx.check(abs(xk[0] - first) <= slack, "index 0 is not mapped to the documented end of the box",
                  got=float(X[0, k]), want=a[k] if kind == "uni" else b[k], **info)
        ctx.check(abs(xk[-1] - last) <= slack, "index n-1 is not mapped to the documented end of the box",
                  got=float(X[n[k] - 1, k]), want=b[k] if kind == "uni" else a[k], **info)
        j = int(np.argmax(np.maximum(ak - xk, xk - bk)))
        ctx.check(ak - slack <= xk[j] <= bk + slack, "node outside the box", index=j, got=float(X[j, k]), **info)
        ref, ktol = node_reference(kind, ak, bk, n[k])
        j = int(np.argmax(np.abs(xk - ref)))
        ctx.check(abs(xk[j] - ref[j]) <= ktol * u, "node is not the grid node of its index",
                  index=j, got=float(X[j, k]), ref_scaled=float(ref[j]), got_scaled=float(xk[j]), scaled_by=f"2**-{e}", tol_ulp_M=ktol, **info)

    J = ctx.lib(teneva.poi_to_ind, X, aa, bb, nn, kind)
    ctx.check(is_int_array(J) and J.shape == (nmax, d), "poi_to_ind: result is not an int array [samples, d]",
              got=repr(getattr(J, "shape", None)))
    if not np.array_equal(J, I):
        r, k = [int(v[0]) for v in np.nonzero(J != I)]
        ctx.check(False, "poi_to_ind(ind_to_poi(i)) != i", kind=kind, dim=k, a=a[k], b=b[k], n=n[k], index=int(I[r, k]),
                  back=int(J[r, k]), point=float(X[r, k]))
    ctx.inner(int(sum(n)))

    # the same node through the single-sample spelling
    r = case["row"] % nmax
    x1 = ctx.lib(teneva.ind_to_poi, I[r], aa, bb, nn, kind)
    ctx.check(is_float_array(x1) and x1.shape == (d,), "ind_to_poi(single): result is not a float vector of length d")
    if kind == "uni":
        ctx.check(np.array_equal(x1, X[r]), "ind_to_poi: single sample differs from the batch row", row=r)
    else:
        tol = np.array([4 * ulp(scale_of(a[k], b[k])) for k in range(d)])
        ctx.check(bool(np.all(np.abs(x1 - X[r]) <= tol)), "ind_to_poi: single sample differs from the batch row", row=r)
    j1 = ctx.lib(teneva.poi_to_ind, X[r], aa, bb, nn, kind)
    ctx.check(is_int_array(j1) and j1.shape == (d,), "poi_to_ind(single): result is not an int vector of length d")
    ctx.check(np.array_equal(j1, I[r]), "poi_to_ind(single)(ind_to_poi(i)) != i", row=r, got=j1, want=I[r])

    kap = max(kappa_of(a[k], b[k]) for k in range(d))
    ctx.label("kind:" + kind, "form:" + form, "d:%d" % d, *("box:" + c for c in case.get("cls", [])))
    ctx.label("kappa>=1e3" if kap >= 1e3 else "kappa<1e3", "n>=50" if nmax >= 50 else "n<50")
    ctx.nontrivial(kap >= 1e3 or nmax >= 50)


def fixed_boxes():
    """14 fixed boxes: magnitudes 1e-8, 1, 1e8 x offset classes, non-dyadic mantissas, both signs, a bound at zero; and 8 boxes
    at the ends of the double range (b - a and a + b finite: widths up to 1.7e308, bounds up to 8.9e307, down to 1e-300)."""
    out = [(-8e307, 8e307), (0.0, 1.7e308), (-1.7e308, 0.0), (6.1e307, 8.9e307), (-3.3e305, 1.0e305),
           (-3e-300, 3e-300), (0.0, 1e-300), (1e-300, 1.001e-300)]
    for s in (3.7e-8, 1.0, 7.3e7):
        out.append((-s, s))
        out.append((0.0, s))
        out.append((s * (1 - 1e-3), s * (1 + 1e-3)))
        out.append((-s * (1 + 1e-6), -s * (1 - 1e-6)))
    out.append((-1.0, 3.0))
    out.append((0.1, 0.7))
    return out


def all_n_cases(tier, shard, nshards):
    nmax = 200 if tier == "quick" else 2000
    j = 0
    for n in range(2, nmax + 1):
        for kind in ("uni", "cheb"):
            if j % nshards == shard:
                ab = [widen(a, b, n, kind) for a, b in fixed_boxes()]
                yield {"kind": kind, "a": [p[0] for p in ab], "b": [p[1] for p in ab], "n": [n] * len(ab),
                       "form": "list", "nfloat": False, "row": n // 2, "cls": []}
            j += 1


# ------------------------------------------------------------------------------------------- arbitrary points

POINT_CLASSES = ["in", "node", "mid", "edge", "out", "far"]


@st.composite
def coords(draw, kind, a, b, n):
    cls = draw(st.sampled_from(POINT_CLASSES))
    pk = "uni" if kind == "uni" else "cheb"
    if cls == "in":
        x = min(max(a + draw(st.floats(0.0, 1.0, allow_nan=False)) * (b - a), a), b)       # b - a is finite, the factor <= 1
    elif cls == "node":
        x = shift(param_point(pk, a, b, n, float(draw(st.integers(0, n - 1)))), draw(st.integers(-3, 3)))
    elif cls == "mid":
        x = shift(param_point(pk, a, b, n, draw(st.integers(0, n - 2)) + 0.5), draw(st.integers(-1, 1)))
    elif cls == "edge":
        x = shift(draw(st.sampled_from([a, b])), draw(st.integers(-3, 3)))
    elif cls == "out":
        g = draw(st.sampled_from([1e-9, 1e-3, 0.5, 1.0, 1e3]))
        x = fin(b + (b - a) * g if draw(st.booleans()) else a - (b - a) * g)             # saturates at +-DBL_MAX for a huge box
    else:
        x = draw(st.sampled_from([-1.0, 1.0])) * fin(draw(st.sampled_from([1e300, 1e6 * scale_of(a, b), 1e3])))
    return cls, float(x)


@st.composite
def point_cases(draw, tier, extreme=False):
    kind = draw(st.sampled_from(["uni", "cheb"]))
    d = draw(st.integers(1, 4))
    form = draw(st.sampled_from(["list", "array", "scalar"]))
    cls, a, b, n = draw(boxes_with_n(tier, kind, d, form == "scalar", extreme))
    m = draw(st.integers(1, 6 if tier == "quick" else 12))
    X, C = [], []
    for _ in range(m):
        row = [draw(coords(kind, a[k], b[k], n[k])) for k in range(d)]
        X.append([r[1] for r in row])
        C.append([r[0] for r in row])
    return {"kind": kind, "a": a, "b": b, "n": n, "form": form, "nfloat": draw(st.booleans()), "X": X, "pcls": C,
            "row": draw(st.integers(0, m - 1)), "xarr": draw(st.booleans()), "cls": cls}


def prop_points(case, ctx):
    kind, a, b, n, form = case["kind"], case["a"], case["b"], case["n"], case["form"]
    d = len(a)
    for k in range(d):
        require_pre(a[k], b[k], n[k], kind)
    X = case["X"]
    m = len(X)
    Xarg = np.array(X, dtype=float) if case["xarr"] else X
    aa, bb = pass_opt(a, form), pass_opt(b, form)
    nn = pass_opt(n, form, as_float=case.get("nfloat", False))
    J = ctx.lib(teneva.poi_to_ind, Xarg, aa, bb, nn, kind)
    ctx.check(is_int_array(J) and J.shape == (m, d), "poi_to_ind: result is not an int array [samples, d]",
              got=repr(getattr(J, "shape", None)))
    r = case["row"] % m
    j1 = ctx.lib(teneva.poi_to_ind, Xarg[r], aa, bb, nn, kind)
    ctx.check(is_int_array(j1) and j1.shape == (d,), "poi_to_ind(single): result is not an int vector of length d")
    if kind == "uni":
        ctx.check(np.array_equal(j1, J[r]), "poi_to_ind: single point differs from the batch row", row=r, single=j1, batch=J[r])

    def one(got, x, k, what):
        got = int(got)
        info = dict(kind=kind, dim=k, a=a[k], b=b[k], n=n[k], x=x, got=got)
        ctx.check(0 <= got <= n[k] - 1, what + ": index outside 0..n-1", **info)
        if x >= b[k]:
            ctx.check(got == (n[k] - 1 if kind == "uni" else 0), what + ": point at/above the upper bound is not mapped to the boundary index", **info)
        elif x <= a[k]:
            ctx.check(got == (0 if kind == "uni" else n[k] - 1), what + ": point at/below the lower bound is not mapped to the boundary index", **info)
        jlo, jhi = index_bounds(kind, x, a[k], b[k], n[k])
        if jhi > jlo:
            ctx.label("two_admissible_indices")
        ctx.check(jlo <= got <= jhi, what + ": not the index of a nearest node in the grid parameter", jlo=jlo, jhi=jhi, **info)

    for i in range(m):
        for k in range(d):
            one(J[i, k], X[i][k], k, "poi_to_ind")
    for k in range(d):
        one(j1[k], X[r][k], k, "poi_to_ind(single)")

    pc = {c for row in case.get("pcls", []) for c in row}
    kap = max(kappa_of(a[k], b[k]) for k in range(d))
    ctx.label("kind:" + kind, "form:" + form, "d:%d" % d, *("pt:" + c for c in pc))
    ctx.label("kappa>=1e3" if kap >= 1e3 else "kappa<1e3", "n>=50" if max(n) >= 50 else "n<50")
    ctx.nontrivial(kap >= 1e3 or max(n) >= 50 or "mid" in pc)


# ------------------------------------------------------------------------------------------- poi_scale

@st.composite
def scale_cases(draw, tier, extreme=False):
    kind = draw(st.sampled_from(["uni", "cheb", "custom"]))
    d = draw(st.integers(1, 4))
    form = draw(st.sampled_from(["list", "array", "scalar"]))
    cls, a, b, n = draw(boxes_with_n(tier, kind, d, form == "scalar", extreme))
    m = draw(st.integers(1, 6 if tier == "quick" else 12))
    X, C = [], []
    for _ in range(m):
        row = [draw(coords(kind, a[k], b[k], n[k])) for k in range(d)]
        X.append([r[1] for r in row])
        C.append([r[0] for r in row])
    case = {"kind": kind, "a": a, "b": b, "form": form, "X": X, "pcls": C, "row": draw(st.integers(0, m - 1)),
            "xarr": draw(st.booleans()), "cls": cls}
    if kind == "custom":
        lo = draw(st.one_of(st.integers(-5, 5).map(float), st.floats(-1e3, 1e3, allow_nan=False)))
        wd = draw(st.one_of(st.integers(1, 5).map(float), st.floats(1e-3, 1e3, allow_nan=False)))
        hi = lo + wd
        if not hi > lo:
            hi = lo + 1.0
        case["lim"] = [lo, hi]
        case["lim_form"] = draw(st.sampled_from(["list", "tuple", "int"]))
    return case


def prop_scale(case, ctx):
    kind, a, b, form = case["kind"], case["a"], case["b"], case["form"]
    d = len(a)
    X = case["X"]
    m = len(X)
    for k in range(d):
        if not a[k] < b[k]:
            raise AssertionError("box")
    if kind == "custom":
        lo, hi = case["lim"]
        karg = list(case["lim"])
        if case["lim_form"] == "int" and lo == int(lo) and hi == int(hi):
            karg = [int(lo), int(hi)]
        elif case["lim_form"] == "tuple":
            karg = tuple(karg)
    else:
        lo, hi = (0.0, 1.0) if kind == "uni" else (-1.0, 1.0)
        karg = kind
    Xarg = np.array(X, dtype=float) if case["xarr"] else X
    aa, bb = pass_opt(a, form), pass_opt(b, form)
    S = ctx.lib(teneva.poi_scale, Xarg, aa, bb, karg)
    ctx.check(is_float_array(S) and S.shape == (m, d), "poi_scale: result is not a float array of the shape of X",
              got=repr(getattr(S, "shape", None)))
    r = case["row"] % m
    s1 = ctx.lib(teneva.poi_scale, Xarg[r], aa, bb, karg)
    ctx.check(is_float_array(s1) and s1.shape == (d,), "poi_scale(single): result is not a float vector of length d")
    ctx.check(np.array_equal(s1, S[r]), "poi_scale: single point differs from the batch row", row=r, single=s1, batch=S[r])

    LO, HI = Fr(lo), Fr(hi)
    for i in range(m):
        for k in range(d):
            x, got = X[i][k], float(S[i, k])
            A, B, XF = Fr(a[k]), Fr(b[k]), Fr(x)
            # exact rational references (no magnitude can overflow them); SUBN / (B - A): an intermediate of the size of the
            # box that falls below 2**-1022 (boxes near 1e-300) is rounded absolutely, by <= 2**-1075 per operation
            if kind == "uni":
                ru = (XF - A) / (B - A)
                tol = Fr(4 * EPS) * abs(ru) + TINY + SUBN / (B - A)
            elif kind == "cheb":
                w = (B - A) / 2
                ru = (XF - (A + B) / 2) / w
                tol = Fr(ulp(scale_of(a[k], b[k]))) / w + Fr(4 * EPS) * abs(ru) + TINY + SUBN / (B - A)
            else:
                ru = LO + (XF - A) / (B - A) * (HI - LO)
                T = abs(XF) * (HI - LO) + abs(A * HI) + abs(B * LO)
                tol = Fr(8 * EPS) * T / (B - A) + Fr(4 * EPS) * abs(ru) + TINY + SUBN / (B - A)
            info = dict(kind=kind, dim=k, a=a[k], b=b[k], x=x, got=got, lim=[lo, hi])
            ctx.check(math.isfinite(got) and lo <= got <= hi, "poi_scale: value outside the target interval", **info)
            rc = clampF(ru, LO, HI)
            ctx.check(abs(Fr(got) - rc) <= tol, "poi_scale: not the clipped affine image of the point",
                      ref=float(rc), tol=float(tol) if tol < 10 ** 300 else repr(tol), **info)
            if ru - tol > HI:
                ctx.check(got == hi, "poi_scale: point beyond the upper bound is not clipped to the upper limit", **info)
            if ru + tol < LO:
                ctx.check(got == lo, "poi_scale: point beyond the lower bound is not clipped to the lower limit", **info)

    pc = {c for row in case.get("pcls", []) for c in row}
    kap = max(kappa_of(a[k], b[k]) for k in range(d))
    ctx.label("kind:" + kind, "form:" + form, "d:%d" % d, *("pt:" + c for c in pc))
    ctx.label("kappa>=1e3" if kap >= 1e3 else "kappa<1e3")
    ctx.nontrivial(kap >= 1e3 or "mid" in pc or kind == "custom")


# ------------------------------------------------------------------------------------------- option forms

@st.composite
def form_cases(draw, tier, extreme=False):
    kind = draw(st.sampled_from(["uni", "cheb", "custom"]))
    d = draw(st.integers(1, 4))
    cls, a, b, n = draw(boxes_with_n(tier, kind, 1, True, extreme))
    a, b, n = a[0], b[0], n[0]
    m = draw(st.integers(1, 5))
    I = [[draw(st.integers(0, n - 1)) for _ in range(d)] for _ in range(m)]
    X = [[draw(coords(kind, a, b, n))[1] for _ in range(d)] for _ in range(m)]
    case = {"kind": kind, "d": d, "a": a, "b": b, "n": n, "I": I, "X": X,
            "mix": [draw(st.sampled_from(["scalar", "list", "array"])) for _ in range(3)],
            "nfloat": draw(st.booleans()), "aint": draw(st.booleans()), "row": draw(st.integers(0, m - 1)), "cls": cls}
    if kind == "custom":
        lo = draw(st.floats(-1e3, 1e3, allow_nan=False))
        hi = lo + draw(st.floats(1e-3, 1e3, allow_nan=False))
        case["lim"] = [lo, hi if hi > lo else lo + 1.0]
    return case


def same_bits(ctx, got, ref, what, **kw):
    ctx.check(isinstance(got, np.ndarray) and got.shape == ref.shape and got.dtype == ref.dtype and np.array_equal(got, ref),
              what + ": option forms are not interchangeable (different result)", got=got, ref=ref, **kw)


def prop_forms(case, ctx):
    kind, d, a, b, n = case["kind"], case["d"], case["a"], case["b"], case["n"]
    require_pre(a, b, n, "cheb" if kind != "uni" else "uni")
    I, X = case["I"], case["X"]
    m = len(I)
    r = case["row"] % m
    mix = case["mix"]
    karg = case["lim"] if kind == "custom" else kind
    aL, bL, nL = [a] * d, [b] * d, [n] * d

    def variants():
        yield "scalars", a, b, (float(n) if case["nfloat"] else n)
        yield "arrays", np.array(aL), np.array(bL), np.array(nL)
        yield "mixed", pass_opt(aL, mix[0]), pass_opt(bL, mix[1]), pass_opt(nL, mix[2], as_float=case["nfloat"])

    In, Xn = np.array(I, dtype=int), np.array(X, dtype=float)
    u4 = 4 * ulp(scale_of(a, b))

    if kind != "custom":
        P = ctx.lib(teneva.ind_to_poi, In, aL, bL, nL, kind)
        ctx.check(is_float_array(P) and P.shape == (m, d), "ind_to_poi: shape")
        Q = ctx.lib(teneva.poi_to_ind, Xn, aL, bL, nL, kind)
        ctx.check(is_int_array(Q) and Q.shape == (m, d), "poi_to_ind: shape")
        for name, av, bv, nv in variants():
            same_bits(ctx, ctx.lib(teneva.ind_to_poi, In, av, bv, nv, kind), P, "ind_to_poi", variant=name)
            same_bits(ctx, ctx.lib(teneva.poi_to_ind, Xn, av, bv, nv, kind), Q, "poi_to_ind", variant=name)
        same_bits(ctx, ctx.lib(teneva.ind_to_poi, I, aL, bL, nL, kind), P, "ind_to_poi", variant="I as list")
        same_bits(ctx, ctx.lib(teneva.poi_to_ind, X, aL, bL, nL, kind), Q, "poi_to_ind", variant="X as list")
        for name, av, bv, nv in variants():
            p1 = ctx.lib(teneva.ind_to_poi, I[r], av, bv, nv, kind)
            ctx.check(is_float_array(p1) and p1.shape == (d,), "ind_to_poi(single): shape", variant=name)
            if kind == "uni":
                ctx.check(np.array_equal(p1, P[r]), "ind_to_poi: single sample differs from the batch row", variant=name)
            else:
                ctx.check(bool(np.all(np.abs(p1 - P[r]) <= u4)), "ind_to_poi: single sample differs from the batch row", variant=name)
            q1 = ctx.lib(teneva.poi_to_ind, X[r], av, bv, nv, kind)
            ctx.check(is_int_array(q1) and q1.shape == (d,), "poi_to_ind(single): shape", variant=name)
            for k in range(d):
                jlo, jhi = (0, 0) if kind == "uni" else index_bounds(kind, X[r][k], a, b, n)
                if jlo == jhi:
                    ctx.check(int(q1[k]) == int(Q[r, k]), "poi_to_ind: single point differs from the batch row",
                              variant=name, x=X[r][k], single=int(q1[k]), batch=int(Q[r, k]))

    S = ctx.lib(teneva.poi_scale, Xn, aL, bL, karg)
    ctx.check(is_float_array(S) and S.shape == (m, d), "poi_scale: shape")
    for name, av, bv, _ in variants():
        same_bits(ctx, ctx.lib(teneva.poi_scale, Xn, av, bv, karg), S, "poi_scale", variant=name)
        s1 = ctx.lib(teneva.poi_scale, X[r], av, bv, karg)
        ctx.check(is_float_array(s1) and s1.shape == (d,) and np.array_equal(s1, S[r]),
                  "poi_scale: single point differs from the batch row", variant=name)
    same_bits(ctx, ctx.lib(teneva.poi_scale, X, aL, bL, karg), S, "poi_scale", variant="X as list")
    if case["aint"] and a == int(a) and b == int(b):
        same_bits(ctx, ctx.lib(teneva.poi_scale, Xn, int(a), int(b), karg), S, "poi_scale", variant="int bounds")
        ctx.label("int_bounds")

    kap = kappa_of(a, b)
    ctx.label("kind:" + kind, "d:%d" % d, "mix:" + "/".join(mix))
    ctx.nontrivial(d >= 2 or kap >= 1e3 or n >= 50)


# ------------------------------------------------------------------------------------------- grid_flat

SCALAR_FORMS = ["int", "float", "np.int64", "np.float64", "np.int32", "np.float32"]


def flat_reference(n):
    N = 1
    for k in n:
        N *= k
    ref = np.zeros((N, len(n)), dtype=int)
    stride = 1
    for k, nk in enumerate(n):
        ref[:, k] = (np.arange(N) // stride) % nk          # first index fastest
        stride *= nk
    return ref


def flat_spelling(n, form):
    """The shape n (list of Python ints) in the spelling `form` and the reference enumeration of that call."""
    ref = flat_reference(n)
    if form in SCALAR_FORMS:
        if len(n) != 1:
            raise AssertionError("scalar grid_flat needs d == 1")
        arg = {"int": int, "float": float, "np.int64": np.int64, "np.float64": np.float64, "np.int32": np.int32,
               "np.float32": np.float32}[form](n[0])
        return arg, ref[:, 0]
    if form == "array":
        return np.array(n, dtype=int), ref
    if form == "array32":
        return np.array(n, dtype=np.int32), ref
    if form == "tuple":                                     # what func_gets_full passes (A.shape)
        return tuple(int(k) for k in n), ref
    if form == "list":
        return [int(k) for k in n], ref
    raise AssertionError("unknown grid_flat spelling " + form)


def check_flat(ctx, G, ref, n, **kw):
    """The flat-grid oracle: an integer array of the reference shape listing every multi-index once, first index fastest."""
    ctx.check(is_int_array(G), "grid_flat: result is not an integer array", got=repr(type(G)), **kw)
    ctx.check(G.shape == ref.shape, "grid_flat: wrong shape", got=G.shape, want=ref.shape, n=n, **kw)
    if not np.array_equal(G, ref):
        if G.ndim == 2 and G.shape[0] > 0:
            ctx.check(bool(np.all(G >= 0)) and bool(np.all(G < np.array(n)[None, :])), "grid_flat: index outside the grid", n=n, **kw)
            ctx.check(len({tuple(row) for row in G.tolist()}) == G.shape[0], "grid_flat: a multi-index is listed twice", n=n, **kw)
        j = int(np.nonzero(np.any(np.atleast_2d(G.T).T != np.atleast_2d(ref.T).T, axis=1))[0][0])
        ctx.check(False, "grid_flat: not the enumeration with the first index running fastest", n=n, position=j,
                  got=G[j], want=ref[j], **kw)


def prop_grid_flat(case, ctx):
    n, form = case["n"], case["form"]
    d = len(n)
    arg, ref = flat_spelling(n, form)
    G = ctx.lib(teneva.grid_flat, arg)
    check_flat(ctx, G, ref, n)
    ctx.label("form:" + form, "d:%d" % d)
    ctx.nontrivial(d >= 2 and min(n) >= 2)


@st.composite
def grid_flat_cases(draw, tier):
    cap = 4096 if tier == "quick" else 65536
    if draw(st.integers(0, 5)) == 0:
        return {"n": [draw(st.integers(1, 300))], "form": draw(st.sampled_from(SCALAR_FORMS))}
    d = draw(st.integers(1, 5 if tier == "quick" else 7))
    n = [draw(st.integers(1, 9 if tier == "quick" else 14)) for _ in range(d)]
    while int(np.prod(n, dtype=object)) > cap:
        n[int(np.argmax(n))] -= 1
    return {"n": n, "form": draw(st.sampled_from(["list", "array"]))}


def grid_flat_small(tier, shard, nshards):
    import itertools
    top, dmax = (4, 4) if tier == "quick" else (5, 5)
    j = 0
    for d in range(1, dmax + 1):
        for n in itertools.product(range(1, top + 1), repeat=d):
            for form in ("list", "array"):
                if j % nshards == shard:
                    yield {"n": list(n), "form": form}
                j += 1


# ------------------------------------------------------------------------------------------- option preparation

def opt_forms(is_n):
    """All forms of one option: None, scalars, lists and arrays of length 1..3 (JSON-able descriptors)."""
    out = [{"t": "none"}, {"t": "int", "v": 3}, {"t": "float", "v": 4.0 if is_n else 2.5}]
    for L in (1, 2, 3):
        vals = [5, 2, 7][:L] if is_n else [0.5, -1.25, 3.0][:L]
        out.append({"t": "list", "v": vals})
        out.append({"t": "array", "v": vals})
    return out


def build_opt(o, is_n):
    if o["t"] == "none":
        return None
    if o["t"] == "int":
        return int(o["v"])
    if o["t"] == "float":
        return float(o["v"])
    if o["t"] == "list":
        return list(o["v"])
    return np.array(o["v"], dtype=int if is_n else float)


def prep_cases(tier, shard, nshards):
    j = 0
    for oa in opt_forms(False):
        for ob in opt_forms(False):
            for on in opt_forms(True):
                for d in (None, 0, 1, 2, 3):
                    for reps in (None, 1, 3):
                        if j % nshards == shard:
                            yield {"a": oa, "b": ob, "n": on, "d": d, "reps": reps}
                        j += 1


def prop_prep(case, ctx):
    opts = [case["a"], case["b"], case["n"]]
    d, reps = case["d"], case["reps"]
    lens = [len(o["v"]) for o in opts if o["t"] in ("list", "array")]
    has_scalar = any(o["t"] in ("int", "float") for o in opts)
    d_eff = d if d is not None else (lens[0] if lens else None)
    mismatch = any(L != d_eff for L in lens)
    no_dim = has_scalar and (d_eff is None or d_eff <= 0)
    args = [build_opt(o, k == 2) for k, o in enumerate(opts)]
    ctx.label("mismatch" if mismatch else ("no_dimension" if no_dim else "accepted"), "reps" if reps else "no_reps")
    ctx.nontrivial(bool(lens))
    if mismatch or no_dim:
        ctx.raises(ValueError, teneva.grid_prep_opts, args[0], args[1], args[2], d, reps)
        for k, o in enumerate(opts):
            if o["t"] in ("int", "float") and (d is None or d <= 0):
                ctx.raises(ValueError, teneva.grid_prep_opt, args[k], d, int if k == 2 else float, reps)
        return
    out = ctx.lib(teneva.grid_prep_opts, args[0], args[1], args[2], d, reps)
    ctx.check(isinstance(out, tuple) and len(out) == 3, "grid_prep_opts: result is not a triple")
    for k, o in enumerate(opts):
        got = out[k]
        if o["t"] == "none":
            ctx.check(got is None, "grid_prep_opts: an absent option did not stay None", which="abn"[k])
            ctx.check(ctx.lib(teneva.grid_prep_opt, None, d_eff, int if k == 2 else float, reps) is None, "grid_prep_opt(None) is not None")
            continue
        vals = list(o["v"]) if o["t"] in ("list", "array") else [o["v"]] * d_eff
        want = np.array(vals, dtype=int if k == 2 else float)
        if reps is not None:
            want = np.repeat(want.reshape(1, -1), reps, axis=0)
        ok = isinstance(got, np.ndarray) and got.shape == want.shape and got.dtype.kind == ("i" if k == 2 else "f") and np.array_equal(got, want)
        ctx.check(ok, "grid_prep_opts: wrong prepared option", which="abn"[k], got=got, want=want, d=d, reps=reps)
        one = ctx.lib(teneva.grid_prep_opt, args[k], d_eff, int if k == 2 else float, reps)
        ok = isinstance(one, np.ndarray) and one.shape == want.shape and one.dtype.kind == ("i" if k == 2 else "f") and np.array_equal(one, want)
        ctx.check(ok, "grid_prep_opt: wrong prepared option", which="abn"[k], got=one, want=want, d=d, reps=reps)


# Spellings of a per-dimension option.  list / array are the documented ones; a tuple, a list / tuple of NumPy scalars are
# sequence-likes the maps turn into arrays with np.asanyarray (callers do write a=(0., 1.)).
SEQ_SPELL = ["list", "array", "tuple", "list_np", "tuple_np"]


def spell_seq(vals, sp, is_n=False):
    """The values of one option (Python numbers) in the sequence spelling sp."""
    vals = [int(v) for v in vals] if is_n else [float(v) for v in vals]
    if sp == "list":
        return list(vals)
    if sp == "tuple":
        return tuple(vals)
    if sp == "array":
        return np.array(vals, dtype=int if is_n else float)
    cast = np.int64 if is_n else np.float64
    if sp == "list_np":
        return [cast(v) for v in vals]
    if sp == "tuple_np":
        return tuple(cast(v) for v in vals)
    raise AssertionError("unknown spelling " + sp)


def length_verdict(fn, which, cont, d, L):
    """What the property demands for an option of length L != d:
      "documented" - the option passes the length validation of grid_prep_opts (a, b everywhere, n of ind_to_poi, spelled
                     as list / ndarray): ValueError by its docstring ("In case of a mismatch in the size of the arrays ...");
      "structural" - the option is not validated up front (a tuple; n of poi_to_ind in any spelling), but 2 <= L != d >= 2:
                     the option is one value per dimension, so it meets the points / indices of shape [..., d] in an
                     elementwise operation that cannot be carried out - neither for one point ([L] against [d]) nor for a
                     batch ([samples, L] against [samples, d]).  "Inconsistent option lengths are rejected" and "single points
                     and batches give the same answers" => ValueError for both call shapes;
      "observe"    - L == 1 (NumPy broadcasts one value over the dimensions; poi_to_ind(n=[5]) raises IndexError for d >= 2)
                     or d == 1 (one coordinate is broadcast against L values and the result has L columns): the unmodified
                     code does not reject for a reason the property names, so only the agreement of the two call shapes
                     (both answer / both refuse) is asserted and the outcome is labelled."""
    validated = cont in ("list", "array", "list_np") and not (fn == "poi_to_ind" and which == "n")
    if validated:
        return "documented"
    if d >= 2 and L >= 2 and L != d:
        return "structural"
    return "observe"


def reject_cases(tier, shard, nshards):
    j = 0
    for fn in ("ind_to_poi", "poi_to_ind", "poi_scale"):
        for kind in ("uni", "cheb", "custom"):
            if kind == "custom" and fn != "poi_scale":
                continue
            for d in (1, 2, 3, 4):
                for which in ("a", "b", "n", "ab", "abn"):
                    if fn == "poi_scale" and "n" in which:
                        continue
                    for L in (1, 2, 3, 4, 6, 8):
                        if L == d:
                            continue
                        for cont in SEQ_SPELL:
                            for others in ("scalar", "seq"):
                                for m in (1, 2, 3, 4):
                                    if j % nshards == shard:
                                        yield {"fn": fn, "kind": kind, "d": d, "which": which, "L": L, "cont": cont,
                                               "others": others, "batch": m}
                                    j += 1


def prop_reject(case, ctx):
    fn, kind, d, which, L, cont, m = (case[k] for k in ("fn", "kind", "d", "which", "L", "cont", "batch"))
    others = case.get("others", "scalar")
    m = max(int(m), 1)

    def opt(name, lo, step, is_n):
        # distinct values per dimension (a cyclic refill / a truncation of a wrong-length option would be a different grid per row)
        if name in which:
            return spell_seq([lo + step * k for k in range(L)], cont, is_n)
        if others == "seq":
            return spell_seq([lo + step * k for k in range(d)], cont, is_n)
        return int(lo) if is_n else float(lo)

    a, b, n = opt("a", -1.0, -0.25, False), opt("b", 2.0, 0.5, False), opt("n", 5, 2, True)
    karg = [-3.0, 7.0] if kind == "custom" else kind
    if fn == "ind_to_poi":
        P = (np.arange(m * d, dtype=int).reshape(m, d) * 3 + 1) % 5                     # indices in 0..4 (every n >= 5)
        call = lambda pts, aa=a, bb=b, nn=n: teneva.ind_to_poi(pts, aa, bb, nn, karg)
        good = lambda pts: teneva.ind_to_poi(pts, -1.0, 2.0, 5, karg)
    elif fn == "poi_scale":
        P = -1.5 + 0.37 * np.arange(m * d, dtype=float).reshape(m, d)                   # inside, and outside the box
        call = lambda pts, aa=a, bb=b: teneva.poi_scale(pts, aa, bb, karg)
        good = lambda pts: teneva.poi_scale(pts, -1.0, 2.0, karg)
    else:
        P = -1.5 + 0.37 * np.arange(m * d, dtype=float).reshape(m, d)
        call = lambda pts, aa=a, bb=b, nn=n: teneva.poi_to_ind(pts, aa, bb, nn, karg)
        good = lambda pts: teneva.poi_to_ind(pts, -1.0, 2.0, 5, karg)
    call.__name__ = good.__name__ = fn

    verdict = length_verdict(fn, which, cont, d, L)
    if verdict in ("documented", "structural"):
        # rejected for a batch exactly as for every single point of it
        ctx.raises(ValueError, call, P)
        ctx.raises(ValueError, call, P.tolist())
        for r in range(m):
            ctx.raises(ValueError, call, P[r])
    else:
        def outcome(pts):
            try:
                res = call(pts)
            except Exception as e:   # noqa: BLE001 - observed only, see length_verdict
                return "raised:" + type(e).__name__, None
            return "accepted", res
        ob, rb = outcome(P)
        singles = [outcome(P[r]) for r in range(m)]
        os_ = sorted({o for o, _ in singles})
        ctx.label("%s_%s_mismatch(%s):batch_%s" % (fn, which, "L=1" if L == 1 else "d=1", ob))
        ctx.check((ob == "accepted") == all(o == "accepted" for o, _ in singles) and
                  (ob != "accepted") == all(o != "accepted" for o, _ in singles),
                  "an option of a length different from d is accepted for a batch but refused for its single points (or the "
                  "other way round): single points and batches do not give the same answers",
                  fn=fn, which=which, spelling=cont, d=d, L=L, samples=m, batch=ob, single=os_)
    # the consistent call is accepted, for the batch and for each point
    ctx.lib(good, P)
    for r in range(m):
        ctx.lib(good, P[r])
    ctx.label("fn:" + fn, "which:" + which, "spelling:" + cont, "verdict:" + verdict)
    ctx.nontrivial(True)


# ------------------------------------------------------------------------------------------- batch == stack of the single points

OPT_SPELL = ["scalar", "np_scalar"] + SEQ_SPELL


def np_scalar_types(v, is_n):
    """NumPy scalar types that hold the Python number v exactly."""
    if is_n:
        return [t for t in ("int64", "int32", "int16", "uint16", "uint8") if int(v) <= int(np.iinfo(t).max)]
    out = ["float64"]
    if math.isfinite(v) and float(np.float32(v)) == v:
        out.append("float32")
    if v == int(v) and abs(v) < 2 ** 15:
        out += ["int64", "int16"]
    return out


def spell_opt(vals, sp, npt, is_n):
    if sp == "scalar":
        return pass_opt(vals, "scalar")
    if sp == "np_scalar":
        if any(v != vals[0] for v in vals):
            raise AssertionError("scalar form needs equal options")
        if npt not in np_scalar_types(vals[0], is_n):
            raise AssertionError("the value does not fit the NumPy scalar type " + npt)
        return np.dtype(npt).type(vals[0])
    return spell_seq(vals, sp, is_n)


@st.composite
def stack_cases(draw, tier, extreme=False):
    kind = draw(st.sampled_from(["uni", "cheb", "custom"]))
    d = draw(st.integers(1, 4))
    sp = [draw(st.sampled_from(OPT_SPELL)) for _ in range(3)]
    same = any(x in ("scalar", "np_scalar") for x in sp)
    cls, a, b, n = draw(boxes_with_n(tier, kind, d, same, extreme))
    npt = [draw(st.sampled_from(np_scalar_types(v[0], k == 2))) for k, v in enumerate((a, b, n))]
    m = draw(st.integers(1, 5 if tier == "quick" else 9))
    X = [[draw(coords(kind, a[k], b[k], n[k]))[1] for k in range(d)] for _ in range(m)]
    I = [[draw(st.integers(0, n[k] - 1)) for k in range(d)] for _ in range(m)]
    case = {"kind": kind, "a": a, "b": b, "n": n, "sp": sp, "npt": npt, "X": X, "I": I,
            "pform": draw(st.sampled_from(["array", "list"])), "cls": cls}
    if kind == "custom":
        lo = draw(st.one_of(st.integers(-5, 5).map(float), st.floats(-1e3, 1e3, allow_nan=False)))
        hi = lo + draw(st.one_of(st.integers(1, 5).map(float), st.floats(1e-3, 1e3, allow_nan=False)))
        case["lim"] = [lo, hi if hi > lo else lo + 1.0]
    return case


def prop_stack(case, ctx):
    """A batch is the stack of its single points - for every row, and whatever the spelling of the options (number, NumPy
    scalar, list, tuple, array, list / tuple of NumPy scalars); and the spelling does not change the batch result."""
    kind, a, b, n, sp, npt = case["kind"], case["a"], case["b"], case["n"], case["sp"], case["npt"]
    d = len(a)
    gk = "uni" if kind == "uni" else "cheb"
    for k in range(d):
        require_pre(a[k], b[k], n[k], gk)
    X, I = np.array(case["X"], dtype=float), np.array(case["I"], dtype=int)
    m = X.shape[0]
    aa, bb = spell_opt(a, sp[0], npt[0], False), spell_opt(b, sp[1], npt[1], False)
    nn = spell_opt(n, sp[2], npt[2], True)
    # NumPy integer scalars as n are asserted for ind_to_poi only (see ASSUMPTIONS); poi_to_ind gets the Python int then
    nn_p2i = int(n[0]) if sp[2] == "np_scalar" else nn
    karg = case["lim"] if kind == "custom" else kind
    U = np.array([ulp(scale_of(a[k], b[k])) for k in range(d)])
    info = dict(kind=kind, spellings=sp, np_types=npt, d=d, samples=m)

    def pts(P, r=None):
        Q = P if r is None else P[r]
        return Q if case["pform"] == "array" else Q.tolist()

    def stack(fn, what, P, ref_args, args, tol, isint):
        R = ctx.lib(fn, P, *ref_args)                                             # plain lists, array batch
        B = ctx.lib(fn, pts(P), *args)
        ok = isinstance(B, np.ndarray) and B.shape == (m, d) and B.dtype.kind == ("i" if isint else "f")
        ctx.check(ok, what + ": the batch result is not an array [samples, d] of the documented kind",
                  got=repr(getattr(B, "shape", None)), **info)
        ctx.check(B.dtype == R.dtype and np.array_equal(B, R), what + ": option forms are not interchangeable (different result)",
                  got=B, ref=R, **info)
        rows = []
        for r in range(m):
            s = ctx.lib(fn, pts(P, r), *args)
            ctx.check(isinstance(s, np.ndarray) and s.shape == (d,) and s.dtype == B.dtype,
                      what + "(single): the result is not a vector of length d of the dtype of the batch result",
                      got=repr(getattr(s, "shape", None)), row=r, **info)
            rows.append(s)
        S = np.stack(rows)
        bad = tol(S, B)
        if bad.any():
            r, k = [int(v[0]) for v in np.nonzero(bad)]
            ctx.check(False, what + ": the batch is not the stack of the single-point results", row=r, dim=k,
                      single=S[r, k], batch=B[r, k], point=P[r, k], a=a[k], b=b[k], **info)
        return B

    exact = lambda S, B: S != B
    if kind != "custom":
        near = exact if kind == "uni" else (lambda S, B: np.abs(S - B) > 4 * U[None, :])
        stack(teneva.ind_to_poi, "ind_to_poi", I, (list(a), list(b), [int(v) for v in n], kind), (aa, bb, nn, kind), near, False)

        def unique_only(S, B):
            # Chebyshev grid: np.arccos on a vector vs on a matrix may differ in the last bit, which matters at a tie only
            bad = S != B
            for r, k in zip(*np.nonzero(bad)):
                jlo, jhi = index_bounds(kind, X[r, k], a[k], b[k], n[k])
                if jhi > jlo and jlo <= S[r, k] <= jhi and jlo <= B[r, k] <= jhi:
                    bad[r, k] = False
            return bad
        stack(teneva.poi_to_ind, "poi_to_ind", X, (list(a), list(b), [int(v) for v in n], kind), (aa, bb, nn_p2i, kind),
              exact if kind == "uni" else unique_only, True)
    stack(teneva.poi_scale, "poi_scale", X, (list(a), list(b), karg), (aa, bb, karg), exact, False)
    ctx.inner(int(m))
    ctx.label("kind:" + kind, "d:%d" % d, "points:" + case["pform"], *("%s:%s" % ("abn"[k], sp[k]) for k in range(3)))
    for k in range(3):
        if sp[k] == "np_scalar":
            ctx.label("%s:np.%s" % ("abn"[k], npt[k]))
    ctx.nontrivial(m >= 2 and any(x not in ("scalar", "list", "array") for x in sp))


# ------------------------------------------------------------------------------------------- empirical CDF

@st.composite
def cdf_cases(draw, tier):
    N = draw(st.integers(1, 12 if tier == "quick" else 40))
    val = st.one_of(st.integers(-3, 3).map(float), st.sampled_from([0.0, -0.0, 1e-300, -1e6, 1e6, 0.1, 0.3]),
                    st.floats(-1e6, 1e6, allow_nan=False))
    x = [draw(val) for _ in range(N)]
    z = []
    for _ in range(draw(st.integers(1, 10))):
        c = draw(st.integers(0, 5))
        if c == 0:
            z.append(draw(st.sampled_from(x)))
        elif c == 1:
            z.append(shift(draw(st.sampled_from(x)), draw(st.sampled_from([-1, 1]))))
        elif c == 2:
            z.append((draw(st.sampled_from(x)) + draw(st.sampled_from(x))) / 2)
        elif c == 3:
            z.append(min(x) - draw(st.sampled_from([1e-9, 1.0, 1e9])))
        elif c == 4:
            z.append(max(x) + draw(st.sampled_from([1e-9, 1.0, 1e9])))
        else:
            z.append(draw(val))
    return {"x": x, "z": z, "xarr": draw(st.booleans())}


def prop_cdf(case, ctx):
    x, z = case["x"], case["z"]
    N = len(x)
    xin = np.array(x, dtype=float) if case["xarr"] else list(x)
    cdf = ctx.lib(teneva.cdf_getter, xin)
    ctx.check(callable(cdf), "cdf_getter did not return a function")
    ref = np.array([sum(1 for v in x if v <= zz) / N for zz in z])
    got = ctx.lib(cdf, np.array(z, dtype=float))
    ctx.check(isinstance(got, np.ndarray) and got.shape == (len(z),), "cdf(array): result does not have the shape of the input",
              got=repr(getattr(got, "shape", None)))
    j = int(np.argmax(np.abs(got - ref)))
    ctx.check(bool(np.all(np.abs(got - ref) <= 4 * EPS)), "cdf is not #{x_i <= z} / len(x)", x=x, z=z[j], got=float(got[j]), ref=float(ref[j]))
    for j, zz in enumerate(z[:4]):
        g = ctx.lib(cdf, float(zz))
        ctx.check(np.ndim(g) == 0, "cdf(float) is not a scalar", got=repr(g))
        ctx.check(abs(float(g) - ref[j]) <= 4 * EPS, "cdf(float) is not #{x_i <= z} / len(x)", x=x, z=zz, got=float(g), ref=float(ref[j]))
    dup = len(set(x)) < N
    ctx.label("duplicates" if dup else "distinct", "N==1" if N == 1 else "N>1")
    ctx.nontrivial(dup or N >= 5)
    # the getter is the step function of the sample it was BUILT from: a caller that later reuses / overwrites its own buffer
    # (sorted or not) must not change it
    for presorted in (False, True):
        buf = np.array(sorted(x) if presorted else x, dtype=float)
        cdf2 = ctx.lib(teneva.cdf_getter, buf)
        before = np.array(ctx.lib(cdf2, np.array(z, dtype=float)), dtype=float)
        ctx.check(bool(np.all(np.abs(before - ref) <= 4 * EPS)), "cdf (sorted ndarray sample) is not #{x_i <= z} / len(x)", presorted=presorted)
        buf *= 10.0
        buf += 1.0
        after = np.array(ctx.lib(cdf2, np.array(z, dtype=float)), dtype=float)
        ctx.check(np.array_equal(before, after), "cdf changed after the caller overwrote the array the sample was passed in",
                  presorted=presorted, before=before.tolist()[:6], after=after.tolist()[:6])


# ------------------------------------------------------------------------------------------- registry

# ------------------------------------------------------------------------------------------- repeated calls with the same option arrays

def prop_repeat(case, ctx):
    """The maps are pure: calling them again with the SAME option arrays (int64 `n`, float `a`, `b`) gives the same answer,
    single point == row of the batch, and the option arrays are left as they were."""
    kind, d, a, b, n = case["kind"], case["d"], case["a"], case["b"], case["n"]
    require_pre(a, b, n, "cheb" if kind != "uni" else "uni")
    X, I = np.array(case["X"], dtype=float), np.array(case["I"], dtype=int)
    r = case["row"] % len(X)
    aa, bb, nn = np.full(d, float(a)), np.full(d, float(b)), np.full(d, int(n), dtype=np.int64)
    keep = (aa.copy(), bb.copy(), nn.copy())
    ctx.label("kind:" + kind, f"d={d}")
    ctx.nontrivial(True)

    def untouched(what):
        ctx.check(np.array_equal(aa, keep[0]) and np.array_equal(bb, keep[1]) and np.array_equal(nn, keep[2]),
                  f"{what}: an option array (a / b / n) passed by the caller was modified", n_now=nn.tolist(), n_before=keep[2].tolist())

    if kind != "custom":
        outs = []
        for rep in range(3):
            outs.append(ctx.lib(teneva.poi_to_ind, X[r].copy(), aa, bb, nn, kind))
            untouched("poi_to_ind(single point)")
        batch = ctx.lib(teneva.poi_to_ind, X.copy(), aa, bb, nn, kind)
        untouched("poi_to_ind(batch)")
        ctx.check(all(np.array_equal(o, outs[0]) for o in outs), "poi_to_ind: repeated identical calls give different indices", outs=[o.tolist() for o in outs])
        fresh = ctx.lib(teneva.poi_to_ind, X[r].copy(), [float(a)] * d, [float(b)] * d, [int(n)] * d, kind)
        ctx.check(np.array_equal(outs[-1], fresh), "poi_to_ind: result depends on earlier calls with the same option arrays", got=outs[-1].tolist(), fresh=fresh.tolist())
        ctx.check(np.array_equal(batch[r], fresh) or kind == "cheb", "poi_to_ind: single point and batch row differ", single=fresh.tolist(), batch=batch[r].tolist())
        p1 = [ctx.lib(teneva.ind_to_poi, I[r % len(I)].copy(), aa, bb, nn, kind) for _ in range(3)]
        untouched("ind_to_poi")
        ctx.check(all(np.array_equal(o, p1[0]) for o in p1), "ind_to_poi: repeated identical calls give different points")
    karg = case["lim"] if kind == "custom" else kind
    s1 = [ctx.lib(teneva.poi_scale, X[r].copy(), aa, bb, karg) for _ in range(3)]
    untouched("poi_scale")
    ctx.check(all(np.array_equal(o, s1[0]) for o in s1), "poi_scale: repeated identical calls give different points")


# ------------------------------------------------------------------------------------------- index / size dtypes and spellings

INT_DT = ["int8", "uint8", "int16", "uint16", "int32", "uint32", "int64", "uint64"]
I_SPELL = INT_DT + ["float64", "list"]
N_FAMILIES = ["int", "float", "scalar", "array", "list", "list_np", "farray"]
W_PREF = {"w8": ["int8", "uint8"], "w16": ["int16", "uint16"], "w32": ["int32", "uint32"]}
W_SIZES = {
    "w8": [33, 64, 65, 66, 100, 127, 128, 129, 130, 200, 255, 256, 257, 300],
    "w16": [8193, 16384, 16385, 16386, 20000, 32767, 32768, 32769, 32770, 40000, 65535, 65536, 65537],
    "w32": [2 ** 30, 2 ** 30 + 1, 2 ** 30 + 2, 2 ** 31 - 1, 2 ** 31, 2 ** 31 + 1, 3 * 10 ** 9, 2 ** 32 - 1, 2 ** 32, 2 ** 32 + 1],
}
W_RANGE = {"w8": (2, 300), "w16": (8000, 70000), "w32": (2 ** 30 - 4, 2 ** 32 + 4)}


def dt_cap(name):
    """Largest integer every value up to which the spelling holds exactly."""
    if name in INT_DT:
        return min(int(np.iinfo(name).max), 2 ** 53)
    if name == "float32":
        return 2 ** 24
    return 2 ** 53


def spell_index(I64, idt):
    if idt == "list":
        return I64.tolist()
    out = I64.astype(idt)
    if not np.array_equal(out.astype(object), I64.astype(object)):
        raise AssertionError("index array does not fit its dtype: " + idt)
    return out


def spell_size(n, nsp):
    """Grid sizes (list of equal-or-not Python ints) in the spelling nsp = family[:dtype]."""
    fam, _, dt = nsp.partition(":")
    if fam in ("int", "float", "scalar") and any(v != n[0] for v in n):
        raise AssertionError("scalar size spelling needs equal sizes")
    if dt and max(n) > dt_cap(dt):
        raise AssertionError("size does not fit its dtype: " + nsp)
    if fam == "int":
        return int(n[0])
    if fam == "float":
        return float(n[0])
    if fam == "scalar":
        return np.dtype(dt).type(n[0])
    if fam in ("array", "farray"):
        return np.array(n, dtype=dt)
    if fam == "list_np":
        return [np.dtype(dt).type(v) for v in n]
    return [int(v) for v in n]


@st.composite
def size_spelling(draw, n, same):
    fams = [f for f in N_FAMILIES if same or f not in ("int", "float", "scalar")]
    fam = draw(st.sampled_from(fams))
    if fam in ("scalar", "array", "list_np"):
        fit = [t for t in INT_DT if dt_cap(t) >= max(n)]
        narrow = fit[:2]                                    # the narrowest signed / unsigned types that hold n
        return fam + ":" + draw(st.sampled_from(narrow + fit))
    if fam == "farray":
        fit = [t for t in ("float32", "float64") if dt_cap(t) >= max(n)]
        return fam + ":" + draw(st.sampled_from(fit))
    return fam


@st.composite
def dtype_cases(draw, tier, extreme=False):
    wc = draw(st.sampled_from(["w8", "w8", "w16", "w16", "w32"]))
    kind = draw(st.sampled_from(["cheb", "uni"]))
    d = draw(st.integers(1, 3))
    same = draw(st.booleans())
    idt = draw(st.sampled_from(W_PREF[wc] * 3 + I_SPELL))
    cap = dt_cap(idt)
    pre = not (wc == "w32" and kind == "cheb")              # the smallest Chebyshev cell is not resolvable for n ~ 2**31
    cls, a, b, n = [], [], [], []
    for k in range(1 if same else d):
        c, ak, bk = draw(raw_boxes())
        nk = draw(st.one_of(st.sampled_from(W_SIZES[wc]), st.integers(*W_RANGE[wc])))
        if pre:
            ak, bk = widen(ak, bk, nk, kind)
        if extreme:
            lv, ak, bk = draw(to_extreme(kind, ak, bk))
            c += "@" + lv
        cls.append(c), a.append(ak), b.append(bk), n.append(nk)
    if same:
        cls, a, b, n = cls * d, a * d, b * d, n * d
    cols = []
    for k in range(d):
        top = min(n[k] - 1, cap)
        if wc == "w8":
            col = list(range(top + 1))
        else:
            pts = {0, 1, n[k] // 2, n[k] // 2 + 1}
            for base in (top, n[k] - 1, cap // 4, cap // 2, cap, 2 ** 14, 2 ** 15, 2 ** 16, 2 ** 30, 2 ** 31, 2 ** 32):
                pts.update(base + j for j in range(-4, 5))
            pts.update(draw(st.integers(0, top)) for _ in range(6))
            col = sorted(p for p in pts if 0 <= p <= top)
        cols.append(col)
    m = max(len(c) for c in cols)
    I = [[cols[k][min(i, len(cols[k]) - 1)] for k in range(d)] for i in range(m)]
    return {"wc": wc, "kind": kind, "a": a, "b": b, "n": n, "idt": idt, "pre": pre, "I": I, "cls": cls,
            "nsp": draw(size_spelling(n, same)), "nsp2": draw(size_spelling(n, same)),
            "row": draw(st.integers(0, m - 1)), "row_np_list": draw(st.booleans())}


def prop_dtypes(case, ctx):
    """The dtype / spelling of the index array and of the grid sizes does not matter: every spelling gives the nodes of the
    plain int64 spelling (bit for bit on the uniform grid, 4 ulp(M) on the Chebyshev grid, the module's single-vs-batch
    tolerance), these are the nodes of their indices (independent reference in Python int / float arithmetic), they round-trip
    to an integer index array wide enough for n - 1, and the caller's arrays are left alone."""
    kind, a, b, n, idt, pre = case["kind"], case["a"], case["b"], case["n"], case["idt"], case["pre"]
    d = len(a)
    if pre:
        for k in range(d):
            require_pre(a[k], b[k], n[k], kind)
    I64 = np.array(case["I"], dtype=np.int64)
    m = I64.shape[0]
    if I64.min() < 0 or np.any(I64.max(axis=0) > np.array(n, dtype=object) - 1):
        raise AssertionError("index outside the grid")
    Iarg = spell_index(I64, idt)
    narg = spell_size(n, case["nsp"])
    narg2 = spell_size(n, case["nsp2"])
    U = np.array([ulp(scale_of(a[k], b[k])) for k in range(d)])
    info = dict(kind=kind, index_dtype=idt, n_spelling=case["nsp"], n=n)

    def keep(v):
        return v.copy() if isinstance(v, np.ndarray) else None

    def untouched(v, v0, what):
        if v0 is not None:
            ctx.check(v.dtype == v0.dtype and np.array_equal(v, v0), what + ": an array passed by the caller was modified", **info)

    R = ctx.lib(teneva.ind_to_poi, I64, list(a), list(b), [int(v) for v in n], kind)
    ctx.check(is_float_array(R) and R.shape == (m, d), "ind_to_poi: result is not a float array [samples, d]")
    I0, n0 = keep(Iarg), keep(narg)
    X = ctx.lib(teneva.ind_to_poi, Iarg, list(a), list(b), narg, kind)
    untouched(Iarg, I0, "ind_to_poi (index array)")
    untouched(narg, n0, "ind_to_poi (size array)")
    ctx.check(is_float_array(X) and X.dtype == R.dtype and X.shape == (m, d),
              "ind_to_poi: result is not a float64 array [samples, d] for this spelling of the indices / sizes",
              got=repr(getattr(X, "dtype", None)), shape=repr(getattr(X, "shape", None)), **info)
    ctx.check(bool(np.all(np.isfinite(X))), "ind_to_poi: non-finite node", **info)
    D = np.abs(X - R)
    tolK = np.zeros(d) if kind == "uni" else 4 * U
    if not bool(np.all(D <= tolK[None, :])):
        r, k = [int(v[0]) for v in np.nonzero(D > tolK[None, :])]
        ctx.check(False, "ind_to_poi: the node depends on the dtype / spelling of the indices or sizes", dim=k, index=int(I64[r, k]),
                  got=float(X[r, k]), int64_spelling=float(R[r, k]), a=a[k], b=b[k], **info)

    # the nodes of these indices (Python integer / float arithmetic, no array dtypes involved), the box and its ends
    for k in range(d):
        # on the box and the nodes scaled by 2**-e to M in [0.5, 1) (exact, see norm_exp): i * (b - a) cannot overflow
        e = norm_exp(a[k], b[k])
        ak, bk = down(a[k], e), down(b[k], e)
        u = ulp(scale_of(ak, bk))
        ktol = 16.0 if kind == "uni" else 32.0
        slack = (8.0 if kind == "uni" else 16.0) * u
        nk = n[k]
        mid, w = (ak + bk) / 2, (bk - ak) / 2
        for r in range(m):
            i = int(I64[r, k])
            if r and i == int(I64[r - 1, k]):
                continue
            if kind == "uni":
                ref = ak + (i * (bk - ak)) / (nk - 1)
            else:
                ref = mid + w * math.sin(math.pi * (nk - 1 - 2 * i) / (2 * (nk - 1)))
            x = down(float(X[r, k]), e)
            info_k = dict(dim=k, index=i, got=float(X[r, k]), a=a[k], b=b[k], scaled_by=f"2**-{e}")
            ctx.check(abs(x - ref) <= ktol * u, "node is not the grid node of its index", got_scaled=x, ref_scaled=ref,
                      tol_ulp_M=ktol, **info_k, **info)
            ctx.check(ak - slack <= x <= bk + slack, "node outside the box", **info_k, **info)
            if i == 0 or i == nk - 1:
                want = (ak if i == 0 else bk) if kind == "uni" else (bk if i == 0 else ak)
                ctx.check(abs(x - want) <= slack, "index 0 / n-1 is not mapped to the documented end of the box",
                          want_scaled=want, **info_k, **info)
    ctx.inner(int(m * d))

    # one sample: a row of the narrow array, or a list of NumPy scalars of that dtype
    r = case["row"] % m
    if idt == "list":
        row = Iarg[r]
    elif case["row_np_list"]:
        row = [np.dtype(idt).type(v) for v in I64[r]]
    else:
        row = Iarg[r]
    x1 = ctx.lib(teneva.ind_to_poi, row, list(a), list(b), narg, kind)
    ctx.check(is_float_array(x1) and x1.shape == (d,), "ind_to_poi(single): result is not a float vector of length d", **info)
    ctx.check(bool(np.all(np.abs(x1 - R[r]) <= tolK)), "ind_to_poi(single): the node depends on the dtype / spelling of the indices or sizes",
              row=r, index=I64[r].tolist(), got=x1, int64_spelling=R[r], **info)

    # back to indices: sizes in the second spelling
    fam2 = case["nsp2"].partition(":")[0]
    info2 = dict(kind=kind, n_spelling=case["nsp2"], n=n)
    if fam2 == "scalar":
        # NumPy integer scalars are not among the documented size types of poi_to_ind (it indexes the prepared sizes with a mask
        # of the shape of X); observed only - but an accepted call must answer correctly
        try:
            J = teneva.poi_to_ind(R, list(a), list(b), narg2, kind)
        except Exception:   # noqa: BLE001
            ctx.label("poi_to_ind_numpy_scalar_n:raised")
            J = None
        else:
            ctx.label("poi_to_ind_numpy_scalar_n:accepted")
    else:
        n0 = keep(narg2)
        J = ctx.lib(teneva.poi_to_ind, R, list(a), list(b), narg2, kind)
        untouched(narg2, n0, "poi_to_ind (size array)")
    if J is not None:
        ok = isinstance(J, np.ndarray) and J.dtype.kind in "iu" and J.shape == (m, d)
        ctx.check(ok, "poi_to_ind: result is not an integer array [samples, d]", got=repr(getattr(J, "dtype", None)), **info2)
        ctx.check(int(np.iinfo(J.dtype).max) >= max(n) - 1, "poi_to_ind: the index dtype cannot hold n - 1", got=repr(J.dtype), **info2)
        Jref = ctx.lib(teneva.poi_to_ind, R, list(a), list(b), [int(v) for v in n], kind)
        if not np.array_equal(J.astype(object), Jref.astype(object)):
            rr, k = [int(v[0]) for v in np.nonzero(J.astype(object) != Jref.astype(object))]
            ctx.check(False, "poi_to_ind: the index depends on the dtype / spelling of the sizes", dim=k, point=float(R[rr, k]),
                      got=int(J[rr, k]), int_spelling=int(Jref[rr, k]), **info2)
        if pre:
            if not np.array_equal(J.astype(object), I64.astype(object)):
                rr, k = [int(v[0]) for v in np.nonzero(J.astype(object) != I64.astype(object))]
                ctx.check(False, "poi_to_ind(ind_to_poi(i)) != i", dim=k, a=a[k], b=b[k], index=int(I64[rr, k]), back=int(J[rr, k]),
                          point=float(R[rr, k]), **info2)
            # ... and from the nodes computed from the narrow spelling
            J2 = ctx.lib(teneva.poi_to_ind, X, list(a), list(b), [int(v) for v in n], kind)
            if not (isinstance(J2, np.ndarray) and J2.shape == I64.shape and np.array_equal(J2.astype(object), I64.astype(object))):
                rr, k = [int(v[0]) for v in np.nonzero(np.asarray(J2).astype(object) != I64.astype(object))]
                ctx.check(False, "poi_to_ind(ind_to_poi(i)) != i for this index dtype", dim=k, a=a[k], b=b[k], index=int(I64[rr, k]),
                          back=int(J2[rr, k]), point=float(X[rr, k]), **info)

    wraps = idt in INT_DT and 2 * int(I64.max()) > dt_cap(idt)
    fam, _, ndt = case["nsp"].partition(":")
    nwraps = ndt in INT_DT and 2 * (max(n) - 1) > dt_cap(ndt)
    ctx.label("kind:" + kind, "wc:" + case["wc"], "idt:" + idt, "nsp:" + case["nsp"], "nsp2:" + case["nsp2"], "d:%d" % d)
    ctx.label("2I_exceeds_index_dtype" if wraps else "2I_fits", "2(n-1)_exceeds_size_dtype" if nwraps else "2(n-1)_fits",
              "precondition" if pre else "no_roundtrip")
    ctx.nontrivial(bool(wraps or nwraps))


# ------------------------------------------------------------------------------------------- results belong to the caller
#
# Class "a routine hands out an object it keeps" (a memoised result, a module-level scratch buffer, a view of internal state):
# a single call cannot show it, a HISTORY does - call, overwrite every returned array in place (what a caller may do with HIS
# result: rng.shuffle(I) for a train / test split, I += 1 for 1-based export, X[:] = nan to mark it consumed), call again with
# equal but freshly built arguments.  The second call is a call like any other, so its result has to satisfy every oracle of
# this module; the maps are deterministic functions of their arguments, so it has to be bit-identical to the first result as it
# was before the overwrite; and two calls on different argument objects have nothing to share, so the two results must not
# overlap in memory.  (grid_prep_opt may hand back its ARGUMENT unchanged - np.asanyarray of an ndarray of the right dtype;
# that is sharing between an argument and the result of the same call, and is exempt: the first call gets deep copies of
# the arguments, and a result that overlaps one of its own arguments is not compared with results of earlier calls.)

CLOBBER = ["fill", "zero", "incr", "shuffle", "reverse"]


def result_arrays(res):
    """The writable-in-principle arrays of a result (an array, or a tuple of arrays / None)."""
    if isinstance(res, np.ndarray):
        return [res] if res.ndim >= 1 and res.size > 0 and res.dtype.kind in "iuf" else []
    if isinstance(res, (tuple, list)):
        return [x for r in res for x in result_arrays(r)]
    return []


def arg_arrays(args):
    if isinstance(args, np.ndarray):
        return [args]
    if isinstance(args, (tuple, list)):
        return [x for r in args for x in arg_arrays(r)]
    if isinstance(args, dict):
        return [x for r in args.values() for x in arg_arrays(r)]
    return []


def same_bytes(x, y):
    return x.dtype == y.dtype and x.shape == y.shape and x.tobytes() == y.tobytes()


def clobber(arr, mode, rng):
    """Overwrite arr IN PLACE the way a caller may treat an array he was handed; True if its content changed."""
    if not arr.flags.writeable:
        return False
    before = arr.copy()
    isf = arr.dtype.kind == "f"
    if mode == "mixed":
        mode = CLOBBER[int(rng.integers(len(CLOBBER)))]
    if mode == "shuffle":
        rng.shuffle(arr)                                    # rows of a batch / entries of a vector
    elif mode == "reverse":
        arr[...] = before[::-1]
    elif mode == "zero":
        arr[...] = 0
    elif mode == "incr":
        arr += 1
    elif mode == "fill":
        arr[...] = np.nan if isf else (-7 if arr.dtype.kind == "i" else int(np.iinfo(arr.dtype).max) // 3)
    else:
        raise AssertionError("unknown overwrite " + mode)
    if arr.tobytes() == before.tobytes():                   # one row, a palindrome, all zeros: make it different anyway
        arr[...] = (before * -3.0 + 1.5) if isf else (before + 1)
    return arr.tobytes() != before.tobytes()


class HandedOut:
    """Proxy of the per-case context that turns every library call made through ctx.lib into the history described above and
    hands the SECOND result to the property function (so all its oracles are applied to it).  It also keeps every array it
    handed on and checks at the end that no later library call changed it, and that results of different calls do not overlap."""

    def __init__(self, ctx, mode, seed):
        self._ctx = ctx
        self._mode = mode
        self._rng = np.random.default_rng(int(seed))
        self._held = []                                     # (array handed to the property function, its copy, routine)
        self._dead = []                                     # overwritten first results, kept alive (no address reuse)
        self._nt = False
        self.changed = 0
        self.names = set()

    def __getattr__(self, name):
        return getattr(self._ctx, name)

    def nontrivial(self, flag=True):
        self._nt = self._nt or bool(flag)

    def lib(self, fn, *a, **k):
        import copy
        ctx = self._ctx
        name = getattr(fn, "__name__", repr(fn))
        first = ctx.lib(fn, *copy.deepcopy(a), **copy.deepcopy(k))
        mine = result_arrays(first)
        was = [x.copy() for x in mine]
        done = [clobber(x, self._mode, self._rng) for x in mine]
        second = ctx.lib(fn, *a, **k)
        again = result_arrays(second)
        ctx.check(len(again) == len(mine), name + ": called again with equal arguments it returns a result of a different structure",
                  first=repr(type(first)), second=repr(type(second)))
        for j, (x, x0, y) in enumerate(zip(mine, was, again)):
            ctx.check(same_bytes(y, x0),
                      name + ": called again with equal, freshly built arguments after the caller overwrote the array it was "
                      "handed by the first call, it does not return the first result as it was before the overwrite "
                      "(results are not independent objects)",
                      overwrite=self._mode, same_object=y is x, shares_memory=bool(np.shares_memory(x, y)), part=j,
                      first_before=x0, second=y)
            ctx.check(not np.shares_memory(x, y),
                      name + ": the arrays returned by two calls on freshly built arguments share memory", part=j)
        own = arg_arrays([a, k])
        for j, y in enumerate(again):
            if not any(np.shares_memory(y, v) for v in own):
                for h, _, hname in self._held:
                    ctx.check(not np.shares_memory(y, h), name + ": the returned array shares memory with an array returned by an "
                              "earlier call (" + hname + ")", part=j)
        for y in again:
            self._held.append((y, y.copy(), name))
        self._dead.extend(mine)
        if mine:
            self.names.add(name)
        self.changed += sum(done)
        return second

    def finish(self):
        ctx = self._ctx
        for h, h0, name in self._held:
            ctx.check(same_bytes(h, h0), name + ": an array it returned was changed by a later library call (the caller's result "
                      "is not his own)", before=h0, now=h)
        ctx.label("overwrite:" + self._mode, *("handed_out:" + n for n in sorted(self.names)))
        ctx.nontrivial(self._nt and self.changed > 0)


def opt_form_strategy(is_n):
    return st.sampled_from(opt_forms(is_n))


@st.composite
def prep_sampled(draw, tier):
    return {"a": draw(opt_form_strategy(False)), "b": draw(opt_form_strategy(False)), "n": draw(opt_form_strategy(True)),
            "d": draw(st.sampled_from([None, 0, 1, 2, 3])), "reps": draw(st.sampled_from([None, 1, 3]))}


@st.composite
def reject_sampled(draw, tier):
    fn = draw(st.sampled_from(["ind_to_poi", "poi_to_ind", "poi_scale"]))
    kind = draw(st.sampled_from(["uni", "cheb", "custom"] if fn == "poi_scale" else ["uni", "cheb"]))
    d = draw(st.integers(1, 4))
    which = draw(st.sampled_from(["a", "b", "ab"] if fn == "poi_scale" else ["a", "b", "n", "ab", "abn"]))
    L = draw(st.sampled_from([x for x in (1, 2, 3, 4, 6, 8) if x != d]))
    return {"fn": fn, "kind": kind, "d": d, "which": which, "L": L, "cont": draw(st.sampled_from(SEQ_SPELL)),
            "others": draw(st.sampled_from(["scalar", "seq"])), "batch": draw(st.integers(1, 4))}


HANDOUT = {
    "grid_flat": (prop_grid_flat, grid_flat_cases),
    "prep_opts": (prop_prep, prep_sampled),
    "roundtrip": (prop_roundtrip, roundtrip_cases),
    "points": (prop_points, point_cases),
    "scale": (prop_scale, scale_cases),
    "forms": (prop_forms, form_cases),
    "repeat_calls": (prop_repeat, form_cases),
    "single_batch": (prop_stack, stack_cases),
    "index_dtypes": (prop_dtypes, dtype_cases),
    "cdf": (prop_cdf, cdf_cases),
    "reject": (prop_reject, reject_sampled),
}
HANDOUT_WEIGHTED = (["grid_flat"] * 4 + ["prep_opts"] * 3 + ["cdf"] * 2 + ["roundtrip"] * 2 + ["points", "scale", "forms", "repeat_calls",
                    "single_batch", "index_dtypes", "reject"])


@st.composite
def handout_cases(draw, tier):
    which = draw(st.sampled_from(HANDOUT_WEIGHTED))
    return {"which": which, "case": draw(HANDOUT[which][1](tier)), "clobber": draw(st.sampled_from(CLOBBER + ["mixed"])),
            "cseed": draw(st.integers(0, 2 ** 32 - 1))}


def prop_handout(case, ctx):
    """Every sub-check of the module re-run as a history: each library call is made twice, the arrays returned by the first
    call are overwritten in place in between; the property function sees (and judges) the second result."""
    h = HandedOut(ctx, case["clobber"], case["cseed"])
    ctx.label("history_of:" + case["which"])
    HANDOUT[case["which"]][0](case["case"], h)
    h.finish()


def handout_small(tier, shard, nshards):
    """Exhaustive part: every small shape of grid_flat_small x every overwrite; every accepted option preparation."""
    j = 0
    for c in grid_flat_small(tier, 0, 1):
        for mode in CLOBBER:
            if j % nshards == shard:
                yield {"which": "grid_flat", "case": c, "clobber": mode, "cseed": j}
            j += 1
    for c in prep_cases(tier, 0, 1):
        if j % nshards == shard:
            yield {"which": "prep_opts", "case": c, "clobber": CLOBBER[j % len(CLOBBER)], "cseed": j}
        j += 1


# grid_flat: longer histories over one shape in all its spellings, other shapes in between, and the consumers of the flat grid

FLAT_FORMS = ["list", "array", "array32", "tuple"]


@st.composite
def flat_history_cases(draw, tier):
    cap = 600 if tier == "quick" else 4096
    d = draw(st.integers(1, 4))
    n = [draw(st.integers(1, 6 if tier == "quick" else 9)) for _ in range(d)]
    while int(np.prod(n, dtype=object)) > cap:
        n[int(np.argmax(n))] -= 1
    forms = FLAT_FORMS + (SCALAR_FORMS if d == 1 else [])
    steps = [{"form": draw(st.sampled_from(forms)), "clobber": draw(st.sampled_from(CLOBBER + ["keep"])),
              "other": draw(st.sampled_from(["no", "no", "reversed", "longer", "bigger"]))}
             for _ in range(draw(st.integers(2, 4)))]
    kind = draw(st.sampled_from(["uni", "cheb"]))
    a, b = [], []
    for k in range(d):
        _, ak, bk = draw(raw_boxes())
        ak, bk = widen(ak, bk, max(n[k], 2), kind)
        a.append(ak), b.append(bk)
    small = min(n) >= 2 and int(np.prod(n)) <= 200
    return {"n": n, "steps": steps, "kind": kind, "a": a, "b": b, "cseed": draw(st.integers(0, 2 ** 32 - 1)),
            "fgf": draw(st.sampled_from(["no", "before", "after", "both"])) if small else "no",
            "mform": draw(st.sampled_from(["list", "array", "none"])), "nA": [draw(st.integers(2, 3)) for _ in range(d)]}


def other_shape(n, how):
    if how == "reversed":
        return list(n[::-1])
    if how == "longer":
        return list(n) + [2]
    return [n[0] + 1] + list(n[1:])


def prop_flat_history(case, ctx):
    """grid_flat asked for one shape again and again (list / tuple / int64 / int32 array / scalar spellings), the caller
    overwriting or keeping what he got, other shapes in between; then the consumers of the flat grid: the index round trip over
    the whole grid and func_gets_full (which asks grid_flat itself)."""
    n, kind, a, b = case["n"], case["kind"], case["a"], case["b"]
    d = len(n)
    rng = np.random.default_rng(case["cseed"])
    live = []                                               # (array, copy or None when overwritten, description)
    changed = 0

    def ask(shape, form, mode, step):
        nonlocal changed
        arg, ref = flat_spelling(shape, form)
        G = ctx.lib(teneva.grid_flat, arg)
        check_flat(ctx, G, ref, shape, call=step, spelling=form)
        for H, _, what in live:
            ctx.check(not np.shares_memory(G, H), "grid_flat: the returned array shares memory with the array returned by an "
                      "earlier call", call=step, earlier=what, n=shape)
        if mode == "keep" or G.size == 0:
            live.append((G, G.copy(), "call %d (%s), kept" % (step, form)))
        else:
            changed += bool(clobber(G, mode, rng))
            live.append((G, None, "call %d (%s), overwritten: %s" % (step, form, mode)))

    A = Zref = None
    if case["fgf"] != "no":
        shapeA = n if case["mform"] == "none" else case["nA"]
        A = rng.standard_normal(shapeA)
        m = None if case["mform"] == "none" else (np.array(n, dtype=int) if case["mform"] == "array" else list(n))
        Xref = ctx.lib(teneva.ind_to_poi, flat_reference(n), -1., 1., list(n), "cheb")
        Zref = ctx.lib(teneva.func_get_full, Xref, A, -1., 1.).reshape(n, order="F")

        def consumer(when):
            Z = ctx.lib(teneva.func_gets_full, A.copy(), -1., 1., m)
            ctx.check(isinstance(Z, np.ndarray) and Z.shape == tuple(n), "func_gets_full: result is not an array of the shape of the grid",
                      got=repr(getattr(Z, "shape", None)), n=n)
            tol = 1e-9 * (1.0 + float(np.max(np.abs(Zref))))
            ctx.check(bool(np.all(np.abs(Z - Zref) <= tol)), "func_gets_full: not the interpolant on the nodes of the full grid in "
                      "first-index-fastest order (" + when + " the caller overwrote an array he got from grid_flat)", n=n,
                      err=float(np.max(np.abs(Z - Zref))), tol=tol)
        if case["fgf"] in ("before", "both"):
            consumer("before")

    for s, st_ in enumerate(case["steps"]):
        ask(n, st_["form"], st_["clobber"], s)
        if st_["other"] != "no":
            ask(other_shape(n, st_["other"]), "list", st_["clobber"], s)
    if min(n) >= 2:
        for k in range(d):
            require_pre(a[k], b[k], n[k], kind)
        arg, ref = flat_spelling(n, "list")
        I = ctx.lib(teneva.grid_flat, arg)
        check_flat(ctx, I, ref, n, call="round trip")
        X = ctx.lib(teneva.ind_to_poi, I, list(a), list(b), list(n), kind)
        J = ctx.lib(teneva.poi_to_ind, X, list(a), list(b), list(n), kind)
        ctx.check(isinstance(J, np.ndarray) and J.shape == ref.shape and np.array_equal(J, ref),
                  "poi_to_ind(ind_to_poi(grid_flat(n))) is not the flat grid", n=n, kind=kind)
        ctx.inner(int(ref.shape[0]))
    if A is not None and case["fgf"] in ("after", "both"):
        consumer("after")
    for H, H0, what in live:
        if H0 is not None:
            ctx.check(same_bytes(H, H0), "grid_flat: an array it returned (and the caller kept) was changed by a later call", which=what, n=n)
    ctx.label("d:%d" % d, "fgf:" + case["fgf"], *("spelling:" + s["form"] for s in case["steps"]),
              *("overwrite:" + s["clobber"] for s in case["steps"]))
    ctx.nontrivial(d >= 2 and min(n) >= 2 and changed > 0)


# ------------------------------------------------------------------------------------------- boxes at the ends of the double range
#
# "for all boxes with a < b per dimension (any magnitude and offset)": the sub-checks above draw magnitudes 1e-8 .. 1e8.  Here
# the same cases and the same oracles for boxes whose bounds and widths reach the largest finite doubles for which b - a is
# finite, and go down to 1e-300 (LEVELS / to_extreme).  A formula that is fine for an ordinary box may form an intermediate
# that is (n-1) times the width, twice a bound, the square of something - and overflow (or underflow) while every node, every
# point and the answer itself are perfectly representable.

EXTREME = {
    "roundtrip": (prop_roundtrip, roundtrip_cases),
    "points": (prop_points, point_cases),
    "scale": (prop_scale, scale_cases),
    "forms": (prop_forms, form_cases),
    "repeat_calls": (prop_repeat, form_cases),
    "single_batch": (prop_stack, stack_cases),
    "index_dtypes": (prop_dtypes, dtype_cases),
}
EXTREME_WEIGHTED = ["roundtrip"] * 3 + ["points"] * 2 + ["scale"] * 2 + ["forms", "repeat_calls", "single_batch", "index_dtypes"]


@st.composite
def extreme_cases(draw, tier):
    which = draw(st.sampled_from(EXTREME_WEIGHTED))
    return {"which": which, "case": draw(EXTREME[which][1](tier, extreme=True))}


def prop_extreme(case, ctx):
    ctx.label("extreme:" + case["which"])
    inner = case["case"]
    for c in inner.get("cls", []):
        ctx.label("level:" + c.rpartition("@")[2])
    EXTREME[case["which"]][0](inner, ctx)
    ctx.nontrivial(True)


# ------------------------------------------------------------------------------------------- the very edge of the double range
# boxes whose centre, reciprocal width or products with custom limits are not representable although a, b and b - a are
# (added by the harness owner after the extreme_boxes work: one formula was repaired in /repo, two are recorded as open findings)

def edge_cases(tier, shard, nshards):
    j = 0
    boxes = [(1e308, 1.7e308), (-1.7e308, -1e308), (9.5e307, 1.79e308), (-1.79e308, -9.1e307), (8.99e307, 1.0e308)]
    for (a, b) in boxes:
        for n in (2, 3, 5, 8, 33):
            if j % nshards == shard:
                yield {"kind": "centre", "a": a, "b": b, "n": n}
            j += 1
    for (a, b, lim) in [(8e307, 8.5e307, [-5.0, 5.0]), (-8e307, 8e307, [-1.0, 1.0]), (1e305, 3e305, [0.0, 1000.0]), (-1.7e308, -1.6e308, [2.0, 3.0])]:
        for t in (0.0, 0.25, 0.5, 1.0):
            if j % nshards == shard:
                yield {"kind": "custom", "a": a, "b": b, "lim": lim, "t": t}
            j += 1
    for (a, b) in [(1e-308, 2e-308), (0.0, 1e-308), (-5e-309, 5e-309), (3e-310, 9e-310)]:
        for t in (0.2, 0.5, 0.8):
            if j % nshards == shard:
                yield {"kind": "narrow", "a": a, "b": b, "t": t}
            j += 1


def prop_edge(case, ctx):
    a, b = case["a"], case["b"]
    if case["kind"] == "centre":
        # |a| + |b| is beyond the float range, a, b and b - a are not: Chebyshev nodes, scaling and the round trip (after repair F25)
        n = case["n"]
        ctx.label("centre_not_representable")
        ctx.nontrivial(True)
        idx = np.arange(n)
        X = ctx.lib(teneva.ind_to_poi, idx.reshape(-1, 1), a, b, n, "cheb")
        ctx.check(X.shape == (n, 1) and np.all(np.isfinite(X)), "ind_to_poi(cheb): non-finite nodes on a finite box", a=a, b=b, n=n, X=X.ravel().tolist()[:6])
        x = X[:, 0]
        u = 4 * max(abs(np.spacing(a)), abs(np.spacing(b)))       # (the end nodes are a rounded sum of two halves: a few ulp, like everywhere in this module)
        ctx.check(abs(x[0] - b) <= u and abs(x[-1] - a) <= u and np.all(x <= b + u) and np.all(x >= a - u) and np.all(np.diff(x) <= 0), "ind_to_poi(cheb): nodes not inside the box / not from b down to a",
                  a=a, b=b, nodes=x.tolist()[:6])
        ref = [float(Fr(b) / 2 + Fr(a) / 2 + (Fr(b) - Fr(a)) / 2 * Fr(math.cos(math.pi * i / (n - 1)))) for i in range(n)]
        ctx.check(np.allclose(x, ref, rtol=1e-14, atol=0), "ind_to_poi(cheb): nodes differ from the reference formula", got=x.tolist()[:6], ref=ref[:6])
        back = ctx.lib(teneva.poi_to_ind, X, a, b, n, "cheb")
        ctx.check(np.array_equal(np.asarray(back).ravel(), idx), "cheb round trip index -> point -> index fails on a box with a non-representable centre", back=np.asarray(back).ravel().tolist())
        sc = ctx.lib(teneva.poi_scale, X, a, b, "cheb")
        ctx.check(np.allclose(sc.ravel(), np.cos(np.pi * idx / (n - 1)), atol=1e-12), "poi_scale(cheb) of the nodes is not cos(pi i / (n-1))", got=sc.ravel().tolist()[:6])
        Xu = ctx.lib(teneva.ind_to_poi, idx.reshape(-1, 1), a, b, n, "uni")
        ctx.check(np.all(np.isfinite(Xu)) and Xu[0, 0] == a and abs(Xu[-1, 0] - b) <= 4 * abs(np.spacing(b)), "ind_to_poi(uni): end nodes on a huge box", ends=[float(Xu[0, 0]), float(Xu[-1, 0])])
        return
    t = case["t"]
    x = float(Fr(a) + (Fr(b) - Fr(a)) * Fr(t))
    if case["kind"] == "custom":
        lo, hi = case["lim"]
        ctx.label("custom_limits_products_overflow")
        ctx.nontrivial(True)
        got = float(np.ravel(ctx.lib(teneva.poi_scale, np.array([x]), a, b, [lo, hi]))[0])
        tx = (Fr(x) - Fr(a)) / (Fr(b) - Fr(a))
        ref = float(Fr(lo) + tx * (Fr(hi) - Fr(lo)))
        if not (abs(got - ref) <= 1e-9 * max(abs(lo), abs(hi), 1.0)):
            if max(abs(a), abs(b)) * max(abs(lo), abs(hi)) > 1.7e308:
                ctx.known("poi-scale-custom-limits-product-overflow", f"poi_scale([{x!r}], {a!r}, {b!r}, {[lo, hi]!r}) = {got!r}, affine image {ref!r}")
            ctx.check(False, "poi_scale(custom limits): not the affine image of the point", got=got, ref=ref, a=a, b=b, x=x)
        return
    ctx.label("reciprocal_width_overflows")
    ctx.nontrivial(True)
    got = float(np.ravel(ctx.lib(teneva.poi_scale, np.array([x]), a, b, "cheb"))[0])
    ref = float(2 * (Fr(x) - Fr(a)) / (Fr(b) - Fr(a)) - 1)
    if not (abs(got - ref) <= 1e-6):
        if b - a < 1.2e-308:
            ctx.known("poi-scale-cheb-reciprocal-width-overflow", f"poi_scale([{x!r}], {a!r}, {b!r}, 'cheb') = {got!r}, expected {ref!r}")
        ctx.check(False, "poi_scale(cheb) on a very narrow box: not the affine image of the point", got=got, ref=ref, a=a, b=b, x=x)
    gu = float(np.ravel(ctx.lib(teneva.poi_scale, np.array([x]), a, b, "uni"))[0])
    ctx.check(abs(gu - t) <= 1e-6, "poi_scale(uni) on a very narrow box", got=gu, ref=t)


SUBCHECKS = [
    Sub("index_dtypes", prop_dtypes, strategy=dtype_cases, quick=100, thorough=1200),
    Sub("repeat_calls", prop_repeat, strategy=form_cases, quick=60, thorough=600),
    Sub("roundtrip", prop_roundtrip, strategy=roundtrip_cases, quick=150, thorough=2500),
    Sub("roundtrip_all_n", prop_roundtrip, enumerate=all_n_cases, exhaustive=True),
    Sub("points", prop_points, strategy=point_cases, quick=120, thorough=1500),
    Sub("scale", prop_scale, strategy=scale_cases, quick=120, thorough=1500),
    Sub("forms", prop_forms, strategy=form_cases, quick=100, thorough=1500),
    Sub("grid_flat", prop_grid_flat, strategy=grid_flat_cases, quick=100, thorough=1000),
    Sub("grid_flat_small", prop_grid_flat, enumerate=grid_flat_small, exhaustive=True),
    Sub("prep_opts", prop_prep, enumerate=prep_cases, exhaustive=True),
    Sub("reject", prop_reject, enumerate=reject_cases, exhaustive=True),
    Sub("single_batch", prop_stack, strategy=stack_cases, quick=100, thorough=1500),
    Sub("cdf", prop_cdf, strategy=cdf_cases, quick=150, thorough=2500),
    Sub("handed_out", prop_handout, strategy=handout_cases, quick=160, thorough=2500),
    Sub("handed_out_small", prop_handout, enumerate=handout_small, exhaustive=True),
    Sub("grid_flat_history", prop_flat_history, strategy=flat_history_cases, quick=60, thorough=800),
    Sub("extreme_boxes", prop_extreme, strategy=extreme_cases, quick=220, thorough=3000),
    Sub("range_edge", prop_edge, enumerate=edge_cases, exhaustive=True),
]
