"""C02 - truncate keeps the error within e*||Y|| and never exceeds rank caps; add_many obeys it per rounding step."""
import math
import numpy as np
from hypothesis import strategies as st

import harness.core  # noqa: F401
from harness.core import Sub
from harness import gen, oracle
from harness.oracle import EPS, dense, fro, tails, unfold_svals

import teneva

LEVEL = "exploration"
RULE = ("Hypothesis draws TT tensors with controlled decay of the bond spectra (d=2 with an explicitly prescribed spectrum: "
        "geometric / clustered / repeated / gapped; a matrix with spectrum (1, a, .., a) carried through 1..3 interior modes of size 1; d>2 gauss cores with per-bond column decay 10^(-decay*j)), global scale "
        "10^[-12,12], accuracy e log-uniform in [1e-12,0.9] or placed at (1 +- 1e-3) x a threshold where a bond rank changes, cap r "
        "in {1..max rank, 1e12, non-integer}, and all four (is_eigh, use_stab) combinations; in half of the cases the same tensor is handed over "
        "with one core times 2^s and another times 2^-s, s in +-{520,560,600} (exact; raw-core Gram products leave the float range); oracle = LAPACK SVD of the input "
        "unfoldings (tails). add_many: lists of tensors/numbers with trunc_freq 1..4 against a mirrored error recursion. "
        "Non-trivial = at least one bond rank actually reduced; distinct by SHA-1 of the case.")
TOLERANCES = ("err <= e||Y||(1+1e-9)+floor; err^2 <= sum_k tail_k(rank_k)^2 (1+1e-9) + floor^2; floor_svd = 64 eps R d ||Y||, "
              "floor_eigh = 8 sqrt(eps R) (d-1) ||Y|| (square roots of eigenvalues of A A^T carry an absolute error ~eps||A||^2); "
              "rank optimality asserted only for e||Y||/sqrt(d-1) > 4 floor with 1e-6 two-sided slack at thresholds")
ASSUMPTIONS = ["d >= 2, finite cores, 0 < e < 1, r >= 1", "LAPACK SVD of the dense unfoldings is the reference spectrum",
               "the per-mode floors are stated tolerances of the two decomposition routes, not findings"]


def floor_svd(R, d, nrm):
    return 64 * EPS * R * d * nrm


def floor_eigh(R, d, nrm):
    return 8 * math.sqrt(EPS * R) * (d - 1) * nrm


# ------------------------------------------------------------------------------------------- generators

@st.composite
def decaying_specs(draw, tier, d_max=5):
    """TT spec with decaying bond spectra and a global scale."""
    kind = draw(st.sampled_from(["spectrum2", "decay", "decay", "family", "chain1"]))
    scale10 = draw(st.sampled_from([0, 0, 1, -1, 3, -3, 6, -6, 9, -9, 12, -12]))
    if kind == "spectrum2":
        m = draw(st.integers(1, 8)); n = draw(st.integers(1, 8))
        q = min(m, n)
        fam = draw(st.sampled_from(["geometric", "clustered", "repeated", "gapped", "tiny_tail"]))
        return {"kind": kind, "m": m, "n": n, "sfam": fam, "ratio": draw(st.sampled_from([0.5, 0.1, 1e-2, 1e-3])),
                "seed": draw(gen.seeds), "scale10": scale10, "q": draw(st.integers(1, q))}
    if kind == "chain1":
        # a matrix with the spectrum (1, a, .., a) carried through k interior modes of size 1: d-1 = k+1 bonds see the SAME unfolding one
        # after the other, each truncation finds what the previous one left - the case in which the per-bond budgets really add up
        k = draw(st.integers(1, 3))
        q = draw(st.integers(k + 3, k + 7))
        m = draw(st.integers(q, q + 3)); n = draw(st.integers(q, q + 3))
        return {"kind": kind, "m": m, "n": n, "q": q, "k": k, "ratio": draw(st.sampled_from([0.3, 0.1, 1e-2, 1e-3])), "seed": draw(gen.seeds), "scale10": scale10}
    if kind == "decay":
        spec = draw(gen.tt_specs(d_max=d_max, n_max=5, r_max=8 if tier == "quick" else 10, size_max=2048 if tier == "quick" else 8192,
                                 families=("gauss",), rank_families=("uniform", "ragged", "over_ranked")))
        return {"kind": kind, "Y": spec, "decay": draw(st.sampled_from([0.0, 0.3, 1.0, 2.0, 4.0])), "scale10": scale10}
    spec = draw(gen.tt_specs(d_max=d_max, n_max=5, r_max=6, size_max=2048, int_storage=True,
                             families=("smallint", "float", "gauss", "scaled", "rank_deficient", "explicit", "zero")))
    return {"kind": kind, "Y": spec, "scale10": scale10}


def as_stored(Y, ttspec, ctx=None):
    """What the library is given: cores holding integers kept in integer arrays when the spec asks for it (same denoted tensor)."""
    store = (ttspec or {}).get("store")
    if not store:
        return Y
    if ctx is not None:
        ctx.label("stored_as:" + store)
    out = []
    for k, G in enumerate(Y):
        if (store != "mixed" or k % 2 == 0) and np.array_equal(G, np.round(G)) and np.abs(G).max(initial=0) < 2 ** 31:
            out.append(G.astype(np.int64 if store == "mixed" else store))
        else:
            out.append(G)
    return out


def build(spec):
    if spec["kind"] == "spectrum2":
        rng = np.random.default_rng(spec["seed"])
        m, n, q = spec["m"], spec["n"], spec["q"]
        U, _ = np.linalg.qr(rng.normal(size=(m, q)))
        V, _ = np.linalg.qr(rng.normal(size=(n, q)))
        j = np.arange(q, dtype=float)
        f = spec["sfam"]
        if f == "geometric":
            s = spec["ratio"] ** j
        elif f == "clustered":
            s = np.where(j < (q + 1) // 2, 1.0 + 1e-3 * j, spec["ratio"] * (1.0 + 1e-3 * j))
        elif f == "repeated":
            s = np.where(j < (q + 1) // 2, 1.0, spec["ratio"])
        elif f == "gapped":
            s = np.where(j < 1, 1.0, spec["ratio"] ** 3 * 0.5 ** j)
        else:
            s = np.where(j < 1, 1.0, 1e-9 * 0.5 ** j)
        A = (U * s)
        Y = [A.reshape(1, m, q) * 10.0 ** spec["scale10"], V.T.reshape(q, n, 1).copy()]
        return Y
    if spec["kind"] == "chain1":
        rng = np.random.default_rng(spec["seed"])
        m, n, q = spec["m"], spec["n"], spec["q"]
        U, _ = np.linalg.qr(rng.normal(size=(m, q)))
        V, _ = np.linalg.qr(rng.normal(size=(n, q)))
        sv = np.array([1.0] + [spec["ratio"]] * (q - 1))
        return [(U * sv).reshape(1, m, q) * 10.0 ** spec["scale10"]] + [np.eye(q).reshape(q, 1, q) for _ in range(spec["k"])] + [V.T.reshape(q, n, 1).copy()]
    Y = gen.build_tt(spec["Y"])
    if spec["kind"] == "decay":
        for k in range(len(Y) - 1):
            r2 = Y[k].shape[2]
            Y[k] = Y[k] * (10.0 ** (-spec["decay"] * np.arange(r2)))[None, None, :]
    Y[0] = Y[0] * 10.0 ** spec["scale10"]
    return Y


@st.composite
def trunc_cases(draw, tier):
    spec = draw(decaying_specs(tier))
    emode = draw(st.sampled_from(["log", "log", "adjacent", "adjacent"]))
    case = {"T": spec, "emode": emode, "log10e": draw(st.floats(-12, -0.05, allow_nan=False)),
            "ksel": draw(st.integers(0, 7)), "qsel": draw(st.integers(0, 15)), "side": draw(st.sampled_from([-1, 1])),
            "cap": draw(st.sampled_from(["none", "none", "int", "int", "float", "one"])), "capv": draw(st.integers(1, 10)),
            "is_eigh": draw(st.booleans()), "use_stab": draw(st.booleans())}
    # the same tensor with one core times 2**s and another times 2**-s (exact): nothing about the tensor, its norm or its unfolding spectra
    # changes, but any quantity formed from the raw cores one at a time (a Gram product, a core norm) leaves the float range
    case["balance"] = draw(st.sampled_from([None, None, None, None, None, 520, -520, 560, 600, -600]))
    case["bal_at"] = [draw(st.integers(0, 7)), draw(st.integers(1, 7))]
    return case


def unbalance(Y, case, ctx):
    s = case.get("balance")
    if not s or case["T"].get("Y", {}).get("store"):
        return Y
    d = len(Y)
    i = case["bal_at"][0] % d
    j = (i + 1 + (case["bal_at"][1] - 1) % (d - 1)) % d
    ctx.label("unbalanced_cores", f"unbalanced_by_2^{abs(s)}")
    out = [G.copy() for G in Y]
    out[i] = np.ldexp(out[i], s)
    out[j] = np.ldexp(out[j], -s)
    return out


def pick_e(case, F, nrm, d, ctx):
    e = 10.0 ** case["log10e"]
    if case["emode"] == "adjacent" and nrm > 0:
        k = 1 + case["ksel"] % (d - 1)
        # bond d-1 is truncated first and sees exactly the input unfolding: prefer it half of the time
        if case["ksel"] % 2 == 0:
            k = d - 1
        t = tails(unfold_svals(F, k))
        cands = [float(t[q]) * math.sqrt(d - 1) / nrm for q in range(1, len(t) - 1)]
        cands = [c for c in cands if 1e-13 < c < 0.9]
        if cands:
            e = cands[case["qsel"] % len(cands)] * (1 + case["side"] * 1e-3)
            ctx.label("threshold_adjacent")
    return min(max(e, 1e-13), 0.95)


def cap_value(case, rmax):
    c = case["cap"]
    if c == "none":
        return 1e12
    if c == "one":
        return 1
    v = 1 + (case["capv"] - 1) % max(1, rmax)
    return v if c == "int" else v + 0.7


def check_truncation(ctx, Y, Z, e, cap, is_eigh, what):
    """Oracles 1-4 of DESIGN/C02 for Z = truncate(Y, e, cap, ...)."""
    d = len(Y)
    n = oracle.shape_of(Y)
    why = oracle.wellformed(Z, n)
    ctx.check(why is None, f"{what}: result not well-formed / finite / same shape: {why}")
    F = dense(Y)
    nrm = fro(F)
    rin, rout = oracle.ranks_of(Y), oracle.ranks_of(Z)
    capi = max(1, int(cap))
    R = max(rin)
    # rounding of the initial orthogonalisation is relative to the abs-majorant, not to ||Y|| (cancellation inside the cores)
    cancel = oracle.K_of(Y) * EPS * fro(oracle.dense_abs(Y))
    fl = (floor_eigh(R, d, nrm + cancel) if is_eigh else floor_svd(R, d, nrm + cancel)) + cancel
    for k in range(1, d):
        ctx.check(rout[k] <= capi, f"{what}: rank exceeds max(1, r)", bond=k, rank=rout[k], cap=cap)
        ctx.check(rout[k] <= rin[k], f"{what}: rank exceeds the input rank", bond=k, rank=rout[k], rin=rin[k])
    err = fro(dense(Z) - F)
    T = [None] + [tails(unfold_svals(F, k)) for k in range(1, d)]
    binds = any(rout[k] == capi for k in range(1, d))
    reduced = any(rout[k] < rin[k] for k in range(1, d))
    if binds:
        ctx.label("cap_binds")
    if not binds:
        ctx.check(err <= e * nrm * (1 + 1e-9) + fl, f"{what}: error exceeds e*||Y|| although the cap does not bind",
                  err=err, bound=e * nrm, floor=fl, e=e, norm=nrm, ranks_in=rin, ranks_out=rout)
    qo = math.sqrt(sum(float(T[k][min(rout[k], len(T[k]) - 1)]) ** 2 for k in range(1, d)))
    ctx.check(err <= qo * (1 + 1e-9) + fl, f"{what}: error exceeds the root-sum-square of the best errors at the returned ranks",
              err=err, quasi_opt=qo, floor=fl, e=e, norm=nrm, ranks_in=rin, ranks_out=rout)
    delta = e * nrm / math.sqrt(d - 1)
    per_step_floor = fl / (d - 1)
    if delta > 4 * per_step_floor and nrm > 0:
        for k in range(1, d):
            t = T[k]
            thr = delta * (1 - 1e-6) - per_step_floor
            qk = next(q for q in range(len(t)) if t[q] <= thr)
            ctx.check(rout[k] <= max(1, min(capi, qk)) or rout[k] <= 1, f"{what}: rank exceeds the smallest rank meeting the per-unfolding budget",
                      bond=k, rank=rout[k], smallest=qk, delta=delta, tail_at_smallest=float(t[qk]), e=e)
        ctx.label("rank_optimality_checked")
    return reduced, nrm


def prop_truncate(case, ctx):
    Y = build(case["T"])
    d = len(Y)
    F = dense(Y)
    nrm = fro(F)
    e = pick_e(case, F, nrm, d, ctx)
    cap = cap_value(case, max(oracle.ranks_of(Y)))
    is_eigh, use_stab = case["is_eigh"], case["use_stab"]
    ctx.label(f"eigh={is_eigh}", f"stab={use_stab}", "kind:" + case["T"]["kind"], "cap:" + case["cap"])
    if d == 2:
        ctx.label("d==2")
    if nrm > 1e3:
        ctx.label("scale>1e3")
    if 0 < nrm < 1e-3:
        ctx.label("scale<1e-3")
    Z = ctx.lib(teneva.truncate, as_stored(unbalance(Y, case, ctx), case["T"].get("Y"), ctx), e, cap, use_stab=use_stab, is_eigh=is_eigh)
    if any(not np.any(G) for G in Y):
        # an exactly zero tensor stored with ranks > 1 (a core is identically zero): the budget is 0 and every tail energy is exactly 0,
        # which meets it (the documented test is "<="), so all ranks collapse to 1 - an exact tie that involves no rounding
        ctx.label("structurally_zero")
        ctx.check(oracle.wellformed(Z, oracle.shape_of(Y)) is None and max(oracle.ranks_of(Z)) == 1 and not np.any(dense(Z)),
                  "truncate of an exactly zero tensor: ranks do not collapse to 1 / result not zero", ranks=oracle.ranks_of(Z), ranks_in=oracle.ranks_of(Y))
        Zm = ctx.lib(teneva.truncate, ctx.lib(teneva.mul, Y, 0.), e, cap, use_stab=use_stab, is_eigh=is_eigh)
        ctx.check(max(oracle.ranks_of(Zm)) == 1, "truncate(mul(Y, 0.)): ranks do not collapse to 1", ranks=oracle.ranks_of(Zm))
    reduced, _ = check_truncation(ctx, Y, Z, e, cap, is_eigh, f"truncate(is_eigh={is_eigh}, use_stab={use_stab})")
    ctx.nontrivial(reduced)
    # 'with and without stabilisation' also for the documented orth=False spelling (no orthogonalisation: the caller did it): there the
    # stabilisation flag has nothing to rescale, so both settings must return the same ranks and the same tensor up to rounding
    Yo = ctx.lib(teneva.orthogonalize, Y, d - 1)
    A = ctx.lib(teneva.truncate, Yo, e * max(nrm, 1e-300), cap, orth=False, use_stab=False, is_eigh=is_eigh)
    B = ctx.lib(teneva.truncate, Yo, e * max(nrm, 1e-300), cap, orth=False, use_stab=True, is_eigh=is_eigh)
    ctx.check(oracle.wellformed(A, oracle.shape_of(Y)) is None and oracle.wellformed(B, oracle.shape_of(Y)) is None, "truncate(orth=False): malformed result")
    ctx.check(oracle.ranks_of(A) == oracle.ranks_of(B), "truncate(orth=False): ranks differ between use_stab=False and use_stab=True",
              plain=oracle.ranks_of(A), stab=oracle.ranks_of(B), e_abs=e * nrm)
    if oracle.ranks_of(A) == oracle.ranks_of(B):
        dA = dense(A)
        ctx.check(fro(dA - dense(B)) <= 1e-9 * max(fro(dA), 1e-300), "truncate(orth=False): tensors differ between use_stab=False and use_stab=True",
                  diff=fro(dA - dense(B)), norm=fro(dA))
    ctx.inner(1)


# ------------------------------------------------------------------------------------------- add_many

@st.composite
def addmany_cases(draw, tier):
    n = draw(gen.shapes(d_max=4, n_max=4, size_max=512))
    m = draw(st.integers(1, 8))
    items = []
    for _ in range(m):
        if draw(st.integers(0, 4)) == 0:
            items.append({"num": draw(gen.numbers)})
        else:
            items.append({"tt": draw(gen.tt_specs(shape=n, r_max=3, families=("smallint", "float", "gauss", "dyadic", "zero"), int_storage=True)),
                          "scale10": draw(st.sampled_from([0, 0, 0, 2, -2, 4]))})
    return {"n": n, "items": items, "log10e": draw(st.floats(-10, -0.3, allow_nan=False)),
            "cap": draw(st.sampled_from([1e12, 1e12, 1e12, 1, 2, 3, 5])), "trunc_freq": draw(st.integers(1, 4))}


def prop_addmany(case, ctx):
    n = case["n"]
    d = len(n)
    e = 10.0 ** case["log10e"]
    cap, tf = case["cap"], case["trunc_freq"]
    items, dens, majs = [], [], []
    for it in case["items"]:
        if "num" in it:
            items.append(it["num"]); dens.append(np.full(n, float(it["num"]))); majs.append(abs(it["num"]) * math.sqrt(np.prod(n)))
        else:
            Y = gen.build_tt(it["tt"]); Y[0] = Y[0] * 10.0 ** it["scale10"]
            items.append(as_stored(Y, it["tt"], ctx)); dens.append(dense(Y)); majs.append(fro(oracle.dense_abs(Y)))
    got = ctx.lib(teneva.add_many, items, e, cap, tf)
    all_num = all(isinstance(x, (int, float)) for x in items)
    ctx.label(f"trunc_freq={tf}", "all_numbers" if all_num else "has_tensor", f"m={len(items)}")
    if all_num:
        ctx.check(isinstance(got, (int, float)) and abs(got - sum(items)) <= 1e-12 * sum(abs(x) for x in items), "add_many of numbers is their sum", got=got)
        return
    why = oracle.wellformed(got, n)
    ctx.check(why is None, f"add_many: result not well-formed: {why}")
    # mirror the rounding schedule of the implementation and propagate the error bound
    S = dens[0].copy()
    E = 0.0
    R = 1 if isinstance(items[0], (int, float)) else max(oracle.ranks_of(items[0]))
    is_num = isinstance(items[0], (int, float))
    steps = 0
    M = majs[0]                       # abs-majorant of the running sum: the scale of rounding under cancellation
    for i, (it, D) in enumerate(zip(items[1:], dens[1:])):
        S = S + D
        M += majs[i + 1]
        R += 1 if isinstance(it, (int, float)) else max(oracle.ranks_of(it))
        is_num = is_num and isinstance(it, (int, float))
        if not is_num and (i + 1) % tf == 0:
            cancel = 64 * (d + R + max(n)) * EPS * M
            nr = fro(S) + E + cancel
            E = E + e * nr * (1 + 1e-9) + floor_eigh(R, d, nr) + cancel
            steps += 1
    cancel = 64 * (d + R + max(n)) * EPS * M
    nr = fro(S) + E + cancel
    E_final = E + e * nr * (1 + 1e-9) + floor_eigh(R, d, nr) + cancel
    rout = oracle.ranks_of(got)
    capi = max(1, int(cap))
    ctx.check(max(rout) <= capi, "add_many: rank exceeds max(1, r)", ranks=rout, cap=cap)
    err = fro(dense(got) - S)
    binds = any(rout[k] == capi for k in range(1, d))
    ctx.nontrivial(steps >= 1 or len(items) >= 3)
    if binds:
        ctx.label("cap_binds")
        return
    ctx.check(err <= E_final, "add_many: accumulated error exceeds the per-step bound e*||partial sum||", err=err, bound=E_final,
              e=e, steps=steps, norm=fro(S))
    tens = [x for x in items if not isinstance(x, (int, float))]
    if len(tens) == len(items) and all(any(not np.any(G) for G in Y) for Y in tens):
        # every summand is an exactly zero tensor (a zero core each): the final rounding meets a zero budget with zero tails
        ctx.label("all_summands_structurally_zero")
        ctx.check(max(rout) == 1, "add_many of exactly zero tensors: ranks do not collapse to 1", ranks=rout)


SUBCHECKS = [
    Sub("truncate", prop_truncate, strategy=trunc_cases, quick=800, thorough=8000),
    Sub("add_many", prop_addmany, strategy=addmany_cases, quick=400, thorough=4000),
]
