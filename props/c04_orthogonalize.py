"""C04 - orthogonalize preserves the tensor and yields orthonormal cores around the pivot."""
import math
import numpy as np
from hypothesis import strategies as st

import harness.core  # noqa: F401
from harness.core import Sub
from harness import gen, oracle
from harness.oracle import EPS, dense, fro

import teneva

LEVEL = "exploration"
RULE = ("Hypothesis draws TT specs of all value families (incl. rank_deficient, zero, cores scaled by 2^[-30,30]) and rank profiles "
        "(incl. over_ranked); for every tensor EVERY pivot k = 0..d-1 x both stabilisation settings, and every legal step i x both "
        "in-place settings of the single-step variants, are enumerated (counted as inner evaluations), plus illegal pivots; the pivot / core number is passed as a Python int or as a NumPy "
        "integer scalar / 0-d integer array (int64, int32, uint8, intp), which the unmodified routines accept. Oracle: dense "
        "preservation, Gram defects of the unfoldings, norm concentration in the pivot core, rank caps, aliasing contract. "
        "History: orthogonalize, update two cores in place (same array objects), orthogonalize again with the same arguments. "
        "Non-trivial = a rank actually changed, or some rank >= 2 with an interior pivot; distinct by SHA-1 of the case (+ pivot).")
TOLERANCES = ("||dense(Z)*2^p - dense(Y)||_F <= 64(d+sum r+max n) eps prod_k||G_k||_F (normwise QR backward error); Gram defect <= 64 eps r n; "
              "| ||Z[k]||_F 2^p - ||Y|| | <= same normwise bound; stabilised entries <= 2, pivot max modulus in [1,2)")
ASSUMPTIONS = ["d >= 2", "finite cores; per-core scales 2^+-30 in the bulk families, one core of 2^+-(520..900), or every core shifted by 2^+-(450..900) (the stabilised variant then; the plain variant only while the whole tensor is representable)"]


def tolF(Y):
    d = len(Y)
    K = 64.0 * (d + sum(G.shape[2] for G in Y) + max(G.shape[1] for G in Y))
    return K * EPS * float(np.prod([max(fro(G), 0.0) for G in Y]))


def snapshot(Y):
    return [(id(G), G.tobytes(), G.shape) for G in Y]


def unchanged(ctx, Y, snap, what):
    ctx.check(len(Y) == len(snap), f"{what}: argument list length changed")
    for k, (G, (i0, b0, s0)) in enumerate(zip(Y, snap)):
        ctx.check(id(G) == i0, f"{what}: argument list entry {k} was rebound")
        ctx.check(G.shape == s0 and G.tobytes() == b0, f"{what}: argument core {k} was modified")


@st.composite
def cases(draw, tier):
    kw = dict(d_max=6, size_max=4096, r_max=6) if tier == "quick" else dict(d_max=8, size_max=2 ** 15, r_max=8)
    spec = draw(gen.tt_specs(int_storage=True, int_mixed=True, **kw))
    # how the caller spells the pivot / core number: a Python int or what NumPy code produces (np.arange, argmax, rng.integers)
    case = {"Y": spec, "hist": [draw(st.integers(0, 7)), draw(st.integers(0, 7)), draw(st.booleans()), draw(st.sampled_from([-2.5, 0.5, 3.0, -1.0]))], "kspell": draw(st.sampled_from(["int", "int", "int64", "int32", "uint8", "intp", "arr0"]))}
    if draw(st.integers(0, 2)) == 0:
        # extreme scales: core k is multiplied by 2**shift[k]; single cores stay representable, products do not
        lim = 900          # (two neighbouring cores of 2^900 each: their product is far outside the float range)
        pat = draw(st.sampled_from(["up", "down", "alternate", "free", "one_huge", "one_tiny"]))
        d = len(spec["n"])
        if pat in ("one_huge", "one_tiny"):
            # a single core whose own entries are beyond 1e154 / below 1e-154 (their squares leave the float range), the rest ordinary
            k1 = draw(st.integers(0, d - 1))
            # (one_tiny goes down to 2^-1070: the entries of that core are then subnormal numbers, which is still a finite tensor)
            big = draw(st.integers(520, 1000)) if pat == "one_huge" else -draw(st.sampled_from([draw(st.integers(520, 1000)), draw(st.integers(1000, 1070))]))
            case["shift"] = [big if k == k1 else draw(st.integers(-20, 20)) for k in range(d)]
            case["plain_too"] = True
        else:
            mag = [draw(st.integers(lim // 2, lim)) for _ in range(d)]
            sign = {"up": [1] * d, "down": [-1] * d, "alternate": [(-1) ** k for k in range(d)],
                    "free": [draw(st.sampled_from([-1, 1])) for _ in range(d)]}[pat]
            case["shift"] = [m_ * s_ for m_, s_ in zip(mag, sign)]
    return case


SPELL = {"int": int, "int64": np.int64, "int32": np.int32, "uint8": np.uint8, "intp": np.intp, "arr0": lambda k: np.array(k)}


def check_orth(ctx, Y, F, Z, p, k, stab, tF, nrmY):
    d = len(Y)
    n = oracle.shape_of(Y)
    why = oracle.wellformed(Z, n)
    ctx.check(why is None, f"orthogonalize(k={k}, stab={stab}): result not well-formed: {why}")
    ctx.check(isinstance(p, int) and not isinstance(p, bool), "orthogonalize: exponent p is not a Python int", p=repr(p), k=k)
    rin, rout = oracle.ranks_of(Y), oracle.ranks_of(Z)
    D = np.ldexp(dense(Z), p)          # 2**p may be far outside the float range when the base tensor is (numerically) zero
    ctx.check(fro(D - F) <= tF, "orthogonalize: denoted tensor changed", k=k, stab=stab, err=fro(D - F), tol=tF)
    for j in range(k):
        G = Z[j]
        ctx.check(oracle.ortho_defect_left(G) <= 64 * EPS * max(G.shape[0] * G.shape[1], G.shape[2]),
                  "orthogonalize: core left of the pivot does not have orthonormal columns", core=j, k=k, defect=oracle.ortho_defect_left(G))
    for j in range(k + 1, d):
        G = Z[j]
        ctx.check(oracle.ortho_defect_right(G) <= 64 * EPS * max(G.shape[0], G.shape[1] * G.shape[2]),
                  "orthogonalize: core right of the pivot does not have orthonormal rows", core=j, k=k, defect=oracle.ortho_defect_right(G))
    piv = fro(np.ldexp(Z[k], p))             # rescale before squaring: a core of a huge tensor may hold entries beyond 1e154
    ctx.check(abs(piv - nrmY) <= tF, "orthogonalize: pivot core does not carry the Frobenius norm", pivot=piv, norm=nrmY, tol=tF, k=k)
    for j in range(1, d):
        ctx.check(rout[j] <= rin[j], "orthogonalize: a rank increased", bond=j, rin=rin, rout=rout, k=k)
        if j <= k:
            ctx.check(rout[j] <= rout[j - 1] * n[j - 1], "orthogonalize: rank not cut to what the left core can carry", bond=j, rout=rout, k=k)
        else:
            ctx.check(rout[j] <= n[j] * rout[j + 1], "orthogonalize: rank not cut to what the right core can carry", bond=j, rout=rout, k=k)
    if stab:
        mx = max(float(np.max(np.abs(G))) for G in Z)
        ctx.check(mx <= 2.0, "orthogonalize(use_stab): an entry of Z is larger than 2", max_entry=mx, k=k)
        pm = float(np.max(np.abs(Z[k])))
        if pm > 0:
            # floor(log2(x)) rounds up for x = 2^e (1 - 2^-53): the mantissa may be 1 - 2^-53
            ctx.check(1.0 - 4 * EPS <= pm < 2.0, "orthogonalize(use_stab): pivot core not normalised to [1, 2)", pivot_max=pm, k=k)
    return rout != rin


def prop_orth(case, ctx):
    spec = case["Y"]
    Y = gen.build_tt(spec, as_float=True)
    d = len(Y)
    F = dense(Y)
    nrmY = fro(F)
    tF = tolF(Y)
    ctx.label(*gen.spec_labels(spec), "pivot_as:" + case.get("kspell", "int"))
    sp = SPELL[case.get("kspell", "int")]
    if case.get("shift") and spec["fam"] != "scaled":
        # the input is Y with core k multiplied by 2**shift[k] (far outside the double range as a whole); the stabilised
        # result (Z, p) is compared with the base tensor after removing the exact factor 2**sum(shift)
        ctx.label("extreme_scale")
        sh = [int(x) for x in case["shift"]]
        Ys = [np.ldexp(G, e_) for G, e_ in zip(Y, sh)]
        if min(sh) < -960:
            # entries that became subnormal lost low-order bits: the tensor that was really handed over is Ys, and scaling it back
            # up is exact, so the reference base tensor is taken from there
            Y = [np.ldexp(G, -e_) for G, e_ in zip(Ys, sh)]
            F = dense(Y)
            nrmY = fro(F)
            tF = tolF(Y)
            ctx.label("subnormal_core")
        snap_s = snapshot(Ys)
        for k in range(d):
            res = ctx.lib(teneva.orthogonalize, Ys, sp(k), True)
            ctx.check(isinstance(res, tuple) and len(res) == 2, "orthogonalize(use_stab=True) must return (Z, p)")
            Z, p = res
            unchanged(ctx, Ys, snap_s, "orthogonalize")
            ctx.check(isinstance(p, int), "orthogonalize: exponent p is not a Python int", p=repr(p))
            why = oracle.wellformed(Z, oracle.shape_of(Y))
            ctx.check(why is None, f"orthogonalize(use_stab) on an extremely scaled tensor: result not well-formed / finite: {why}", k=k, shift=sh)
            if nrmY > 0:
                ctx.check(abs(p - sum(sh) - math.log2(nrmY)) < 64, "orthogonalize(use_stab): exponent inconsistent with the scale of the input",
                          p=p, shift_sum=sum(sh), log2_norm_base=math.log2(nrmY), k=k)
            check_orth(ctx, Y, F, Z, p - sum(sh), k, True, tF, nrmY)
            ctx.inner(1, nontrivial_key=f"x{k}")
            if case.get("plain_too") and min(sh) >= -960 and sum(x for x in sh if x > 0) + (math.log2(nrmY) if nrmY > 0 else 0) < 980:      # (plain variant: only while no partial product overflows and no entry is subnormal - reduced precision there)
                # the whole tensor is still representable: the plain variant must work as well (2**-sum(shift) removes the scale)
                Zp = ctx.lib(teneva.orthogonalize, Ys, sp(k), False)
                why = oracle.wellformed(Zp, oracle.shape_of(Y))
                ctx.check(why is None, f"orthogonalize (one extremely scaled core): result not well-formed / finite: {why}", k=k, shift=sh)
                check_orth(ctx, Y, F, Zp, -sum(sh), k, False, tF, nrmY)
                ctx.inner(1)
        ctx.nontrivial(True)
        return
    YL = gen.build_tt(spec)          # what the library is given (integer arrays if the spec says so); Y is its float64 copy
    if spec.get("store"):
        ctx.label("stored_as:" + spec["store"])
    snap = snapshot(YL)
    changed_any = False
    for k in range(d):
        for stab in (False, True):
            res = ctx.lib(teneva.orthogonalize, YL, sp(k), stab)
            if stab:
                ctx.check(isinstance(res, tuple) and len(res) == 2, "orthogonalize(use_stab=True) must return (Z, p)")
                Z, p = res
            else:
                Z, p = res, 0
            unchanged(ctx, YL, snap, "orthogonalize")
            ctx.check(Z is not YL and all(a is not b for a, b in zip(Z, YL)), "orthogonalize returned its argument's cores")
            ch = check_orth(ctx, Y, F, Z, p, k, stab, tF, nrmY)
            changed_any = changed_any or ch
            ctx.inner(1, nontrivial_key=f"k{k}s{int(stab)}" if (ch or (max(spec["r"]) >= 2 and 0 < k < d - 1)) else None)
    # default pivot is the last mode
    Z = ctx.lib(teneva.orthogonalize, YL)
    check_orth(ctx, Y, F, Z, 0, d - 1, False, tF, nrmY)
    for bad in (-1, d, d + 3):
        ctx.raises(ValueError, teneva.orthogonalize, YL, bad)
        ctx.raises(ValueError, teneva.orthogonalize, YL, bad, True)
        if case.get("kspell", "int") not in ("int", "uint8") or bad >= 0:
            ctx.raises(ValueError, teneva.orthogonalize, YL, sp(bad))
    unchanged(ctx, YL, snap, "orthogonalize(invalid pivot)")
    # history: the caller keeps the list and the core arrays, updates one core IN PLACE (same objects) and orthogonalises again
    # with the same arguments: the second result must belong to the updated tensor
    hk, hj, hstab, hc = case.get("hist", [0, 0, False, -2.5])
    hk, hj = hk % d, hj % d
    Yh = [G.copy() for G in Y]
    ctx.lib(teneva.orthogonalize, Yh, hk, hstab)
    Yh[hj] *= hc
    Yh[(hj + 1) % d][0, 0, 0] += 1.0
    res = ctx.lib(teneva.orthogonalize, Yh, hk, hstab)
    Zh, ph = res if hstab else (res, 0)
    Fh = dense(Yh)
    check_orth(ctx, Yh, Fh, Zh, ph, hk, hstab, tolF(Yh), fro(Fh))
    ctx.inner(1, nontrivial_key=f"hist{hk}.{hj}.{int(hstab)}")
    if changed_any:
        ctx.label("rank_changed")
    ctx.nontrivial(changed_any or max(spec["r"]) >= 2)


def prop_step(case, ctx):
    spec = case["Y"]
    Y0 = gen.build_tt(spec)          # integer arrays if the spec says so; references from the float64 copy
    Y0f = gen.build_tt(spec, as_float=True)
    d = len(Y0)
    n = oracle.shape_of(Y0)
    F = dense(Y0f)
    tF = tolF(Y0f)
    ctx.label(*gen.spec_labels(spec), "core_number_as:" + case.get("kspell", "int"))
    sp = SPELL[case.get("kspell", "int")]
    for left in (True, False):
        fn = teneva.orthogonalize_left if left else teneva.orthogonalize_right
        legal = range(0, d - 1) if left else range(1, d)
        for i in legal:
            for inplace in (False, True):
                Y = [G.copy() for G in Y0]
                snap = snapshot(Y)
                old = list(Y)
                Z = ctx.lib(fn, Y, sp(i), inplace) if inplace else ctx.lib(fn, Y, sp(i))
                a, b = (i, i + 1) if left else (i - 1, i)
                if inplace:
                    ctx.check(Z is Y, f"{fn.__name__}(inplace=True) did not return its argument")
                    for j in range(d):
                        if j not in (a, b):
                            ctx.check(Y[j] is old[j], f"{fn.__name__}(inplace=True) rebound a core other than the two adjacent ones", core=j, i=i)
                    for j, (G, (i0, b0, s0)) in enumerate(zip(old, snap)):
                        ctx.check(G.tobytes() == b0, f"{fn.__name__}(inplace=True) wrote into an old core array", core=j, i=i)
                else:
                    ctx.check(Z is not Y, f"{fn.__name__}(inplace=False) returned its argument")
                    unchanged(ctx, Y, snap, fn.__name__)
                    ctx.check(all(zg is not yg for zg, yg in zip(Z, Y)), f"{fn.__name__}(inplace=False) shares core objects with its argument")
                why = oracle.wellformed(Z, n, int_ok=bool(spec.get("store") or spec.get("int_at")))     # (the untouched cores keep the caller's storage type)
                ctx.check(why is None, f"{fn.__name__}: result not well-formed: {why}")
                ctx.check(fro(dense(Z) - F) <= tF, f"{fn.__name__}: denoted tensor changed", i=i, err=fro(dense(Z) - F), tol=tF)
                G = Z[i]
                if left:
                    ctx.check(oracle.ortho_defect_left(G) <= 64 * EPS * max(G.shape[0] * G.shape[1], G.shape[2]), "orthogonalize_left: core i not left-orthonormal", i=i)
                else:
                    ctx.check(oracle.ortho_defect_right(G) <= 64 * EPS * max(G.shape[0], G.shape[1] * G.shape[2]), "orthogonalize_right: core i not right-orthonormal", i=i)
                rin, rout = oracle.ranks_of(Y0), oracle.ranks_of(Z)
                ctx.check(all(x <= y for x, y in zip(rout, rin)), f"{fn.__name__}: a rank increased", rin=rin, rout=rout)
                for j in range(d):
                    if j not in (a, b):
                        ctx.check(np.array_equal(Z[j], Y0[j]), f"{fn.__name__}: a core other than the two adjacent ones changed", core=j, i=i)
                ctx.inner(1, nontrivial_key=f"{int(left)}i{i}p{int(inplace)}" if max(spec["r"]) >= 2 else None)
        illegal = [-1, d - 1, d, None] if left else [0, -1, d, None]
        for bad in illegal:
            Y = [G.copy() for G in Y0]
            ctx.raises(ValueError, fn, Y, bad)
            ctx.raises(ValueError, fn, Y, bad, True)
            ctx.check(all(np.array_equal(a_, b_) for a_, b_ in zip(Y, Y0)), f"{fn.__name__}: argument modified although the step was rejected")
    ctx.nontrivial(max(spec["r"]) >= 2)


# ------------------------------------------------------------------------------------------- long chains (stabilised variant)
# hundreds of ordinary cores: the weight that travels with the sweep is the product of all core norms, far outside the float range
# unless it is taken out step by step; no dense copy exists, the norm reference is a Gram recursion with an unbounded exponent

@st.composite
def long_cases(draw, tier):
    d = draw(st.sampled_from([400, 700, 1000, 1500] if tier == "quick" else [400, 700, 1000, 1500, 2500, 4000]))
    return {"d": d, "n": draw(st.integers(2, 3)), "r": draw(st.integers(1, 2)), "seed": draw(gen.seeds), "scale2": draw(st.sampled_from([0, 0, 2, -2, 5, -5])),
            "k": draw(st.sampled_from(["first", "last", "mid", "draw"])), "kd": draw(st.integers(0, 10 ** 6))}


def prop_long(case, ctx):
    d, n, r = case["d"], case["n"], case["r"]
    rng = np.random.default_rng(case["seed"])
    Y = [np.ldexp(rng.normal(size=(1 if k == 0 else r, n, 1 if k == d - 1 else r)), case["scale2"]) for k in range(d)]
    k = {"first": 0, "last": d - 1, "mid": d // 2, "draw": case["kd"] % d}[case["k"]]
    ctx.label(f"d={d}", f"r={r}", "pivot:" + case["k"], f"core_scale=2^{case['scale2']}")
    ctx.nontrivial(True)
    snap = snapshot(Y)
    res = ctx.lib(teneva.orthogonalize, Y, k, True)
    ctx.check(isinstance(res, tuple) and len(res) == 2, "orthogonalize(use_stab=True) must return (Z, p)")
    Z, p = res
    unchanged(ctx, Y, snap, "orthogonalize")
    ctx.check(isinstance(p, int) and not isinstance(p, bool), "orthogonalize: exponent p is not a Python int", p=repr(p))
    why = oracle.wellformed(Z, [n] * d)
    ctx.check(why is None, f"orthogonalize(use_stab) on a chain of {d} cores: result not well-formed / finite: {why}", k=k)
    for j, G in enumerate(Z):
        if j < k:
            ctx.check(oracle.ortho_defect_left(G) <= 64 * EPS * max(G.shape[0] * G.shape[1], G.shape[2]), "orthogonalize: core left of the pivot does not have orthonormal columns", core=j, k=k)
        elif j > k:
            ctx.check(oracle.ortho_defect_right(G) <= 64 * EPS * max(G.shape[0], G.shape[1] * G.shape[2]), "orthogonalize: core right of the pivot does not have orthonormal rows", core=j, k=k)
    mx = float(np.max(np.abs(Z[k])))
    ctx.check(1 - 4 * EPS <= mx < 2, "orthogonalize(use_stab): largest modulus of the pivot core not in [1, 2)", max=mx, k=k, p=p)
    g, q = oracle.gram_ref(Y, Y)                    # <Y, Y> = g * 2**q
    ref = 0.5 * (math.log2(g) + q)
    got = math.log2(fro(Z[k])) + p
    ctx.check(abs(got - ref) <= 1e-9 * max(1.0, abs(ref)) + 64 * d * EPS, "orthogonalize(use_stab): log2(||Z[k]|| 2^p) is not log2 ||Y||", got=got, ref=ref, d=d, k=k)
    # the same tensor: compare a few entries through their exactly scaled chains (values relative to the norm, unbounded exponent)
    for t in range(3):
        idx = [int(x) for x in np.random.default_rng(case["seed"] + t + 1).integers(0, n, size=d)]
        def chain(T):
            v = np.ones((1,)); e = 0
            for G, i in zip(T, idx):
                v = v @ G[:, i, :]
                m = float(np.max(np.abs(v)))
                if m == 0:
                    return 0.0, 0
                ee = math.frexp(m)[1]
                v = np.ldexp(v, -ee); e += ee
            return float(v[0]), e
        a, ea = chain(Y)
        b, eb = chain(Z)
        eb += p
        if a != 0 and b != 0:
            la, lb = math.log2(abs(a)) + ea, math.log2(abs(b)) + eb
            ctx.check((a > 0) == (b > 0) and abs(la - lb) <= 1e-6 * d, "orthogonalize(use_stab): an entry of 2^p Z differs from the entry of Y", log2_Y=la, log2_Z=lb, d=d, k=k)


SUBCHECKS = [
    Sub("orthogonalize", prop_orth, strategy=cases, quick=300, thorough=2500),
    Sub("single_step", prop_step, strategy=cases, quick=150, thorough=1500),
    Sub("long", prop_long, strategy=long_cases, quick=3, thorough=40),
]
