"""C01 - TT evaluation and algebra agree elementwise with dense tensor algebra."""
import math
import numpy as np
from hypothesis import strategies as st

import harness.core  # noqa: F401  (sets sys.path for the code under test)
from harness.core import Sub
from harness import gen, oracle
from harness.oracle import EPS, dense, dense_abs, K_of

import teneva

LEVEL = "exploration"
RULE = ("Hypothesis draws TT specs (d 2..6(8), mode sizes 1..5 incl. forced size-1 modes, rank profiles rank1/uniform/"
        "ragged/over_ranked, value families smallint/dyadic/float/gauss/scaled/rank_deficient/zero/explicit), index "
        "batches, weight vectors, number operands and typed expression trees; oracle = independent dense NumPy algebra "
        "with the abs-majorant rounding bound (exact equality for small-integer cores). Non-trivial = some bond rank >= 2, "
        "or a number operand, or a program with >= 2 operators; distinct by SHA-1 of the case. Sub-check large_d: d 20..70 (120), up to 1e70 elements, "
        "gauss / positive / small-integer cores, chain-shared core objects, and count tensors (entries 0..3) kept in int64 / int32 arrays whose entries and "
        "squared norm pass 2^63; references are chains of small float matrix products; non-trivial there = at least 2^63 elements.")
TOLERANCES = "|got-ref| <= 32*(d+sum r+max n)*eps*E(|cores|) elementwise; == for smallint cores; accuracy via interval bounds on both Gram values"
ASSUMPTIONS = ["d >= 2 (library-wide precondition)", "NumPy/LAPACK reference arithmetic is correct",
               "number operands go through const() (d-th root) and are not claimed bit-exact"]


def sizes(tier):
    return dict(d_max=6, size_max=4096, r_max=6) if tier == "quick" else dict(d_max=8, size_max=2 ** 15, r_max=7)


def exact_ok(spec):
    return spec["fam"] == "smallint" or (spec["fam"] == "explicit" and all(float(v).is_integer() for c in spec["cores"] for v in c))


def close(ctx, got, ref, tol, what, exact=False, **kw):
    got = np.asarray(got, dtype=float)
    ref = np.asarray(ref, dtype=float)
    ctx.check(got.shape == ref.shape, f"{what}: shape {got.shape} != {ref.shape}", **kw)
    if exact:
        ctx.check(bool(np.all(got == ref)), f"{what}: not bit-for-bit equal on small-integer cores",
                  max_diff=float(np.max(np.abs(got - ref))) if got.size else 0.0, **kw)
    else:
        bad = np.abs(got - ref) > tol
        if np.any(bad) or not np.all(np.isfinite(got)):
            j = int(np.argmax(np.abs(got - ref) - tol)) if got.size else 0
            ctx.check(False, f"{what}: differs from the dense reference beyond the rounding bound",
                      got=float(got.ravel()[j]) if got.size else None, ref=float(ref.ravel()[j]) if got.size else None,
                      tol=float(np.asarray(tol).ravel()[j] if np.ndim(tol) else tol), **kw)


# ------------------------------------------------------------------------------------------- evaluation

@st.composite
def eval_cases(draw, tier):
    spec = draw(gen.tt_specs(int_storage=True, int_mixed=True, **sizes(tier)))
    n = spec["n"]
    case = {"Y": spec, "I": draw(gen.indices(n)), "as_array": draw(st.booleans()),
            "shared_P": draw(st.booleans())}
    if draw(st.integers(0, 5)) == 0:
        # a long index batch (rows derived from a drawn seed): lengths around powers of two and a few odd ones, so that an
        # implementation that works block by block meets full blocks, one-row remainders and empty remainders
        k = draw(st.integers(8, 17))
        case["long_m"] = draw(st.sampled_from([2 ** k - 1, 2 ** k, 2 ** k + 1, 3 * 2 ** (k - 1) + 1, 40000, 100003, 16385, 65537]))
        case["long_seed"] = draw(gen.seeds)
    if case["shared_P"] and len(set(n)) == 1:
        case["P"] = [draw(gen.reals(-2, 2)) for _ in range(n[0])]
    else:
        case["shared_P"] = False
        case["P"] = [[draw(gen.reals(-2, 2)) for _ in range(k)] for k in n]
    return case


def prop_eval(case, ctx):
    spec = case["Y"]
    YL = gen.build_tt(spec)                       # what the library is given (integer arrays if the spec says so)
    Y = gen.build_tt(spec, as_float=True)         # the float64 copy every reference value is computed from
    if spec.get("store"):
        ctx.label("stored_as:" + spec["store"])
    if spec.get("int_at"):
        ctx.label("integer_cores_among_float_cores")
    n, r = spec["n"], spec["r"]
    d = len(n)
    ex = exact_ok(spec)
    F = dense(Y)
    A = dense_abs(Y)
    K = K_of(Y)
    tolF = K * EPS * A
    ctx.label(*gen.spec_labels(spec))
    ctx.nontrivial(max(r) >= 2)

    I = case["I"]
    Iarr = np.array(I, dtype=int)
    Iarg = Iarr if case["as_array"] else I
    ref = F[tuple(Iarr.T)]
    tol = tolF[tuple(Iarr.T)]

    got = ctx.lib(teneva.get_many, YL, Iarg)
    close(ctx, got, ref, tol, "get_many", ex)
    got = ctx.lib(teneva.get, YL, Iarg)            # batch spelling of get
    close(ctx, got, ref, tol, "get(batch)", ex)
    # NumPy-style negative indices (counted from the end): "element access acts like the matching dense operation"
    Ineg = Iarr.copy()
    flip = (np.arange(Ineg.size).reshape(Ineg.shape) * 7 + len(n)) % 3 == 0
    Ineg[flip] = Ineg[flip] - np.broadcast_to(np.array(n), Ineg.shape)[flip]
    if np.any(flip):
        ctx.label("negative_indices")
        for fn_ in (teneva.get_many, teneva.get):
            gotn = ctx.lib(fn_, YL, Ineg if case["as_array"] else Ineg.tolist())
            close(ctx, gotn, ref, tol, f"{fn_.__name__}(batch with negative indices)", ex)
        got1 = ctx.lib(teneva.get, YL, Ineg[0] if case["as_array"] else Ineg[0].tolist())
        close(ctx, got1, ref[0], tol[0], "get(single index with negative entries)", ex)
    if case.get("long_m"):
        m_ = int(case["long_m"])
        ctx.label("long_batch", f"long_batch:2^{int(np.log2(m_))}")
        rng = np.random.default_rng(case["long_seed"])
        IL = np.stack([rng.integers(0, k_, size=m_) for k_ in n], axis=1)
        refL = F[tuple(IL.T)]
        tolL = tolF[tuple(IL.T)]
        for fn_ in (teneva.get_many, teneva.get):
            gotL = ctx.lib(fn_, YL, IL)
            ctx.check(np.shape(gotL) == (m_,), f"{fn_.__name__} on a batch of {m_} indices returned the wrong number of values", shape=list(np.shape(gotL)), m=m_)
            close(ctx, gotL, refL, tolL, f"{fn_.__name__}(long batch)", ex)
        gotL = ctx.lib(teneva.accuracy_on_data, YL, IL, refL)
        nrL = float(np.linalg.norm(refL))
        if nrL > 0:
            ctx.check(np.ndim(gotL) == 0 and 0 <= gotL <= 4 * float(np.linalg.norm(tolL)) / nrL,
                      "accuracy_on_data of a tensor on its own values (long batch) is not ~0", got=repr(gotL), bound=4 * float(np.linalg.norm(tolL)) / nrL)
    one = Iarr[0] if case["as_array"] else I[0]
    got = ctx.lib(teneva.get, YL, one)
    ctx.check(np.ndim(got) == 0, "get(single index) did not return a scalar", got=repr(got))
    close(ctx, got, ref[0], tol[0], "get(single)", ex)

    got = ctx.lib(teneva.full, YL)
    close(ctx, got, F, tolF, "full", ex)

    got = ctx.lib(teneva.sum, YL)
    close(ctx, got, F.sum(), K * EPS * A.sum(), "sum", ex)
    got = ctx.lib(teneva.mean, YL)
    close(ctx, got, F.sum() / F.size, 2 * K * EPS * A.sum() / F.size, "mean")

    P = case["P"]
    Pfull = [P] * d if case["shared_P"] else P
    W = np.ones(())
    for p in Pfull:
        W = np.multiply.outer(W, np.array(p, dtype=float))
    if not case["shared_P"]:
        got = ctx.lib(teneva.mean, YL, P)
        close(ctx, got, (F * W).sum(), 2 * K * EPS * (A * np.abs(W)).sum(), "mean(P)")
    else:
        got = ctx.lib(teneva.mean, YL, [P] * d)
        close(ctx, got, (F * W).sum(), 2 * K * EPS * (A * np.abs(W)).sum(), "mean(P shared)")

    # shape / ranks / size / erank
    got = ctx.lib(teneva.shape, YL)
    ctx.check(list(map(int, got)) == n, "shape", got=got, ref=n)
    got = ctx.lib(teneva.ranks, YL)
    ctx.check(list(map(int, got)) == r, "ranks", got=got, ref=r)
    got = ctx.lib(teneva.size, YL)
    ctx.check(int(got) == sum(G.size for G in Y), "size", got=got)
    er = float(ctx.lib(teneva.erank, YL))
    if d == 2:
        ctx.check(er == r[1], "erank for d=2 is the only bond rank", got=er, ref=r[1])
    else:
        params = sum(n[k] * r[k] * r[k + 1] for k in range(d))
        lhs = n[0] * er + sum(n[1:d - 1]) * er ** 2 + n[d - 1] * er
        ctx.check(er > 0 and abs(lhs - params) <= 1e-9 * params, "erank does not solve its defining equation",
                  got=er, lhs=lhs, params=params)

    # interface vectors
    i = Iarr[0] if case["as_array"] else I[0]
    for (useP, usei) in ((False, False), (True, False), (False, True), (True, True)):
        Parg = (P if useP else None)
        iarg = (i if usei else None)
        for ltr in (False, True):
            refphi = oracle.interface_ref(Y, Parg, iarg, ltr)
            absphi = oracle.interface_ref([np.abs(G) for G in Y],
                                          (np.abs(np.array(P)).tolist() if case["shared_P"] else [np.abs(p).tolist() for p in P]) if useP else None,
                                          iarg, ltr)
            for norm in (None, 'n', 'l', 'natural', 'linalg'):
                if norm in ('l', 'linalg'):
                    # the library divides by the norm at every step: defined only if no interface vanishes
                    if any(np.linalg.norm(v) <= 8 * K * EPS * np.linalg.norm(a) or np.linalg.norm(v) == 0 for v, a in zip(refphi, absphi)):
                        ctx.label("interface_zero_skipped")
                        continue
                got = ctx.lib(teneva.interface, YL, Parg, iarg, norm, ltr)
                ctx.check(isinstance(got, list) and len(got) == d + 1, "interface: not a list of d+1 vectors")
                for k in range(d + 1):
                    v, a = refphi[k], absphi[k]
                    if norm is None:
                        close(ctx, got[k], v, 2 * K * EPS * a, "interface(norm=None)", ex and not useP, k=k, ltr=ltr, P=useP, i=usei)
                    elif norm.startswith('n'):
                        if ltr:
                            div = np.prod(n[:k]) if k > 0 else 1.0
                        else:
                            div = np.prod(n[k:]) if k < d else 1.0
                        close(ctx, got[k], v / div, 4 * K * EPS * a / div, "interface(norm=natural)", k=k, ltr=ltr, P=useP, i=usei)
                    else:
                        if (ltr and k == 0) or (not ltr and k == d):
                            close(ctx, got[k], np.ones(1), 0.0, "interface boundary vector", k=k)
                            continue
                        nv = np.linalg.norm(v)
                        t = 4 * K * EPS * (np.linalg.norm(a) + a) + 8 * EPS * nv
                        close(ctx, np.asarray(got[k]) * nv, v, t, "interface(norm=linalg)", k=k, ltr=ltr, P=useP, i=usei)

    # element and gradients
    ii = [int(x) for x in Iarr[0]]
    val, grad = ctx.lib(teneva.get_and_grad, YL, i)
    close(ctx, val, F[tuple(ii)], tolF[tuple(ii)], "get_and_grad value", ex)
    ctx.check(isinstance(grad, list) and len(grad) == d, "get_and_grad: gradient list")
    L = oracle.interface_ref(Y, None, ii, True)
    R = oracle.interface_ref(Y, None, ii, False)
    La = oracle.interface_ref([np.abs(G) for G in Y], None, ii, True)
    Ra = oracle.interface_ref([np.abs(G) for G in Y], None, ii, False)
    for k in range(d):
        refg = np.zeros(Y[k].shape)
        refg[:, ii[k], :] = np.outer(L[k], R[k + 1])
        tg = np.zeros(Y[k].shape)
        tg[:, ii[k], :] = 2 * K * EPS * np.outer(La[k], Ra[k + 1])
        close(ctx, grad[k], refg, tg, "get_and_grad gradient", ex, k=k)


# ------------------------------------------------------------------------------------------- binary operations

@st.composite
def binary_cases(draw, tier):
    kw = sizes(tier)
    kw["r_max"] = 4
    s1 = draw(gen.tt_specs(int_storage=True, int_mixed=True, **kw))
    s2 = draw(gen.tt_specs(shape=s1["n"], int_storage=True, int_mixed=True, **kw))
    s3 = draw(gen.tt_specs(d_max=3, size_max=64, r_max=3, int_storage=True, int_mixed=True))
    return {"Y1": s1, "Y2": s2, "Y3": s3, "c": draw(gen.numbers), "c2": draw(gen.numbers),
            "I": draw(gen.indices(s1["n"], m_max=12)), "y": draw(st.lists(gen.reals(-5, 5), min_size=12, max_size=12)), "yscale10": draw(st.sampled_from([0, 0, 0, -20, -30, 20]))}


def interval_ratio(ctx, got, num2, tnum, den2, tden, what):
    """got should equal sqrt(num2/den2) where num2, den2 are only known up to tnum, tden."""
    if den2 - tden <= 0 or den2 <= 0:
        ctx.label(what + "_undefined_skipped")
        return
    lo = math.sqrt(max(0.0, num2 - tnum) / (den2 + tden))
    hi = math.sqrt((num2 + tnum) / (den2 - tden))
    ctx.check(lo * (1 - 1e-12) - 1e-300 <= got <= hi * (1 + 1e-12) + 1e-300, f"{what}: outside the rounding interval of the dense value",
              got=float(got), lo=lo, hi=hi)


def prop_binary(case, ctx):
    s1, s2, s3 = case["Y1"], case["Y2"], case["Y3"]
    Y1, Y2, Y3 = (gen.build_tt(s_, as_float=True) for s_ in (s1, s2, s3))
    c, c2 = case["c"], case["c2"]
    n = s1["n"]
    d = len(n)
    ex = exact_ok(s1) and exact_ok(s2)
    F1, F2, A1, A2 = dense(Y1), dense(Y2), dense_abs(Y1), dense_abs(Y2)
    F3, A3 = dense(Y3), dense_abs(Y3)
    # from here on Y1, Y2, Y3 are what the library is given (integer arrays if the spec says so); references come from F / A above
    Y1, Y2, Y3 = gen.build_tt(s1), gen.build_tt(s2), gen.build_tt(s3)
    for s_ in (s1, s2, s3):
        if s_.get("store"):
            ctx.label("stored_as:" + s_["store"])
        if s_.get("int_at"):
            ctx.label("integer_cores_among_float_cores")
    for s in (s1, s2):
        ctx.label(*gen.spec_labels(s))
    ctx.label("number_operand")
    ctx.nontrivial(True)
    K = 32.0 * (d + sum(a * b for a, b in zip(s1["r"], s2["r"])) + sum(s1["r"]) + sum(s2["r"]) + max(n))

    ints = any(s_.get("store") or s_.get("int_at") for s_ in (s1, s2, s3))      # results of integer-stored operands may be integer arrays (values still checked)

    def cmp(Z, ref, maj, what, exact=False):
        why = oracle.wellformed(Z, n, finite=False, int_ok=ints)
        ctx.check(why is None, f"{what}: result is not a well-formed TT-tensor of the operand shape: {why}")
        close(ctx, dense(Z), ref, K * EPS * maj, what, exact)

    cmp(ctx.lib(teneva.add, Y1, Y2), F1 + F2, A1 + A2, "add(T,T)", ex)
    cmp(ctx.lib(teneva.sub, Y1, Y2), F1 - F2, A1 + A2, "sub(T,T)", ex)
    cmp(ctx.lib(teneva.mul, Y1, Y2), F1 * F2, A1 * A2, "mul(T,T)", ex)
    cmp(ctx.lib(teneva.add, Y1, c), F1 + c, A1 + abs(c), "add(T,c)")
    cmp(ctx.lib(teneva.add, c, Y1), F1 + c, A1 + abs(c), "add(c,T)")
    cmp(ctx.lib(teneva.sub, Y1, c), F1 - c, A1 + abs(c), "sub(T,c)")
    cmp(ctx.lib(teneva.sub, c, Y1), c - F1, A1 + abs(c), "sub(c,T)")
    cmp(ctx.lib(teneva.mul, Y1, c), F1 * c, A1 * abs(c), "mul(T,c)")
    cmp(ctx.lib(teneva.mul, c, Y1), F1 * c, A1 * abs(c), "mul(c,T)")
    for op, pyop in ((teneva.add, lambda a, b: a + b), (teneva.sub, lambda a, b: a - b), (teneva.mul, lambda a, b: a * b)):
        got = ctx.lib(op, c, c2)
        ctx.check(isinstance(got, (int, float)) and got == pyop(c, c2), f"{op.__name__}(number, number)", got=got, ref=pyop(c, c2))

    # outer products
    Z = ctx.lib(teneva.outer, Y1, Y3)
    why = oracle.wellformed(Z, n + s3["n"], finite=False, int_ok=ints)
    ctx.check(why is None, f"outer: {why}")
    close(ctx, dense(Z), np.multiply.outer(F1, F3), K * EPS * np.multiply.outer(A1, A3) * 2, "outer", ex and exact_ok(s3))
    if F1.size * F3.size * F3.size <= 2 ** 16:
        Z = ctx.lib(teneva.outer_many, [Y3, Y1, Y3])
        why = oracle.wellformed(Z, s3["n"] + n + s3["n"], finite=False, int_ok=ints)
        ctx.check(why is None, f"outer_many: {why}")
        close(ctx, dense(Z), np.multiply.outer(np.multiply.outer(F3, F1), F3),
              3 * K * EPS * np.multiply.outer(np.multiply.outer(A3, A1), A3), "outer_many", ex and exact_ok(s3))

    # scalar product, norm
    got = ctx.lib(teneva.mul_scalar, Y1, Y2)
    close(ctx, got, float((F1 * F2).sum()), K * EPS * float((A1 * A2).sum()), "mul_scalar", ex)
    n2, t2 = float((F1 * F1).sum()), K * EPS * float((A1 * A1).sum())
    got = ctx.lib(teneva.norm, Y1)
    if ex:
        ctx.check(float(got) == math.sqrt(n2), "norm: not the correctly rounded root of the exact Gram value", got=float(got), ref=math.sqrt(n2))
    else:
        ctx.check(math.sqrt(max(0.0, n2 - t2)) * (1 - 1e-12) <= got <= math.sqrt(n2 + t2) * (1 + 1e-12), "norm", got=float(got), ref=math.sqrt(n2), t2=t2)

    # relative accuracy, TT spelling and ndarray spelling, and on a data set
    D = F1 - F2
    num2 = float((D * D).sum())
    tnum = 4 * K * EPS * float(((A1 + A2) ** 2).sum())
    den2 = float((F2 * F2).sum())
    tden = K * EPS * float((A2 * A2).sum())
    got = ctx.lib(teneva.accuracy, Y1, Y2)
    if den2 > 0 and math.sqrt(den2) >= 1e-100 * 4:   # below that the documented sentinel applies (C11)
        interval_ratio(ctx, float(got), num2, tnum, den2, tden, "accuracy(TT)")
    if den2 > 0:
        got = ctx.lib(teneva.accuracy, F1, F2)
        ref = math.sqrt(num2) / math.sqrt(den2)
        ctx.check(abs(got - ref) <= 1e-10 * ref, "accuracy(ndarray)", got=float(got), ref=ref)
    # an operand that denotes the zero tensor through ONE zero core while its other cores are huge (a product like
    # mul(B, 0.) of a large-scale B): relative to a non-zero reference its distance is exactly the reference norm
    if den2 > 0 and d * 45 < 300:
        j0 = int(c2 * 7) % d if np.isfinite(c2) else 0
        Zb = [np.zeros_like(np.asarray(G, dtype=float)) if k == j0 else np.asarray(G, dtype=float) * 1e45 + (1e45 if not np.any(G) else 0.0) for k, G in enumerate(Y1)]
        got = ctx.lib(teneva.accuracy, Zb, Y2)
        if math.sqrt(den2) >= 1e-100 * 4:
            ctx.check(abs(float(got) - 1.0) <= 1e-9, "accuracy(zero tensor with one zero core and huge other cores, Y2) is not 1", got=float(got))
        got = ctx.lib(teneva.mul_scalar, Zb, Y2)
        ctx.check(float(got) == 0.0, "mul_scalar with a structurally zero operand is not exactly 0", got=float(got))
        ctx.label("huge_zero_operand")
    Iarr = np.array(case["I"], dtype=int)
    y = np.array(case["y"][:len(Iarr)]) * 10.0 ** case.get("yscale10", 0)       # data far smaller / larger than the tensor, too
    ny = float(np.linalg.norm(y))
    if ny > 0:
        vals = F1[tuple(Iarr.T)]
        tv = (K * EPS * A1)[tuple(Iarr.T)]
        ref = float(np.linalg.norm(vals - y)) / ny
        got = ctx.lib(teneva.accuracy_on_data, Y1, case["I"], y.tolist())
        ctx.check(abs(got - ref) <= float(np.linalg.norm(tv)) / ny + 1e-12 * ref, "accuracy_on_data", got=float(got), ref=ref)


# ------------------------------------------------------------------------------------------- expression programs

def tree_strategy(depth):
    leaf = st.one_of(st.tuples(st.just("T"), st.integers(0, 2)), st.tuples(st.just("num"), gen.numbers))
    if depth == 0:
        return leaf
    sub = tree_strategy(depth - 1)
    return st.one_of(leaf,
                     st.tuples(st.sampled_from(["add", "sub", "mul"]), sub, sub),
                     st.tuples(st.just("copy"), sub))


@st.composite
def program_cases(draw, tier):
    n = draw(gen.shapes(d_max=4 if tier == "quick" else 5, n_max=4, size_max=256))
    leaves = [draw(gen.tt_specs(shape=n, r_max=2, families=("smallint", "dyadic", "float", "gauss", "zero", "explicit"), int_storage=True, int_mixed=True)) for _ in range(3)]
    tree = draw(tree_strategy(3 if tier == "quick" else 4))
    outer_with = draw(st.one_of(st.none(), gen.tt_specs(d_max=2, n_max=3, r_max=2, size_max=9, int_storage=True)))
    return {"n": n, "leaves": leaves, "tree": tree, "outer": outer_with, "I": draw(gen.indices(n, m_max=6))}


def _is_num(x):
    return isinstance(x, (int, float))


def eval_tree(tree, ctx, tts, dens, dabs):
    """Return (teneva value, dense ref, majorant, n_ops, exact?) for a typed expression tree (lists after JSON)."""
    op = tree[0]
    if op == "T":
        k = tree[1]
        return tts[k], dens[k], dabs[k], 0
    if op == "num":
        return tree[1], tree[1], abs(tree[1]), 0
    if op == "copy":
        v, r, m, c = eval_tree(tree[1], ctx, tts, dens, dabs)
        got = ctx.lib(teneva.copy, v)
        if _is_num(v):
            ctx.check(got == v, "copy(number)")
        else:
            ctx.check(got is not v and all(a is not b for a, b in zip(got, v)), "copy returned the same objects")
        return got, r, m, c + 1
    a, ra, ma, ca = eval_tree(tree[1], ctx, tts, dens, dabs)
    b, rb, mb, cb = eval_tree(tree[2], ctx, tts, dens, dabs)
    fn = {"add": teneva.add, "sub": teneva.sub, "mul": teneva.mul}[op]
    got = ctx.lib(fn, a, b)
    if op == "add":
        return got, ra + rb, ma + mb, ca + cb + 1
    if op == "sub":
        return got, ra - rb, ma + mb, ca + cb + 1
    return got, ra * rb, ma * mb, ca + cb + 1


def prop_program(case, ctx):
    n = case["n"]
    tts = [gen.build_tt(s) for s in case["leaves"]]
    dens = [dense(gen.build_tt(s, as_float=True)) for s in case["leaves"]]
    dabs = [dense_abs(gen.build_tt(s, as_float=True)) for s in case["leaves"]]
    if any(s.get("store") for s in case["leaves"]):
        ctx.label("integer_stored_leaf")
    got, ref, maj, nops = eval_tree(case["tree"], ctx, tts, dens, dabs)
    ctx.label(f"ops:{min(nops, 6)}")
    ctx.nontrivial(nops >= 2)
    if _is_num(got):
        ctx.label("number_result")
        ctx.check(_is_num(ref), "number result for a tensor-valued expression")
        ctx.check(abs(got - ref) <= 1e-12 * max(abs(maj), 1e-300) or got == ref, "number expression", got=got, ref=ref)
        return
    ctx.check(not _is_num(ref) or True, "")
    why = oracle.wellformed(got, n, finite=False, int_ok=any(s.get("store") or s.get("int_at") for s in case["leaves"]))
    ctx.check(why is None, f"program result is not a well-formed TT-tensor of shape {n}: {why}")
    ref = np.broadcast_to(ref, tuple(n)) if np.ndim(ref) == 0 else ref
    maj = np.broadcast_to(maj, tuple(n)) if np.ndim(maj) == 0 else maj
    K = (nops + 1) * K_of(got)
    close(ctx, dense(got), ref, K * EPS * maj, "program: full")
    close(ctx, ctx.lib(teneva.full, got), ref, K * EPS * maj, "program: teneva.full")
    Iarr = np.array(case["I"], dtype=int)
    close(ctx, ctx.lib(teneva.get_many, got, case["I"]), ref[tuple(Iarr.T)], (K * EPS * maj)[tuple(Iarr.T)], "program: get_many")
    if case["outer"] is not None:
        Yo, Yof = gen.build_tt(case["outer"]), gen.build_tt(case["outer"], as_float=True)
        Z = ctx.lib(teneva.outer, got, Yo)
        close(ctx, dense(Z), np.multiply.outer(ref, dense(Yof)), 2 * K * EPS * np.multiply.outer(maj, dense_abs(Yof)), "program: outer at the root")


# ------------------------------------------------------------------------------------------- tensors far too large for a dense copy

@st.composite
def large_cases(draw, tier):
    d = draw(st.integers(20, 70 if tier == "quick" else 120))
    nmax = draw(st.sampled_from([2, 3, 10]))
    n = [draw(st.integers(2, nmax)) for _ in range(d)]
    rmax = draw(st.sampled_from([1, 2, 3]))
    r = [1] + [draw(st.integers(1, rmax)) for _ in range(d - 1)] + [1]
    shared = draw(st.integers(0, 2)) == 0
    if shared:
        # chain-referenced tensor: the SAME ndarray object at every interior position (a caller building [A] + [B]*(d-2) + [C])
        n = [n[0]] * d
        r = [1] + [r[1]] * (d - 1) + [1]
    return {"n": n, "r": r, "seed": draw(gen.seeds), "fam": draw(st.sampled_from(["gauss", "smallint", "positive", "counts"])), "shared": shared, "store": draw(st.sampled_from(["int64", "int64", "int32"])),
            "jrep": draw(st.integers(1, d - 2)), "I": [[draw(st.integers(0, k - 1)) for k in n] for _ in range(4)],
            "c": draw(st.sampled_from([2.5, -1.0, 0.5, 3]))}


def chain(mats):
    v = np.ones((1, 1))
    for M in mats:
        v = v @ M
    return float(v[0, 0])


def prop_large(case, ctx):
    """The tensor has up to 10^70 elements: references are chains of small matrix products written here (never a dense array)."""
    n, r = case["n"], case["r"]
    d = len(n)
    rng = np.random.default_rng(case["seed"])

    def mk():
        Y = []
        for k in range(d):
            sh = (r[k], n[k], r[k + 1])
            if case["fam"] == "smallint":
                G = rng.integers(-1, 2, size=sh).astype(float)
            elif case["fam"] == "counts":
                G = rng.integers(0, 4, size=sh).astype(float)
            elif case["fam"] == "positive":
                G = rng.uniform(0.5, 1.5, size=sh) / (n[k] * max(r[k], 1)) * 1.7
            else:
                G = rng.normal(size=sh) / np.sqrt(n[k] * r[k]) * 1.3
            Y.append(G)
        return Y
    Y, Y2 = mk(), mk()
    if case.get("shared"):
        B = Y[1]
        Y = [Y[0]] + [B] * (d - 2) + [Y[-1]]
        Y2 = list(Y)                                  # shares every core object with Y ...
        Y2[case["jrep"]] = B * 1.25 + 0.125           # ... except one perturbed core inside the run
        ctx.label("shared_core_objects")
    # what the library is given: for the counts family the cores are kept in integer arrays (same denoted tensor; entries and sums of it pass 2^63)
    store = case.get("store") if case["fam"] == "counts" and not case.get("shared") else None
    YL, Y2L = ([G.astype(store) for G in Y], [G.astype(store) for G in Y2]) if store else (Y, Y2)
    if store:
        ctx.label("stored_as:" + store)
    nelem = 1
    for k in n:
        nelem *= k
    ctx.label(f"fam:{case['fam']}", "elements>=2^63" if nelem >= 2 ** 63 else "elements<2^63", f"d~{d // 10 * 10}")
    ctx.nontrivial(nelem >= 2 ** 63)
    K = 64.0 * (d + sum(r) + max(n))
    ex = case["fam"] == "smallint"

    def cmp(got, mats, amats, what, exact=False):
        ref, maj = chain(mats), chain(amats)
        got = float(got)
        if exact and abs(ref) < 2 ** 52 and maj < 2 ** 52:
            ctx.check(got == ref, f"{what}: not exact on small-integer cores", got=got, ref=ref)
        else:
            ctx.check(abs(got - ref) <= K * EPS * maj and np.isfinite(got), f"{what}: differs from the chain reference beyond rounding", got=got, ref=ref, tol=K * EPS * maj)

    S = [G.sum(axis=1) for G in Y]
    Sa = [np.abs(G).sum(axis=1) for G in Y]
    cmp(ctx.lib(teneva.sum, YL), S, Sa, "sum (huge tensor)", ex)
    cmp(ctx.lib(teneva.mean, YL), [M / k for M, k in zip(S, n)], [M / k for M, k in zip(Sa, n)], "mean (huge tensor)")
    P = [rng.uniform(0, 1, size=k) for k in n]
    cmp(ctx.lib(teneva.mean, YL, [p.tolist() for p in P]), [np.einsum('aib,i->ab', G, p) for G, p in zip(Y, P)],
        [np.einsum('aib,i->ab', np.abs(G), p) for G, p in zip(Y, P)], "mean(P) (huge tensor)")
    for i in case["I"]:
        cmp(ctx.lib(teneva.get, YL, i), [G[:, ik, :] for G, ik in zip(Y, i)], [np.abs(G[:, ik, :]) for G, ik in zip(Y, i)], "get (huge tensor)", ex)
    Iarr = np.array(case["I"], dtype=int)
    got = ctx.lib(teneva.get_many, YL, Iarr)
    for j, i in enumerate(case["I"]):
        cmp(got[j], [G[:, ik, :] for G, ik in zip(Y, i)], [np.abs(G[:, ik, :]) for G, ik in zip(Y, i)], "get_many (huge tensor)", ex)
    kr = lambda A, B: np.einsum('aib,cid->acbd', A, B).reshape(A.shape[0] * B.shape[0], A.shape[2] * B.shape[2])
    cmp(ctx.lib(teneva.mul_scalar, YL, Y2L), [kr(A, B) for A, B in zip(Y, Y2)], [kr(np.abs(A), np.abs(B)) for A, B in zip(Y, Y2)], "mul_scalar (huge tensor)", ex)
    cmp(ctx.lib(teneva.mul_scalar, Y2L, YL), [kr(A, B) for A, B in zip(Y2, Y)], [kr(np.abs(A), np.abs(B)) for A, B in zip(Y2, Y)], "mul_scalar (huge tensor, swapped)", ex)
    nr = ctx.lib(teneva.norm, YL)
    g = chain([kr(A, A) for A in Y]); ga = chain([kr(np.abs(A), np.abs(A)) for A in Y])
    ctx.check(math.sqrt(max(g - K * EPS * ga, 0.0)) * (1 - 1e-12) <= nr <= math.sqrt(g + K * EPS * ga) * (1 + 1e-12), "norm (huge tensor)", got=float(nr), ref=math.sqrt(max(g, 0.0)))
    ctx.check(list(map(int, ctx.lib(teneva.shape, YL))) == n and list(map(int, ctx.lib(teneva.ranks, YL))) == r, "shape / ranks (huge tensor)")
    ctx.check(int(ctx.lib(teneva.size, YL)) == sum(G.size for G in Y), "size (huge tensor)")
    er = float(ctx.lib(teneva.erank, YL))
    params = sum(n[k] * r[k] * r[k + 1] for k in range(d))
    lhs = n[0] * er + sum(n[1:d - 1]) * er ** 2 + n[d - 1] * er
    ctx.check(abs(lhs - params) <= 1e-9 * params, "erank (huge tensor)", got=er)
    # algebra results, evaluated entrywise
    c = case["c"]
    for name, Z, f in (("add", ctx.lib(teneva.add, YL, Y2L), lambda a, b: a + b), ("sub", ctx.lib(teneva.sub, YL, Y2L), lambda a, b: a - b),
                       ("mul", ctx.lib(teneva.mul, YL, Y2L), lambda a, b: a * b), ("add(T,c)", ctx.lib(teneva.add, YL, c), lambda a, b: a + c),
                       ("mul(T,c)", ctx.lib(teneva.mul, YL, c), lambda a, b: a * c), ("sub(c,T)", ctx.lib(teneva.sub, c, YL), lambda a, b: c - a)):
        why = oracle.wellformed(Z, n, finite=False, int_ok=bool(store))
        ctx.check(why is None, f"{name} (huge tensor): {why}")
        vals = ctx.lib(teneva.get_many, Z, Iarr)
        for j, i in enumerate(case["I"]):
            a = chain([G[:, ik, :] for G, ik in zip(Y, i)]); b = chain([G[:, ik, :] for G, ik in zip(Y2, i)])
            aa = chain([np.abs(G[:, ik, :]) for G, ik in zip(Y, i)]); ba = chain([np.abs(G[:, ik, :]) for G, ik in zip(Y2, i)])
            maj = {"mul": aa * ba}.get(name, aa + ba + abs(c))
            ctx.check(abs(float(vals[j]) - f(a, b)) <= 4 * K * EPS * maj, f"{name} (huge tensor): entry differs from the reference", got=float(vals[j]), ref=f(a, b))


SUBCHECKS = [
    Sub("large_d", prop_large, strategy=large_cases, quick=40, thorough=600),
    Sub("eval", prop_eval, strategy=eval_cases, quick=250, thorough=4000),
    Sub("binary", prop_binary, strategy=binary_cases, quick=200, thorough=3000),
    Sub("program", prop_program, strategy=program_cases, quick=250, thorough=4000),
]
