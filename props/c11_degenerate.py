"""C11 - degenerate but valid inputs yield well-formed finite tensors, never NaN."""
import math
import numpy as np
from hypothesis import strategies as st

import harness.core  # noqa: F401
from harness.core import Sub
from harness import gen, oracle
from harness.oracle import dense
from harness.doubles import poison_heap, Objective

import teneva

LEVEL = "exploration"
RULE = ("Hypothesis draws (routine, flags) x a member of the degenerate input families: exactly-zero tensor (const(n,0), mul(Y,0), a zero core, "
        "Y + (-Y)), rank-deficient unfoldings, ranks larger than a core can carry, rank 1, d = 2, mode size 1, constant / zero data, repeated "
        "samples. Routines: truncate (4 flag combinations), orthogonalize (+single steps), svd, svd_matrix, tt_to_qtt/qtt_to_tt, add_many, "
        "cross (fixed/growth, cache), als (constant/adaptive, weights), anova (order 1/2, noise 0/default), anova_func, func_int/func_gets (both "
        "kinds), func_int_full, add/sub/mul/outer. Oracle: result well-formed with the expected mode sizes and finite; norm/sum/mean/scalar product/"
        "effective rank finite; accuracy(., zero tensor) == -1 and never NaN; no exception. Every generated case is degenerate by construction; "
        "non-trivial = the case belongs to >= 1 family (always) - distinct by SHA-1; the family x routine histogram is in `classes`.")
TOLERANCES = "none (finiteness and structure only)"
ASSUMPTIONS = ["mode size >= 2 for the Chebyshev/sine transforms (a one-node grid is undefined)", "d >= 2", "finite inputs",
               "validation data with zero norm is not passed (accuracy_on_data is outside this property's anchors)"]

ROUTINES = ["truncate", "orthogonalize", "svd", "svd_matrix", "qtt", "add_many", "cross", "als", "anova", "anova_func", "func", "algebra", "matrix_factor"]


@st.composite
def degenerate_specs(draw, shape=None, n_min=1, n_max=4, d_max=4, pow2=False):
    fam = draw(st.sampled_from(["zero_core", "const0", "mul0", "cancel", "rank_deficient", "over_ranked", "rank1", "d2", "mode1", "smallint_dup",
                                "one_hot", "one_hot", "const_v"]))
    if shape is None:
        if pow2:
            q = draw(st.integers(1, 2))
            n = [2 ** q] * draw(st.integers(2, 3))
        else:
            d = 2 if fam == "d2" else draw(st.integers(2, d_max))
            n = [draw(st.integers(n_min, n_max)) for _ in range(d)]
            if fam == "mode1" and n_min <= 1:
                n[draw(st.integers(0, d - 1))] = 1
    else:
        n = list(shape)
    rf = {"over_ranked": ("over_ranked",), "rank1": ("rank1",)}.get(fam, ("uniform", "ragged", "rank1"))
    vf = {"zero_core": ("zero",), "rank_deficient": ("rank_deficient",), "smallint_dup": ("smallint",)}.get(fam, ("gauss", "float", "smallint"))
    spec = draw(gen.tt_specs(shape=n, r_max=4, families=vf, rank_families=rf))
    return {"fam": fam, "spec": spec}


def build_degenerate(ds, ctx):
    fam, spec = ds["fam"], ds["spec"]
    Y = gen.build_tt(spec)
    n = spec["n"]
    if fam == "const0":
        Y = ctx.lib(teneva.const, n, 0.)
    elif fam == "mul0":
        Y = ctx.lib(teneva.mul, Y, 0)
    elif fam == "cancel":
        Y = ctx.lib(teneva.sub, Y, Y)
    elif fam == "smallint_dup" and Y[0].shape[2] >= 2:
        Y[0][:, :, -1] = Y[0][:, :, 0]
    elif fam == "one_hot":
        # delta tensor (+ optionally a second one): unfoldings with exactly zero singular values next to non-zero ones
        rng = np.random.default_rng(spec.get("seed", 0))
        Y = ctx.lib(teneva.delta, n, [int(rng.integers(0, k)) for k in n], [float(rng.integers(1, 4)), 1e-320][int(rng.integers(0, 6) == 0)])
        if rng.integers(0, 2):
            Y = ctx.lib(teneva.add, Y, ctx.lib(teneva.delta, n, [int(rng.integers(0, k)) for k in n], -2.0))
    elif fam == "const_v":
        # constant data, also of subnormal magnitude (const keeps a value below 1e-16 in one core: that core is then all subnormal)
        v = [2.5, 2.5, -0.75, 1e-320, 3e-310, 1e-300][spec.get("seed", 0) % 6]
        if v < 1e-290:
            ctx.label("subnormal_constant")
        Y = ctx.lib(teneva.const, n, v)
    return Y


def is_zero(Y):
    return not np.any(dense(Y))


def check_tt(ctx, Z, shape, what):
    why = oracle.wellformed(Z, shape)
    ctx.check(why is None, f"{what}: result is not a well-formed finite TT-tensor of the expected shape: {why}")
    if max(oracle.ranks_of(Z)) > 12:
        return          # Gram-based quantities of a rank-r tensor cost r^4 per core: products of summed tensors only get the structural check
    for name, fn in (("norm", teneva.norm), ("sum", teneva.sum), ("mean", teneva.mean), ("erank", teneva.erank)):
        v = ctx.lib(fn, Z)
        ctx.check(np.isfinite(v), f"{what}: {name} of the result is not finite", value=float(v))
    v = ctx.lib(teneva.mul_scalar, Z, Z)
    ctx.check(np.isfinite(v), f"{what}: scalar product of the result is not finite", value=float(v))
    v, p = ctx.lib(teneva.norm, Z, True)
    ctx.check(np.isfinite(v) and np.isfinite(p), f"{what}: stabilised norm of the result is not finite")
    zero = ctx.lib(teneva.const, shape, 0.)
    a = ctx.lib(teneva.accuracy, Z, zero)
    ctx.check(a == -1, f"{what}: accuracy relative to the zero tensor must be the sentinel -1", got=float(a))
    a = ctx.lib(teneva.accuracy, zero, Z)
    ctx.check(not np.isnan(a), f"{what}: accuracy(zero, result) is NaN", got=float(a))
    a = ctx.lib(teneva.accuracy, Z, Z)
    if any(not np.any(G) for G in Z):
        # structurally zero (a core is identically zero): every Gram value is an exact 0 -> the sentinel must be returned
        ctx.check(a == -1, f"{what}: accuracy relative to an exactly-zero result must be -1", got=float(a))
    else:
        ctx.check(not np.isnan(a), f"{what}: accuracy(result, result) is NaN", got=float(a))


@st.composite
def cases(draw, tier):
    routine = draw(st.sampled_from(ROUTINES))
    case = {"routine": routine, "seed": draw(gen.seeds), "flag": draw(st.integers(0, 63))}
    if routine in ("qtt",):
        case["Y"] = draw(degenerate_specs(pow2=True))
    elif routine == "func":
        case["Y"] = draw(degenerate_specs(n_min=2))
    elif routine == "matrix_factor":
        case["m"] = draw(st.integers(1, 9)); case["n"] = draw(st.integers(1, 9))
        case["mkind"] = draw(st.sampled_from(["zero", "const", "rank1", "one_entry", "zero_rows"]))
    elif routine in ("svd_matrix",):
        case["q"] = draw(st.integers(1, 3))
        case["mkind"] = draw(st.sampled_from(["zero", "const", "rank1", "identity", "one_entry"]))
    elif routine in ("cross", "als", "anova", "anova_func"):
        case["n"] = draw(gen.shapes(d_max=3 if routine != "anova_func" else 3, n_max=3, n_min=1 if routine in ("cross", "anova") else 2, size_max=64))
        case["data"] = draw(st.sampled_from(["zero", "const", "rank1", "one_entry"]))
    else:
        case["Y"] = draw(degenerate_specs())
    return case


def target_dense(kind, n, rng):
    if kind == "zero":
        return np.zeros(n)
    if kind == "const":
        return np.full(n, 2.5)
    if kind == "rank1":
        F = np.ones(())
        for k in n:
            F = np.multiply.outer(F, rng.normal(size=k))
        return F
    F = np.zeros(n)
    F[tuple(int(rng.integers(0, k)) for k in n)] = -3.0
    return F


def prop(case, ctx):
    routine, fl = case["routine"], case["flag"]
    rng = np.random.default_rng(case["seed"])
    ctx.nontrivial(True)
    def plib(f_, *a_, **k_):
        # uninitialised memory that is read before being written shows up as NaN: poison right before every library call
        # (building the arguments recycles freed blocks otherwise)
        poison_heap(np.nan, fl)
        return ctx.lib(f_, *a_, **k_)
    if "Y" in case:
        Y = build_degenerate(case["Y"], ctx)
        n = case["Y"]["spec"]["n"]
        d = len(n)
        fam = case["Y"]["fam"]
        ctx.label(f"{routine}/{fam}")
        if is_zero(Y):
            ctx.label(f"{routine}/exactly_zero")
        check_tt(ctx, Y, n, "input family member (algebra result)") if fam in ("const0", "mul0", "cancel") else None
    else:
        ctx.label(f"{routine}/{case.get('data', case.get('mkind'))}")

    if routine == "truncate":
        e = [1e-10, 0.5, 1e-14][fl % 3]
        r = [1e12, 1, 2][(fl // 3) % 3]
        Z = plib(teneva.truncate, Y, e, r, use_stab=bool(fl & 16), is_eigh=bool(fl & 32))
        check_tt(ctx, Z, n, f"truncate(use_stab={bool(fl & 16)}, is_eigh={bool(fl & 32)})")
        rin, rout = oracle.ranks_of(Y), oracle.ranks_of(Z)
        ctx.check(all(a <= b for a, b in zip(rout, rin)) and max(rout) <= max(1, int(r)), "truncate: rank bound violated on a degenerate input", rin=rin, rout=rout)
    elif routine == "orthogonalize":
        k = fl % d
        stab = bool(fl & 16)
        res = plib(teneva.orthogonalize, Y, k, stab)
        Z = res[0] if stab else res
        check_tt(ctx, Z, n, f"orthogonalize(k={k}, use_stab={stab})")
        if stab:
            ctx.check(isinstance(res[1], int), "orthogonalize: exponent not an int")
        if d >= 2:
            check_tt(ctx, plib(teneva.orthogonalize_left, Y, fl % (d - 1)), n, "orthogonalize_left")
            check_tt(ctx, plib(teneva.orthogonalize_right, Y, 1 + fl % (d - 1)), n, "orthogonalize_right")
    elif routine == "svd":
        A = dense(Y)
        e = [1e-10, 1e-3 * max(oracle.fro(A), 1.0), 0.0 + 1e-300][fl % 3]
        r = [1e12, 1, 2][(fl // 3) % 3]
        check_tt(ctx, plib(teneva.svd, A, e, r), n, "svd")
    elif routine == "matrix_factor":
        m_, n_ = case["m"], case["n"]
        M = {"zero": np.zeros((m_, n_)), "const": np.full((m_, n_), -1.5), "rank1": np.outer(rng.normal(size=m_), rng.normal(size=n_))}.get(case["mkind"])
        if M is None:
            M = np.zeros((m_, n_))
            M[int(rng.integers(0, m_)), int(rng.integers(0, n_))] = 2.0
            if case["mkind"] == "zero_rows" and m_ > 1:
                M[0] = rng.normal(size=n_)
        for name, fn, kw in (("matrix_svd", teneva.matrix_svd, {}), ("matrix_skeleton", teneva.matrix_skeleton, {"give_to": "lrm"[fl % 3]})):
            for e_ in (1e-10, 0.5):
                for r_ in (1e12, 1):
                    U, V = plib(fn, M, e_, r_, **kw)
                    ctx.check(U.ndim == 2 and V.ndim == 2 and U.shape == (m_, U.shape[1]) and V.shape == (U.shape[1], n_) and 1 <= U.shape[1] <= max(1, int(r_)),
                              f"{name} on a degenerate matrix: factor shapes are wrong", U=list(U.shape), V=list(V.shape))
                    ctx.check(bool(np.all(np.isfinite(U)) and np.all(np.isfinite(V))), f"{name} on a degenerate matrix ({case['mkind']}): non-finite factor", e=e_, r=r_)
                    if e_ < 1e-6 and r_ > 1:
                        ctx.check(float(np.max(np.abs(U @ V - M))) <= 1e-6 * max(1.0, float(np.max(np.abs(M)))), f"{name} on a degenerate matrix: product differs from the matrix")
    elif routine == "svd_matrix":
        q = case["q"]
        N = 2 ** q
        M = {"zero": np.zeros((N, N)), "const": np.full((N, N), 1.5), "identity": np.eye(N),
             "rank1": np.outer(rng.normal(size=N), rng.normal(size=N))}.get(case["mkind"])
        if M is None:
            M = np.zeros((N, N)); M[int(rng.integers(0, N)), int(rng.integers(0, N))] = 2.0
        Z = plib(teneva.svd_matrix, M, [1e-10, 1e-2][fl % 2], [1e12, 1][(fl // 2) % 2])
        check_tt(ctx, Z, [4] * q, "svd_matrix") if q >= 2 else ctx.check(oracle.wellformed(Z, [4]) is None, "svd_matrix(q=1) malformed")
        B = plib(teneva.full_matrix, Z)
        ctx.check(B.shape == (N, N) and np.all(np.isfinite(B)), "full_matrix(svd_matrix(.)) not finite / wrong shape")
    elif routine == "qtt":
        qq = int(math.log2(n[0]))
        Z = plib(teneva.tt_to_qtt, Y, [1e-12, 1e-3, 0.][fl % 3], [100, 1, 2][(fl // 3) % 3])
        check_tt(ctx, Z, [2] * (qq * d), "tt_to_qtt")
        check_tt(ctx, plib(teneva.qtt_to_tt, Z, qq), n, "qtt_to_tt")
    elif routine == "add_many":
        items = [Y, plib(teneva.mul, Y, -1.), Y, 0, plib(teneva.const, n, 0.)][:2 + fl % 4]
        Z = plib(teneva.add_many, items, [1e-10, 1e-2][fl % 2], [1e12, 1, 2][(fl // 2) % 3], 1 + (fl // 8) % 3)
        check_tt(ctx, Z, n, "add_many")
    elif routine == "algebra":
        Y2 = plib(teneva.mul, Y, [0, -1., 2][fl % 3])
        for name, Z, shp in (("add", plib(teneva.add, Y, Y2), n), ("sub", plib(teneva.sub, Y, Y2), n), ("mul", plib(teneva.mul, Y, Y2), n),
                             ("add(number)", plib(teneva.add, Y, 0.), n), ("outer", plib(teneva.outer, Y, Y2), n + n)):
            check_tt(ctx, Z, shp, name)
        if fl % 4 == 0:
            # constant / zero / one-hot tensors with 2^63 and more elements (element counts that wrap a 64-bit integer): norm, sum,
            # mean, scalar product and effective rank stay finite (the mean of a constant tensor is the constant)
            nl = [[2] * 64, [4] * 40, [2] * 70, [100] * 10, [3] * 41][case["seed"] % 5]
            vl = [0.0, 1.0, 2.5, -0.5][(case["seed"] // 5) % 4]
            ctx.label("elements>=2^63")
            for name, Z in (("const", plib(teneva.const, nl, vl)), ("delta", plib(teneva.delta, nl, [0] * len(nl), 2.0))):
                why = oracle.wellformed(Z, nl)
                ctx.check(why is None, f"{name} on a shape with >= 2^63 elements: {why}")
                for fname, fn in (("norm", teneva.norm), ("sum", teneva.sum), ("mean", teneva.mean), ("erank", teneva.erank)):
                    val = plib(fn, Z)
                    ctx.check(np.isfinite(val), f"{fname} of a {name} tensor with >= 2^63 elements is not finite", value=float(val), shape=nl[:3] + ["..."], v=vl)
                if name == "const":
                    m_ = plib(teneva.mean, Z)
                    ctx.check(abs(m_ - vl) <= 1e-12 * abs(vl), "mean of a constant tensor with >= 2^63 elements is not the constant", got=float(m_), v=vl, d=len(nl))
    elif routine == "func":
        for kind in ("cheb", "sin"):
            A = plib(teneva.func_int, Y, kind)
            check_tt(ctx, A, n, f"func_int(kind={kind})")
            check_tt(ctx, plib(teneva.func_gets, A, None, kind), n, f"func_gets(kind={kind})")
            check_tt(ctx, plib(teneva.func_gets, A, 3, kind), [3] * d, f"func_gets(m=3, kind={kind})")
        Af = plib(teneva.func_int_full, dense(Y))
        ctx.check(Af.shape == tuple(n) and np.all(np.isfinite(Af)), "func_int_full not finite / wrong shape")
        v = plib(teneva.func_sum, plib(teneva.func_int, Y), -1., 1.)
        ctx.check(np.isfinite(v), "func_sum not finite")
    elif routine == "cross":
        n = case["n"]
        F = target_dense(case["data"], n, rng)
        Y0 = plib(teneva.rand, n, 1 + fl % 3, seed=int(case["seed"] % 1000))
        growth = (1 + (fl // 16) % 2) if fl & 4 else 0       # rank growth by 0, 1 or 2 per step (2 rows cannot always be added: nearly saturated unfoldings)
        info = {}
        Z = plib(teneva.cross, lambda I: F[tuple(I.T)], Y0, nswp=2 + fl % 2, dr_min=growth, dr_max=growth,
                    info=info, cache={} if fl & 8 else None)
        check_tt(ctx, Z, n, f"cross on a {case['data']} target")
        ctx.check(not (isinstance(info["e"], float) and math.isnan(info["e"])) and not np.isnan(info["e"]), "cross: info['e'] is NaN", e=repr(info["e"]))
        ctx.check(np.isfinite(info["r"]), "cross: info['r'] not finite")
        # the same run cut short at every point (evaluation budget, objective returning None at its k-th call): what is handed back
        # for a degenerate target must be a well-formed finite tensor too
        kwc = dict(nswp=2 + fl % 2, dr_min=growth, dr_max=growth)
        if case["seed"] % 6:
            return          # (the interruption enumeration runs for a sixth of the cross cases: ~30 runs each)
        ctx.label("cross_interruptions_enumerated")
        ref = Objective(F)
        plib(teneva.cross, ref, Y0, info={}, **kwc)
        M, K = ref.evaluated, ref.calls
        for m_ in sorted(set(list(range(1, min(M, 12) + 1)) + list(range(13, M, max(1, M // 12))) + [M - 1, M, M + 1])):
            if m_ < 1:
                continue
            inf_ = {}
            Zm = plib(teneva.cross, Objective(F), Y0, m=m_, info=inf_, cache={} if fl & 8 else None, **kwc)
            check_tt(ctx, Zm, n, f"cross on a {case['data']} target stopped by the budget m={m_}")
            ctx.check(not np.isnan(inf_["e"]) and np.isfinite(inf_["r"]), "cross (budget stop): info['e'] is NaN or info['r'] not finite", m=m_, e=repr(inf_["e"]))
            ctx.inner(1)
        for k_ in range(1, K + 1):
            inf_ = {}
            Zk = plib(teneva.cross, Objective(F, none_at=k_), Y0, info=inf_, **kwc)
            check_tt(ctx, Zk, n, f"cross on a {case['data']} target interrupted at objective call {k_}")
            ctx.check(inf_["stop"] == "func" and not np.isnan(inf_["e"]), "cross (objective returned None): stop reason / info['e']", k=k_, stop=inf_["stop"], e=repr(inf_["e"]))
            ctx.inner(1)
    elif routine == "als":
        n = case["n"]
        d = len(n)
        F = target_dense(case["data"], n, rng)
        m = max(n) + 6
        I = np.empty((m, d), dtype=int)
        for k in range(d):
            I[:, k] = rng.permutation(np.concatenate([np.arange(n[k]), rng.integers(0, n[k], size=m - n[k])]))
        if fl & 1:
            I = np.vstack([I, I, I[:2]])            # repeated samples
        y = F[tuple(I.T)]
        w = rng.uniform(0.5, 2, size=len(I)) if fl & 2 else None
        Y0 = plib(teneva.rand, n, 1 + (fl // 4) % 2, seed=int(case["seed"] % 1000))
        info = {}
        kw = dict(lamb=[1e-3, 1.0][(fl // 8) % 2], w=w)
        adaptive = bool(fl & 16) and d >= 3
        if adaptive:
            kw["r"] = 2
        Z = plib(teneva.als, I, y, Y0, 2, None, info, **kw)
        check_tt(ctx, Z, n, f"als({'adaptive' if adaptive else 'constant rank'}) on {case['data']} data")
        ctx.check(not np.isnan(info["e"]), "als: info['e'] is NaN", e=repr(info["e"]))
    elif routine == "anova":
        n = case["n"]
        d = len(n)
        F = target_dense(case["data"], n, rng)
        full = np.array(list(np.ndindex(*n)), dtype=int)
        I = full if fl & 1 else np.vstack([full[rng.integers(0, len(full), size=5)], full[:1], full[:1]])
        y = F[tuple(I.T)]
        shape = [len(np.unique(I[:, k])) for k in range(d)]
        order = 1 + (fl // 2) % 2
        Z = plib(teneva.anova, I, y, 2 + (fl // 4) % 2, order, [0., 1e-10][(fl // 8) % 2], int(case["seed"] % 1000))
        check_tt(ctx, Z, shape, f"anova(order={order}) on {case['data']} data")
    elif routine == "anova_func":
        n = case["n"]
        d = len(n)
        X = rng.uniform(-1, 1, size=(8, d))
        if fl & 1:
            X = np.vstack([X, X[:3]])
        y = {"zero": np.zeros(len(X)), "const": np.full(len(X), 2.5)}.get(case["data"], X[:, 0] * 0 + (X[:, 0] > 0))
        nn = 2 + fl % 3
        if fl & 2:
            X = X[:2 + fl % 2]                       # fewer samples than basis functions: rank-deficient design
            y = y[:len(X)]
        # regularisation from the default down to numerically vanishing (still > 0): the documented solver returns the
        # minimum-norm coefficients for a rank-deficient design
        lamb = [1e-7, 1e-2, 1e-18, 1e-30][(fl // 4) % 4]
        Z = plib(teneva.anova_func, X, y, nn, -1., 1., lamb, [1e-8, None][(fl // 16) % 2])
        check_tt(ctx, Z, [nn] * d, f"anova_func on {case['data']} data")


SUBCHECKS = [Sub("degenerate", prop, strategy=cases, quick=800, thorough=8000)]
