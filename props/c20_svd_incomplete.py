"""C20 - incomplete TT-SVD recovers low-rank tensors from its structured samples."""
import numpy as np
from hypothesis import strategies as st

import harness.core  # noqa: F401
from harness.core import Sub
from harness import gen, oracle
from harness.oracle import dense, fro

import teneva

LEVEL = "exploration"
RULE = ("Hypothesis draws a tensor of TT-rank rho (gauss cores, uniform or ragged ranks 1..3, d 2..5), an expected rank m in rho..rho+2, mode "
        "sizes in m..m+3, a cap r in rho..rho+2 and an integer seed of the sample generator; the tensor is evaluated on sample_tt's set and "
        "svd_incomplete's result is compared with the dense tensor (overall magnitude 1e-100 .. 1e+100); in 4 of 7 cases the tensor has generic integer cores (-4..4) and its sample values "
        "are handed over as int64 / int32 / float64 arrays (all exact). Non-trivial = rho >= 2; distinct by SHA-1 of the case. Sub-check long: d in {22..64(100)}, "
        "constant mode size 4..16 (up to 16^100 elements), cores whose mode slices are orthogonal matrices (all partial products of norm 1), rho 1..3, m in rho..rho+1, cap rho / rho+1 / default; sample and test values from chains of small products; "
        "non-trivial there = rho >= 2 and >= 2^63 elements.")
TOLERANCES = ("||dense(result) - T|| <= 1e-7 ||T|| when every unfolding has condition number <= 1e6 on its rank (else only well-formedness); ranks <= cap; long: relative error on 500 "
              "random test entries <= 1e-3 (cores with orthogonal mode slices; observed 2e-14 median, 2e-10 worst of 400: the conditioning of a chain of 20..100 sampled interfaces has no a-priori bound, hence the wide margin; "
              "a lost rank gives an error >= 0.1)")
ASSUMPTIONS = ["continuous random cores ('almost all' tensors)", "every mode size >= m (the recovery needs distinct LHS prefixes/suffixes)", "cap r >= rho"]


@st.composite
def cases(draw, tier):
    d = draw(st.integers(2, 5))
    rfam = draw(st.sampled_from(["uniform", "ragged", "ragged"]))
    rmax = draw(st.integers(1, 3))
    r = [1] + ([rmax] * (d - 1) if rfam == "uniform" else [draw(st.integers(1, rmax)) for _ in range(d - 1)]) + [1]
    rho = max(r)
    m = rho + draw(st.integers(0, 2))
    n = [m + draw(st.integers(0, 3)) for _ in range(d)]
    return {"n": n, "r": r, "seed": draw(gen.seeds), "m": m, "cap": rho + draw(st.integers(0, 2)), "sseed": draw(st.integers(0, 10 ** 6)),
            "scale10": draw(st.sampled_from([0, 0, 2, -2, -9, -12, -30, 12, 30, -100, 100])), "float_cap": draw(st.booleans()), "cap_kind": draw(st.integers(0, 4)),
            "seed_kind": draw(st.sampled_from(["int", "int", "generator", "generator_philox"])),
            # how the caller stores the sample values: a measured table may well be an integer array (not float32: NumPy then factorises in single precision); generic integer
            # cores (-4..4) give integer-valued tensors of the same TT-rank whose values every such dtype holds exactly
            "ydtype": draw(st.sampled_from(["float64", "float64", "float64", "int64", "int32", "int64", "float64_of_int"]))}


def prop(case, ctx):
    n, r = case["n"], case["r"]
    d = len(n)
    rng = np.random.default_rng(case["seed"])
    ydt = case.get("ydtype", "float64")
    if ydt == "float64":
        T = [rng.normal(size=(r[k], n[k], r[k + 1])) for k in range(d)]
        T[0] = T[0] * 10.0 ** case["scale10"]
    else:
        T = [rng.integers(-4, 5, size=(r[k], n[k], r[k + 1])).astype(float) for k in range(d)]
    F = dense(T)
    nrm = fro(F)
    rho = max(r)
    ctx.label(f"d={d}", f"rho={rho}", f"m-rho={case['m'] - rho}", f"cap-rho={case['cap'] - rho}", f"scale=1e{case['scale10']}")
    ctx.nontrivial(rho >= 2)
    # the sample generator may be seeded by an int, by a Generator object (then every LHS block draws fresh numbers from it,
    # so prefixes of consecutive blocks are NOT nested)
    kind = case.get("seed_kind", "int")
    ctx.label("seed:" + kind)
    sseed = {"int": case["sseed"], "generator": np.random.default_rng(case["sseed"]), "generator_philox": np.random.Generator(np.random.Philox(case["sseed"]))}[kind]
    I, idx, idx_many = ctx.lib(teneva.sample_tt, n, case["m"], sseed)
    ctx.check(I.ndim == 2 and I.shape[1] == d and I.min() >= 0 and bool(np.all(I.max(axis=0) == np.array(n) - 1)), "sample_tt: indices do not span the shape")
    y = F[tuple(I.T)]
    if ydt not in ("float64", "float64_of_int"):
        if ydt in ("int32", "float32") and np.abs(F).max() >= 2 ** 24:
            ydt = "int64"
        y = y.astype(ydt)
        ctx.check(np.array_equal(y.astype(float), F[tuple(I.T)]), "harness: sample values not exactly representable")
    ctx.label("values_as:" + ydt)
    # the cap is documented as "int, float": an int, a float with a fraction, or an integer-valued float / NumPy scalar
    cap = case["cap"] + (0.5 if case["float_cap"] else 0)
    capk = case.get("cap_kind", 0)
    if not case["float_cap"] and capk:
        cap = [float, np.float64, np.int64, np.float32][capk - 1](cap)
        ctx.label("cap_as:" + type(cap).__name__)
    Y = ctx.lib(teneva.svd_incomplete, I, y, idx, idx_many, 1e-10 * max(nrm, 1e-300) / np.sqrt(F.size), cap)
    why = oracle.wellformed(Y, n)
    ctx.check(why is None, f"svd_incomplete: result not well-formed / wrong shape: {why}")
    ctx.check(max(oracle.ranks_of(Y)) <= int(cap), "svd_incomplete: rank exceeds the cap", ranks=oracle.ranks_of(Y), cap=cap)
    if nrm == 0:
        return ctx.label("zero_integer_tensor")
    cond = 1.0
    for k in range(1, d):
        s = oracle.unfold_svals(F, k)
        cond = max(cond, float(s[0] / s[min(r[k], len(s)) - 1]))
    if cond > 1e6:
        ctx.label("ill_conditioned")
        return
    err = fro(dense(Y) - F)
    if ydt != "float64":
        # small integer cores are not 'almost all' tensors (zero rows, dependent sampled fibres): recovery is required only where the
        # float64 copy of the same values is recovered; the stored dtype of exactly representable values must never matter
        Yf = ctx.lib(teneva.svd_incomplete, I, F[tuple(I.T)], idx, idx_many, 1e-10 * max(nrm, 1e-300) / np.sqrt(F.size), cap)
        ctx.check(oracle.ranks_of(Yf) == oracle.ranks_of(Y) and fro(dense(Yf) - dense(Y)) <= 1e-9 * max(nrm, 1.0),
                  "svd_incomplete: result depends on the dtype in which the (exactly representable) sample values are stored", values_as=ydt,
                  diff=fro(dense(Yf) - dense(Y)), ranks_f64=oracle.ranks_of(Yf), ranks=oracle.ranks_of(Y))
        if fro(dense(Yf) - F) > 1e-7 * nrm:
            ctx.label("nongeneric_integer_tensor")
            return
    ctx.check(err <= 1e-7 * nrm, "svd_incomplete did not recover the low-rank tensor", rel_err=err / nrm, ranks=oracle.ranks_of(Y), cond_unfold=cond)
    # a caller may retry with another cap on the SAME sample arrays: they must still hold the samples and give the same tensor
    ctx.check(np.array_equal(y, F[tuple(I.T)]) and y.dtype == np.dtype(ydt if ydt != "float64_of_int" else "float64"), "svd_incomplete modified the sample values it was given")
    cap2 = rho + (case["cap"] - rho + 1) % 3
    Y2 = ctx.lib(teneva.svd_incomplete, I, y, idx, idx_many, 1e-10 * max(nrm, 1e-300) / np.sqrt(F.size), cap2)
    ctx.check(oracle.wellformed(Y2, n) is None and max(oracle.ranks_of(Y2)) <= cap2, "svd_incomplete (second call, other cap): malformed or rank above the cap",
              ranks=oracle.ranks_of(Y2), cap=cap2)
    err2 = fro(dense(Y2) - F)
    ctx.check(err2 <= 1e-7 * nrm, "svd_incomplete (second call on the same sample arrays) did not recover the tensor", rel_err=err2 / nrm, cap=cap2)


# ------------------------------------------------------------------------------------------- long tensors (more than 2^63 elements)

@st.composite
def long_cases(draw, tier):
    d = draw(st.sampled_from([22, 24, 33, 40, 64] if tier == "quick" else [22, 24, 33, 40, 64, 100]))
    rho = draw(st.integers(1, 3))
    m = rho + draw(st.integers(0, 1))
    n0 = max(m, draw(st.sampled_from([4, 4, 5, 8, 16])))
    return {"d": d, "n0": n0, "rho": rho, "m": m, "cap": draw(st.sampled_from(["rho", "rho+1", "default"])), "seed": draw(gen.seeds), "sseed": draw(st.integers(0, 10 ** 6)),
            "n_as": draw(st.sampled_from(["list", "list", "int_array", "int32_array"]))}


def chain_eval(Y, I):
    v = Y[0][0, I[:, 0], :]
    for k in range(1, len(Y)):
        v = np.einsum('sa,asb->sb', v, Y[k][:, I[:, k], :])
    return v[:, 0]


def prop_long(case, ctx):
    """No dense copy exists: the tensor is evaluated on sample_tt's set and on 500 random test entries by a chain of small products
    written here."""
    d, n0, rho, m = case["d"], case["n0"], case["rho"], case["m"]
    n = [n0] * d
    rng = np.random.default_rng(case["seed"])
    r = [1] + [rho] * (d - 1) + [1]
    # every mode slice of a core is an orthogonal matrix (a unit vector in the two end cores): all partial products have norm 1, so the
    # sampled interfaces of a chain of any length stay well scaled (Gaussian cores give entries spread over e^(+-sqrt(d)) and, for d = 100,
    # sampled fibres that differ by 1e13 - rank loss there is legitimate)
    T = []
    for k in range(d):
        G = np.empty((r[k], n[k], r[k + 1]))
        for i in range(n[k]):
            if r[k] == r[k + 1]:
                Q, _ = np.linalg.qr(rng.normal(size=(r[k], r[k])))
                G[:, i, :] = Q * rng.choice([-1.0, 1.0], size=r[k])[None, :]
            else:
                v = rng.normal(size=(r[k], r[k + 1]))
                G[:, i, :] = v / np.linalg.norm(v)
        T.append(G)
    ctx.label(f"d={d}", f"n={n0}", f"rho={rho}", f"m-rho={m - rho}", "cap:" + case["cap"], "elements>=2^63" if n0 ** d >= 2 ** 63 else "elements<2^63")
    ctx.nontrivial(rho >= 2 and n0 ** d >= 2 ** 63)
    narg = {"list": n, "int_array": np.array(n), "int32_array": np.array(n, dtype=np.int32)}[case["n_as"]]
    I, idx, idx_many = ctx.lib(teneva.sample_tt, narg, m, case["sseed"])
    ctx.check(isinstance(I, np.ndarray) and I.ndim == 2 and I.shape[1] == d and I.min() >= 0 and I.max() < n0, "sample_tt (long tensor): indices malformed / out of range")
    y = chain_eval(T, I)
    cap = {"rho": rho, "rho+1": rho + 1, "default": None}[case["cap"]]
    args = (I, y, idx, idx_many, 1e-13 * float(np.abs(y).max()))
    Y = ctx.lib(teneva.svd_incomplete, *args) if cap is None else ctx.lib(teneva.svd_incomplete, *args, cap)
    why = oracle.wellformed(Y, n)
    ctx.check(why is None, f"svd_incomplete (long tensor): result not well-formed / wrong shape: {why}")
    if cap is not None:
        ctx.check(max(oracle.ranks_of(Y)) <= cap, "svd_incomplete (long tensor): rank exceeds the cap", ranks=oracle.ranks_of(Y), cap=cap)
    It = rng.integers(0, n0, size=(500, d))
    a, b = chain_eval(T, It), chain_eval(Y, It)
    err = float(np.linalg.norm(a - b) / np.linalg.norm(a))
    ctx.check(err <= 1e-3, "svd_incomplete did not recover the low-rank tensor (long tensor, 500 random test entries)", rel_err=err, ranks=oracle.ranks_of(Y), rho=rho, d=d)
    if err > 1e-8:
        ctx.label("long_error>1e-8")


SUBCHECKS = [Sub("recover", prop, strategy=cases, quick=1000, thorough=8000),
             Sub("long", prop_long, strategy=long_cases, quick=12, thorough=150)]
