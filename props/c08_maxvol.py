"""C08 - maxvol / maxvol_rect return distinct dominant rows and an exact coefficient matrix, at every scale of A and of its columns;
rejection contracts; _maxvol dispatch."""
import math
import numpy as np
import scipy.linalg
from hypothesis import strategies as st

import harness.core  # noqa: F401  (sets sys.path for the code under test)
from harness.core import Sub
from harness import gen
from harness.oracle import EPS

import teneva

LEVEL = "exploration"
RULE = ("Hypothesis draws tall matrices of full column rank BY CONSTRUCTION: r generic rows (Gaussian, or an integer matrix of "
        "determinant 1) plus n-r further rows that are generic / exactly zero / exact copies, negated copies or doubles of other "
        "rows, a drawn row permutation, and either the raw matrix (families gauss; int = small integers with many ties; lu = L U with "
        "a unit lower trapezoidal L, 0.3/0.9 <= |l_ij| < 1, for which the LU start of maxvol is poor and 1-8 row swaps happen) or "
        "orth(G) diag(10^-linspace(0,c,r)) V^T x 10^s with c in 0..8 (prescribed 2-norm condition number 10^c; the exact zero / "
        "duplicate rows are re-imposed afterwards). SCALES: every matrix is then multiplied columnwise by exact powers of two: an overall "
        "exponent from 0 / +-10 / +-33 / -40..-67 (pivots around and below 1e-16) / +-100 / +-333 (1e+-100) / +-664 / +-700 / +-900 / "
        "+-996 (1.5e-300, 6.7e+299) / +-1100 (clipped to the end of the admissible range) plus per-column exponents (none; each column "
        "in +-60 or +-300; one column 2^-600..2^600 away from the others; graded 2^(step j)), clipped so that every column maximum m_j "
        "satisfies 2^-997 cond <= m_j < 2^1000, cond = cond2 of the column-normalised matrix. Every case carries a PARTNER scaling "
        "(overall exponent from +-1 .. +-600, never 0, plus column exponents, inside |exponent| <= 700): the library is called on the "
        "partner too (for every iteration limit / for the same rect and dispatch arguments). Aspect ratios from n = r+1 (r 1..6, n-r 1..12; thorough r..8, n..40). "
        "maxvol: e in {1.01,1.05,1.1,2} or a float in [1.01,4], a chain of iteration limits k1<k2<..<10^5 on the same matrix "
        "(every limit is one inner evaluation). maxvol_rect: e, e0, k0, 0<=dr_min<=n-r (biased to the extremes), dr_max None / "
        "dr_min.. / beyond n-r. Rejections: square and wide input, dr_min>dr_max, dr_min<0, dr_min>n-r. _maxvol: n<=r, "
        "dr_max==0, dr values beyond n-r and dr_min>dr_max (clamped), n<=r input of any overall scale. Oracle = validity predicates "
        "(never an expected index vector) evaluated on the exactly column-normalised An = A D^-1 (max|column| in [0.5,1); A = B A[I] "
        "<=> An = B An[I]) + an independently solved B_ref = An inv(An[I]) + the scaling symmetry: I and B for A D' are bit-for-bit "
        "those for A. Non-trivial = n-r >= 2 and (cond >= 1e4 or zero/duplicate rows "
        "or dr_min > 0); distinct by SHA-1 of the case (+ iteration limit)."
        " PRESENTATIONS: maxvol and maxvol_rect are also called on the same matrix stored in Fortran order / as a strided view and, when all entries are integers (family int, unit scale), as int64 / int32 arrays in C or Fortran order: the same oracles, argument untouched.")
TOLERANCES = ("COLUMN BY COLUMN max_i|A - B A[I]|_ij <= 64 eps q max_i|A_ij| g (the backward error of the triangular solves is componentwise "
              "in U, hence relative to each column of A; there is no absolute term anywhere), q = len(I), g = max(max|B|, max|L inv(L[:r])| of my own partial-pivoting LU of A) = "
              "largest coefficient matrix of the run (rounding committed while B was large stays in B after it has shrunk; g <= 2^(r-1)). "
              "The residual of backward-stable triangular solves and of rank-one updates does not grow with cond(A): observed worst "
              "1.1 eps q max|A| g over 7e4 matrices up to cond 1e8, i.e. 1/60 of the bound, the same (0.92) at the two ends of the scale "
              "range. Square variant: max|B[I] - Id| <= 64 eps r cond g, cond = cond2 of the column-normalised A (B does not depend on "
              "the column scaling; equilibration is within sqrt(r) of the best scaling) (forward error of the LU start, observed worst "
              "0.54 eps r cond g at every scale); scaling symmetry: bit-for-bit (LU with partial pivoting of A D, D = powers of two, has "
              "the same pivot order, the same L and U D; U^T Q = A^T row-scaled gives the same Q; everything after that is scale-free); rect: B[I] == Id bit-for-bit (assigned). "
              "k = 10^5: returned max|B| <= e exactly (the loop's own stop test) and max|B_ref| <= e(1+1e-9) + 64 eps r cond2(A[I]) "
              "max(1,max|B_ref|) with A[I] column-normalised (forward error of my solve and of the library's B, observed worst 0.83 of eps r cond2(A[I]) max|B|); "
              "log|det A[I(k2)]| >= log|det A[I(k1)]| - 64 r eps (cond2(A[I1]) + cond2(A[I2])) for k1 < k2; rect early stop: row norms "
              "<= e(1+1e-9) + 64 eps q F0, F0 = largest squared row norm of the maxvol start (cancellation in the downdated squared "
              "norms F - l v^2)")
ASSUMPTIONS = ["A is tall with full column rank (guaranteed by construction: r generic rows are never overwritten), finite; before scaling |entries| in [1e-11, 1e4] or 0", "scales: 2^-997 cond2(An) <= max|column| < 2^1000 for every column "
               "(LU pivots stay normal numbers: >= max|column| / (cond r sqrt(nr) growth); U <= 2^(r-1) max|column| does not overflow). "
               "Measured on the unchanged library: at the lower end max|B - B(unit scale)| = 2e-24 and identical I, still 9e-16 with the "
               "limit moved to 2^-1020; at the upper end bit-identical up to 2^1016", "the bit-for-bit scaling symmetry is asserted only "
               "when the column maxima of both matrices lie in [2^-700 cond, 2^700] (a product l u that underflows could otherwise change a "
               "rounding); 8000 pairs with exponents up to +-900 were bit-identical on the unchanged library", "cond2(A) <= ~1e8 for the prescribed-spectrum family; for raw Gaussian/integer matrices the "
               "tolerances use the actual cond2(A) computed by LAPACK SVD", "e, e0 >= 1.01; k, k0 >= 1; r <= 8 so that 10^5 "
               "iterations cannot be reached (every swap multiplies |det A[I]| by more than e and the LU start is within "
               "(sqrt(r) 2^(r-1))^r of the maximum: < 4800 swaps)", "repeated identical calls are bit-for-bit reproducible "
               "(single-threaded BLAS), used by the _maxvol dispatch comparison and the scaling symmetry"]

E_SET = [1.01, 1.05, 1.1, 2.0]
K_BIG = 10 ** 5
accuracies = st.one_of(st.sampled_from(E_SET), st.sampled_from(E_SET[:3]), st.floats(1.01, 1.3, allow_nan=False), st.floats(1.01, 4.0, allow_nan=False))


# ------------------------------------------------------------------------------------------- matrices

@st.composite
def matrix_specs(draw, tier, min_extra=1):
    quick = tier == "quick"
    r = draw(st.integers(1, 6 if quick else 8))
    extra = draw(st.one_of(st.integers(min_extra, 3), st.integers(min_extra, 12 if quick else 32)))
    n = r + extra
    fam = draw(st.sampled_from(["cond", "cond", "cond", "gauss", "int", "lu", "lu", "lu"]))
    nops = draw(st.sampled_from([0, 0, 1, 2, 3, extra, extra]))
    ops = [[draw(st.sampled_from(["zero", "zero", "dup", "neg", "dbl"])), draw(st.integers(0, n - 1)), draw(st.integers(0, extra - 1))]
           for _ in range(nops)]
    spec = {"fam": fam, "n": n, "r": r, "seed": draw(gen.seeds), "ops": ops, "perm": draw(st.permutations(list(range(n))))}
    if fam == "cond":
        spec["c"] = draw(st.sampled_from([0, 1, 2, 4, 6, 8, 8]))
        spec["scale10"] = draw(st.sampled_from([0, 0, 0, 3, -3]))
    if fam == "lu":
        spec["c"] = draw(st.sampled_from([0, 0, 2, 4]))
        spec["signs"] = draw(st.sampled_from(["neg", "random", "random", "random"]))
        spec["lo"] = draw(st.sampled_from([0.3, 0.9, 0.9]))
    spec["scale2"], spec["cols"] = draw(scalings(r, SCALE2))
    return spec


# Binary exponents of the overall scale (2^-996 = 1.5e-300, 2^-333 = 1e-100, 2^-67 = 7e-21, 2^-54 = 5.6e-17, 2^-40 = 9e-13; +-1100 is
# clipped to the end of the range the library can handle) and of the individual columns.  Scaling by powers of two is exact.
SCALE2 = [0, 0, 0, 0, 0, 0, -10, 10, -33, 33, -40, -47, -50, -54, -57, -60, -67, 67, -100, 100, -333, 333, -664, 664, -700, 700, -900, 900,
          -996, 996, -1100, 1100]
SCALE2_PARTNER = [-67, 67, -54, -40, 40, -100, 100, -333, 333, -600, 600, -10, 10, -1, 1]
LO2, HI2 = -996, 1000          # admissible binary exponent of a column maximum: LO2 + log2(cond) <= . <= HI2
SAFE2 = 700                    # |binary exponent| of the column maxima up to which scaling is an exact (bit-for-bit) symmetry


@st.composite
def scalings(draw, r, table):
    """(overall binary exponent, None or r binary exponents of the columns)."""
    s = draw(st.sampled_from(table))
    mode = draw(st.sampled_from(["none", "none", "none", "none", "none", "spread", "wide", "one", "one", "graded"]))
    if mode == "none":
        cols = None
    elif mode == "spread":
        cols = draw(st.lists(st.integers(-60, 60), min_size=r, max_size=r))
    elif mode == "wide":
        cols = draw(st.lists(st.integers(-300, 300), min_size=r, max_size=r))
    elif mode == "one":
        cols = [0] * r
        cols[draw(st.integers(0, r - 1))] = draw(st.sampled_from([-40, -54, -70, -200, -600, 40, 70, 200, 600]))
    else:
        step = draw(st.sampled_from([-40, -20, -8, 8, 20, 40]))
        cols = [step * j for j in range(r)]
    return s, cols


def apply_ops(G, r, ops):
    """Overwrite rows r.. (never the r generic rows 0..r-1) by exact zeros / copies; sequential, so copies of copies occur."""
    n = G.shape[0]
    for kind, src, dst in ops:
        dst = r + dst % (n - r)
        src = src % n
        if kind == "zero":
            G[dst] = 0.0
        elif kind == "dup":
            G[dst] = G[src]
        elif kind == "neg":
            G[dst] = -G[src]
        else:
            G[dst] = 2.0 * G[src]
    return G


def build0(spec):
    """The matrix at unit scale (entries in [1e-11, 1e4] or 0)."""
    n, r, fam = spec["n"], spec["r"], spec["fam"]
    rng = np.random.default_rng(spec["seed"])
    if fam == "int":
        lo = np.tril(rng.integers(-2, 3, size=(r, r)), -1) + np.eye(r, dtype=int)
        up = np.triu(rng.integers(-2, 3, size=(r, r)), 1) + np.eye(r, dtype=int)
        G = np.vstack([lo @ up, rng.integers(-3, 4, size=(n - r, r))]).astype(float)      # det of the first r rows is 1
    elif fam == "lu":
        # A = L U, L unit lower trapezoidal with lo <= |l_ij| <= 0.999 below the diagonal: partial pivoting performs no row exchange,
        # so the LU start of maxvol is B = L inv(L[:r]) with large entries -> several row swaps are needed (mean 2-4, up to 8 for r >= 3)
        L = -rng.uniform(spec["lo"], 0.999, size=(n, r))
        if spec["signs"] == "random":
            L = L * rng.choice([-1.0, 1.0], size=(n, r))
        L = np.tril(L, -1)
        L[np.arange(r), np.arange(r)] = 1.0
        d = 10.0 ** (-np.linspace(0.0, float(spec["c"]), r)) if r > 1 else np.ones(1)
        U = np.triu(rng.normal(size=(r, r)), 1) * d[:, None] + np.diag(d * rng.choice([-1.0, 1.0], size=r))
        G = L @ U
    else:
        G = rng.normal(size=(n, r))
    G = apply_ops(G, r, spec["ops"])
    if fam == "cond":
        Q, _ = np.linalg.qr(G)                       # orthonormal basis of the column space: Q = G R^-1 keeps zero/equal rows up to rounding
        V, _ = np.linalg.qr(rng.normal(size=(r, r)))
        s = 10.0 ** (-np.linspace(0.0, float(spec["c"]), r)) if r > 1 else np.ones(1)
        G = (Q * s) @ V.T * 10.0 ** spec["scale10"]
        G = apply_ops(G, r, spec["ops"])             # make the zero rows / copies bit-exact again (an O(eps) change of A)
    return np.ascontiguousarray(G[np.asarray(spec["perm"], dtype=int)])


def normalise(A):
    """A 2^-t columnwise with the binary exponents t of the column maxima (max|column| in [0.5, 1)): an exact operation."""
    t = np.frexp(np.max(np.abs(A), axis=0))[1].astype(int)
    return np.ldexp(A, -t[None, :]), t


def rescale(An, t0, s, cols, lo, hi):
    """An 2^t columnwise, t = t0 + s + cols clipped to lo <= t <= hi (exact: powers of two; An's entries are 0 or >= 1e-15 of the
    column maximum, far from under/overflow for the exponents used here)."""
    t = t0 + int(s) + (np.zeros(len(t0), dtype=int) if cols is None else np.asarray(cols, dtype=int))
    t = np.clip(t, lo, hi)
    return np.ascontiguousarray(np.ldexp(An, t[None, :])), t


class Mat:
    """The matrix handed to the library (A), its exactly normalised copy for the oracles (An = A D^-1, D = powers of two),
    cond = cond2(An), the binary exponents t of the column maxima of A, the size of the LU start."""

    def __init__(self, spec):
        A0 = build0(spec)
        self.An, self.t0 = normalise(A0)
        self.cond = float(np.linalg.cond(self.An))
        self.lc = int(math.ceil(math.log2(max(self.cond, 1.0))))
        self.A, self.t = rescale(self.An, self.t0, spec.get("scale2", 0), spec.get("cols"), LO2 + self.lc, HI2)
        self.safe = bool(np.all(self.t >= -SAFE2 + self.lc) and np.all(self.t <= SAFE2))
        self.growth = start_growth(self.An)

    def partner(self, s, cols):
        """The same matrix at another scale inside the range where scaling is an exact symmetry (None if A itself is outside that
        range or the partner would be A)."""
        A2, t2 = rescale(self.An, self.t0, s, cols, -SAFE2 + self.lc, SAFE2)
        if not self.safe or np.array_equal(t2, self.t):
            return None
        return A2


def build(spec):
    return Mat(spec).A


def matrix_labels(ctx, spec, mat):
    A, cond = mat.A, mat.cond
    n, r = A.shape
    kinds = {op[0] for op in spec["ops"]}
    tmin, tmax = int(mat.t.min()), int(mat.t.max())
    ctx.label("scale:<2^-700" if tmin < -700 else ("scale:<2^-333" if tmin < -333 else ("scale:<2^-53" if tmin < -53 else None)),
              "scale:>2^700" if tmax > 700 else ("scale:>2^333" if tmax > 333 else ("scale:>2^53" if tmax > 53 else None)),
              "scale:unit" if -20 <= tmin and tmax <= 20 else None,
              "columns:spread>=2^40" if tmax - tmin >= 40 else None, "scale:symmetry_range" if mat.safe else "scale:beyond_symmetry_range")
    ctx.label("fam:" + spec["fam"], "n-r==1" if n - r == 1 else "n-r>=2", "r==1" if r == 1 else None)
    if "zero" in kinds:
        ctx.label("zero_rows")
    if kinds - {"zero"}:
        ctx.label("duplicate_rows")
    ctx.label("cond>=1e7" if cond >= 1e7 else ("cond>=1e4" if cond >= 1e4 else "cond<1e4"))
    return bool(kinds)


def start_growth(A):
    """max|L inv(L[:r])| of a partial-pivoting LU of A: the size of the coefficient matrix maxvol starts from (<= 2^(r-1)).
    Only a SCALE for the rounding tolerances (errors committed while B was large stay in B after it has shrunk), never an oracle."""
    r = A.shape[1]
    _, L, _ = scipy.linalg.lu(A)
    B0 = scipy.linalg.solve_triangular(L[:r].T, L.T, lower=False, unit_diagonal=True).T
    return max(1.0, float(np.max(np.abs(B0))))


def validate(ctx, what, mat, I, B, lo, hi, exact_identity):
    """Oracles shared by both variants: index vector, shape, B[I] = identity, A = B A[I].  All of them are evaluated on the exactly
    normalised matrix An = A D^-1 (A = B A[I] <=> An = B An[I]; B = A inv(A[I]) does not depend on D), column by column."""
    A, cond = mat.An, mat.cond
    n, r = A.shape
    ctx.check(isinstance(I, np.ndarray) and I.ndim == 1 and I.dtype.kind in "iu", f"{what}: I is not a 1-D integer array",
              type=type(I).__name__, dtype=str(getattr(I, "dtype", None)), shape=getattr(I, "shape", None))
    q = int(I.shape[0])
    ctx.check(lo <= q <= hi, f"{what}: number of returned rows outside [{lo}, {hi}]", rows=q, n=n, r=r)
    Il = [int(i) for i in I]
    ctx.check(all(0 <= i < n for i in Il), f"{what}: row number out of range", I=Il, n=n)
    ctx.check(len(set(Il)) == q, f"{what}: row numbers are not pairwise distinct", I=Il, n=n, r=r)
    ctx.check(isinstance(B, np.ndarray) and B.dtype.kind == "f" and B.shape == (n, q), f"{what}: B is not a float array of shape [n, len(I)]",
              shape=getattr(B, "shape", None), expected=(n, q))
    ctx.check(bool(np.all(np.isfinite(B))), f"{what}: B has non-finite entries")
    mB = max(mat.growth, float(np.max(np.abs(B))))
    mA = np.max(np.abs(A), axis=0)                   # in [0.5, 1)
    if exact_identity:
        ctx.check(np.array_equal(B[I], np.eye(q)), f"{what}: B[I] is not exactly the identity", defect=float(np.max(np.abs(B[I] - np.eye(q)))))
    else:
        defect = float(np.max(np.abs(B[I] - np.eye(q))))
        tol = 64 * EPS * r * cond * mB
        ctx.check(defect <= tol, f"{what}: B[I] differs from the identity", defect=defect, tol=tol, cond=cond)
    res = np.max(np.abs(A - B @ A[I]), axis=0)
    tol = 64 * EPS * q * mA * mB
    ctx.check(bool(np.all(res <= tol)), f"{what}: A != B A[I] (columns scaled to max|column| in [0.5, 1))", residual=res, tol=tol, cond=cond,
              max_B=mB, I=Il, exponents_of_column_maxima=mat.t)
    return Il, q


def scaling_symmetry(ctx, what, mat, partner, I, B, fn, *args):
    """maxvol(A D), D = diag of powers of two: L, the pivot order and U D^-1 of the LU start and every later operation are the
    same floating-point numbers (no under/overflow inside the symmetry range), so I and B are bit-for-bit those of A."""
    A2 = mat.partner(*partner) if partner is not None else None        # recorded cases of earlier rounds carry no partner
    if A2 is None:
        ctx.label("symmetry:skipped")
        return
    I2, B2 = ctx.lib(fn, A2.copy(), *args)
    same_I = isinstance(I2, np.ndarray) and np.array_equal(I, I2)
    ctx.check(same_I and isinstance(B2, np.ndarray) and np.array_equal(B, B2),
              f"{what}: result changes when the columns of A are multiplied by powers of two",
              I=[int(i) for i in I], I_scaled=[int(i) for i in np.asarray(I2).ravel()],
              max_diff_B=float(np.max(np.abs(B - B2))) if getattr(B2, "shape", None) == B.shape else None,
              exponents_of_column_maxima=mat.t, exponents_scaled=np.frexp(np.max(np.abs(A2), axis=0))[1])
    ctx.label("symmetry:checked")


def submatrix_stats(ctx, what, A, Il):
    M = A[Il]
    sign, logdet = np.linalg.slogdet(M)
    ctx.check(sign != 0 and math.isfinite(logdet), f"{what}: the selected submatrix A[I] is singular although A has full column rank", I=Il)
    return M, float(logdet), float(np.linalg.cond(M))


# ------------------------------------------------------------------------------------------- maxvol

def presentations(A, sel):
    """Other ways a caller may store the very same matrix: Fortran order, a strided view, and - when every entry is an integer below
    2^31 - integer arrays in either order.  [(label, array)]"""
    out = [("float64_F", np.asfortranarray(A)), ("float64_strided", np.repeat(A, 2, axis=1)[:, ::2])]
    if np.array_equal(A, np.round(A)) and float(np.max(np.abs(A), initial=0.0)) < 2 ** 31:
        out += [("int64_C", A.astype(np.int64)), ("int64_F", np.asfortranarray(A.astype(np.int64))), ("int32_C", A.astype(np.int32)),
                ("int32_F", np.asfortranarray(A.astype(np.int32)))]
        return [out[sel % 2], out[2 + sel % 4]]
    return [out[sel % 2]]


def check_presentations(ctx, name, fn, mat, spec, lo, hi, exact_identity, *args):
    for label, Ap in presentations(mat.A, spec["seed"]):
        keep = Ap.copy()
        what = f"{name} (matrix stored as {label})"
        out = ctx.lib(fn, Ap, *args)
        ctx.check(isinstance(out, tuple) and len(out) == 2, f"{what}: did not return a pair (I, B)")
        validate(ctx, what, mat, out[0], out[1], lo, hi, exact_identity)
        ctx.check(np.array_equal(Ap, keep) and Ap.dtype == keep.dtype, f"{what}: the argument was modified")
        ctx.label("stored:" + label)
        ctx.inner(1)


@st.composite
def maxvol_cases(draw, tier):
    spec = draw(matrix_specs(tier))
    e = draw(accuracies)
    ks = sorted(draw(st.sets(st.sampled_from([1, 2, 3, 5, 10, 100]), min_size=1, max_size=3)))
    return {"M": spec, "e": e, "ks": ks + [K_BIG], "partner": draw(scalings(spec["r"], SCALE2_PARTNER))}


def prop_maxvol(case, ctx):
    spec, e = case["M"], float(case["e"])
    mat = Mat(spec)
    A, An, cond = mat.A, mat.An, mat.cond
    n, r = A.shape
    modified = matrix_labels(ctx, spec, mat)
    nt = n - r >= 2 and (cond >= 1e4 or modified)
    prev = None
    first = None
    for k in case["ks"]:
        what = f"maxvol(e={e}, k={k})"
        out = ctx.lib(teneva.maxvol, A.copy(), e, k)
        ctx.check(isinstance(out, tuple) and len(out) == 2, f"{what}: did not return a pair (I, B)")
        I, B = out
        Il, _ = validate(ctx, what, mat, I, B, r, r, False)
        scaling_symmetry(ctx, what, mat, case.get("partner"), I, B, teneva.maxvol, e, k)
        M, logdet, condM = submatrix_stats(ctx, what, An, Il)
        if k == K_BIG:
            # 10^5 iterations cannot be reached for r <= 8 (see ASSUMPTIONS), so the loop ended through its stop test
            mx = float(np.max(np.abs(B)))
            ctx.check(mx <= e, f"{what}: iteration limit not hit but max|B| > e", max_B=mx, e=e)
            Bref = np.linalg.solve(M.T, An.T).T
            mr = float(np.max(np.abs(Bref)))
            tol = e * 1e-9 + 64 * EPS * r * condM * max(1.0, mr)
            ctx.check(mr <= e + tol, f"{what}: a single row swap enlarges the volume by more than e (max|A inv(A[I])| > e)",
                      max_Bref=mr, e=e, tol=tol, cond_sub=condM, I=Il)
            if first is not None and sorted(first) != sorted(Il):
                ctx.label("swaps_after_first_limit")
        else:
            if float(np.max(np.abs(B))) > e:
                ctx.label("limit_hit")
        if prev is not None:
            k1, ld1, c1, I1 = prev
            tol = 64 * r * EPS * (c1 + condM)
            ctx.check(logdet >= ld1 - tol, "maxvol: |det A[I]| decreased when the iteration limit was raised",
                      k1=k1, k2=k, logdet1=ld1, logdet2=logdet, tol=tol, I1=I1, I2=Il)
        prev = (k, logdet, condM, Il)
        if first is None:
            first = Il
        ctx.inner(1, nontrivial_key=f"k{k}" if nt else None)
    check_presentations(ctx, f"maxvol(e={e})", teneva.maxvol, mat, spec, r, r, False, e, K_BIG)
    ctx.label("e=%g" % e if e in E_SET else "e:float")
    ctx.nontrivial(nt)


# ------------------------------------------------------------------------------------------- maxvol_rect

@st.composite
def rect_cases(draw, tier):
    spec = draw(matrix_specs(tier))
    extra = spec["n"] - spec["r"]
    dr_min = draw(st.sampled_from([0, 0, 1, 2, extra, extra, extra - 1, draw(st.integers(0, extra))]))
    dr_min = min(max(dr_min, 0), extra)
    dmode = draw(st.sampled_from(["none", "none", "at_min", "above", "beyond"]))
    if dmode == "none":
        dr_max = None
    elif dmode == "at_min":
        dr_max = dr_min
    elif dmode == "above":
        dr_max = dr_min + draw(st.integers(0, max(0, extra - dr_min)))
    else:
        dr_max = extra + draw(st.integers(1, 4))
    return {"M": spec, "e": draw(accuracies),
            "dr_min": dr_min, "dr_max": dr_max, "e0": draw(st.sampled_from(E_SET)), "k0": draw(st.sampled_from([1, 2, 10, 100])),
            "defaults": draw(st.integers(0, 7)) == 0, "partner": draw(scalings(spec["r"], SCALE2_PARTNER))}


def prop_rect(case, ctx):
    spec, e, dr_min, dr_max = case["M"], float(case["e"]), case["dr_min"], case["dr_max"]
    e0, k0 = float(case["e0"]), case["k0"]
    mat = Mat(spec)
    A, cond = mat.A, mat.cond
    n, r = A.shape
    modified = matrix_labels(ctx, spec, mat)
    if case["defaults"]:
        e, dr_min, dr_max, e0, k0 = 1.1, 0, None, 1.05, 10
        args = ()
    else:
        args = (e, dr_min, dr_max, e0, k0)
    out = ctx.lib(teneva.maxvol_rect, A.copy(), *args)
    what = f"maxvol_rect(e={e}, dr_min={dr_min}, dr_max={dr_max}, e0={e0}, k0={k0})"
    ctx.check(isinstance(out, tuple) and len(out) == 2, f"{what}: did not return a pair (I, B)")
    I, B = out
    lo = r + dr_min
    hi = n if dr_max is None else min(n, r + dr_max)
    Il, q = validate(ctx, what, mat, I, B, lo, hi, True)
    scaling_symmetry(ctx, what, mat, case.get("partner"), I, B, teneva.maxvol_rect, *args)
    check_presentations(ctx, what, teneva.maxvol_rect, mat, spec, lo, hi, True, *args)
    nzero = int(np.sum(~np.any(A != 0, axis=1)))
    if q < hi:
        # stopped by the accuracy test: the start matrix of the greedy phase gives the scale of the cancellation in F
        _, B0 = ctx.lib(teneva.maxvol, A.copy(), e0, k0)
        F0 = float(np.max(np.sum(B0 * B0, axis=1)))
        rn = float(np.max(np.linalg.norm(B, axis=1)))
        tol = e * 1e-9 + 64 * EPS * q * F0
        ctx.check(rn <= e + tol, f"{what}: stopped before the upper limit but a row of B has Euclidean norm > e", row_norm=rn, e=e, tol=tol,
                  rows=q, upper=hi)
        ctx.label("stopped_early")
    else:
        ctx.label("reached_upper_limit")
    if q == lo and dr_min > 0:
        ctx.label("dr_min_binds")
    if nzero and lo > n - nzero:
        ctx.label("dr_min_forces_zero_rows")
    ctx.label("dr_max:" + ("None" if dr_max is None else ("beyond" if r + dr_max > n else "int")), "dr_min>0" if dr_min > 0 else "dr_min==0")
    ctx.nontrivial(n - r >= 2 and (cond >= 1e4 or modified or dr_min > 0))


# ------------------------------------------------------------------------------------------- ValueError contracts

@st.composite
def reject_cases(draw, tier):
    kind = draw(st.sampled_from(["square", "wide", "min>max", "min<0", "min>n-r", "max<0"]))
    case = {"kind": kind, "seed": draw(gen.seeds), "e": draw(st.sampled_from(E_SET)), "k": draw(st.sampled_from([1, 2, 100]))}
    if kind in ("square", "wide"):
        r = draw(st.integers(1, 8))
        case["r"] = r
        case["n"] = r if kind == "square" else draw(st.integers(1, r - 1)) if r > 1 else 1
        if kind == "wide" and r == 1:
            case["r"], case["n"] = 2, 1
        return case
    spec = draw(matrix_specs("quick"))
    extra = spec["n"] - spec["r"]
    case["M"] = spec
    if kind == "min>max":
        dr_max = draw(st.integers(0, extra + 2))
        case["dr_min"], case["dr_max"] = dr_max + draw(st.integers(1, 3)), dr_max
    elif kind == "min<0":
        case["dr_min"] = -draw(st.integers(1, 3))
        case["dr_max"] = draw(st.sampled_from([None, 0, 1, extra, extra + 2]))
    elif kind == "min>n-r":
        case["dr_min"] = extra + draw(st.integers(1, 3))
        case["dr_max"] = draw(st.sampled_from([None, extra + 5, case["dr_min"], case["dr_min"] + 1]))
    else:
        case["dr_min"], case["dr_max"] = 0, -draw(st.integers(1, 3))
    return case


def prop_reject(case, ctx):
    kind = case["kind"]
    ctx.label("reject:" + kind)
    if kind in ("square", "wide"):
        A = np.random.default_rng(case["seed"]).normal(size=(case["n"], case["r"]))
        ctx.raises(ValueError, teneva.maxvol, A.copy())
        ctx.raises(ValueError, teneva.maxvol, A.copy(), case["e"], case["k"])
        ctx.nontrivial(case["r"] >= 2)
        return
    A = build(case["M"])
    n, r = A.shape
    ctx.raises(ValueError, teneva.maxvol_rect, A.copy(), case["e"], case["dr_min"], case["dr_max"])
    ctx.raises(ValueError, teneva.maxvol_rect, A.copy(), case["e"], case["dr_min"], case["dr_max"], 1.05, case["k"])
    ctx.raises(ValueError, teneva.maxvol_rect, A.copy(), dr_min=case["dr_min"], dr_max=case["dr_max"])
    # the neighbouring legal call is accepted: the rejection is not a blanket one
    if kind == "min>n-r":
        I, _ = ctx.lib(teneva.maxvol_rect, A.copy(), case["e"], n - r, case["dr_max"])
        ctx.check(len(I) == n and len(set(int(i) for i in I)) == n, "maxvol_rect(dr_min = n-r) must return all n rows once", I=[int(i) for i in I])
    elif kind == "min>max":
        m = min(case["dr_max"], n - r)
        ctx.lib(teneva.maxvol_rect, A.copy(), case["e"], m, case["dr_max"])
    ctx.nontrivial(n - r >= 2)


# ------------------------------------------------------------------------------------------- _maxvol dispatch

@st.composite
def dispatch_cases(draw, tier):
    mode = draw(st.sampled_from(["wide", "square", "tall", "tall", "tall"]))
    case = {"mode": mode, "tau": draw(st.sampled_from([1.01, 1.1, 2.0])), "tau0": draw(st.sampled_from([1.01, 1.05, 2.0])),
            "k0": draw(st.sampled_from([1, 2, 100])), "defaults": draw(st.integers(0, 5)) == 0}
    if mode == "tall":
        spec = draw(matrix_specs(tier))
        extra = spec["n"] - spec["r"]
        case["M"] = spec
    else:
        r = draw(st.integers(1, 8))
        n = r if mode == "square" else draw(st.integers(1, max(1, r - 1)))
        if mode == "wide" and r == 1:
            r = 2
        case.update(n=n, r=r, seed=draw(gen.seeds), zero=draw(st.integers(0, 4)) == 0)
        extra = 0
    case["dr_max"] = draw(st.sampled_from([0, 0, 1, 2, extra, extra + 3, draw(st.integers(0, extra + 3))]))
    case["dr_min"] = draw(st.sampled_from([0, 0, 1, case["dr_max"], case["dr_max"] + 2, extra + 1]))
    case["partner"] = draw(scalings(case["M"]["r"] if mode == "tall" else case["r"], SCALE2_PARTNER))
    case["scale2"] = draw(st.sampled_from(SCALE2))
    return case


def prop_dispatch(case, ctx):
    tau, tau0, k0, dr_min, dr_max = case["tau"], case["tau0"], case["k0"], case["dr_min"], case["dr_max"]
    if case["mode"] == "tall":
        mat = Mat(case["M"])
        A = mat.A
    else:
        A = np.random.default_rng(case["seed"]).normal(size=(case["n"], case["r"]))
        A = np.ldexp(A, int(np.clip(case.get("scale2", 0), -1000, 1000)))     # n <= r never looks at the values, whatever their size
        if case["zero"]:
            A[...] = 0.0
    n, r = A.shape
    if case["defaults"]:
        tau, dr_min, dr_max, tau0, k0 = 1.1, 0, 0, 1.05, 100
        args = ()
    else:
        args = (tau, dr_min, dr_max, tau0, k0)
    out = ctx.lib(teneva._maxvol, A.copy(), *args)
    what = f"_maxvol(n={n}, r={r}, tau={tau}, dr_min={dr_min}, dr_max={dr_max}, tau0={tau0}, k0={k0})"
    ctx.check(isinstance(out, tuple) and len(out) == 2, f"{what}: did not return a pair (I, B)")
    I, B = out
    if n <= r:
        ctx.label("dispatch:n<=r")
        ctx.check(isinstance(I, np.ndarray) and I.dtype.kind in "iu" and np.array_equal(I, np.arange(n)), f"{what}: I must be arange(n)", I=I)
        ctx.check(isinstance(B, np.ndarray) and B.dtype.kind == "f" and np.array_equal(B, np.eye(n)), f"{what}: B must be the n x n identity")
        ctx.nontrivial(n >= 2)
        return
    cond = mat.cond
    modified = matrix_labels(ctx, case["M"], mat)
    dmax = min(dr_max, n - r)
    dmin = min(dr_min, dmax)
    if dmax == 0:
        ctx.label("dispatch:maxvol")
        validate(ctx, what, mat, I, B, r, r, False)
        I2, B2 = ctx.lib(teneva.maxvol, A.copy(), tau0, k0)
    else:
        ctx.label("dispatch:maxvol_rect", "dr_clamped" if (dr_max > n - r or dr_min > dmax) else None)
        validate(ctx, what, mat, I, B, r + dmin, r + dmax, True)
        I2, B2 = ctx.lib(teneva.maxvol_rect, A.copy(), tau, dmin, dmax, tau0, k0)
    ctx.check(np.array_equal(I, I2) and np.array_equal(B, B2), f"{what}: result differs from the direct call of the variant it must dispatch to",
              I=[int(i) for i in I], I_direct=[int(i) for i in I2])
    scaling_symmetry(ctx, what, mat, case.get("partner"), I, B, teneva._maxvol, *args)
    ctx.nontrivial(n - r >= 2 and (cond >= 1e4 or modified or dmin > 0 or dr_max > n - r))


SUBCHECKS = [
    Sub("maxvol", prop_maxvol, strategy=maxvol_cases, quick=600, thorough=4000),
    Sub("maxvol_rect", prop_rect, strategy=rect_cases, quick=800, thorough=6000),
    Sub("rejections", prop_reject, strategy=reject_cases, quick=100, thorough=600),
    Sub("dispatch", prop_dispatch, strategy=dispatch_cases, quick=300, thorough=2000),
]
