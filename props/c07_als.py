"""C07 - TT-ALS descends, is optimal per core, and ignores sample order."""
import math
import numpy as np
from hypothesis import strategies as st

import harness.core  # noqa: F401
from harness.core import Sub
from harness import gen, oracle
from harness.oracle import EPS, dense, fro

import teneva

LEVEL = "exploration"
RULE = ("Hypothesis draws training sets (m up to 40, every slice covered as the routine requires, duplicates, optional positive weights, a slice "
        "whose ONLY sample sits at a chosen position p in {0, m//2, m-1}), initial tensors with ragged ranks, lamb in 10^[-6,1], sweep counts "
        "and splittings a+b, permutations; objective J = sum_s w_s (T[i_s]-y_s)^2 + lamb sum_k ||G_k||^2 recomputed from a dense reference. "
        "Adaptive mode: d>=3, ranks(Y0)<=r. als_func: points in the box, n 2..5, thr_pow=0. "
        "Non-trivial = single-sample slice, duplicates or weights present, and some rank >= 2; distinct by SHA-1 of the case."
        " The regularisation number is also handed over as 0-d array / np.float64 / (where exact) np.float32 / np.float16 / NumPy integer: bit-identical result required (als and als_func).")
TOLERANCES = ("J_{t+1} <= J_t (1+1e-9) + 1e-12 (J_0+1); ridge gradient of the last updated core <= 1e-8 * scale; restart and permutation: relative "
              "difference <= 1e-6 * max(1, (1e-3/lamb)^2)")
ASSUMPTIONS = ["lamb > 0 (unique ridge minimiser per core)", "weights non-negative (exact zeros included)", "d >= 2 (adaptive d >= 3)",
               "als_func with thr_pow=0 (default thr_pow may legitimately shrink a mode, then only shape<=initial is claimed)"]


# ------------------------------------------------------------------------------------------- data generation

@st.composite
def als_cases(draw, tier):
    n = draw(gen.shapes(d_max=4, n_max=4 if tier == "quick" else 5, size_max=256 if tier == "quick" else 625))
    d = len(n)
    m = draw(st.integers(max(n), 40))
    case = {"n": n, "m": m, "dseed": draw(gen.seeds),
            "Y0": draw(gen.tt_specs(shape=n, r_max=3, families=("gauss", "float", "smallint"), rank_families=("rank1", "uniform", "uniform", "ragged", "ragged"))),
            # an initial approximation written down by hand (ones, small integers) may be stored in integer arrays
            "y0_dtype": draw(st.sampled_from(["float64", "int64", "int32", "mixed"])),
            "target": draw(st.sampled_from(["tt", "random", "const"])),
            "lamb10": draw(st.sampled_from([-6, -4, -3, -2, -1, 0, 1])), "weights": draw(st.booleans()),
            "wkind": draw(st.sampled_from(["positive", "positive", "some_zero", "slice_zero"])), "wcore": draw(st.sampled_from([1, 1, 0, d - 1])),
            "layout": draw(st.sampled_from(["plain", "dups", "single", "single", "grid"])),
            "p": draw(st.sampled_from(["first", "mid", "last"])), "k0": draw(st.integers(0, d - 1)),
            "nswp": draw(st.integers(1, 4)), "a": draw(st.integers(1, 3)), "pseed": draw(gen.seeds),
            "yscale10": draw(st.sampled_from([0, 0, 0, 0, 6, 12, -6]))}
    return case


def make_data(case):
    n, m = case["n"], case["m"]
    d = len(n)
    rng = np.random.default_rng(case["dseed"])
    if case["layout"] == "grid":
        I = np.array(list(np.ndindex(*n)), dtype=int)
        m = len(I)
    else:
        I = np.empty((m, d), dtype=int)
        for k in range(d):
            col = np.concatenate([np.arange(n[k]), rng.integers(0, n[k], size=m - n[k])])
            I[:, k] = rng.permutation(col)
        if case["layout"] == "dups":
            I = np.vstack([I, I[0:1], I[0:1], I[m // 2:m // 2 + 1]])      # appended duplicates keep the coverage
            m = len(I)
    single = None
    if case["layout"] == "single":
        k0 = case["k0"]
        if n[k0] >= 2 and m >= n[k0] + 1:
            j0 = int(rng.integers(0, n[k0]))
            p = {"first": 0, "mid": m // 2, "last": m - 1}[case["p"]]
            others = [j for j in range(n[k0]) if j != j0]
            col = I[:, k0].copy()
            pos = [t for t in range(m) if t != p]
            # all other positions: cover `others`, never j0
            vals = others + [others[int(x)] for x in rng.integers(0, len(others), size=len(pos) - len(others))]
            col[pos] = rng.permutation(vals)
            col[p] = j0
            I[:, k0] = col
            single = (k0, j0, p)
    if case["target"] == "tt":
        T = [rng.normal(size=(1 if k == 0 else 2, n[k], 1 if k == d - 1 else 2)) for k in range(d)]
        y = dense(T)[tuple(I.T)] + 0.05 * rng.normal(size=len(I))
    elif case["target"] == "random":
        y = rng.normal(size=len(I)) * 3
    else:
        y = np.full(len(I), 1.5)
    y = y * 10.0 ** case.get("yscale10", 0)          # data of any magnitude (the regularisation is then relatively tiny / huge)
    w = rng.uniform(0.2, 3.0, size=len(I)) if case["weights"] else None
    if w is not None:
        # weights are non-negative: exact zeros switch samples off; a slice whose samples ALL have weight 0 has the ridge minimiser 0
        wk = case.get("wkind", "positive")
        if wk == "some_zero":
            w[rng.uniform(size=len(w)) < 0.3] = 0.0
        elif wk == "slice_zero":
            kc = min(case.get("wcore", 1), d - 1)
            w[I[:, kc] == int(rng.integers(0, n[kc]))] = 0.0
    return I, y, w, single


def spell_lamb(lamb, sel):
    """The same number as np.float64 / 0-d array / (where exact) np.float32, np.int64, np.float16."""
    opts = [np.array(lamb), np.float64(lamb), np.array([lamb])[0:1].reshape(())]
    if float(np.float32(lamb)) == lamb:
        opts += [np.float32(lamb), np.float32(lamb), np.float16(lamb)] if float(np.float16(lamb)) == lamb else [np.float32(lamb)] * 2
    if float(int(lamb)) == lamb and lamb >= 1:
        opts += [np.int64(int(lamb)), np.int32(int(lamb)), np.array(int(lamb))]
    return opts[sel % len(opts)]


def J_of(Y, I, y, w, lamb):
    pred = dense(Y)[tuple(I.T)]
    res = (pred - y) ** 2
    if w is not None:
        res = res * w
    return float(res.sum() + lamb * sum(float((G ** 2).sum()) for G in Y))


def kappa_als(Y, I, w, lamb):
    """Largest condition-number bound (||A||_F^2 + lamb)/lamb of the per-slice normal equations at the tensor Y."""
    d = len(Y)
    m = len(I)
    left = [np.ones((m, 1))]
    for k in range(d - 1):
        left.append(np.einsum('sa,sab->sb', left[-1], np.transpose(Y[k][:, I[:, k], :], (1, 0, 2))))
    right = [np.ones((m, 1))]
    for k in range(d - 1, 0, -1):
        right.append(np.einsum('sab,sb->sa', np.transpose(Y[k][:, I[:, k], :], (1, 0, 2)), right[-1]))
    right = right[::-1]
    ww = np.ones(m) if w is None else w
    kap = 1.0
    for k in range(d):
        a2 = ww * (left[k] ** 2).sum(axis=1) * (right[k] ** 2).sum(axis=1)
        for j in range(Y[k].shape[1]):
            sel = I[:, k] == j
            if np.any(sel):
                kap = max(kap, (float(a2[sel].sum()) + lamb) / lamb)
    return kap


def rel_diff(Ya, Yb):
    Fa, Fb = dense(Ya), dense(Yb)
    core = max(fro(A - B) / max(fro(B), 1e-300) for A, B in zip(Ya, Yb))
    return max(fro(Fa - Fb) / max(fro(Fb), 1e-300), core)


def cast_init(Y0, spec, dt, ctx):
    """integer-valued initial cores stored as integer arrays (all of them, or every other one)"""
    if dt == "float64" or spec["fam"] != "smallint" or not all(np.array_equal(G, np.round(G)) for G in Y0):
        return Y0
    ctx.label("init_stored_as:" + dt)
    if dt == "mixed":
        return [G.astype(np.int64) if k % 2 == 0 else G for k, G in enumerate(Y0)]
    return [G.astype(dt) for G in Y0]


def prop_als(case, ctx):
    n = case["n"]
    d = len(n)
    I, y, w, single = make_data(case)
    m = len(I)
    lamb = 10.0 ** case["lamb10"]
    Y0 = cast_init(gen.build_tt(case["Y0"]), case["Y0"], case.get("y0_dtype", "float64"), ctx)
    nswp = case["nswp"]
    ctx.label(f"yscale=1e{case.get('yscale10', 0)}")
    ctx.label("layout:" + case["layout"], ("weights:" + case.get("wkind", "positive")) if w is not None else "noweights", f"lamb=1e{case['lamb10']}", f"d={d}", "target:" + case["target"])
    if single:
        ctx.label(f"single_at_{case['p']}", f"single_core_{min(single[0], 2)}")
    ctx.nontrivial((single is not None or case["layout"] == "dups" or w is not None) and max(case["Y0"]["r"]) >= 2)

    traj = []

    def cb(Y, info, opts):
        traj.append(J_of(Y, I, y, w, lamb))

    info = {}
    snapY0 = [G.copy() for G in Y0]
    Y = ctx.lib(teneva.als, I, y, Y0, nswp, None, info, lamb=lamb, w=w, cb=cb)
    why = oracle.wellformed(Y, n)
    ctx.check(why is None, f"als: result not well-formed: {why}")
    ctx.check(all(np.array_equal(a, b) for a, b in zip(Y0, snapY0)), "als modified its initial approximation")
    # (a) shape and ranks of the initial approximation
    ctx.check(oracle.ranks_of(Y) == oracle.ranks_of(Y0), "als (constant rank) changed the TT-ranks", got=oracle.ranks_of(Y), init=oracle.ranks_of(Y0))
    # (h) info
    ctx.check(info["nswp"] == nswp and info["stop"] == "nswp", "als: info does not report the executed sweeps / a documented stop reason", info={k: info[k] for k in ("nswp", "stop")})
    ctx.check(len(traj) == nswp, "als: callback not called once per sweep")
    # (b) monotone descent
    J0 = J_of(Y0, I, y, w, lamb)
    seq = [J0] + traj
    for t in range(len(seq) - 1):
        ctx.check(seq[t + 1] <= seq[t] * (1 + 1e-9) + 1e-12 * (J0 + 1), "als: training objective increased from one sweep to the next", sweep=t + 1, J_before=seq[t], J_after=seq[t + 1])
    # (c) the last updated core (core 1) is the exact ridge minimiser given the others
    L = Y[0][0][I[:, 0]]                                          # (m, r1)
    Rv = np.ones((m, 1))
    for k in range(d - 1, 1, -1):
        Rv = np.einsum('saj,sj->sa', np.transpose(Y[k][:, I[:, k], :], (1, 0, 2)), Rv)
    if d == 2:
        Rv = np.ones((m, 1))
    G1 = Y[1]
    pred = np.einsum('sa,sab,sb->s', L, np.transpose(G1[:, I[:, 1], :], (1, 0, 2)), Rv)
    ww = np.ones(m) if w is None else w
    for j in range(n[1]):
        idx = np.where(I[:, 1] == j)[0]
        if idx.size == 0:
            continue
        A = np.einsum('sa,sb->sab', L[idx], Rv[idx])
        grad = np.einsum('s,sab->ab', ww[idx] * (pred[idx] - y[idx]), A) + lamb * G1[:, j, :]
        scale = float(np.einsum('s,sab,sab->', ww[idx], A, A)) * float(np.max(np.abs(G1[:, j, :])) + 1e-300) + float(np.abs(np.einsum('s,sab->ab', ww[idx] * np.abs(y[idx]), np.abs(A))).max()) + lamb * float(np.max(np.abs(G1[:, j, :])))
        ctx.check(float(np.max(np.abs(grad))) <= 1e-8 * scale + 1e-200, "als: the core updated last is not at the minimiser of the objective (ridge gradient not zero)",
                  slice=j, grad=float(np.max(np.abs(grad))), scale=scale, samples_in_slice=int(idx.size), positions=idx[:5].tolist())
    # the metamorphic relations compare two floating-point trajectories of a nonlinear iteration whose per-core solves have
    # condition number ~ ||A||^2/lamb: tolerance 1e-8 * kappa with kappa the largest (||A||_F^2+lamb)/lamb over all slices; skipped when that exceeds 1e-3
    kap = max(kappa_als(Y, I, w, lamb), kappa_als(Y0, I, w, lamb))
    tol = 1e-8 * kap           # observed worst ratio diff/kappa over ~50k cases: 1.1e-10 (error compounds over the core updates)
    stable = tol <= 1e-3
    if stable:
        # kappa at the end points does not bound what the iteration does in between (a start with exact zeros or an underdetermined
        # core can send it through nearly singular steps): measure the amplification of a 1e-10 relative perturbation of the data
        yq = y * (1.0 + 1e-10 * np.random.default_rng(case["pseed"] + 1).standard_normal(m))
        Yq = ctx.lib(teneva.als, I, yq, Y0, nswp, None, {}, lamb=lamb, w=w)
        amp = rel_diff(Yq, Y) / 1e-10
        if amp > 1e6:          # (rounding enters through a solve of condition kappa first: its share is ~ amp * kappa * 1e-16 <= tol / 100)
            stable = False
            ctx.label("metamorphic_skipped_amplification")
    if not stable:
        ctx.label("metamorphic_skipped_ill_conditioned")
    # (d) a+b sweeps == a sweeps, restart, b sweeps
    a = min(case["a"], nswp)
    b = nswp - a
    if b >= 1 and stable:
        Ya = ctx.lib(teneva.als, I, y, Y0, a, None, {}, lamb=lamb, w=w)
        Yab = ctx.lib(teneva.als, I, y, Ya, b, None, {}, lamb=lamb, w=w)
        ctx.check(rel_diff(Yab, Y) <= tol, "als: a+b sweeps differ from a sweeps + restart + b sweeps", a=a, b=b, diff=rel_diff(Yab, Y), tol=tol)
        ctx.label("restart_checked")
    # (e) order of the samples does not matter
    perm = np.random.default_rng(case["pseed"]).permutation(m)
    Yp = ctx.lib(teneva.als, I[perm], y[perm], Y0, nswp, None, {}, lamb=lamb, w=None if w is None else w[perm])
    ctx.check(not stable or rel_diff(Yp, Y) <= tol, "als: result depends on the order of the training samples", diff=rel_diff(Yp, Y), tol=tol,
              single=single, first_row_moved_to=int(np.where(perm == 0)[0][0]))
    # list spelling of the data gives the same result
    Yl = ctx.lib(teneva.als, I.tolist(), y.tolist(), Y0, nswp, None, {}, lamb=lamb, w=w)
    ctx.check(all(np.array_equal(p_, q_) for p_, q_ in zip(Yl, Y)), "als: list and ndarray spelling of the data give different results")
    # the same regularisation number spelled as a NumPy scalar / 0-d array (lamb is documented as float; a value read from an array is one)
    spell = spell_lamb(lamb, case["pseed"])
    ctx.label("lamb_as:" + type(spell).__name__ + ("/" + spell.dtype.name if hasattr(spell, "dtype") else ""))
    Yn = ctx.lib(teneva.als, I, y, Y0, nswp, None, {}, lamb=spell, w=w)
    ctx.check(all(np.array_equal(p_, q_) for p_, q_ in zip(Yn, Y)), "als: the same lamb given as a NumPy scalar / 0-d array gives a different result",
              lamb=lamb, spelled=repr(spell))
    # (h) callback returning True at sweep s stops right after that sweep
    s = 1 + case["pseed"] % nswp
    cnt = [0]

    def cb2(Y_, info_, opts_):
        cnt[0] += 1
        return cnt[0] == s

    info2 = {}
    Ys = ctx.lib(teneva.als, I, y, Y0, nswp, None, info2, lamb=lamb, w=w, cb=cb2)
    ctx.check(info2["stop"] == "cb" and info2["nswp"] == s, "als: callback returned True but the run did not stop right after that sweep", s=s, info={k: info2[k] for k in ("nswp", "stop")})
    # default e: documented stop reasons only
    info3 = {}
    ctx.lib(teneva.als, I, y, Y0, nswp, info=info3, lamb=lamb, w=w)
    ctx.check(info3["stop"] in ("nswp", "e") and 1 <= info3["nswp"] <= nswp, "als: undocumented stop reason or sweep count", info={k: info3[k] for k in ("nswp", "stop")})


# ------------------------------------------------------------------------------------------- missing data / skip / adaptive

@st.composite
def skip_cases(draw, tier):
    n = draw(gen.shapes(d_max=4, n_min=2, n_max=4, size_max=256, force_one=False))
    d = len(n)
    return {"n": n, "m": draw(st.integers(2, 30)), "dseed": draw(gen.seeds), "k0": draw(st.integers(0, d - 1)),
            "Y0": draw(gen.tt_specs(shape=n, r_max=3, families=("gauss",), rank_families=("rank1", "uniform", "ragged"))),
            "adaptive_r": draw(st.integers(1, 4)), "lamb10": draw(st.sampled_from([-4, -3, -2, 0])), "weights": draw(st.booleans()),
            "dense_data": draw(st.booleans())}


def prop_skip(case, ctx):
    n = case["n"]
    d = len(n)
    rng = np.random.default_rng(case["dseed"])
    m = case["m"]
    k0 = case["k0"]
    j0 = int(rng.integers(0, n[k0]))
    I = np.vstack([rng.integers(0, n[k], size=m) for k in range(d)]).T
    # remove every sample of slice (k0, j0)
    others = [j for j in range(n[k0]) if j != j0]
    I[I[:, k0] == j0, k0] = others[0]
    y = rng.normal(size=m)
    lamb = 10.0 ** case["lamb10"]
    w = rng.uniform(0.2, 3.0, size=m) if case["weights"] else None
    Y0 = gen.build_tt(case["Y0"])
    ctx.label(f"d={d}", "weights" if w is not None else "noweights")
    ctx.nontrivial(True)
    ctx.raises(ValueError, teneva.als, I, y, Y0, 2, None, {}, lamb=lamb, w=w)
    if d >= 3:
        # the rank-adaptive mode rejects missing slice data as well
        ctx.raises(ValueError, teneva.als, I, y, Y0, 2, None, {}, lamb=lamb, w=w, r=max(oracle.ranks_of(Y0)) + 1)
    Y = ctx.lib(teneva.als, I, y, Y0, 2, None, {}, lamb=lamb, w=w, allow_skip_cores=True)
    why = oracle.wellformed(Y, n)
    ctx.check(why is None, f"als(allow_skip_cores): {why}")
    ctx.check(oracle.ranks_of(Y) == oracle.ranks_of(Y0), "als(allow_skip_cores) changed the ranks")
    for k in range(d):
        for j in range(n[k]):
            if not np.any(I[:, k] == j):
                ctx.check(Y[k][:, j, :].tobytes() == Y0[k][:, j, :].tobytes(), "als(allow_skip_cores): a slice without data was modified", core=k, slice=j)
    # rank-adaptive mode
    if d >= 3:
        r = max(case["adaptive_r"], max(oracle.ranks_of(Y0)))
        if case["dense_data"]:
            Ia = np.array(list(np.ndindex(*n)), dtype=int)
        else:
            mm = max(m, max(n))
            Ia = np.empty((mm, d), dtype=int)
            for k in range(d):
                col = np.concatenate([np.arange(n[k]), rng.integers(0, n[k], size=mm - n[k])])
                Ia[:, k] = rng.permutation(col)
        ya = rng.normal(size=len(Ia))
        wa = rng.uniform(0.2, 3.0, size=len(Ia)) if case["weights"] else None
        info = {}
        Z = ctx.lib(teneva.als, Ia, ya, Y0, 2, None, info, r=r, lamb=lamb, w=wa)
        why = oracle.wellformed(Z, n)
        ctx.check(why is None, f"als(rank-adaptive): {why}")
        ctx.check(max(oracle.ranks_of(Z)) <= r, "als(rank-adaptive): a rank exceeds r", ranks=oracle.ranks_of(Z), r=r)
        ctx.check(info["stop"] in ("nswp", "e", "e_vld", "cb") and info["nswp"] == 2, "als(rank-adaptive): info", info={k: info[k] for k in ("nswp", "stop")})
        Z2 = ctx.lib(teneva.als, Ia, ya, Y0, 2, None, {}, r=r, lamb=lamb, w=wa)
        ctx.check(all(np.array_equal(p_, q_) for p_, q_ in zip(Z, Z2)), "als(rank-adaptive): two identical calls differ")
        ctx.label("adaptive")


# ------------------------------------------------------------------------------------------- functional version

@st.composite
def func_cases(draw, tier):
    d = draw(st.integers(2, 4))
    nn = draw(st.integers(2, 5))
    return {"d": d, "n": nn, "m": draw(st.integers(3, 40)), "dseed": draw(gen.seeds),
            "A0": draw(gen.tt_specs(shape=[nn] * d, r_max=3, families=("gauss", "gauss", "smallint"), rank_families=("rank1", "uniform", "ragged"))),
            "y0_dtype": draw(st.sampled_from(["float64", "int64", "int32", "mixed"])),
            "lamb10": draw(st.sampled_from([-4, -3, -2, -1, 0, 1])), "nswp": draw(st.integers(1, 3)), "a": draw(st.integers(1, 2)),
            "box": draw(st.sampled_from([[-1.0, 1.0], [0.0, 2.0], [-3.0, 0.5], [10.0, 11.0]])),
            # n_max > n: the documented dynamic search may enlarge a mode by one coefficient per core update (thr_pow = 0: never shrinks)
            "grow": draw(st.sampled_from([0, 0, 0, 1, 2, 3]))}


def cheb_pred(A, X, a, b):
    T = [(2 * X[:, k] - a - b) / (b - a) for k in range(X.shape[1])]
    v = np.ones((X.shape[0], 1))
    for k, G in enumerate(A):
        H = np.polynomial.chebyshev.chebvander(T[k], G.shape[1] - 1)      # (m, n)
        M = np.einsum('sj,ajb->sab', H, G)
        v = np.einsum('sa,sab->sb', v, M)
    return v[:, 0]


def kappa_func(A, X, a, b, lamb):
    """Condition-number bound (||A_k||_F^2 + lamb)/lamb of the per-core normal equations of als_func at the tensor A."""
    d = X.shape[1]
    m = X.shape[0]
    T = [(2 * X[:, k] - a - b) / (b - a) for k in range(d)]
    Hs = [np.polynomial.chebyshev.chebvander(T[k], A[k].shape[1] - 1) for k in range(d)]
    left = [np.ones((m, 1))]
    for k in range(d - 1):
        left.append(np.einsum('sa,sj,ajb->sb', left[-1], Hs[k], A[k]))
    right = [np.ones((m, 1))]
    for k in range(d - 1, 0, -1):
        right.append(np.einsum('sj,ajb,sb->sa', Hs[k], A[k], right[-1]))
    right = right[::-1]
    kap = 1.0
    for k in range(d):
        a2 = float(((left[k] ** 2).sum(axis=1) * (Hs[k] ** 2).sum(axis=1) * (right[k] ** 2).sum(axis=1)).sum())
        kap = max(kap, (a2 + lamb) / lamb)
    return kap


def Jf(A, X, y, a, b, lamb):
    return float(((cheb_pred(A, X, a, b) - y) ** 2).sum() + lamb * sum(float((G ** 2).sum()) for G in A))


def prop_func(case, ctx):
    d, nn, m = case["d"], case["n"], case["m"]
    a, b = case["box"]
    rng = np.random.default_rng(case["dseed"])
    X = rng.uniform(a, b, size=(m, d))
    y = np.sin(X.sum(axis=1)) + 0.1 * rng.normal(size=m)
    lamb = 10.0 ** case["lamb10"]
    A0 = cast_init(gen.build_tt(case["A0"]), case["A0"], case.get("y0_dtype", "float64"), ctx)
    nswp = case["nswp"]
    ctx.label(f"d={d}", f"n={nn}", f"lamb=1e{case['lamb10']}")
    ctx.nontrivial(max(case["A0"]["r"]) >= 2)
    grow = case.get("grow", 0)
    kwg = dict(n_max=nn + grow) if grow else {}
    ctx.label(f"n_max=n+{grow}")
    runs = []
    for t in range(1, nswp + 1):
        info = {}
        A = ctx.lib(teneva.als_func, X, y, A0, a, b, t, None, info, lamb=lamb, thr_pow=0., **kwg)
        why = oracle.wellformed(A, [nn] * d if not grow else None)
        ctx.check(why is None and len(A) == d, f"als_func: result not well-formed or shape changed: {why}")
        ctx.check(all(nn <= G.shape[1] <= nn + grow for G in A), "als_func: mode sizes outside [n, n_max]", shape=oracle.shape_of(A), n=nn, n_max=nn + grow)
        ctx.check(oracle.ranks_of(A) == oracle.ranks_of(A0), "als_func changed the TT-ranks")
        ctx.check(info["nswp"] == t and info["stop"] == "nswp", "als_func: info", info={k: info[k] for k in ("nswp", "stop")})
        runs.append(A)
    if grow and nswp >= 1:
        ctx.check(any(G.shape[1] > nn for G in runs[-1]), "als_func(n_max > n, thr_pow=0): no mode was enlarged", shape=oracle.shape_of(runs[-1]))
    seq = [Jf(A0, X, y, a, b, lamb)] + [Jf(A, X, y, a, b, lamb) for A in runs]
    for t in range(len(seq) - 1):
        ctx.check(seq[t + 1] <= seq[t] * (1 + 1e-9) + 1e-12 * (seq[0] + 1), "als_func: objective increased from one sweep to the next", sweep=t + 1, before=seq[t], after=seq[t + 1])
    A = runs[-1]
    # gradient w.r.t. the last updated core (core 1), over the coefficients that core holds
    T = [(2 * X[:, k] - a - b) / (b - a) for k in range(d)]
    Hs = [np.polynomial.chebyshev.chebvander(T[k], A[k].shape[1] - 1) for k in range(d)]
    L = np.einsum('sj,jb->sb', Hs[0], A[0][0])
    Rv = np.ones((m, 1))
    for k in range(d - 1, 1, -1):
        Rv = np.einsum('sj,ajb,sb->sa', Hs[k], A[k], Rv)
    pred = np.einsum('sa,sj,ajb,sb->s', L, Hs[1], A[1], Rv)
    grad = np.einsum('s,sa,sj,sb->ajb', pred - y, L, Hs[1], Rv) + lamb * A[1]
    scale = float(np.einsum('sa,sj,sb->', np.abs(L), np.abs(Hs[1]), np.abs(Rv))) * (float(np.max(np.abs(pred))) + float(np.max(np.abs(y)))) + lamb * float(np.max(np.abs(A[1])))
    ctx.check(float(np.max(np.abs(grad))) <= 1e-8 * scale + 1e-200, "als_func: the core updated last is not at the minimiser (ridge gradient not zero)",
              grad=float(np.max(np.abs(grad))), scale=scale, shape=oracle.shape_of(A))
    kap = max(kappa_func(A, X, a, b, lamb), kappa_func(A0, X, a, b, lamb))
    tol = 1e-8 * kap                 # same conditioning-aware tolerance as for the index version
    stable = tol <= 1e-3
    if grow:
        # a start that is zero-padded to n_max (what the dynamic search does) sends the iteration through nearly singular interfaces:
        # measured on the unmodified library the sample order then changes the result by a factor ~1e4 more per sweep (1e-11, 1e-7, 1e-3, ...),
        # also without n_max when the caller pads the start himself.  kappa at the end points does not bound that, so the two
        # metamorphic relations are not asserted in growth mode (descent and the exact minimiser are)
        stable = False
        ctx.label("growth_mode_metamorphic_not_asserted")
    elif not stable:
        ctx.label("metamorphic_skipped_ill_conditioned")
    if stable:
        yq = y * (1.0 + 1e-10 * np.random.default_rng(case["dseed"] + 1).standard_normal(m))
        Aq = ctx.lib(teneva.als_func, X, yq, A0, a, b, nswp, None, {}, lamb=lamb, thr_pow=0., **kwg)
        amp = rel_diff(Aq, A) / 1e-10 if oracle.shape_of(Aq) == oracle.shape_of(A) else float("inf")
        if amp > 1e6:          # (rounding enters through a solve of condition kappa first: its share is ~ amp * kappa * 1e-16 <= tol / 100)
            stable = False
            ctx.label("metamorphic_skipped_amplification")
    aa = min(case["a"], nswp)
    if nswp - aa >= 1 and stable:
        Ab = ctx.lib(teneva.als_func, X, y, runs[aa - 1], a, b, nswp - aa, None, {}, lamb=lamb, thr_pow=0., **kwg)
        ctx.check(oracle.shape_of(Ab) == oracle.shape_of(A) and rel_diff(Ab, A) <= tol, "als_func: a+b sweeps differ from a sweeps + restart + b sweeps",
                  diff=rel_diff(Ab, A) if oracle.shape_of(Ab) == oracle.shape_of(A) else None, tol=tol, shapes=[oracle.shape_of(Ab), oracle.shape_of(A)])
    perm = rng.permutation(m)
    Ap = ctx.lib(teneva.als_func, X[perm], y[perm], A0, a, b, nswp, None, {}, lamb=lamb, thr_pow=0., **kwg)
    ctx.check(oracle.shape_of(Ap) == oracle.shape_of(A) and (not stable or rel_diff(Ap, A) <= tol), "als_func: result (or its mode sizes) depends on the order of the samples",
              diff=rel_diff(Ap, A) if oracle.shape_of(Ap) == oracle.shape_of(A) else None, tol=tol)
    spell = spell_lamb(lamb, case["dseed"])
    ctx.label("lamb_as:" + type(spell).__name__ + ("/" + spell.dtype.name if hasattr(spell, "dtype") else ""))
    An = ctx.lib(teneva.als_func, X, y, A0, a, b, nswp, None, {}, lamb=spell, thr_pow=0., **kwg)
    ctx.check(oracle.shape_of(An) == oracle.shape_of(A) and all(np.array_equal(p_, q_) for p_, q_ in zip(An, A)),
              "als_func: the same lamb given as a NumPy scalar / 0-d array gives a different result", lamb=lamb, spelled=repr(spell))
    # default thr_pow: only shape <= initial (<= n_max) and ranks are claimed
    Ad = ctx.lib(teneva.als_func, X, y, A0, a, b, nswp, None, {}, lamb=lamb, **kwg)
    ctx.check(oracle.wellformed(Ad) is None and all(p_ <= nn + grow for p_ in oracle.shape_of(Ad)) and oracle.ranks_of(Ad) == oracle.ranks_of(A0),
              "als_func(default thr_pow): malformed result, grown mode or changed ranks", shape=oracle.shape_of(Ad))

SUBCHECKS = [
    Sub("als", prop_als, strategy=als_cases, quick=150, thorough=2000),
    Sub("skip_adaptive", prop_skip, strategy=skip_cases, quick=100, thorough=1200),
    Sub("als_func", prop_func, strategy=func_cases, quick=80, thorough=1000),
]
