"""C16 - stabilised arithmetic (use_stab=True) stays finite and correct where plain floats overflow or underflow."""
import math
import numpy as np
from hypothesis import strategies as st

import harness.core  # noqa: F401
from harness.core import Sub
from harness import oracle
from harness.oracle import EPS, gram_ref

import teneva

LEVEL = "exploration"
RULE = ("Hypothesis draws d in {2,3,50,300,1000(,3000)} or 2..40, cycled mode-size patterns (1..3) and rank patterns (1..3, a tenth "
        "over-ranked), a bulk family (+-U(.25,1), U(-1,1), positive, identity+noise as in rand_stab), the data seed, and a per-core "
        "power-of-two scale vector given by (pattern in uniform / left end / right end / alternating / two halves / single core, target total "
        "in [-30000, 30000], amplitude); second operands are independent (own scale profile around the same or another total, "
        "or the same profile plus a gap), identical, perturbed in one core, support-disjoint, or "
        "scaled oppositely (entries up to 2^+-1000 with a representable product per core), or tilted (slice i of every core of Y1 "
        "times 2^(-w i), of Y2 times 2^(-w (n-1-i)), w <= 480: both norms and every core stay where they were, every step of <Y1,Y2> "
        "shrinks by 2^(-w (n-1)), so the value leaves the range through the profiles along the modes). Oracle = harness.oracle.gram_ref "
        "(frexp-renormalised Gram recursion with unbounded integer exponent) with a conditioning-aware first-order rounding bound "
        "obtained from a left and a right sweep of the same recursion on |cores|; metamorphic power-of-two rescaling of one core. "
        "Sub-check zero_terms: accuracy of pairs for which one or two of <Y1,Y1>, <Y1,Y2>, <Y2,Y2> are EXACTLY zero (Y1 all zero, one zero "
        "core of Y1 at the first / last / middle / drawn position - also after cores of large scale, supports disjoint along one mode) at "
        "tiny, moderate and huge total norms with independent scale profiles of the two tensors. Sub-check shared: tensors built from "
        "shared core OBJECTS ([A] + [B]*(d-2) + [C], runs / alternation / halves of a pool of 1-3 objects, rank-1 chains whose end cores are "
        "the chain object too), Y2 = the same list, a shallow copy, a shallow copy with one or two cores replaced (perturbed, fresh, "
        "another pool object, an equal-valued copy, a rescaled copy, one new object at two places; inside a run, at its start, at the "
        "ends), the chain shifted by one position, or all-distinct objects; mul_scalar / norm / accuracy in both argument orders and "
        "orthogonalize / truncate, with and without use_stab, each against the reference and against the same call on deep copies. "
        "Sub-check one_core: ONE core (first / last / second / last but one / middle / drawn) multiplied by 2^s, |s| in 512..1000, "
        "every other core anywhere in the bulk window (the neighbour of an end core included: no bound on the sum of two neighbouring "
        "scales), rank profiles generic / 1,1,r,..,r,1,1 / rank-1 bond at one end / all 1: orthogonalize (pivot first / last / middle / "
        "drawn) and truncate with use_stab against the reference and against the same call with that core at an ordinary scale. "
        "Sub-check extreme_pairs: TWO OR MORE cores multiplied by 2^s, 512 <= |s| <= 1000 each (all positive / all negative / alternating / "
        "drawn signs, equal or different magnitudes): the pair a sweep starts from (cores 0,1 / d-2,d-1), both end pairs, the pair around "
        "the pivot ((k-1,k), (k,k+1), (k-1,k+1)), both end cores, three neighbours, two drawn positions, a run of eight cores (all cores for "
        "d <= 8); every other core ordinary (any total, or all of size O(1)); a sixteenth with an exactly zero core; orthogonalize "
        "(use_stab) for EVERY pivot when d <= 4, else pivot first / last / middle / drawn / at one of the extreme cores, and truncate "
        "(use_stab), each against the unbounded-exponent reference and against the same call with those cores at an ordinary scale. "
        "Sub-check extreme_cores: mul_scalar (both argument orders) / norm (both tensors) / accuracy (both orders) with ONE or TWO cores "
        "multiplied exactly by 2^s, 512 <= |s| <= 1000, every other core ordinary (any total, or all of size O(1)): one core of Y1 / of Y2, "
        "the same factor in both operands (same / different position), two cores of one operand, one core in each operand (same / other "
        "position), exponents of the same or of opposite signs, position first / last / second / last but one / middle / drawn, "
        "teneva.mul(2.**s, Y) as the producer (whole factor in core 0); pairs independent / one core perturbed / Y1 = (1+2^-q) Y2 / equal "
        "/ sharing core objects; a twelfth with an exactly zero core in Y1; each result against the unbounded-exponent reference and "
        "against the same call on the pair without the factors. "
        "Sub-check subnormal: ONE or TWO cores whose LARGEST entry is a subnormal double (core of size 2^t0, |t0| <= 6, times 2^-s, "
        "1018 <= s <= 1066: max modulus 2^-1074..2^-1012, a sixth of them still normal; entries keep 52..0 bits), produced by ldexp on a "
        "core (first / last / second / last but one / middle / drawn; one or both operands, same or other position, two cores of one "
        "operand), by teneva.mul(number, Y) / teneva.mul(Y, number) (whole factor in core 0) or by teneva.const(n, number) (last core), "
        "number = +-{1, 1.25, 1.7, 1.9999999} 2^-s; every other core ordinary (any total, or all O(1)), three eighths with one more core "
        "of 2^512..1000 in one or both operands (tiny balanced by huge), a twelfth with an exactly zero core; the tensor really handed "
        "over is the reference and its mantissa tensor (those cores scaled back up by ldexp, exact) the ordinary counterpart; "
        "core_stab itself (those cores, their scaled-up copies and an ordinary core; p0 omitted / 0 / +-30000; thr above and below the "
        "maximum), mul_scalar (both orders) / norm (both tensors) / accuracy (both orders) / orthogonalize (every pivot for d <= 4, "
        "else first / last / middle / drawn / at a subnormal core) / truncate with use_stab. "
        "Sub-check orth_false: truncate(Y, e, [r], orth=False, use_stab=True) on a tensor orthogonalised to the last core, total scale 2^L, "
        "L in +-40 / +-100 / +-300 / +-450 / -450..450 / -60..60: family spectrum (left-orthogonal cores of a superdiagonal tensor in "
        "rotated bases, d in 2..12, every unfolding has the singular values 2^L m_a, 1-3 strong ones in [.5, 1] and 0-2 weak ones in "
        "w [.5, 1], w = 1e-2..1e-5, optional random orthogonal gauge; e = 4 sqrt(R) w 2^L between the two groups / w 2^L / 16 below / "
        "4 sqrt(R) 2^L above everything) and family generic (the truncate tensors of this module with total scale 2^L in a profile whose "
        "partial products are representable, orthogonalised by teneva.orthogonalize(Y, d-1), e = c ||Y||, c in 1e-6..0.3); r omitted / "
        "1e12 / 3 / 2 / 1; against the same call without use_stab and against the input. "
        "Sub-check long_scale: truncate(Y, e, use_stab=True) for VERY LONG chains with a HUGE total exponent and a tight e: d in 1000..4096 "
        "(drawn, or 1000 / 2048 / 3000 / 4095 / 4096), scale profile uniform / alternating / two halves / left end / right end with a total of "
        "+-3000..29500 (| log2 ||Y|| | <= 29900 after the contribution of the bulk, else every core is shifted back exactly), all ranks 1 or "
        "rank patterns 1..2 with at least one mode of size >= 2 (identity + noise with noise 2^-3..2^-6), e in 1e-8 / 1e-10 / 1e-11 / 1e-12; "
        "all assertions of sub-check truncate, of which the SCALE oracle (norm and <Z, Y> of the result against those of the input as ratios "
        "of reference Gram values; part of every truncate assertion of this module) is the one that resolves 1e-10 there. "
        "Non-trivial = the plain (use_stab=False) computation is not finite-and-normal while the reference value is non-zero; "
        "distinct by SHA-1 of the case. STORAGE (`storage`): small-integer cores (-3..3, 0..3, -9..3; d 2..6 or 30..400) kept in int64 / int32 arrays "
        "(all cores, every other core, one core) against the float64 copy of the same cores: every stabilised routine and accuracy must return "
        "bit-for-bit the same pair / cores (non-trivial there = some rank >= 2).")
TOLERANCES = ("scalar product: |v 2^p / ref - 1| <= 8 eps sum_k (r1 s1 + n + 2) rho_k, rho_k = ||T_k^abs |v_k|||_2 ||W_k+1||_2 / |<Y1,Y2>| "
              "(majorant of the k-th step times the norm of the right partial Gram matrix: the exact first-order propagation of one rounding "
              "error to the result), asserted when that bound is <= 1e-3; norm: half of it; accuracy: reference <Y1,Y1> - 2<Y1,Y2> + <Y2,Y2> with exact "
              "exponent alignment, half of (sum of the three absolute bounds / value + bound of <Y2,Y2>), saturation decided on the reference half-exponent with the +-0.5 window implied by mantissas in [1, sqrt 2); "
              "orthogonalize: orthonormality defect <= 64 eps r n, 2(log2||Z_k|| + p) against the Gram reference with the same bound, "
              "||Z 2^p - Y||^2/||Y||^2 (three reference Gram values) <= its own rounding bound; truncate: that distance^2 <= "
              "(e(1+1e-3))^2 + 16 (d-1) R eps (eigh floor, in quadrature) + rounding bound; mantissa in [1-4eps, 2) because "
              "floor(log2(x)) may round up for x within an ulp of a power of two; rescaling: bit-identical mantissa, exponent shifted exactly; "
              "shared objects versus deep copies and the two argument orders: bit-identical, else within 3x the rounding bound of the reference "
              "(asserted when that bound is <= 0.1; BLAS kernels may depend on the alignment of a buffer), tensors: relative distance^2 "
              "from three reference Gram values <= 2x its own rounding bound; an exactly zero Gram term enters the reference of accuracy as 0 "
              "with no exponent; one_core / extreme_pairs: p shifted by the sum of the shifts and ALL cores bit-identical, whatever the pivot, "
              "the position of the scaled cores (also the cores a sweep starts from), the ranks (also over-ranked) and the conditioning - "
              "every core is split by core_stab before the sweeps, an exact scaling - asserted whenever the scaling of the input was exact "
              "(no entry of a scaled core subnormal, checked on the data) and no scaled core has its maximum within 1e-11 of a power of two "
              "(floor(log2(m 2^s)) may differ from floor(log2 m) + s there: then equal tensors within 2x the rounding bound of three "
              "reference Gram values); truncate: distance^2 to 2^s times the rounding of the ordinary tensor <= (2e(1+1e-3)/(1-e))^2 + "
              "64 (d-1) R eps + rounding, and under the same two conditions the SAME ranks (orthogonalised cores and threshold are "
              "bit-identical) and equal tensors within rounding (only the factors 2^(p/d) spread over the cores differ); "
              "extreme_cores: value bounds as for scalar / norm / accuracy (the rounding bound does not depend on the scales); shift relation: "
              "mul_scalar exponent = that of the ordinary pair + the sum of all shifts, norm exponent + the sum of the shifts of that tensor, "
              "mantissa bit-identical (same denoted value if a mantissa is within 8 eps of 1 or below 1: floor(log2) at a power of two), "
              "asserted whenever the scaling of the inputs was exact (no entry of a scaled core subnormal); accuracy with equal total "
              "factors in both operands = accuracy of the ordinary pair, bit-identical or within 8 eps (saturation values equal, or the other "
              "value within 2^+-499 of the threshold); stabilised = plain only if additionally every entry-wise product of one step is "
              "representable (log2 of max|G1| max|G2| within +-970); "
              "subnormal: the value bounds and shift relations of extreme_cores / one_core / extreme_pairs with `exact` always true (the "
              "ordinary tensor is derived from the tested one by scaling up); core_stab(G, p0) = (Q, p): Q finite float64 of the shape of G, p "
              "a Python int, p - p0 in {f, f+1} for f = floor(log2 max|G|) from frexp (fl(log2) may round up to the next integer), max|Q| in "
              "[1 - 2^-40, 2 (1 + 2^-40)] (|log2 max| <= 1075 is rounded to 2^-42), ldexp(Q, p - p0) == G bit for bit (a quotient by a power of "
              "two is exact unless the quotient is subnormal, and every non-zero entry of a generated core lies within 2^-1000 of its "
              "maximum), zero core -> (zeros, p0), thr = 2 max -> (G, p0) unchanged, thr = max / 2 -> the default split; shift: "
              "Q bit-identical and p moved by s unless the maximum is within 1e-11 of a power of two (then the same denoted core); the plain "
              "truncate is not compared when a core has a subnormal maximum (its R factor has as few bits); "
              "truncate, scale (every sub-check that rounds with use_stab): | ||Z|| / ||Y|| - 1 | <= e' + B + (tol<Z,Z> + tol<Y,Y>) / 2 and "
              "| <Z,Y> / <Y,Y> - 1 | <= e' + B + tol<Z,Y> + tol<Y,Y> (triangle / Cauchy-Schwarz inequality applied to ||Z - Y|| <= e' ||Y||), "
              "e' = e (1 + 1e-3) if no rank was reduced (nothing was cut, the eigh floor of the rank decision is not in play), else "
              "sqrt(e'^2 + 16 (d-1) R eps) as for the distance; tol = the rounding bounds of the reference Gram values; B = 8 eps (sum_k c_k "
              "rho_k + 0.35 |p| + 1.5 d) the first-order rounding bound of the routine itself: c_k = r n + n r' + 4 max(r, r') + 3 inner "
              "dimensions of the QR / RQ, Gram, eigh and the three products that touch core k, rho_k >= 1 the conditioning factor of step k of "
              "the reference recursion, and the redistribution of 2^p: fl(p/d) off by |p/d| eps/2 -> 2^(p/d) off by |p/d| ln2 eps/2, one "
              "rounded power (<= 1 ulp) and one product per core, all d cores in the same direction: eps (0.35 |p| + 1.5 d), |p| <= "
              "|log2 ||Y||| + 8.  Measured on the unmodified library for d = 1000..4096, | log2 ||Y|| | <= 29900: deviation <= 2e-12 "
              "(|p| ln2 eps/2 dominates), B = 3e-11..3.5e-10, tol = 1e-11..9e-11; "
              "orth_false: same ranks as the plain call (e is an absolute threshold for both, placed a factor >= 3 away from every tail norm in "
              "family spectrum; in family generic c >= 1e-6 is far above the eigh floor 1e-8 of the rank decision and a tail norm of random "
              "data within rounding of c ||Y|| has probability ~1e-10), the two results bit-identical or distance^2 <= 2x rounding bound + "
              "64 (d-1) R eps, and distance^2 to the input <= (d-1) (e/||Y||)^2 (1+1e-3)^2 + 16 (d-1) R eps + rounding bound when r does "
              "not cap the ranks (each of the d-1 steps cuts a tail of Frobenius norm <= e from a tensor in orthogonal form)")
ASSUMPTIONS = ["d >= 2",
               "every entry of every core is a finite double; a scaled core has entries between 2^-1030 and 2^1010 (|s| <= 1000 on bulk "
               "values of 2^-28..2^9; above 2^1023 core_stab cannot represent 2.**p), entries that become subnormal make the "
               "bit-for-bit shift relation inapplicable (the scaling of the input was not exact) but not the value oracles; cores whose "
               "largest entry is subnormal (down to 2^-1074) are the sub-check subnormal, where the tensor after the loss is the reference",
               "generator choice, not a domain restriction of mul_scalar / norm / accuracy (since repo 6e41839 both cores of a step are "
               "rescaled before they are multiplied): the bulk families scalar / norm / accuracy / zero_terms / shared / tiny keep per-core "
               "scales s_k in [-480, 480] (`opposed` operands: entries up to 2^+-900 with pair sums in [-960, 960]) - there the "
               "overflow / underflow comes from the product over many cores; single cores and pairs of cores with |s| in 512..1000 at any "
               "position of either operand are the sub-check extreme_cores",
               "generator choice, not a domain restriction of orthogonalize / truncate (since repo 782a2c5 every core is rescaled by "
               "core_stab before the sweeps; before that R of the raw starting core times its neighbour was formed unscaled and two "
               "neighbouring cores at 2^+-600 overflowed / gave a zero tensor): the bulk families orthogonalize / truncate / shared / tiny "
               "keep per-core scales in [-480, 480]; single cores with |s| in 512..1000 at any position next to neighbours of any bulk "
               "scale are sub-check one_core, two and more such cores (adjacent pairs at the start of a sweep and around the pivot "
               "included, same or opposite signs) are sub-check extreme_pairs; the sum of the bulk total and of the extreme shifts stays "
               "within +-30000",
               "bulk values of modulus < 2^-20 are replaced by 2^-20 in the U(-1,1) family (no subnormal products at the edge of the window)",
               "tilted operands: w is clipped per core so that every entry stays above 2^-1000 (w (n-1) <= 976 + min(s1_k, s2_k)); the "
               "rescaling relation of one core is asserted only if no entry of the rescaled core became subnormal (checked on the data)",
               "Y2 of accuracy is not the zero tensor (the documented return for it is the undecided -1 # TODO); Y1 may be zero and the "
               "pair may be exactly orthogonal",
               "the plain (use_stab=False) result is compared only when every partial product and every entry-wise product G1 * G2 of a "
               "step is representable",
               "sub-check subnormal, truncate with d = 2: only ONE of the two cores is subnormal - the result of truncate carries the factor "
               "2^(p/d) in every core, for d = 2 and both cores below 2^-1022 that even share is itself subnormal and NO pair of result cores "
               "of that form can hold the tensor to the requested accuracy (representability of the output, reported as an observation); "
               "for d >= 3 and in every other routine two subnormal cores are generated",
               "sub-check orth_false: the caller's part of the contract is met by construction - the tensor is orthogonalised to the last "
               "core; the plain call is representable: |L| <= 450 plus the growth of at most 50 random cores keeps ||Y||^2 and e^2 normal "
               "numbers (checked on the data: ||Y|| within 2^+-500, else the case is skipped with a label)",
               "shared core objects: all repeated cores of one chain have the same shape (r, n, r) and one power-of-two scale per object",
               "sub-check long_scale, generator choice: unfoldings of moderate condition (rank 1, or ranks <= 2 with a mode of size >= 2 and "
               "noise >= 2^-6 in the identity family) so that no singular value lies between e and the eigh floor 1e-8 of the rank decision "
               "and the bound e (1 + 1e-3) applies (decided on the data: ranks of the result = ranks of the input, labelled rank_kept); "
               "per-core scales within [-480, 480] as in the bulk families, so 2^(p/d) is representable"]

LO, HI = -480, 480            # per-core log2 scale window of the bulk families (generator choice, see ASSUMPTIONS)
EXACT_LO = -900               # a contraction step of at least this log2 size scales exactly under a power-of-two factor (no subnormal terms)
KTOL = 8.0
GATE = 1e-3                   # value assertions are made when the derived relative bound is below this


# ------------------------------------------------------------------------------------------- tensors

def mode_sizes(spec):
    nm = spec["nm"]
    return [nm[k % len(nm)] for k in range(spec["d"])]


def ranks(spec):
    d, n, rp = spec["d"], mode_sizes(spec), spec["rp"]
    r = [1] + [rp[k % len(rp)] for k in range(1, d)] + [1]
    ends = spec.get("ends")                                         # one_core family: rank-1 bonds next to the ends (1,1,r,...,r,1,1) / everywhere
    if ends == "all1":
        r = [1] * (d + 1)
    elif ends in ("ends1", "left1", "right1"):
        if ends != "right1":
            r[1] = 1
        if ends != "left1":
            r[d - 1] = 1
    if not spec["over"]:
        for k in range(1, d):
            r[k] = min(r[k], r[k - 1] * n[k - 1])
        for k in range(d - 1, 0, -1):
            r[k] = min(r[k], n[k] * r[k + 1])
    return r


def scales(d, sc, lo, hi):
    """Per-core integer log2 scales from (pattern, target total, amplitude); every entry in [lo, hi]."""
    pat, T, amp = sc["pat"], int(sc["total"]), int(sc["amp"])
    T = max(lo * d, min(hi * d, T))
    if pat in ("left", "right"):
        s, rest = [], T
        for _ in range(d):
            x = max(lo, min(hi, rest))
            s.append(x)
            rest -= x
        s = np.array(s if pat == "left" else s[::-1], dtype=np.int64)
    elif pat == "single":
        s = np.zeros(d, dtype=np.int64)
        s[amp % d] = max(lo, min(hi, T))
    else:
        base, rem = divmod(T, d)
        s = np.full(d, base, dtype=np.int64)
        s[:rem] += 1
        if pat == "alt":
            s += amp * np.where(np.arange(d) % 2 == 0, 1, -1)
        elif pat == "alt_neg":
            s += amp * np.where(np.arange(d) % 2 == 0, -1, 1)
        elif pat == "halves":
            a = min(amp, 60000 // d)
            s[: d // 2] += a
            s[d // 2:] -= a
    return np.clip(s, lo, hi)


def bulk(rng, fam, sh, noise):
    if fam == "unif":
        G = rng.uniform(-1, 1, size=sh)
        G[np.abs(G) < 2.0 ** -20] = 2.0 ** -20
        return G
    if fam == "pos":
        return rng.uniform(0.25, 1, size=sh)
    if fam == "eye":
        G = rng.normal(0.0, noise, size=sh)
        G += np.eye(sh[0], sh[2])[:, None, :]
        return G
    return rng.uniform(0.25, 1, size=sh) * rng.choice([-1.0, 1.0], size=sh)


def build(spec, s):
    """Cores bulk_k * 2^s_k (exact scaling)."""
    n, r = mode_sizes(spec), ranks(spec)
    rng = np.random.default_rng(spec["seed"])
    noise = 2.0 ** -spec.get("noise", 10)
    Y = []
    for k in range(spec["d"]):
        G = bulk(rng, spec["fam"], (r[k], n[k], r[k + 1]), noise)
        Y.append(np.ldexp(G, int(s[k])))
    return Y


def rescale(Y, j, s):
    Z = list(Y)
    Z[j] = np.ldexp(Y[j], int(s))
    return Z


def snapshot(Y):
    return [(id(G), G.tobytes()) for G in Y]


def unchanged(ctx, Y, snap, what):
    ctx.check(len(Y) == len(snap) and all(id(G) == i0 and G.tobytes() == b0 for G, (i0, b0) in zip(Y, snap)),
              f"{what}: the argument was modified")


def block_diff(Y1, Y2):
    """Cores of Y1 - Y2 (own construction, the sign sits on the last core of Y2)."""
    d = len(Y1)
    D = []
    for k, (A, B) in enumerate(zip(Y1, Y2)):
        if k == 0:
            G = np.concatenate([A, B], axis=2)
        elif k == d - 1:
            G = np.concatenate([A, -B], axis=0)
        else:
            G = np.zeros((A.shape[0] + B.shape[0], A.shape[1], A.shape[2] + B.shape[2]))
            G[:A.shape[0], :, :A.shape[2]] = A
            G[A.shape[0]:, :, A.shape[2]:] = B
        D.append(G)
    return D


# ------------------------------------------------------------------------------------------- reference sweep

class Gram:
    """<Y1, Y2> = m * 2^p (|m| in [1,2) or m == 0) and a first-order rounding bound `tol` (relative; huge if the value is dominated
    by cancellation) from a left and a right sweep with integer exponents; lo_path / hi_path = extreme exponents of the partial products."""

    def __init__(self, Y1, Y2):
        d = len(Y1)
        self.zero = False
        self.m, self.p, self.tol = 0.0, 0, 0.0
        self.lo_path, self.hi_path = 0, 0
        self.step_lo, self.step_hi = 0, 0
        self.rho = None
        Ms, Mas, es, cs = [], [], [], []
        for A, B in zip(Y1, Y2):
            ma, mb = float(np.max(np.abs(A))), float(np.max(np.abs(B)))
            if ma == 0 or mb == 0 or not (math.isfinite(ma) and math.isfinite(mb)):
                self.zero = True
                return
            ea, eb = math.frexp(ma)[1], math.frexp(mb)[1]
            A_, B_ = np.ldexp(A, -ea), (np.ldexp(B, -eb) if B is not A else None)
            if B_ is None:
                B_ = A_
            a, n, c = A_.shape
            b, _, e_ = B_.shape
            Ms.append(np.einsum('aic,bie->abce', A_, B_).reshape(a * b, c * e_))
            Mas.append(np.einsum('aic,bie->abce', np.abs(A_), np.abs(B_)).reshape(a * b, c * e_))
            es.append(ea + eb)
            cs.append(a * b + n + 2)
        v, P = np.ones(1), 0
        maj, Ps = np.empty(d), []
        for k in range(d):
            w = v @ Ms[k]
            mw = float(np.max(np.abs(w)))
            if mw == 0:
                self.zero = True
                return
            e = math.frexp(mw)[1]
            maj[k] = float(np.linalg.norm(np.ldexp(np.abs(v) @ Mas[k], -e)))       # scaled first: the squares of a tiny step underflow
            v = np.ldexp(w, -e)
            P += es[k] + e
            Ps.append(P)
        W, Q = np.ones(1), 0
        Wn, Qs = np.empty(d), [0] * d
        for k in range(d - 1, -1, -1):
            Wn[k], Qs[k] = float(np.linalg.norm(W)), Q           # right factor of the state after step k
            u = Ms[k] @ W
            mu = float(np.max(np.abs(u)))
            if mu == 0:
                self.zero = True
                return
            e = math.frexp(mu)[1]
            W = np.ldexp(u, -e)
            Q += es[k] + e
        val = float(v[0])
        m, e = math.frexp(val)
        self.m, self.p = 2.0 * m, P + e - 1
        ex = np.array([Ps[k] + Qs[k] - P for k in range(d)], dtype=float)
        with np.errstate(over="ignore"):
            rho = maj * Wn * np.exp2(np.minimum(ex, 1100.0)) / abs(val)
        self.rho_max = float(np.max(rho))
        self.rho = rho                                            # rho_k >= 1: amplification of a relative perturbation of step k in the value
        self.tol = float(KTOL * EPS * np.sum(np.array(cs, dtype=float) * rho))
        self.lo_path, self.hi_path = min(Ps), max(Ps)
        self.step_lo, self.step_hi = min(es), max(es)             # log2 size of the largest entry-wise product G1 * G2 of one step

    def log2(self):
        return math.log2(abs(self.m)) + self.p


def pow2(x, k):
    """x * 2^k for a Python int k of any size (clipped to 2^+-1000 / flushed to 0: only used for ratios that are compared with O(1) numbers)."""
    return math.ldexp(x, max(-3000, min(1000, k)))


def log2_ratio(v, p, rv, rp):
    """log2 |v 2^p / (rv 2^rp)| with exact integer arithmetic on the exponents."""
    return (p - rp) + math.log2(abs(v) / abs(rv))


class Guard:
    """Assertions of one case, prefixed with the routine under test."""

    def __init__(self, ctx, what):
        self.ctx, self.what = ctx, what

    def check(self, cond, msg, **kw):
        self.ctx.check(cond, f"{self.what}: {msg}", **kw)

    def lib(self, fn, *a, **k):
        return self.ctx.lib(fn, *a, **k)


def is_pyint(p):
    return isinstance(p, int) and not isinstance(p, bool)


def mant_ok(v):
    return v == 0 or (1.0 - 4 * EPS <= abs(v) < 2.0)


def normal_finite(x):
    return math.isfinite(x) and 1e-290 < abs(x) < 1e290


TINY_NORMAL = 2.0 ** -1022    # the smallest normal double


def subnormal_core(G):
    """The largest entry of the (non-zero) core is a subnormal number: floor(log2 max|G|) <= -1023."""
    m = float(np.max(np.abs(G)))
    return 0.0 < m < TINY_NORMAL


def same_value(v1, p1, v2, p2):
    """v1 2^p1 == v2 2^p2 exactly (mantissas of moderate size)."""
    if abs(p1 - p2) > 4:
        return False
    return math.ldexp(v1, p1 - p2) == v2


# ------------------------------------------------------------------------------------------- strategies

def dims(tier):
    big = [2, 3, 3, 50, 50, 300, 300, 1000] if tier == "quick" else [2, 3, 50, 50, 300, 300, 1000, 1000, 3000]
    return st.one_of(st.sampled_from(big), st.integers(2, 40))


@st.composite
def tensor_specs(draw, d):
    return {"d": d,
            "nm": draw(st.lists(st.integers(1, 3), min_size=1, max_size=4)),
            "rp": draw(st.lists(st.integers(1, 3), min_size=1, max_size=4)),
            "over": draw(st.integers(0, 9)) == 0,
            "fam": draw(st.sampled_from(["pm", "pm", "unif", "pos", "eye"])),
            "noise": draw(st.integers(3, 30)),
            "seed": draw(st.integers(0, 2 ** 31 - 1))}


PATTERNS = ["uniform", "uniform", "left", "right", "alt", "alt_neg", "halves", "single"]


@st.composite
def scale_specs(draw, negative=False):
    if negative:
        total = draw(st.one_of(st.integers(-30000, -200), st.integers(-2000, -170)))
    else:
        total = draw(st.one_of(st.integers(-30000, 30000), st.integers(-2500, 2500), st.integers(-60, 60)))
    return {"pat": draw(st.sampled_from(PATTERNS)), "total": total, "amp": draw(st.integers(0, 480))}


@st.composite
def shifts(draw):
    return {"jf": draw(st.integers(0, 10 ** 6)), "s": draw(st.one_of(st.integers(-300, 300), st.integers(-3, 3)))}


def win(case):
    return LO, HI


@st.composite
def norm_cases(draw, tier, tiny=False):
    d = draw(dims(tier))
    return {"Y": draw(tensor_specs(d)), "sc": draw(scale_specs(tiny)), "shift": draw(shifts()),
            "zero": draw(st.sampled_from([False] * 19 + [True])) and not tiny, "tiny": tiny}


@st.composite
def scalar_cases(draw, tier, tiny=False):
    d = draw(dims(tier))
    Y1 = draw(tensor_specs(d))
    Y2 = draw(tensor_specs(d))
    Y2["nm"] = Y1["nm"]
    rel = draw(st.sampled_from(["indep"] * 5 + ["same", "disjoint", "opposed", "opposed", "tilted", "tilted"]))
    return {"Y1": Y1, "Y2": Y2, "rel": rel, "sc1": draw(scale_specs(tiny)), "sc2": draw(scale_specs(tiny)),
            "same_scales": draw(st.booleans()), "shift": draw(shifts()), "tiny": tiny,
            "tilt": draw(st.one_of(st.integers(0, 480), st.sampled_from([135, 248, 270, 480])))}


ZERO_RELS = ["y1zero", "y1zero", "zerocore", "zerocore", "zerocore", "disjoint", "disjoint", "disjoint"]


@st.composite
def accuracy_cases(draw, tier, tiny=False, zero_terms=False):
    d = draw(dims(tier))
    Y1 = draw(tensor_specs(d))
    Y2 = draw(tensor_specs(d))
    Y2["nm"] = Y1["nm"]
    # gap < 0: Y2 smaller than Y1 by 2^gap (distance / ||Y2|| ~ 2^-gap, saturation beyond 500); gap > 0: Y2 dominates (distance ~ 1)
    gap = draw(st.one_of(st.just(0), st.integers(-620, 620), st.integers(-40, 40), st.integers(-620, -470),
                         st.sampled_from([-497, -498, -499, -500, -501, -502, -503])))
    dtotal = draw(st.one_of(st.just(0), st.integers(-40, 40), st.integers(-620, 620), st.integers(-30000, 30000)))
    if zero_terms:
        # one of <Y1,Y1>, <Y1,Y2>, <Y2,Y2> ... is EXACTLY zero: Y1 all zero / one zero core of Y1 / disjoint supports along one mode
        rel = draw(st.sampled_from(ZERO_RELS))
        if rel == "disjoint":
            Y1["nm"] = Y2["nm"] = [max(2, Y1["nm"][0])] + Y1["nm"][1:]
    else:
        rel = draw(st.sampled_from(["indep"] * 5 + ["perturbed"] * 3 + ["same"]))
    case = {"Y1": Y1, "Y2": Y2, "rel": rel,
            "q": draw(st.integers(0, 45)), "gap": gap, "gj": draw(st.integers(0, 10 ** 6)),
            "own_scales": draw(st.sampled_from([True, True, False])), "sc2": draw(scale_specs(tiny)), "dtotal": dtotal,
            "sc": draw(scale_specs(tiny)), "shift": draw(shifts()), "tiny": tiny}
    if zero_terms:
        case["zpos"] = draw(st.sampled_from(["first", "last", "last", "mid", "frac", "frac"]))
        case["zj"] = draw(st.integers(0, 10 ** 6))
        case["derived"] = draw(st.booleans())                       # Y2 = the values of Y1 (before the zeroing) at other scales / independent data
        case["y1_big"] = draw(st.sampled_from([False, False, True]))  # the scale profile of Y1 is mirrored to a positive total (zero after large cores)
    return case


@st.composite
def zero_term_cases(draw, tier):
    return draw(accuracy_cases(tier, tiny=draw(st.sampled_from([True, True, False])), zero_terms=True))


@st.composite
def orth_cases(draw, tier, tiny=False):
    d = draw(dims(tier))
    return {"Y": draw(tensor_specs(d)), "sc": draw(scale_specs(tiny)),
            "k": draw(st.sampled_from(["first", "last", "last", "mid", "frac"])), "kf": draw(st.integers(0, 10 ** 6)),
            "zero": draw(st.sampled_from([False] * 19 + [True])), "zj": draw(st.integers(0, 10 ** 6)), "tiny": tiny}


@st.composite
def truncate_cases(draw, tier, tiny=False):
    d = draw(dims(tier))
    Ya = draw(tensor_specs(d))
    Yb = draw(tensor_specs(d))
    Yb["nm"] = Ya["nm"]
    Ya["rp"] = [min(2, x) for x in Ya["rp"]]
    Yb["rp"] = [min(2, x) for x in Yb["rp"]]
    return {"Ya": Ya, "Yb": Yb, "sum": draw(st.integers(0, 3)) > 0, "q": draw(st.integers(0, 30)),
            "e": draw(st.sampled_from([1e-5, 1e-4, 1e-3, 1e-2, 0.1, 0.3])), "sc": draw(scale_specs(tiny)), "tiny": tiny}


# ------------------------------------------------------------------------------------------- scalar product and norm

def check_stab_pair(g, res, what):
    g.check(isinstance(res, tuple) and len(res) == 2, f"{what} must return a pair (value, exponent)", got=repr(type(res)))
    return res


def check_scalar_value(g, ctx, v, p, ref, rv, rp, what):
    """(v, p) against the reference Gram value (rv, rp) with the derived bound of `ref` (a Gram object)."""
    g.check(isinstance(v, float) and is_pyint(p), f"{what}: (v, p) must be (float, Python int)", v=repr(type(v)), p=repr(type(p)))
    g.check(math.isfinite(v), f"{what}: mantissa is not finite", v=repr(v), p=p)
    if ref.zero or rv == 0:
        g.check(v == 0.0, f"{what}: exactly zero scalar product (zero core / disjoint supports) not returned as 0", v=v, p=p)
        ctx.label("exact_zero")
        return
    g.check(mant_ok(v), f"{what}: mantissa not in [1, 2) (and not 0)", v=v, p=p, ref=(rv, rp))
    if ref.tol <= GATE:
        g.check(v != 0 and (v > 0) == (rv > 0), f"{what}: sign differs from the reference", v=v, p=p, ref=(rv, rp))
        off = log2_ratio(v, p, rv, rp)
        g.check(abs(off) <= 1.5 * ref.tol, f"{what}: log2|v| + p differs from the unbounded-exponent reference",
                v=v, p=p, ref=(rv, rp), log2_off=off, tol=1.5 * ref.tol)
        ctx.label("value_asserted")
    else:
        ctx.label("cancellation_dominated")


def pair_from_case(case):
    lo, hi = win(case)
    d = case["Y1"]["d"]
    rel = case["rel"]
    if rel == "opposed":
        s1 = scales(d, case["sc1"], -900, 900)
        s2 = np.clip(-s1 + scales(d, case["sc2"], lo, hi), -900, 900)
    else:
        s1 = scales(d, case["sc1"], lo, hi)
        s2 = s1 if (case["same_scales"] or rel == "same") else scales(d, case["sc2"], lo, hi)
    Y1 = build(case["Y1"], s1)
    Y2 = [G.copy() for G in Y1] if rel == "same" else build(case["Y2"], s2)
    if rel == "disjoint":
        n = mode_sizes(case["Y1"])
        js = [k for k in range(d) if n[k] >= 2]
        if js:
            j = js[case["shift"]["jf"] % len(js)]
            Y1[j][:, 1:, :] = 0.0
            Y2[j][:, 0, :] = 0.0
        else:
            rel = "indep"
    if rel == "tilted":
        # opposite profiles ALONG the modes: slice i of a core of Y1 times 2^(-w i), of Y2 times 2^(-w (n-1-i)) (exp(-c x) against
        # exp(c x) on a grid).  Every core keeps its largest entry, both norms stay where they were, but every step of the scalar
        # product shrinks by 2^(-w (n-1)): the value leaves the double range although no core does (entries stay above 2^-1000).
        n = mode_sizes(case["Y1"])
        if max(n) < 2:
            rel = "indep"
        for k in range(d):
            if n[k] >= 2:
                w = min(int(case.get("tilt", 0)), (1000 - 24 + int(min(s1[k], s2[k]))) // (n[k] - 1))
                i = np.arange(n[k])
                Y1[k] = np.ldexp(Y1[k], (-w * i)[None, :, None])
                Y2[k] = np.ldexp(Y2[k], (-w * (n[k] - 1 - i))[None, :, None])
    return Y1, Y2, s1, s2, rel


def prop_scalar(case, ctx):
    Y1, Y2, s1, s2, rel = pair_from_case(case)
    d = len(Y1)
    ctx.label(f"d={d}" if d in (2, 3, 50, 300, 1000, 3000) else "d=other", "rel:" + rel, "pat:" + case["sc1"]["pat"])
    run_scalar(ctx, Y1, Y2, s1, s2, case["shift"])


def run_scalar(ctx, Y1, Y2, s1, s2, shift):
    """mul_scalar(Y1, Y2, use_stab=True) against the reference, the plain result and a power-of-two rescaling of one core of Y1."""
    d = len(Y1)
    ref = Gram(Y1, Y2)
    rv, rp = gram_ref(Y1, Y2)
    g = Guard(ctx, "mul_scalar(use_stab=True)")
    snap = snapshot(Y1), snapshot(Y2)
    v, p = check_stab_pair(g, g.lib(teneva.mul_scalar, Y1, Y2, use_stab=True), "mul_scalar(use_stab=True)")
    unchanged(ctx, Y1, snap[0], "mul_scalar")
    unchanged(ctx, Y2, snap[1], "mul_scalar")
    check_scalar_value(g, ctx, v, p, ref, rv, rp, "mul_scalar(use_stab=True)")
    # the plain computation
    plain = ctx.lib(teneva.mul_scalar, Y1, Y2)
    representable = (not ref.zero) and normal_finite(plain) and -900 < ref.lo_path and ref.hi_path < 900 and -970 < ref.step_lo and ref.step_hi < 970
    if representable and ref.tol <= GATE:
        sv = math.ldexp(v, p) if abs(p) < 1000 else math.inf
        g.check(abs(sv - plain) <= 2 * ref.tol * abs(plain), "mul_scalar: v * 2^p differs from the plain result although everything is representable",
                stab=(v, p), plain=plain, tol=2 * ref.tol * abs(plain))
        ctx.label("representable")
    nt = (not ref.zero) and not normal_finite(plain)
    ctx.nontrivial(nt)
    if nt:
        ctx.label("plain_overflows" if not math.isfinite(plain) or abs(plain) >= 1e290 else "plain_underflows")
    # rescaling core j of Y1 by 2^s shifts p by s and nothing else.  Exact when step j has no subnormal terms; a term of the state that
    # is 2^-122 below its maximum may still be flushed, which is invisible in the result only if no later step amplifies it: tol <= GATE.
    if shift is None:
        return v, p, ref, (rv, rp), plain, representable
    j = shift["jf"] % d
    t = int(s1[j] + s2[j])
    lo, hi = LO, HI
    s = max(EXACT_LO - t, min(2 * hi - t, shift["s"]))
    s = max(-960 - int(s1[j]), min(960 - int(s1[j]), s))
    Z1 = rescale(Y1, j, s)
    lossless = bool(np.all(np.isfinite(Z1[j]))) and np.ldexp(Z1[j], -s).tobytes() == Y1[j].tobytes()   # no entry became subnormal
    if s != 0 and not ref.zero and ref.tol <= GATE and t >= EXACT_LO and EXACT_LO <= t + s <= 2 * hi and lossless:
        v2, p2 = ctx.lib(teneva.mul_scalar, Z1, Y2, use_stab=True)
        near = abs(abs(v) - 1.0) <= 8 * EPS or abs(v2) < 1.0 or abs(v) < 1.0
        if near:        # floor(log2) at a power of two may round either way: the denoted value is still the same
            ctx.check(same_value(v, p + s, v2, p2), "mul_scalar: rescaling one core by 2^s changed the denoted value", s=s, j=j, before=(v, p), after=(v2, p2))
        else:
            ctx.check(p2 == p + s and v2 == v, "mul_scalar: rescaling one core by 2^s must shift p by s and keep the mantissa bit-identical",
                      s=s, j=j, before=(v, p), after=(v2, p2))
        ctx.label("rescaled")
    return v, p, ref, (rv, rp), plain, representable


def norm_tensor(case):
    lo, hi = win(case)
    spec = case["Y"]
    s = scales(spec["d"], case["sc"], lo, hi)
    Y = build(spec, s)
    if case.get("zero"):
        Y[case["shift"]["jf"] % spec["d"]][...] = 0.0
    return Y, s


def check_norm_value(g, ctx, z, q, ref, rv, rp, what):
    g.check(isinstance(z, (float, np.floating)) and isinstance(q, float), f"{what}: must return (float, float)", z=repr(type(z)), q=repr(type(q)))
    g.check(math.isfinite(z) and math.isfinite(q) and float(2 * q).is_integer(), f"{what}: exponent must be an integer or a half-integer", z=repr(z), q=repr(q))
    z = float(z)
    if ref.zero or rv == 0:
        g.check(z == 0.0, f"{what}: norm of an exactly zero tensor is not 0", z=z, q=q)
        ctx.label("exact_zero")
        return
    g.check(z > 0 and 1.0 - 4 * EPS <= z < math.sqrt(2.0) * (1 + 4 * EPS), f"{what}: mantissa not in [1, sqrt 2)", z=z, q=q, ref=(rv, rp))
    if ref.tol <= GATE:
        off = (int(2 * q) - rp) + math.log2(z * z / rv)             # log2 of (z 2^q)^2 / reference Gram value
        g.check(abs(off) <= 1.5 * ref.tol + 8 * EPS, f"{what}: (v 2^p)^2 differs from the unbounded-exponent reference <Y,Y>",
                z=z, q=q, ref=(rv, rp), log2_off=off, tol=1.5 * ref.tol)
        ctx.label("value_asserted")
    else:
        ctx.label("cancellation_dominated")


def prop_norm(case, ctx):
    Y, s = norm_tensor(case)
    d = len(Y)
    ctx.label(f"d={d}" if d in (2, 3, 50, 300, 1000, 3000) else "d=other", "pat:" + case["sc"]["pat"], "fam:" + case["Y"]["fam"])
    run_norm(ctx, Y, s, case["shift"])


def run_norm(ctx, Y, s, shift):
    d = len(Y)
    ref = Gram(Y, Y)
    rv, rp = gram_ref(Y, Y)
    what = "norm(use_stab=True)"
    g = Guard(ctx, what)
    snap = snapshot(Y)
    z, q = check_stab_pair(g, g.lib(teneva.norm, Y, use_stab=True), what)
    unchanged(ctx, Y, snap, "norm")
    check_norm_value(g, ctx, z, q, ref, rv, rp, what)
    plain = float(ctx.lib(teneva.norm, Y))
    representable = (not ref.zero) and normal_finite(plain) and -900 < ref.lo_path and ref.hi_path < 900 and -970 < ref.step_lo and ref.step_hi < 970
    if representable and ref.tol <= GATE:
        sv = float(z) * 2.0 ** q
        g.check(abs(sv - plain) <= (ref.tol + 8 * EPS) * plain, "norm: v * 2^p differs from the plain norm although everything is representable",
                stab=(float(z), q), plain=plain)
        ctx.label("representable")
    nt = (not ref.zero) and not (normal_finite(plain) and plain > 0)
    ctx.nontrivial(nt)
    if nt:
        ctx.label("plain_overflows" if not math.isfinite(plain) or plain >= 1e290 or plain != plain else "plain_underflows")
    if shift is None:
        return float(z), q, ref, plain, representable
    j = shift["jf"] % d
    lo, hi = LO, HI
    sh = max(EXACT_LO // 2 - int(s[j]), min(hi - int(s[j]), shift["s"]))
    if sh != 0 and not ref.zero and ref.tol <= GATE and 2 * int(s[j]) >= EXACT_LO and EXACT_LO <= 2 * (int(s[j]) + sh) <= 2 * hi:
        z2, q2 = ctx.lib(teneva.norm, rescale(Y, j, sh), use_stab=True)
        if abs(float(z) - 1.0) <= 8 * EPS or float(z2) < 1.0 or float(z) < 1.0:
            ctx.check(abs(q2 - q - sh) <= 1 and abs(float(z2) * 2.0 ** (q2 - q - sh) - float(z)) <= 4 * EPS * float(z),
                      "norm: rescaling one core by 2^s changed the denoted value", s=sh, before=(float(z), q), after=(float(z2), q2))
        else:
            ctx.check(q2 == q + sh and float(z2) == float(z), "norm: rescaling one core by 2^s must shift the exponent by s and keep the mantissa bit-identical",
                      s=sh, j=j, before=(float(z), q), after=(float(z2), q2))
        ctx.label("rescaled")
    return float(z), q, ref, plain, representable


# ------------------------------------------------------------------------------------------- accuracy

def gap_path(d, j, gap):
    """Per-core deviation of the scales of Y2 from those of Y1: `gap` spread monotonically over cores j, j+1, ... (<= 100 each; <= 310 each for d <= 6)."""
    dev = np.zeros(d, dtype=np.int64)
    rest, k = abs(gap), j
    chunk = 100 if d > 6 else 310
    while rest > 0 and k < d:
        x = min(chunk, rest)
        dev[k] = x if gap > 0 else -x
        rest -= x
        k += 1
    return dev


def accuracy_pair(case):
    lo, hi = win(case)
    d = case["Y1"]["d"]
    rel = case["rel"]
    zero_family = rel in ("y1zero", "zerocore", "disjoint")
    sc1 = dict(case["sc"])
    if zero_family and case.get("y1_big"):
        sc1["total"] = abs(sc1["total"])
    s1 = scales(d, sc1, lo, hi)
    indep = rel == "indep" or (zero_family and not case.get("derived"))
    if (rel == "indep" or zero_family) and case["own_scales"]:
        sc2 = dict(case["sc2"])
        sc2["total"] = case["sc"]["total"] + case["dtotal"]          # an own profile (other end, other pattern) around the same total
        s2 = scales(d, sc2, lo, hi)
    else:
        s2 = np.clip(scales(d, case["sc"], lo, hi) + gap_path(d, case["gj"] % d, case["gap"]), lo, hi)
    Y1 = build(case["Y1"], s1)
    if indep:
        Y2 = build(case["Y2"], s2)
    else:
        Y2 = [np.ldexp(G, int(b - a)) for G, a, b in zip(Y1, s1, s2)]
        if rel == "perturbed":
            j = case["shift"]["jf"] % d
            rng = np.random.default_rng(case["Y2"]["seed"])
            Y2[j] = Y2[j] * (1.0 + 2.0 ** -case["q"] * rng.uniform(-1, 1, size=Y2[j].shape))
    if zero_family:
        z = {"first": 0, "last": d - 1, "mid": d // 2, "frac": case["zj"] % d}[case["zpos"]]
        if rel == "y1zero":
            for G in Y1:
                G[...] = 0.0
        elif rel == "zerocore":
            Y1[z][...] = 0.0
        else:
            n = mode_sizes(case["Y1"])
            js = [k for k in range(d) if n[k] >= 2]                 # not empty: the strategy makes n_0 >= 2
            j = min(js, key=lambda k: (abs(k - z), k))
            Y1[j][:, 1:, :] = 0.0
            Y2[j][:, 0, :] = 0.0
    return Y1, Y2, s1, s2


def prop_accuracy(case, ctx):
    Y1, Y2, s1, s2 = accuracy_pair(case)
    d = len(Y1)
    own = case["rel"] in ("indep", "y1zero", "zerocore", "disjoint") and case.get("own_scales", False)
    ctx.label(f"d={d}" if d in (2, 3, 50, 300, 1000, 3000) else "d=other", "rel:" + case["rel"], "pat:" + case["sc"]["pat"],
              "scales:own" if own else "scales:shared+gap")
    if own and case["sc"]["pat"] != case["sc2"]["pat"]:
        ctx.label("different_profiles")
    if "zpos" in case and case["rel"] != "y1zero":
        ctx.label("zero_at:" + case["zpos"])
    run_accuracy(ctx, Y1, Y2, s1, s2, case["shift"])


def run_accuracy(ctx, Y1, Y2, s1, s2, shift):
    """accuracy(Y1, Y2) against the three reference Gram values; returns (result, relative tolerance of the value or None)."""
    d = len(Y1)
    what = "accuracy"
    g = Guard(ctx, what)
    asserted = None
    # reference: ||Y1 - Y2||^2 = <Y1,Y1> - 2 <Y1,Y2> + <Y2,Y2>, every term with its own unbounded exponent and rounding bound
    grams = [Gram(Y1, Y1), Gram(Y1, Y2), Gram(Y2, Y2)]
    refs = [gram_ref(Y1, Y1), gram_ref(Y1, Y2), gram_ref(Y2, Y2)]
    ctx.check(not grams[2].zero and refs[2][0] > 0, "harness: Y2 must not be the zero tensor")
    nzero = sum(1 for (rv, rp) in refs if rv == 0)
    if nzero:
        ctx.label(f"exact_zero_terms={nzero}")
    cm, cp = refs[2]
    E = max(rp for (rv, rp) in refs if rv != 0)
    terms = [co * pow2(rv, rp - E) for co, (rv, rp) in zip((1.0, -2.0, 1.0), refs)]
    S = terms[0] + terms[1] + terms[2]                                # ||Y1 - Y2||^2 / 2^E
    T = sum(abs(t) * (0.0 if gr.zero else gr.tol) for t, gr in zip(terms, grams)) + 4 * EPS * sum(abs(t) for t in terms)
    tc = grams[2].tol
    snap = snapshot(Y1), snapshot(Y2)
    acc = g.lib(teneva.accuracy, Y1, Y2)
    unchanged(ctx, Y1, snap[0], what)
    unchanged(ctx, Y2, snap[1], what)
    g.check(isinstance(acc, (float, np.floating)) and not isinstance(acc, bool), "result is not a float", got=repr(acc))
    acc = float(acc)
    g.check(math.isfinite(acc) and acc >= 0, "result is not a finite non-negative number", got=acc)
    n1, n2 = float(ctx.lib(teneva.norm, block_diff(Y1, Y2))), float(ctx.lib(teneva.norm, Y2))
    ctx.nontrivial(not (normal_finite(n2) and n2 > 0) or not (normal_finite(n1) and n1 > 0))
    reliable = math.isfinite(T) and S > 0 and T <= 0.25 * S and tc <= 0.25
    if reliable:
        tol = 0.5 * (T / S + tc) * 1.5 + 16 * EPS
        Lh = 0.5 * ((E - cp) + math.log2(S / cm))                     # log2(||Y1-Y2|| / ||Y2||), reference
        slack = 1e-6 + tol
        # the library saturates on the difference of the half-exponents; its mantissas lie in [1, sqrt 2) there, hence the +-0.5 window
        if Lh >= 500.5 + slack:
            g.check(acc == 1e299, "exponent gap above 500: the saturation value 1e299 is expected", got=acc, log2_ref=Lh)
            ctx.label("saturated_high")
            return acc, None
        if Lh <= -500.5 - slack:
            g.check(acc == 0.0, "exponent gap below -500: the saturation value 0 is expected", got=acc, log2_ref=Lh)
            ctx.label("saturated_low")
            return acc, None
        if Lh > 500 - slack and acc == 1e299:
            ctx.label("saturation_window")
            return acc, None
        if tol <= GATE:
            g.check(acc > 0, "distance is 0 although the reference distance is not", got=acc, log2_ref=Lh)
            m, e = math.frexp(acc)
            ratio2 = pow2(m * m * cm / S, 2 * e - (E - cp))               # (acc / reference)^2, exponents as integers
            g.check(abs(ratio2 - 1) <= 3 * tol, "differs from the reference relative distance", got=acc, log2_got=math.log2(m) + e, log2_ref=Lh,
                    ratio2=ratio2, tol=3 * tol)
            ctx.label("value_asserted", "gap>100" if abs(Lh) > 100 else "gap<=100")
            asserted = 3 * tol
            if nzero:
                ctx.label("value_asserted_with_exact_zero_term", "tiny_norm" if cp < -1100 else ("huge_norm" if cp > 1100 else "moderate_norm"))
    else:
        ctx.label("cancellation_dominated")
    # always: an upper bound from the absolute rounding bound of ||Y1-Y2||^2 (catches a wrong sign / dropped term under cancellation)
    if tc <= 0.25 and math.isfinite(T):
        up = (max(S, 0.0) + 2 * T) / (cm * (1 - 2 * tc))
        if up > 0:
            Lup = 0.5 * ((E - cp) + math.log2(up))
            if -1000 < Lup < 1000 and acc != 1e299:
                g.check(acc <= 2.0 ** Lup * (1 + 1e-9), "distance larger than the reference plus its rounding bound", got=acc, bound=2.0 ** Lup)
                ctx.label("upper_bound_asserted")
                if S <= T:
                    ctx.label("distance_at_rounding_level")
    # rescaling the same core of both tensors by 2^s leaves the relative distance bit-identical: every Gram term keeps its mantissa
    # (exact when step j has no subnormal terms and no flushed term is amplified later, i.e. moderate rounding bounds)
    # (an exactly zero Gram term stays exactly zero; the exponent the library attaches to it is meaningless and must not matter)
    if shift is None:
        return acc, asserted
    j = shift["jf"] % d
    lo, hi = LO, HI
    a, b = int(min(s1[j], s2[j])), int(max(s1[j], s2[j]))
    sh = max(EXACT_LO // 2 - a, min(hi - b, shift["s"])) if EXACT_LO // 2 - a <= hi - b else 0
    if sh != 0 and 2 * a >= EXACT_LO and all(gr.zero or gr.tol <= 1.0 for gr in grams):
        acc2 = float(ctx.lib(teneva.accuracy, rescale(Y1, j, sh), rescale(Y2, j, sh)))
        if acc2 != acc:
            # floor(log2) within an ulp of a power of two may move one factor of 2 between a mantissa and its exponent
            ctx.check(abs(acc2 - acc) <= 8 * EPS * acc, "accuracy: rescaling the same core of both tensors by 2^s changed the result", s=sh, j=j, before=acc, after=acc2)
            ctx.label("rescale_not_bitwise")
        ctx.label("rescaled")
    return acc, asserted


# ------------------------------------------------------------------------------------------- orthogonalize / truncate

def rel_dist2(Z, pz, Y, gy=None, keep=None):
    """||Z 2^pz - Y||^2 / ||Y||^2 from three reference Gram values, with its first-order rounding bound (keep: a dict that receives
    the Gram objects of <Z,Z> and <Z,Y>)."""
    gz, gzy = Gram(Z, Z), Gram(Z, Y)
    gy = gy or Gram(Y, Y)
    if keep is not None:
        keep.update(gz=gz, gzy=gzy)
    if gy.zero:
        return None
    a = 0.0 if gz.zero else pow2(gz.m / gy.m, gz.p + 2 * pz - gy.p)             # integer exponent arithmetic: no rounding of big logs
    b = 0.0 if gzy.zero else pow2(gzy.m / gy.m, gzy.p + pz - gy.p)
    r2 = a - 2 * b + 1
    t2 = gz.tol * a + 2 * gzy.tol * abs(b) + gy.tol * (1 + abs(r2)) + 16 * EPS * (a + 2 * abs(b) + 1)
    return r2, t2, a, b


def prop_orth(case, ctx):
    lo, hi = win(case)
    spec = case["Y"]
    d = spec["d"]
    s = scales(d, case["sc"], lo, hi)
    Y = build(spec, s)
    if case.get("zero"):
        Y[case["zj"] % d][...] = 0.0
    k = {"first": 0, "last": d - 1, "mid": d // 2, "frac": case["kf"] % d}[case["k"]]
    ctx.label(f"d={d}" if d in (2, 3, 50, 300, 1000, 3000) else "d=other", "pat:" + case["sc"]["pat"], "k:" + case["k"])
    run_orth(ctx, Y, k)


def run_orth(ctx, Y, k):
    """orthogonalize(Y, k, use_stab=True): returns (Z, p, Gram(Y, Y)); Z is None for an exactly zero tensor."""
    d = len(Y)
    n = oracle.shape_of(Y)
    what = f"orthogonalize(k={k}, use_stab=True)"
    gy = Gram(Y, Y)
    g = Guard(ctx, what)
    snap = snapshot(Y)
    res = g.lib(teneva.orthogonalize, Y, k, True)
    unchanged(ctx, Y, snap, what)
    Z, p = check_stab_pair(g, res, what)
    g.check(is_pyint(p), "exponent is not a Python int", p=repr(p))
    why = oracle.wellformed(Z, n)
    g.check(why is None, f"result not well-formed / finite: {why}")
    rin, rout = oracle.ranks_of(Y), oracle.ranks_of(Z)
    g.check(all(x <= y for x, y in zip(rout, rin)), "a rank increased", rin=rin[:12], rout=rout[:12])
    for j in range(d):
        G = Z[j]
        if j < k:
            df = oracle.ortho_defect_left(G)
            g.check(df <= 64 * EPS * max(G.shape[0] * G.shape[1], G.shape[2]), "core left of the pivot does not have orthonormal columns", core=j, defect=df)
        elif j > k:
            df = oracle.ortho_defect_right(G)
            g.check(df <= 64 * EPS * max(G.shape[0], G.shape[1] * G.shape[2]), "core right of the pivot does not have orthonormal rows", core=j, defect=df)
    mx = max(float(np.max(np.abs(G))) for G in Z)
    pm = float(np.max(np.abs(Z[k])))
    g.check(mx <= 2.0, "an entry of Z is larger than 2", max_entry=mx)
    if gy.zero:
        # an exactly zero core: QR / RQ of a zero matrix has R = 0 exactly, so the zero travels to the pivot, which stays unscaled
        g.check(pm == 0.0, "the input has an exactly zero core but the pivot core of the result is not zero", pivot_max=pm, p=p)
        ctx.label("exact_zero")
        return None, p, gy
    g.check(1.0 - 4 * EPS <= pm < 2.0, "pivot core not normalised to max modulus in [1, 2)", pivot_max=pm, p=p)
    rv, rp = gram_ref(Y, Y)
    if gy.tol <= GATE:
        fz = float(np.linalg.norm(Z[k]))
        off = (2 * p - rp) + math.log2(fz * fz / rv)
        g.check(abs(off) <= 3 * gy.tol + 64 * EPS, "||Z[k]||_F * 2^p is not the norm of the tensor", pivot_norm=fz, p=p, ref_gram=(rv, rp), log2_off=off, tol=3 * gy.tol)
        ctx.label("norm_asserted")
    rd = rel_dist2(Z, p, Y, gy)
    if rd is not None:
        r2, t2, a, b = rd
        g.check(r2 <= 2 * t2, "Z * 2^p does not denote the input tensor (relative distance^2 from three reference Gram values)",
                dist2=r2, bound=2 * t2, zz_over_yy=a, zy_over_yy=b, p=p)
        if t2 <= 1e-6:
            ctx.label("distance_asserted<1e-3")
    plain = float(ctx.lib(teneva.norm, Y))
    ctx.nontrivial(not (normal_finite(plain) and plain > 0))
    return Z, p, gy


def truncate_tensor(case):
    lo, hi = win(case)
    d = case["Ya"]["d"]
    s = scales(d, case["sc"], lo, hi)
    Ya = build(case["Ya"], s)
    if not case["sum"]:
        return Ya, s
    Yb = build(case["Yb"], s)
    Yb[0] = Yb[0] * 2.0 ** -case["q"]
    Y = block_diff(Ya, Yb)
    return Y, s


def prop_truncate(case, ctx):
    Y, s = truncate_tensor(case)
    d = len(Y)
    e = case["e"]
    ctx.label(f"d={d}" if d in (2, 3, 50, 300, 1000, 3000) else "d=other", "pat:" + case["sc"]["pat"], f"e={e}", "sum" if case["sum"] else "generic")
    run_truncate(ctx, Y, e)


def scale_rounding(Y, gy):
    """First-order bound of the rounding error of truncate(Y, e, use_stab=True) in the SCALE of its result (relative error of ||Z||
    and of <Z, Y>), derived for the routine as documented: (i) the sweeps - per core one QR / RQ of the (r n x r') unfolding and
    one product with the triangular factor (orthogonalisation), one Gram product, one symmetric eigen-decomposition and two products
    with the factors (rounding): each a relative perturbation of ONE core of at most (inner dimension) eps, c_k = r n + n r' +
    4 max(r, r') + 3 in total; a relative perturbation delta of core k while the cores on one side are orthonormal changes
    ||Y||^2 by at most 2 delta rho_k ||Y||^2, rho_k = ||left Gram|| ||right Gram|| / <Y, Y> >= 1 the conditioning factor of the
    reference recursion (Gram.rho); (ii) the redistribution of the exponent p: x = fl(p/d) has the relative error u = eps/2, so
    2^x is off by |p/d| ln2 u, the power itself is rounded (<= 1 ulp = 2 u) and every core is multiplied by it once (u): d cores
    give |p| ln2 u + 3 d u <= eps (0.35 |p| + 1.5 d), |p| <= |log2 ||Y||| + 1 + log2 sqrt(r n) (last core of max modulus in [1, 2)).
    The safety factor KTOL covers the constants of the LAPACK kernels.  Measured on the unmodified library, d = 1000..4096,
    | log2 ||Y|| | up to 29900: <= 2e-12 (the term |p| ln2 u dominates), the bound is 3e-11 .. 3.5e-10 there."""
    d = len(Y)
    n, r = oracle.shape_of(Y), oracle.ranks_of(Y)
    c = np.array([r[k] * n[k] + n[k] * r[k + 1] + 4 * max(r[k], r[k + 1]) + 3 for k in range(d)], dtype=float)
    P = abs(gy.log2()) / 2 + 8
    with np.errstate(over="ignore", invalid="ignore"):
        return float(KTOL * EPS * (np.sum(c * gy.rho) + 0.35 * P + 1.5 * d))


def check_scale(g, ctx, Y, gy, gz, gzy, e, cut, R):
    """The SCALE of the rounded tensor: ||Z - Y|| <= e' ||Y|| implies | ||Z|| / ||Y|| - 1 | <= e' and | <Z, Y> / <Y, Y> - 1 | <= e'
    (triangle / Cauchy-Schwarz inequality).  e' = e (1 + 1e-3) when no rank was reduced (nothing was cut: the result is the input
    in another gauge, the eigh floor of the rank decision is not in play), else sqrt(e'^2 + 16 (d-1) R eps) as for the distance.
    Both ratios come from reference Gram values with integer exponents; unlike the distance (a difference of three Gram values, floor
    sqrt(rounding bound) ~ 1e-5 for long chains) they resolve a relative error of the scale down to the rounding bounds themselves."""
    d = len(Y)
    if gy.zero or gz.zero or gzy.zero or gz.m <= 0 or gy.m <= 0:
        return                                                      # the distance check has already failed
    ee = e * (1 + 1e-3)
    if cut:
        ee = math.sqrt(ee * ee + 16 * (d - 1) * R * EPS)
    lib = scale_rounding(Y, gy)
    ln_norm = 0.5 * math.log(2.0) * ((gz.p - gy.p) + math.log2(gz.m / gy.m))
    b_norm = ee + lib + 0.5 * (gz.tol + gy.tol)
    if math.isfinite(b_norm):
        dev = math.expm1(max(-50.0, min(50.0, ln_norm)))
        g.check(abs(dev) <= b_norm, "the norm of the result differs from the norm of the input by more than the requested accuracy "
                "(ratio of two reference Gram values)", norm_ratio_minus_1=dev, bound=b_norm, e=e, rounding_of_the_routine=lib,
                rounding_of_the_reference=0.5 * (gz.tol + gy.tol), log2_norm=gy.log2() / 2, d=d, rank_reduced=cut)
    b_sp = ee + lib + gzy.tol + gy.tol
    if math.isfinite(b_sp):
        ok = (gzy.m > 0) == (gy.m > 0)
        dev = math.expm1(max(-50.0, min(50.0, math.log(2.0) * ((gzy.p - gy.p) + math.log2(abs(gzy.m / gy.m)))))) if ok else -2.0
        g.check(abs(dev) <= b_sp, "<Z, Y> differs from <Y, Y> by more than the requested accuracy (ratio of two reference Gram values)",
                ratio_minus_1=dev, bound=b_sp, e=e, rounding_of_the_routine=lib, rounding_of_the_reference=gzy.tol + gy.tol,
                log2_norm=gy.log2() / 2, d=d, rank_reduced=cut)
    if not cut and math.isfinite(b_norm) and b_norm <= 1e-9:
        ctx.label("scale_asserted<1e-9")
    elif not cut and math.isfinite(b_norm) and b_norm <= 1e-6:
        ctx.label("scale_asserted<1e-6")


def run_truncate(ctx, Y, e, info=None, gy=None):
    """truncate(Y, e, use_stab=True): returns (Z, plain result or None); `info` (a dict) receives the reference Gram of Y and the bounds."""
    d = len(Y)
    n = oracle.shape_of(Y)
    what = f"truncate(e={e}, use_stab=True)"
    gy = gy or Gram(Y, Y)
    g = Guard(ctx, what)
    snap = snapshot(Y)
    Z = g.lib(teneva.truncate, Y, e, use_stab=True)
    unchanged(ctx, Y, snap, what)
    why = oracle.wellformed(Z, n)
    g.check(why is None, f"result not well-formed / finite / same shape: {why}")
    rin, rout = oracle.ranks_of(Y), oracle.ranks_of(Z)
    g.check(all(x <= y for x, y in zip(rout, rin)), "a rank increased", rin=rin[:12], rout=rout[:12])
    if gy.zero:
        return Z, None
    grams = {}
    rd = rel_dist2(Z, 0, Y, gy, grams)
    r2, t2, a, b = rd
    R = max(rin)
    if info is not None:
        info.update(gy=gy, t2=t2, R=R)
    bound = (e * (1 + 1e-3)) ** 2 + 16 * (d - 1) * R * EPS + 2 * t2
    g.check(r2 <= bound, "result is farther from the input than e * ||Y|| (relative distance^2 from three reference Gram values)",
            dist2=r2, e2=e * e, bound=bound, rounding=t2, zz_over_yy=a, zy_over_yy=b, ranks_in=rin[:10], ranks_out=rout[:10])
    if why is None:
        check_scale(g, ctx, Y, gy, grams["gz"], grams["gzy"], e, rout != rin, R)
    if 2 * t2 + 16 * (d - 1) * R * EPS <= e * e:
        ctx.label("distance_bound_sharp")
    if rout != rin:
        ctx.label("rank_reduced")
    plain = float(ctx.lib(teneva.norm, Y))
    nt = not (normal_finite(plain) and plain > 0)
    ctx.nontrivial(nt)
    # representable: the stabilised and the plain rounding denote the same tensor up to 2e
    Zp = None
    # (a core whose largest entry is a subnormal number has entries of a few bits only: the plain sweep multiplies its R factor,
    # of as few bits, into the neighbour - the plain result is not comparable although every partial product is representable)
    if normal_finite(plain) and plain > 0 and -900 < gy.lo_path and gy.hi_path < 900 and abs(gy.log2()) < 600 and not any(subnormal_core(G) for G in Y):
        snap = snapshot(Y)
        Zp = ctx.lib(teneva.truncate, Y, e)
        unchanged(ctx, Y, snap, f"truncate(e={e})")
        if oracle.wellformed(Zp, n) is None:
            rdp = rel_dist2(Z, 0, Zp)
            if rdp is not None:
                r2p, t2p, _, _ = rdp
                ctx.check(r2p <= (2 * e * (1 + 1e-3) / (1 - e)) ** 2 + 64 * (d - 1) * R * EPS + 2 * t2p + 8 * t2,
                          "truncate: stabilised and plain results differ by more than 2e although everything is representable", dist2=r2p, e=e)
                ctx.label("representable")
    return Z, Zp


# ------------------------------------------------------------------------------------------- shared core objects
# Long tensors are usually built from chain references: Y = [A] + [B] * (d - 2) + [C] holds the SAME ndarray object many times, and a
# second tensor is often a shallow copy of the first with one core replaced.  Every routine is a function of the VALUES of the cores:
# the results must be those for deep copies (and the reference), whatever the object identities and whatever the argument order.

SHARED_Y2 = ["replace1"] * 5 + ["replace2", "replace2", "replace2same", "identical", "shallow", "shifted", "distinct"]


@st.composite
def shared_cases(draw, tier):
    big = [4, 5, 6, 8, 50, 300] if tier == "quick" else [4, 5, 6, 8, 50, 300, 300, 1000, 3000]
    d = draw(st.one_of(st.sampled_from(big), st.integers(3, 40)))
    r = draw(st.sampled_from([1, 1, 2, 2, 3]))
    return {"d": d, "n": draw(st.integers(1, 3)), "r": r, "K": draw(st.sampled_from([1, 1, 2, 3])),
            "layout": draw(st.sampled_from(["run", "run", "run", "runs", "runs", "alt", "halves"])),
            "ends": draw(st.sampled_from(["own", "own", "shared"])),
            "fam": draw(st.sampled_from(["pm", "pm", "unif", "pos", "eye"])), "noise": draw(st.integers(3, 30)),
            "seed": draw(st.integers(0, 2 ** 31 - 1)), "sc": draw(scale_specs()), "wide": draw(st.integers(0, 3)) == 0,
            "y2": draw(st.sampled_from(SHARED_Y2)), "j1": draw(st.integers(0, 10 ** 6)), "j2": draw(st.integers(0, 10 ** 6)),
            "jpos": draw(st.sampled_from(["any", "any", "any", "run_start", "first", "last", "second"])),
            "repl": draw(st.sampled_from(["perturb", "perturb", "fresh", "fresh", "pool", "copy", "rescaled"])),
            "q": draw(st.integers(0, 45)),
            "op": draw(st.sampled_from(["scalar", "scalar", "scalar", "accuracy", "accuracy", "orth", "truncate"])),
            "k": draw(st.sampled_from(["first", "last", "mid", "frac"])), "kf": draw(st.integers(0, 10 ** 6)),
            "e": draw(st.sampled_from([1e-5, 1e-3, 0.1])), "which": draw(st.sampled_from([1, 2, 2])), "shift": draw(shifts())}


def shared_pair(case):
    """Y1 = chain of shared core objects, Y2 = a tensor sharing objects with Y1; per-position log2 scales s1, s2."""
    d, n, r, K = case["d"], case["n"], case["r"], case["K"]
    rng = np.random.default_rng(case["seed"])
    noise = 2.0 ** -case["noise"]
    T = int(case["sc"]["total"])
    base = max(LO + 8, min(HI - 8, T // d if T >= 0 else -((-T) // d)))
    a = int(case["sc"]["amp"]) if case["wide"] else int(case["sc"]["amp"]) % 8
    a = max(0, min(a, HI - abs(base)))
    if case["layout"] in ("runs", "halves"):
        a = min(a, 20000 // d)                                      # partial products of long one-sided runs stay within 2^+-30000 or so
    offs = [a, -a, 0]
    scale_of = {}

    def mk(shape, off):
        G = np.ldexp(bulk(rng, case["fam"], shape, noise), base + off)
        scale_of[id(G)] = base + off
        return G

    pool = [mk((r, n, r), offs[i]) for i in range(K)]
    mid = d - 2
    if case["layout"] == "run":
        idx = [0] * d
    elif case["layout"] == "alt":
        idx = [k % K for k in range(d)]
    elif case["layout"] == "halves":
        idx = [0 if k < d // 2 else (1 % K) for k in range(d)]
    else:
        idx, cur = [], 0
        while len(idx) < d:
            idx += [cur] * int(rng.integers(1, max(2, d // 3) + 1))
            cur = (cur + 1 + int(rng.integers(0, max(1, K - 1)))) % K
        idx = idx[:d]
    if r == 1 and case["ends"] == "shared":
        Y1 = [pool[idx[k]] for k in range(d)]                       # the end cores are chain objects too
    else:
        Y1 = [mk((1, n, r), 0)] + [pool[idx[k]] for k in range(1, d - 1)] + [mk((r, n, 1), 0)]
    keep = list(Y1) + pool                                          # the ids in scale_of stay valid while these are alive

    def replacement(G, kind):
        sG = scale_of[id(G)]
        if kind == "perturb":
            H = G * (1.0 + 2.0 ** -case["q"] * rng.uniform(-1, 1, size=G.shape))
        elif kind == "fresh":
            H = np.ldexp(bulk(rng, case["fam"], G.shape, noise), sG)
        elif kind == "rescaled":
            sh = max(LO - sG, min(HI - sG, case["shift"]["s"] % 7 - 3))
            H, sG = np.ldexp(G, sh), sG + sh
        elif kind == "pool" and any(P is not G and P.shape == G.shape for P in pool):
            return next(P for P in pool if P is not G and P.shape == G.shape)     # an object that sits elsewhere in Y1
        else:
            H = G.copy()                                            # equal values, another object
        scale_of[id(H)] = sG
        keep.append(H)
        return H

    def position(jf):
        if case["jpos"] == "first":
            return 0
        if case["jpos"] == "last":
            return d - 1
        if case["jpos"] == "second":
            return min(1, d - 1)
        j = jf % d
        if case["jpos"] == "run_start":
            while j > 0 and Y1[j - 1] is Y1[j]:
                j -= 1
        return j

    y2 = case["y2"]
    j1, j2 = position(case["j1"]), case["j2"] % d
    if y2 == "identical":
        Y2 = Y1
    elif y2 == "shallow":
        Y2 = list(Y1)
    elif y2 == "distinct":
        # a generic tensor (every core its own object) against the chain tensor
        Y2 = [replacement(G, "perturb" if case["repl"] in ("perturb", "copy") else "fresh") for G in Y1]
    elif y2 == "shifted":
        # own end cores, the middle cores are the objects of Y1 one position to the left (same shapes): shared objects, other alignment
        Y2 = [replacement(Y1[0], "fresh")] + [Y1[k - 1] if Y1[k - 1].shape == Y1[k].shape else Y1[k] for k in range(1, d - 1)] \
            + [replacement(Y1[-1], "fresh")]
    else:
        Y2 = list(Y1)
        Y2[j1] = replacement(Y1[j1], case["repl"])
        if y2 == "replace2" and j2 != j1:
            Y2[j2] = replacement(Y1[j2], "perturb" if case["repl"] in ("pool", "copy") else case["repl"])
        elif y2 == "replace2same" and j2 != j1 and Y1[j2].shape == Y1[j1].shape:
            Y2[j2] = Y2[j1]                                         # one new object at two places
    s1 = np.array([scale_of[id(G)] for G in Y1], dtype=np.int64)
    s2 = np.array([scale_of[id(G)] for G in Y2], dtype=np.int64)
    return Y1, Y2, s1, s2, keep


def deep(Y):
    return [np.array(G, copy=True) for G in Y]


def agree_stab(ctx, what, a, b, tol, half=False):
    """Two stabilised results (shared objects / deep copies, or the two argument orders) denote the same number: bit-identical, or equal
    within the first-order rounding bound `tol` of the reference when that bound is meaningful."""
    (v, p), (w, q) = (float(a[0]), a[1]), (float(b[0]), b[1])
    if v == w and p == q:
        ctx.label("agree:bitwise")
        return
    if v == 0 or w == 0:
        ctx.check(False, f"{what}: one result is exactly zero, the other is not", first=(v, p), second=(w, q))
        return
    if tol is None or tol > 0.1:
        ctx.label("agree:not_comparable")
        return
    off = (p - q) + math.log2(abs(v) / abs(w))
    ctx.check((v > 0) == (w > 0) and abs(off) <= (1.5 if half else 3.0) * tol + 16 * EPS, f"{what}: results differ beyond the rounding bound",
              first=(v, p), second=(w, q), log2_off=off, tol=tol)
    ctx.label("agree:within_bound")


def agree_plain(ctx, what, x, y, tol):
    x, y = float(x), float(y)
    if x == y or (x != x and y != y):
        ctx.label("agree:bitwise")
        return
    if tol is None or tol > 0.1 or not (normal_finite(x) and normal_finite(y)):
        ctx.label("agree:not_comparable")
        return
    ctx.check(abs(x - y) <= (3 * tol + 16 * EPS) * abs(y), f"{what}: results differ beyond the rounding bound", first=x, second=y, tol=tol)
    ctx.label("agree:within_bound")


def same_tensor(ctx, what, Z, pz, W, pw):
    """Z 2^pz and W 2^pw denote the same tensor (relative distance^2 from three reference Gram values within its own rounding bound)."""
    if all(A.shape == B.shape and A.tobytes() == B.tobytes() for A, B in zip(Z, W)) and pz == pw:
        ctx.label("agree:bitwise")
        return
    rd = rel_dist2(Z, pz - pw, W)
    if rd is None:
        ctx.check(Gram(Z, Z).zero, f"{what}: one result is the zero tensor, the other is not")
        return
    r2, t2, a, b = rd
    ctx.check(r2 <= 2 * t2 + 1e-20, f"{what}: results for shared core objects and for deep copies denote different tensors", dist2=r2, bound=2 * t2)
    ctx.label("agree:within_bound")


def prop_shared(case, ctx):
    Y1, Y2, s1, s2, keep = shared_pair(case)
    d = len(Y1)
    D1 = deep(Y1)
    D2 = D1 if Y2 is Y1 else deep(Y2)
    op = case["op"]
    nshared = sum(1 for k in range(1, d) if Y1[k] is Y1[k - 1])
    ctx.label("op:" + op, "y2:" + case["y2"], "layout:" + case["layout"], f"d={d}" if d in (4, 5, 6, 8, 50, 300, 1000, 3000) else "d=other",
              "repl:" + case["repl"], "rank1" if case["r"] == 1 else "rank>1")
    if nshared:
        ctx.label("repeated_object_in_Y1")
    j1 = next((k for k in range(d) if Y2[k] is not Y1[k]), None)
    if j1 is not None and 0 < j1 < d - 1 and Y1[j1 - 1] is Y1[j1] and Y1[j1 + 1] is Y1[j1]:
        ctx.label("replaced_inside_a_run")
    snaps = snapshot(Y1), snapshot(Y2)
    if op == "scalar":
        v, p, ref, _, plain, rep = run_scalar(ctx, Y1, Y2, s1, s2, case["shift"])
        # the other argument order (the scalar product is symmetric), on the same objects
        g = Guard(ctx, "mul_scalar(Y2, Y1, use_stab=True)")
        w, q = check_stab_pair(g, g.lib(teneva.mul_scalar, Y2, Y1, use_stab=True), "mul_scalar")
        rv, rp = gram_ref(Y1, Y2)
        check_scalar_value(g, ctx, w, q, ref, rv, rp, "swapped arguments")
        agree_stab(ctx, "mul_scalar(Y1, Y2) vs mul_scalar(Y2, Y1), shared core objects", (v, p), (w, q), None if ref.zero else ref.tol)
        # deep copies: same values, no shared objects
        for (A, B, C, D, res, nm) in ((Y1, Y2, D1, D2, (v, p), "mul_scalar(Y1, Y2)"), (Y2, Y1, D2, D1, (w, q), "mul_scalar(Y2, Y1)")):
            rd = ctx.lib(teneva.mul_scalar, C, D, use_stab=True)
            agree_stab(ctx, f"{nm}, use_stab=True: shared core objects vs deep copies", res, rd, None if ref.zero else ref.tol)
            agree_stab(ctx, f"{nm}, use_stab=True: first argument deep-copied", ctx.lib(teneva.mul_scalar, C, B, use_stab=True), rd, None if ref.zero else ref.tol)
            ps, pd = ctx.lib(teneva.mul_scalar, A, B), ctx.lib(teneva.mul_scalar, C, D)
            agree_plain(ctx, f"{nm}: shared core objects vs deep copies", ps, pd, None if ref.zero else ref.tol)
        if rep and ref.tol <= GATE:
            ps = ctx.lib(teneva.mul_scalar, Y2, Y1)
            ctx.check(abs(ps - plain) <= 4 * ref.tol * abs(plain), "mul_scalar: plain result depends on the argument order beyond rounding", first=plain, second=ps)
        # the norms of both tensors
        for (Y, D, s, nm) in ((Y1, D1, s1, "Y1"), (Y2, D2, s2, "Y2")):
            z, qz, nref, nplain, _ = run_norm(ctx, Y, s, case["shift"])
            agree_stab(ctx, f"norm({nm}, use_stab=True): shared core objects vs deep copies", (z, qz), ctx.lib(teneva.norm, D, use_stab=True),
                       None if nref.zero else nref.tol, half=True)
            agree_plain(ctx, f"norm({nm}): shared core objects vs deep copies", nplain, ctx.lib(teneva.norm, D), None if nref.zero else nref.tol)
    elif op == "accuracy":
        for (A, B, C, D, sa, sb, nm) in ((Y1, Y2, D1, D2, s1, s2, "accuracy(Y1, Y2)"), (Y2, Y1, D2, D1, s2, s1, "accuracy(Y2, Y1)")):
            acc, tol = run_accuracy(ctx, A, B, sa, sb, case["shift"])
            accd = float(ctx.lib(teneva.accuracy, C, D))
            if acc == accd:
                ctx.label("agree:bitwise")
            elif tol is not None:
                ctx.check(abs(acc - accd) <= 2 * tol * accd, f"{nm}: shared core objects vs deep copies differ beyond the rounding bound", shared=acc, deep=accd, tol=tol)
                ctx.label("agree:within_bound")
            else:
                ctx.label("agree:not_comparable")
    else:
        Y, D = (Y1, D1) if case["which"] == 1 else (Y2, D2)
        small = float(np.sum(np.abs(s2 if Y is Y2 else s1))) + 3 * d < 900          # every partial product is representable
        if op == "orth":
            k = {"first": 0, "last": d - 1, "mid": d // 2, "frac": case["kf"] % d}[case["k"]]
            Z, p, gy = run_orth(ctx, Y, k)
            Zd, pd = ctx.lib(teneva.orthogonalize, D, k, True)
            if Z is not None:
                same_tensor(ctx, f"orthogonalize(k={k}, use_stab=True)", Z, p, Zd, pd)
            if small and not gy.zero:
                Zp = ctx.lib(teneva.orthogonalize, Y, k)
                why = oracle.wellformed(Zp, oracle.shape_of(Y))
                ctx.check(why is None, f"orthogonalize(k={k}): result not well-formed / finite: {why}")
                if why is None:
                    r2, t2, _, _ = rel_dist2(Zp, 0, Y, gy)
                    ctx.check(r2 <= 2 * t2, f"orthogonalize(k={k}): the result does not denote the input tensor (shared core objects)", dist2=r2, bound=2 * t2)
                    ctx.label("plain_orth_asserted")
        else:
            Z, Zp = run_truncate(ctx, Y, case["e"])
            Zd = ctx.lib(teneva.truncate, D, case["e"], use_stab=True)
            if oracle.wellformed(Z, oracle.shape_of(Y)) is None and oracle.ranks_of(Z) == oracle.ranks_of(Zd):
                same_tensor(ctx, f"truncate(e={case['e']}, use_stab=True)", Z, 0, Zd, 0)
            if Zp is not None:
                Zpd = ctx.lib(teneva.truncate, D, case["e"])
                if oracle.wellformed(Zp, oracle.shape_of(Y)) is None and oracle.ranks_of(Zp) == oracle.ranks_of(Zpd):
                    same_tensor(ctx, f"truncate(e={case['e']})", Zp, 0, Zpd, 0)
    unchanged(ctx, Y1, snaps[0], "shared core objects: Y1")
    unchanged(ctx, Y2, snaps[1], "shared core objects: Y2")
    ctx.check(all(A.tobytes() == B.tobytes() for A, B in zip(Y1 + Y2, D1 + D2)), "a shared core object was modified")
    del keep


# ------------------------------------------------------------------------------------------- cores far outside the window
# teneva.mul(number, Y) puts the whole factor into core 0, a boundary condition or a weight often sits in the last core, a product
# teneva.mul(Y1, Y2) of two such tensors has it twice: ONE core (sub-check one_core) or TWO AND MORE cores (sub-check extreme_pairs),
# neighbours in particular, have entries beyond 2^+-512 (their squares, and the product of two of them, are not representable) while
# every other core is ordinary.  orthogonalize / truncate never square an entry (LAPACK's QR / RQ use scaled norms) and, since repo
# commit 782a2c5, rescale EVERY core by core_stab before the sweeps (before that the core a sweep starts from was factorised as the
# caller gave it and R of it times its neighbour was formed unscaled: OverflowError / LinAlgError for two neighbours at 2^600, a zero
# tensor for two at 2^-600).  The Gram routines (mul_scalar, norm, accuracy) on such tensors are the sub-check extreme_cores below.
# Oracles: all of run_orth / run_truncate on the tensor itself, and the shift relation against the same tensor with those cores at an
# ordinary scale: the exponent moves by the sum of the shifts and nothing else, bit for bit (the scaled cores enter only through
# core_stab, an exact scaling, whatever the pivot, the position and the ranks); truncate: same ranks, and the same tensor up to the
# rounding of the factor 2^(p/d) that is spread over the cores.

EXTREME = st.one_of(st.integers(512, 1000), st.integers(512, 530), st.integers(960, 1000), st.integers(-1000, -512), st.integers(-545, -512),
                    st.integers(-1000, -960))
ONE_POS = ["first", "first", "first", "last", "last", "last", "second", "penult", "mid", "frac"]
ENDS = ["generic", "ends1", "ends1", "left1", "right1", "all1"]


@st.composite
def one_core_cases(draw, tier):
    big = [2, 3, 3, 4, 50, 50, 300] if tier == "quick" else [2, 3, 4, 50, 50, 300, 300, 1000, 3000]
    d = draw(st.one_of(st.sampled_from(big), st.integers(2, 40)))
    spec = draw(tensor_specs(d))
    spec["ends"] = draw(st.sampled_from(ENDS))
    return {"Y": spec, "sc": draw(scale_specs()), "pos": draw(st.sampled_from(ONE_POS)), "jf": draw(st.integers(0, 10 ** 6)),
            "ext": draw(EXTREME), "t0": draw(st.integers(-8, 8)), "op": draw(st.sampled_from(["orth", "orth", "truncate"])),
            "k": draw(st.sampled_from(["first", "last", "last", "mid", "frac"])), "kf": draw(st.integers(0, 10 ** 6)),
            "e": draw(st.sampled_from([1e-8, 1e-5, 1e-3, 0.1]))}


def one_core_pair(case):
    """Y0 (every core ordinary), Y = Y0 with core j multiplied by 2^ext (exact unless an entry becomes subnormal), j."""
    spec = case["Y"]
    d = spec["d"]
    j = {"first": 0, "last": d - 1, "second": min(1, d - 1), "penult": max(d - 2, 0), "mid": d // 2, "frac": case["jf"] % d}[case["pos"]]
    s0 = np.array(scales(d, case["sc"], LO, HI), dtype=np.int64)
    s0[j] = case["t0"]
    Y0 = build(spec, s0)
    return Y0, rescale(Y0, j, case["ext"]), j


def bitwise_same(Z, W):
    return len(Z) == len(W) and all(A.shape == B.shape and A.tobytes() == B.tobytes() for A, B in zip(Z, W))


def near_pow2(G):
    """max|G| within 1e-11 (relative) of a power of two: floor(log2(max|G| 2^s)) need not be floor(log2(max|G|)) + s there."""
    m = float(np.max(np.abs(G)))
    if m == 0 or not math.isfinite(m):
        return True
    f = 2 * math.frexp(m)[0]
    return f < 1 + 1e-11 or f > 2 - 1e-11


def scaling_state(Y, Y0, shs):
    """'exact': every scaled core is 2^s times the ordinary one bit for bit (no entry subnormal) and core_stab splits both the same way;
    'near': exact scaling, but a maximum sits at a power of two; 'lossy': an entry of a scaled core became subnormal."""
    state = "exact"
    for A, B, s in zip(Y, Y0, shs):
        if int(s) == 0:
            continue
        if not bool(np.all(np.isfinite(A))) or np.ldexp(A, -int(s)).tobytes() != B.tobytes():
            return "lossy"
        if near_pow2(B):
            state = "near"
    return state


def orth_shift(ctx, what, Y0, k, S, state, Z, p):
    """(Z, p) = orthogonalize of the tensor with scaled cores against the same call on the ordinary tensor Y0: p = p0 + S, cores bit-identical."""
    Z0, p0 = ctx.lib(teneva.orthogonalize, Y0, k, True)
    if state == "lossy":
        ctx.label("shift:inexact_scaling")
        return
    if p == p0 + S and bitwise_same(Z, Z0):
        ctx.label("shift:bitwise")
        return
    ctx.check(state != "exact", f"{what}: the exponent must move by the sum of the shifts and every core must stay bit-identical",
              p=p, p_ordinary=p0, s=S, first_different_core=next((i for i, (A, B) in enumerate(zip(Z, Z0)) if A.shape != B.shape or A.tobytes() != B.tobytes()), None))
    same_tensor(ctx, what, Z, p, Z0, p0 + S)
    ctx.label("shift:within_bound")


def truncate_shift(ctx, what, Y, Y0, e, S, state):
    """run_truncate on Y, and truncate(Y) against 2^S truncate(Y0)."""
    d = len(Y)
    info = {}
    Z, _ = run_truncate(ctx, Y, e, info)
    Z0 = ctx.lib(teneva.truncate, Y0, e, use_stab=True)
    n = oracle.shape_of(Y)
    why = oracle.wellformed(Z0, n)
    ctx.check(why is None, f"truncate(e={e}, use_stab=True): result not well-formed / finite: {why}")
    if not info or oracle.wellformed(Z, n) is not None:
        return
    if state == "lossy":
        ctx.label("shift:inexact_scaling")
        return
    rd = rel_dist2(Z0, S, Z)
    ctx.check(rd is not None, f"{what}: the result is the zero tensor")
    r2, t2p, _, _ = rd
    ctx.check(r2 <= (2 * e * (1 + 1e-3) / (1 - e)) ** 2 + 64 * (d - 1) * info["R"] * EPS + 2 * t2p + 8 * info["t2"],
              f"{what}: differs from 2^s times the rounding of the ordinary tensor by more than 2e", dist2=r2, e=e, s=S)
    same = oracle.ranks_of(Z) == oracle.ranks_of(Z0)
    if state == "exact":
        # the orthogonalised cores and the threshold are bit-identical, hence the SVD sweep; only the factors 2^(p/d) differ
        ctx.check(same, f"{what}: the ranks differ from those for the ordinary tensor", ranks=oracle.ranks_of(Z)[:12], ranks_ordinary=oracle.ranks_of(Z0)[:12], s=S)
    if same:
        ctx.label("same_ranks")
        same_tensor(ctx, what, Z, 0, Z0, S)


def prop_one_core(case, ctx):
    Y0, Y, j = one_core_pair(case)
    spec, sh, op = case["Y"], case["ext"], case["op"]
    d = len(Y)
    r = oracle.ranks_of(Y)
    k = d - 1 if op == "truncate" else {"first": 0, "last": d - 1, "mid": d // 2, "frac": case["kf"] % d}[case["k"]]
    raw = (j == 0 and k > 0) or (j == d - 1 and k < d - 1)          # a sweep starts at the extreme core
    shs = [sh if i == j else 0 for i in range(d)]
    state = scaling_state(Y, Y0, shs)
    ctx.label("op:" + op, "core:" + ("first" if j == 0 else "last" if j == d - 1 else "interior"), "huge" if sh > 0 else "tiny",
              "ends:" + spec["ends"], f"d={d}" if d in (2, 3, 4, 50, 300, 1000, 3000) else "d=other",
              "sweep_starts_at_the_core" if raw else "core_reached_by_the_sweep", "scaling:" + state)
    if raw and r[1 if j == 0 else d - 1] == 1:
        ctx.label("rank1_bond_at_the_starting_core")
    ctx.nontrivial(True)                                            # the squares of the entries of core j are not representable
    if op == "orth":
        Z, p, gy = run_orth(ctx, Y, k)
        if Z is None:
            return
        orth_shift(ctx, f"orthogonalize(k={k}, use_stab=True), core {j} times 2^{sh}", Y0, k, sh, state, Z, p)
    else:
        e = case["e"]
        truncate_shift(ctx, f"truncate(e={e}, use_stab=True), core {j} times 2^{sh}", Y, Y0, e, sh, state)


# ------------------------------------------------------------------------------------------- two and more extreme cores (orthogonalize / truncate)
# Placements: the pair a sweep starts from (cores 0, 1 for the left sweep, d-2, d-1 for the right one), both end pairs, the pair around the
# pivot ((k-1, k), (k, k+1), (k-1, k+1)), the two end cores, three neighbours, two drawn positions, a run of up to eight cores (every core
# for d <= 8); exponents all positive / all negative / alternating / drawn, each 512 <= |s| <= 1000; every pivot for d <= 4, else
# first / last / middle / drawn / at one of the extreme cores.

PFORMS = ["left_pair"] * 3 + ["right_pair"] * 3 + ["pivot_pair"] * 3 + ["both_pairs", "both_pairs", "ends", "run3", "scattered", "run8"]
PSIGNS = ["pos", "pos", "neg", "neg", "alt", "alt", "drawn"]
XMAG_ = st.one_of(st.integers(512, 1000), st.integers(512, 540), st.integers(960, 1000), st.sampled_from([512, 600, 1000]))


@st.composite
def extreme_pair_cases(draw, tier):
    big = [2, 3, 3, 4, 5, 50, 300] if tier == "quick" else [2, 3, 4, 5, 50, 50, 300, 300, 1000, 3000]
    d = draw(st.one_of(st.sampled_from(big), st.integers(2, 40)))
    spec = draw(tensor_specs(d))
    spec["ends"] = draw(st.sampled_from(ENDS))
    return {"Y": spec, "sc": draw(scale_specs()), "moderate": draw(st.booleans()),
            "form": draw(st.sampled_from(PFORMS)), "variant": draw(st.integers(0, 2)), "jf": [draw(st.integers(0, 10 ** 6)), draw(st.integers(0, 10 ** 6))],
            "signs": draw(st.sampled_from(PSIGNS)), "flip": draw(st.booleans()), "neg": [draw(st.booleans()) for _ in range(4)],
            "mag": [draw(XMAG_) for _ in range(4)], "equal_mag": draw(st.sampled_from([False, False, True])),
            "t0": [draw(st.integers(-8, 8)) for _ in range(4)],
            "op": draw(st.sampled_from(["orth", "orth", "truncate"])),
            "k": draw(st.sampled_from(["first", "last", "last", "mid", "frac", "at_extreme"])), "kf": draw(st.integers(0, 10 ** 6)),
            "e": draw(st.sampled_from([1e-8, 1e-5, 1e-3, 0.1])),
            "zero": draw(st.sampled_from([False] * 15 + [True])), "zj": draw(st.integers(0, 10 ** 6))}


def extreme_pair_positions(case, d, k):
    form, v = case["form"], case["variant"]
    a, b = case["jf"][0] % d, case["jf"][1] % d
    pos = {"left_pair": [0, 1], "right_pair": [d - 2, d - 1], "both_pairs": [0, 1, d - 2, d - 1], "ends": [0, d - 1],
           "pivot_pair": [[k - 1, k], [k, k + 1], [k - 1, k + 1]][v], "run3": [a, a + 1, a + 2], "scattered": [a, b],
           "run8": list(range(a, a + 8)) if d > 8 else list(range(d))}[form]
    pos = sorted({min(d - 1, max(0, j)) for j in pos})
    if len(pos) < 2:                                                # d = 2 / a pivot at the end: the pair next to it
        pos = sorted({pos[0], pos[0] + 1 if pos[0] + 1 < d else pos[0] - 1})
    return pos


def extreme_pair_tensors(case, k):
    """Y0 (every core ordinary), Y (cores `pos` multiplied by 2^shs[pos]), the per-core shifts."""
    spec = case["Y"]
    d = spec["d"]
    pos = extreme_pair_positions(case, d, k)
    shs = np.zeros(d, dtype=np.int64)
    for i, j in enumerate(pos):
        m = case["mag"][0] if case["equal_mag"] else case["mag"][i % 4]
        sg = {"pos": 1, "neg": -1, "alt": (1 if i % 2 == 0 else -1) * (-1 if case["flip"] else 1), "drawn": -1 if case["neg"][i % 4] else 1}[case["signs"]]
        shs[j] = sg * m
    sc = dict(case["sc"])
    room = 29000 - int(np.sum(np.abs(shs)))                         # the total stays within 2^+-30000
    if case["moderate"]:
        sc["pat"], sc["total"] = "uniform", sc["total"] % 121 - 60
    sc["total"] = max(-room, min(room, int(sc["total"])))
    s0 = np.array(scales(d, sc, LO, HI), dtype=np.int64)
    for i, j in enumerate(pos):
        s0[j] = case["t0"][i % 4]
    Y0 = build(spec, s0)
    if case["zero"]:
        Y0[case["zj"] % d][...] = 0.0
    Y = [np.ldexp(G, int(s)) if s != 0 else G for G, s in zip(Y0, shs)]
    return Y0, Y, shs, pos


def prop_extreme_pairs(case, ctx):
    spec, op = case["Y"], case["op"]
    d = spec["d"]
    kmain = d - 1 if op == "truncate" else {"first": 0, "last": d - 1, "mid": d // 2, "frac": case["kf"] % d, "at_extreme": None}[case["k"]]
    if kmain is None:
        pos = extreme_pair_positions(case, d, d // 2)
        kmain = pos[case["kf"] % len(pos)]
    Y0, Y, shs, pos = extreme_pair_tensors(case, kmain)
    S = int(np.sum(shs))
    state = scaling_state(Y, Y0, shs)
    ext = set(pos)
    adjacent = [(a, a + 1) for a in pos if a + 1 in ext]
    ctx.label("op:" + op, "form:" + case["form"], "signs:" + case["signs"], f"cores={min(len(pos), 5)}" + ("+" if len(pos) > 5 else ""),
              "ends:" + spec["ends"], f"d={d}" if d in (2, 3, 4, 5, 50, 300, 1000, 3000) else "d=other",
              "others:O(1)" if case["moderate"] else "others:any_total", "scaling:" + state)
    if any(abs(int(shs[a]) + int(shs[b])) > 1023 for a, b in adjacent):
        ctx.label("adjacent_pair_product_not_representable")
    if case["zero"]:
        ctx.label("zero_core")
    ctx.nontrivial(True)                                            # the squares of the entries of the scaled cores are not representable
    snap = snapshot(Y0)
    if op == "truncate":
        if (0, 1) in adjacent:
            ctx.label("sweep_starts_at_an_extreme_pair")
        e = case["e"]
        truncate_shift(ctx, f"truncate(e={e}, use_stab=True), cores {pos[:8]} times 2^{[int(shs[j]) for j in pos[:8]]}", Y, Y0, e, S, state)
    else:
        pivots = list(range(d)) if d <= 4 else [kmain]
        ctx.inner(len(pivots))
        for k in pivots:
            if ((0, 1) in adjacent and k > 0) or ((d - 2, d - 1) in adjacent and k < d - 1):
                ctx.label("sweep_starts_at_an_extreme_pair")
            ctx.label("pivot:" + ("first" if k == 0 else "last" if k == d - 1 else "interior"), "pivot_extreme" if k in ext else "pivot_ordinary")
            Z, p, gy = run_orth(ctx, Y, k)
            if Z is None:
                continue
            orth_shift(ctx, f"orthogonalize(k={k}, use_stab=True), cores {pos[:8]} times 2^{[int(shs[j]) for j in pos[:8]]}", Y0, k, S, state, Z, p)
    unchanged(ctx, Y0, snap, "extreme pairs: ordinary tensor")


# ------------------------------------------------------------------------------------------- extreme cores in the Gram routines
# mul_scalar / norm / accuracy with ONE or TWO cores scaled exactly by 2^s, 512 <= |s| <= 1000, every other core ordinary (the squares
# of the entries of such a core, and the products of two of them, are not representable): Y = teneva.mul(2.**600, Y0) puts the whole
# factor into core 0.  Before repo commit 6e41839 mul_scalar(use_stab=True) multiplied the two cores of a step before any rescaling
# (OverflowError / ValueError for 2^600, a silent (0, 0) for 2^-600, accuracy -1).  Placements: one core of Y1 / of Y2, the same factor
# in both operands (same or different position), two cores of one operand, one core in each operand (same-sign or opposite-sign
# exponents, same or different positions), teneva.mul(2.**s, .) as the producer.
# Oracles: everything of run_scalar / run_norm / run_accuracy on the scaled pair (unbounded-exponent reference), and the shift relation
# against the SAME routine on the ordinary pair: the exponent moves by the sum of the shifts, the mantissa stays bit-identical;
# accuracy is that of the ordinary pair when both operands carry the same total factor.

XPOS = ["first", "first", "last", "last", "second", "penult", "mid", "frac", "frac"]
XFORMS = ["one1", "one1", "one2", "one2", "same", "same", "same_other", "two1", "two1", "two2", "split", "split", "split_pos",
          "mul", "mul", "mul_both"]
XMAG = st.one_of(st.integers(512, 1000), st.integers(512, 540), st.integers(960, 1000), st.sampled_from([512, 600, 1000]))
XRELS = ["indep"] * 4 + ["perturbed"] * 3 + ["factor", "factor", "same", "shallow", "shallow"]


@st.composite
def extreme_cases(draw, tier):
    big = [2, 3, 3, 4, 50, 50, 300] if tier == "quick" else [2, 3, 4, 50, 50, 300, 300, 1000, 3000]
    d = draw(st.one_of(st.sampled_from(big), st.integers(2, 40)))
    Y1 = draw(tensor_specs(d))
    Y2 = draw(tensor_specs(d))
    Y2["nm"] = Y1["nm"]
    return {"Y1": Y1, "Y2": Y2, "rel": draw(st.sampled_from(XRELS)), "q": draw(st.integers(0, 45)), "pj": draw(st.integers(0, 10 ** 6)),
            "sc": draw(scale_specs()), "sc2": draw(scale_specs()), "own_scales": draw(st.booleans()),
            "dtotal": draw(st.one_of(st.just(0), st.integers(-40, 40), st.integers(-620, 620))),
            "moderate": draw(st.booleans()),                        # every other core (and their product) of size O(1)
            "form": draw(st.sampled_from(XFORMS)),
            "pos": [draw(st.sampled_from(XPOS)), draw(st.sampled_from(XPOS))], "jf": [draw(st.integers(0, 10 ** 6)), draw(st.integers(0, 10 ** 6))],
            "mag": [draw(XMAG), draw(XMAG)], "neg": [draw(st.booleans()), draw(st.booleans())],
            "t0": [draw(st.integers(-8, 8)), draw(st.integers(-8, 8))],
            "op": draw(st.sampled_from(["scalar", "scalar", "norm", "accuracy", "accuracy"])),
            "pairup": draw(st.sampled_from([True, True, False])),     # accuracy: mostly the same factor in both operands
            "zero": draw(st.sampled_from([False] * 11 + [True])), "zj": draw(st.integers(0, 10 ** 6))}


def xpos(d, name, jf):
    return {"first": 0, "last": d - 1, "second": min(1, d - 1), "penult": max(d - 2, 0), "mid": d // 2, "frac": jf % d}[name]


def extreme_placements(case):
    """[(operand, position, log2 shift)] and the effective form (mul / mul_both: teneva.mul(number, .) produces the scaled operands)."""
    d, form = case["Y1"]["d"], case["form"]
    j, k = (xpos(d, case["pos"][i], case["jf"][i]) for i in (0, 1))
    a, b = (case["mag"][i] * (-1 if case["neg"][i] else 1) for i in (0, 1))
    if case["op"] == "accuracy" and case["pairup"]:
        form = {"one1": "same", "one2": "same_other", "split": "same_other", "mul": "mul_both"}.get(form, form)
    if form in ("two1", "two2") and k == j:
        k = (j + 1) % d
    return {"one1": [(1, j, a)], "one2": [(2, j, a)], "same": [(1, j, a), (2, j, a)], "same_other": [(1, j, a), (2, k, a)],
            "two1": [(1, j, a), (1, k, b)], "two2": [(2, j, a), (2, k, b)], "split": [(1, j, a), (2, k, b)],
            "split_pos": [(1, j, a), (2, j, b)], "mul": [(1, 0, a)], "mul_both": [(1, 0, a), (2, 0, a)]}[form], form


def ordinary_pair(case, places):
    """The pair (Y1_0, Y2_0) with every core at an ordinary scale (the cores at the positions of `places` of size 2^t0)."""
    d, rel = case["Y1"]["d"], case["rel"]
    sc = dict(case["sc"])
    if case["moderate"]:
        sc["pat"], sc["total"] = "uniform", sc["total"] % 121 - 60
    s1 = np.array(scales(d, sc, LO, HI), dtype=np.int64)
    if rel == "indep" and case["own_scales"]:
        sc2 = dict(case["sc2"])
        sc2["total"] = sc["total"] + case["dtotal"]
        if case["moderate"]:
            sc2["pat"] = "uniform"
        s2 = np.array(scales(d, sc2, LO, HI), dtype=np.int64)
    else:
        s2 = s1.copy()
    for i, (_, pos, _) in enumerate(places):                        # the cores that will be scaled are ordinary before
        s1[pos] = s2[pos] = case["t0"][i]
    A = build(case["Y1"], s1)
    pj = case["pj"] % d
    rng = np.random.default_rng(case["Y2"]["seed"])
    if rel == "indep":
        Y1_0, Y2_0 = A, build(case["Y2"], s2)
    elif rel == "factor":                                           # Y1 = (1 + 2^-q) Y2, the factor sits in one core
        Y1_0, Y2_0 = list(A), [G.copy() for G in A]
        Y1_0[pj] = A[pj] * (1.0 + 2.0 ** -case["q"])
    else:
        Y1_0 = A
        Y2_0 = list(A) if rel == "shallow" else [G.copy() for G in A]   # shallow: the two tensors share their core objects
        if rel != "same":
            Y2_0[pj] = A[pj] * (1.0 + 2.0 ** -case["q"] * rng.uniform(-1, 1, size=A[pj].shape))
    if case["zero"]:
        Y1_0 = list(Y1_0)
        Y1_0[case["zj"] % d] = np.zeros_like(Y1_0[case["zj"] % d])
    return Y1_0, Y2_0


def extreme_pair(case, ctx):
    """The ordinary pair (Y1_0, Y2_0), the pair with the extreme cores (Y1, Y2), the total log2 shift of each operand, and whether
    every scaling was exact (no entry of a scaled core is subnormal)."""
    places, form = extreme_placements(case)
    by_mul = form in ("mul", "mul_both")
    Y1_0, Y2_0 = ordinary_pair(case, places)
    Y1, Y2, S, exact, done = list(Y1_0), list(Y2_0), [0, 0], True, {}
    for (o, pos, sh) in places:
        Y = Y1 if o == 1 else Y2
        G = Y[pos]
        key = (id(G), sh)
        if key not in done:                                         # a core object shared by the two tensors stays shared
            H = np.ldexp(G, sh)
            exact = exact and bool(np.all(np.isfinite(H))) and np.ldexp(H, -sh).tobytes() == G.tobytes()
            done[key] = (H, G)
        Y[pos] = done[key][0]
        S[o - 1] += sh
    if by_mul:
        # the library as the producer of the scaled operand: teneva.mul(number, Y) (the whole factor goes into one core)
        M1 = ctx.lib(teneva.mul, 2.0 ** places[0][2], Y1_0)
        exact = exact and bitwise_same(M1, Y1)
        Y1 = M1
        if len(places) == 2:
            M2 = ctx.lib(teneva.mul, Y2_0, 2.0 ** places[1][2])
            exact = exact and bitwise_same(M2, Y2)
            Y2 = M2
    return Y1_0, Y2_0, Y1, Y2, S, exact, places, form


def shifted_stab(ctx, what, res, res0, S, exact, half=False):
    """(v, p) for the scaled operands against (v0, p0) for the ordinary ones: p = p0 + S and v = v0 bit for bit (every operation on a
    scaled core is an exact scaling); floor(log2) within an ulp of a power of two may move one factor of 2 between v and p."""
    (v, p), (v0, p0) = (float(res[0]), res[1]), (float(res0[0]), res0[1])
    if v == 0 or v0 == 0:
        ctx.check(v == 0 and v0 == 0, f"{what}: zero for one of (scaled, ordinary) operands only", scaled=(v, p), ordinary=(v0, p0), s=S)
        return
    if not exact:
        ctx.label("shift:inexact_scaling")
        return
    if abs(abs(v0) - 1.0) <= 8 * EPS or abs(v) < 1.0 or abs(v0) < 1.0:
        if half:
            ok = abs(p - p0 - S) <= 1 and abs(v * 2.0 ** (p - p0 - S) - v0) <= 4 * EPS * abs(v0)
        else:
            ok = same_value(v0, p0 + S, v, p)
        ctx.check(ok, f"{what}: scaling cores by powers of two (total 2^s) changed the denoted value", s=S, ordinary=(v0, p0), scaled=(v, p))
        ctx.label("shift:same_value")
    else:
        ctx.check(p == p0 + S and v == v0, f"{what}: scaling cores by powers of two (total 2^s) must shift the exponent by s and keep "
                  "the mantissa bit-identical", s=S, ordinary=(v0, p0), scaled=(v, p))
        ctx.label("shift:bitwise")


def same_factor_accuracy(ctx, nm, acc, acc0, s):
    """Both operands carry the same total power-of-two factor 2^s: the relative distance `acc` is that of the ordinary pair, `acc0` -
    every Gram term keeps its mantissa and the three exponents move together."""
    sat = (0.0, 1e299)
    if acc == acc0:
        ctx.label("same_factor:bitwise")
    elif acc in sat or acc0 in sat:
        o = acc0 if acc in sat else acc
        hi_side = 1e299 in (acc, acc0)
        ctx.check(o not in sat and ((o >= 2.0 ** 499) if hi_side else (0 < o <= 2.0 ** -499)),
                  f"{nm}: the same power-of-two factor in both operands changed the result", scaled=acc, ordinary=acc0, s=s)
        ctx.label("same_factor:saturation_boundary")
    else:
        ctx.check(abs(acc - acc0) <= 8 * EPS * acc0, f"{nm}: the same power-of-two factor in both operands changed the result",
                  scaled=acc, ordinary=acc0, s=s)
        ctx.label("same_factor:within_8eps")


def prop_extreme(case, ctx):
    Y1_0, Y2_0, Y1, Y2, S, exact, places, form = extreme_pair(case, ctx)
    d, op, rel = len(Y1), case["op"], case["rel"]
    shs = [sh for (_, _, sh) in places]
    ctx.label("op:" + op, "form:" + form, "rel:" + rel, f"d={d}" if d in (2, 3, 4, 50, 300, 1000, 3000) else "d=other",
              "others:O(1)" if case["moderate"] else "others:any_total",
              "huge" if min(shs) > 0 else ("tiny" if max(shs) < 0 else "huge_and_tiny"),
              "exact_scaling" if exact else "subnormal_entries")
    for (o, pos, sh) in places:
        ctx.label(f"operand{o}:" + ("first" if pos == 0 else "last" if pos == d - 1 else "interior"))
    if len(places) == 2:
        ctx.label("same_position" if places[0][1] == places[1][1] else "different_positions")
    if case["zero"]:
        ctx.label("zero_core_in_Y1")
    if any(A is B for A, B in zip(Y1, Y2)):
        ctx.label("shared_core_objects")
    ctx.nontrivial(True)                                            # the squares of the entries of a scaled core are not representable
    snaps = snapshot(Y1), snapshot(Y2), snapshot(Y1_0), snapshot(Y2_0)
    if op == "scalar":
        v, p, ref, (rv, rp), _, _ = run_scalar(ctx, Y1, Y2, None, None, None)
        g = Guard(ctx, "mul_scalar(Y2, Y1, use_stab=True)")
        w, q = check_stab_pair(g, g.lib(teneva.mul_scalar, Y2, Y1, use_stab=True), "mul_scalar")
        check_scalar_value(g, ctx, w, q, ref, rv, rp, "swapped arguments")
        agree_stab(ctx, "mul_scalar(Y1, Y2) vs mul_scalar(Y2, Y1), extreme cores", (v, p), (w, q), None if ref.zero else ref.tol)
        shifted_stab(ctx, "mul_scalar(Y1, Y2, use_stab=True)", (v, p), ctx.lib(teneva.mul_scalar, Y1_0, Y2_0, use_stab=True), S[0] + S[1], exact)
        shifted_stab(ctx, "mul_scalar(Y2, Y1, use_stab=True)", (w, q), ctx.lib(teneva.mul_scalar, Y2_0, Y1_0, use_stab=True), S[0] + S[1], exact)
    elif op == "norm":
        for (Y, Y0, St, nm) in ((Y1, Y1_0, S[0], "Y1"), (Y2, Y2_0, S[1], "Y2")):
            z, q, _, _, _ = run_norm(ctx, Y, None, None)
            shifted_stab(ctx, f"norm({nm}, use_stab=True)", (z, q), ctx.lib(teneva.norm, Y0, use_stab=True), St, exact, half=True)
    else:
        orders = [(Y1, Y2, Y1_0, Y2_0, "accuracy(Y1, Y2)")]
        if not case["zero"]:
            orders.append((Y2, Y1, Y2_0, Y1_0, "accuracy(Y2, Y1)"))
        for (A, B, A0, B0, nm) in orders:
            acc, _ = run_accuracy(ctx, A, B, None, None, None)
            if S[0] == S[1] and exact:
                same_factor_accuracy(ctx, nm, acc, float(ctx.lib(teneva.accuracy, A0, B0)), S[0])
    for Y, sn, nm in zip((Y1, Y2, Y1_0, Y2_0), snaps, ("Y1", "Y2", "ordinary Y1", "ordinary Y2")):
        unchanged(ctx, Y, sn, "extreme cores: " + nm)


# ------------------------------------------------------------------------------------------- cores of subnormal numbers
# A core whose LARGEST entry is a subnormal double (max modulus below 2^-1022): teneva.mul(Y, 2.**-1060) and teneva.mul(1e-320, Y) put
# the whole factor into core 0, teneva.const(n, 1e-320) into the last core, a weight / boundary core may be scaled by 2^-1040.  Every
# such tensor is a valid input (finite entries, total norm within 2^+-30000); the exponent of its core is p = floor(log2 max) in
# -1074..-1023, 2^p is a (subnormal) double and G / 2^p is exact, whereas the reciprocal 2^-p is NOT a double for p <= -1024.
# The entries of such a core carry few bits (52 + p + 1074 - 1022 of them): the tensor that is REALLY handed over is the reference, and
# its "mantissa tensor" - the subnormal cores scaled back up by ldexp, which is exact - is the ordinary counterpart, so that the
# shift relation is exact in that direction whatever was lost when the core was produced.
# Oracles: no exception; core_stab itself (mantissa core with max modulus in [1, 2), Python-int exponent, G = 2^p Q bit for bit, p0
# added, thr honoured, the shift relation); everything of run_scalar / run_norm / run_accuracy / run_orth / run_truncate against the
# unbounded-exponent reference; the shift relations of extreme_cores / one_core / extreme_pairs against the mantissa tensor.

SUBN_MAG = st.one_of(st.integers(1020, 1066), st.integers(1030, 1066), st.integers(1040, 1066), st.sampled_from([1018, 1023, 1024, 1040, 1060, 1066]))
SUBN_FORMS = XFORMS + ["const", "const", "mul"]
SUBN_OPS = ["core_stab", "scalar", "scalar", "norm", "accuracy", "accuracy", "orth", "orth", "truncate", "truncate"]
SUBN_NUMBERS = [1.0, 1.0, 1.0, 1.25, 1.7, 1.9999999]            # number = this times 2^-mag for the producers teneva.mul / teneva.const


@st.composite
def subnormal_cases(draw, tier):
    case = draw(extreme_cases(tier))
    case["Y1"]["ends"] = draw(st.sampled_from(ENDS))
    case["mag"] = [draw(SUBN_MAG), draw(SUBN_MAG)]
    case["neg"] = [True, True]
    case["t0"] = [draw(st.integers(-6, 6)), draw(st.integers(-6, 6)), draw(st.integers(-8, 8))]
    # one more core, of operand 1 / 2 / both, is HUGE (times 2^512..1000): a tiny core balanced by a huge one, the total is moderate
    case["balance"] = draw(st.sampled_from([0, 0, 0, 0, 1, 2, 3, 3]))
    case["bmag"] = draw(XMAG)
    case["bj"] = draw(st.integers(0, 10 ** 6))
    case["form"] = draw(st.sampled_from(SUBN_FORMS))
    case["op"] = draw(st.sampled_from(SUBN_OPS))
    case["cm"] = draw(st.sampled_from(SUBN_NUMBERS))
    case["csign"] = draw(st.sampled_from([1, 1, -1]))
    case["p0"] = draw(st.one_of(st.none(), st.just(0), st.integers(-30000, 30000)))
    case["k"] = draw(st.sampled_from(["first", "last", "last", "mid", "frac", "at_subnormal"]))
    case["kf"] = draw(st.integers(0, 10 ** 6))
    case["e"] = draw(st.sampled_from([1e-8, 1e-5, 1e-3, 0.1]))
    return case


def subnormal_pair(case, ctx):
    """(Y1, Y2) with one or two cores of subnormal numbers, their mantissa tensors (M1, M2) (those cores scaled back up, exactly), the
    per-core log2 shifts of both, the placements and the form."""
    d = case["Y1"]["d"]
    tensor_op = case["op"] in ("orth", "truncate", "core_stab")
    form = case["form"]
    if tensor_op:
        # one tensor is looked at: the placements go to operand 1 (same position twice -> the neighbour)
        form = {"one2": "one1", "two2": "two1", "same": "one1", "same_other": "two1", "split": "two1", "split_pos": "two1", "mul_both": "mul"}.get(form, form)
    if form == "const":
        places = [(1, d - 1, -case["mag"][0])]
    else:
        places, form = extreme_placements(dict(case, form=form))
        if tensor_op and len(places) == 2:
            (o, j, a), (_, k, b) = places
            places = [(1, j, a), (1, k if k != j else (j + 1) % d, b)]
        if case["op"] == "truncate" and d == 2:
            places = places[:1]                                      # see ASSUMPTIONS: the even share 2^(p/d) of the result must be a normal number
    free = [j for j in range(d) if all(j != pos for (_, pos, _) in places)]
    bj = free[case["bj"] % len(free)] if free and case["balance"] else None
    Y1_0, Y2_0 = ordinary_pair(case, places if bj is None else places + [(0, bj, 0)])
    if bj is not None:
        Y1_0, Y2_0, big = list(Y1_0), list(Y2_0), {}
        for o, Y in ((1, Y1_0), (2, Y2_0)):
            if case["balance"] & o:
                G = Y[bj]
                if id(G) not in big:
                    big[id(G)] = (np.ldexp(G, case["bmag"]), G)      # exact: the core is of size 2^t0
                Y[bj] = big[id(G)][0]
    Y1, Y2, done = list(Y1_0), list(Y2_0), {}
    number = case["csign"] * math.ldexp(case["cm"], places[0][2])
    if form == "const":
        # constant data of a subnormal value: cores of ones, the value sits in the last core
        Y1 = ctx.lib(teneva.const, mode_sizes(case["Y1"]), number)
    elif form in ("mul", "mul_both"):
        # the library as the producer: teneva.mul(number, Y) multiplies core 0 by the (subnormal) number
        Y1 = ctx.lib(teneva.mul, number, Y1_0)
        if len(places) == 2:
            Y2 = ctx.lib(teneva.mul, Y2_0, number)
    else:
        for (o, pos, sh) in places:
            Y = Y1 if o == 1 else Y2
            G = Y[pos]
            key = (id(G), sh)
            if key not in done:                                     # a core object shared by the two tensors stays shared
                done[key] = (np.ldexp(G, sh), G)
            Y[pos] = done[key][0]
    back = {}
    shs = [np.zeros(d, dtype=np.int64), np.zeros(d, dtype=np.int64)]
    M = [list(Y1), list(Y2)]
    for (o, pos, sh) in places:
        H = (Y1, Y2)[o - 1][pos]
        if id(H) not in back:
            back[id(H)] = (np.ldexp(H, -sh), H)                     # scaling up by a power of two: exact
        M[o - 1][pos] = back[id(H)][0]
        shs[o - 1][pos] = sh
    return Y1, Y2, M[0], M[1], shs, places, form


def check_core_stab(ctx, G, p0, what):
    """core_stab(G, p0): the split of one core into a mantissa core and an exponent.  Returns (Q, p - p0)."""
    g = Guard(ctx, f"core_stab({what})")
    snap = G.tobytes()
    res = g.lib(teneva.core_stab, G) if p0 is None else g.lib(teneva.core_stab, G, p0)
    p0 = 0 if p0 is None else p0
    Q, p = check_stab_pair(g, res, "core_stab")
    g.check(G.tobytes() == snap, "the argument was modified")
    g.check(isinstance(Q, np.ndarray) and Q.shape == G.shape and Q.dtype == np.float64, "the scaled core is not a float array of the shape of the core",
            got=repr(type(Q)), shape=getattr(Q, "shape", None))
    g.check(is_pyint(p), "exponent is not a Python int", p=repr(p))
    g.check(bool(np.all(np.isfinite(Q))), "the scaled core has non-finite entries", p=p)
    vmax = float(np.max(np.abs(G)))
    if vmax == 0:
        g.check(not np.any(Q) and p == p0, "a zero core must be returned as it is, with the exponent p0", p=p, p0=p0)
        return Q, 0
    e, mq = p - p0, float(np.max(np.abs(Q)))
    # p = floor(fl(log2 max|G|)), |log2| <= 1075 is rounded to 2^-42: the mantissa core has its maximum in [2^(-2^-42), 2^(1+2^-42))
    g.check(1.0 - 2.0 ** -40 <= mq <= 2.0 * (1.0 + 2.0 ** -40), "largest modulus of the scaled core not in [1, 2)", max_modulus=mq, p=p, p0=p0, core_max=vmax)
    g.check(e in (math.frexp(vmax)[1] - 1, math.frexp(vmax)[1]), "exponent is not floor(log2(max modulus)) (+ p0)", p=p, p0=p0, core_max=vmax)
    # G = 2^p Q, exactly: a division by a power of two is exact unless the quotient is subnormal (entries within 2^-900 of the maximum)
    g.check(np.ldexp(Q, e).tobytes() == G.tobytes() or bool(np.all(np.ldexp(Q, e) == G)), "2^p * Q is not the core, bit for bit", p=p, p0=p0, core_max=vmax, max_modulus=mq)
    # the threshold: at or below it the core is returned unscaled, above it the split is the same
    Qt, pt = g.lib(teneva.core_stab, G, p0, 2.0 * vmax)
    g.check(is_pyint(pt) and pt == p0 and Qt.shape == G.shape and Qt.tobytes() == G.tobytes(), "thr above the largest modulus: the core must be returned unscaled with the exponent p0", p=pt, p0=p0)
    Qs, ps = g.lib(teneva.core_stab, G, p0, 0.5 * vmax)
    g.check(ps == p and Qs.tobytes() == Q.tobytes(), "thr below the largest modulus: the split differs from the one without thr", p=ps, p_default=p)
    return Q, e


def prop_subnormal(case, ctx):
    Y1, Y2, M1, M2, shs, places, form = subnormal_pair(case, ctx)
    d, op, rel = len(Y1), case["op"], case["rel"]
    S = [int(np.sum(shs[0])), int(np.sum(shs[1]))]
    placed = [((Y1, Y2)[o - 1][pos], (M1, M2)[o - 1][pos], sh, o, pos) for (o, pos, sh) in places]
    depth = [math.frexp(float(np.max(np.abs(H))))[1] - 1 for (H, _, _, _, _) in placed if np.any(H)]
    ctx.label("op:" + op, "form:" + form, "rel:" + rel, f"d={d}" if d in (2, 3, 4, 50, 300, 1000, 3000) else "d=other",
              "others:O(1)" if case["moderate"] else "others:any_total", f"subnormal_cores={sum(1 for x in depth if x < -1022)}")
    for x in depth:
        ctx.label("core_max:" + ("normal" if x >= -1022 else "2^-1023" if x == -1023 else "2^-1024..-1040" if x >= -1040 else
                                 "2^-1041..-1060" if x >= -1060 else "2^-1061..-1074"))
    if len(depth) < len(placed):
        ctx.label("core_flushed_to_zero")
    for (H, B, sh, o, pos) in placed:
        ctx.label(f"operand{o}:" + ("first" if pos == 0 else "last" if pos == d - 1 else "interior"))
    if case["zero"]:
        ctx.label("zero_core_in_Y1")
    if any(float(np.max(np.abs(G))) > 2.0 ** 500 for G in Y1 + Y2):
        ctx.label("balanced_by_a_huge_core")
    ctx.nontrivial(any(x < -1022 for x in depth))                  # the squares of the entries of such a core are all zero
    snaps = snapshot(Y1), snapshot(Y2), snapshot(M1), snapshot(M2)
    for (H, B, sh, _, _) in placed:                                 # harness: the mantissa tensor scaled down is the tensor under test, exactly
        ctx.check(bool(np.all(np.isfinite(B))) and np.ldexp(B, sh).tobytes() == H.tobytes(), "harness: scaling a subnormal core up is exact")
    if op == "core_stab":
        cores = [(H, B, sh, f"core {pos} of Y{o}, max modulus 2^{math.frexp(float(np.max(np.abs(H))))[1] - 1 if np.any(H) else '-inf'}") for (H, B, sh, o, pos) in placed]
        j = case["pj"] % d
        cores.append((Y1[j], None, 0, f"core {j} of Y1"))
        ctx.inner(len(cores))
        for (H, B, sh, what) in cores:
            Q, e = check_core_stab(ctx, H, case["p0"], what)
            if B is None or not np.any(H):
                continue
            Q0, e0 = check_core_stab(ctx, B, case["p0"], what + ", scaled back up")
            if near_pow2(B):
                ctx.check(abs(e - sh - e0) <= 1 and np.ldexp(Q, e - sh - e0).tobytes() == Q0.tobytes(), f"core_stab({what}): scaling the core by 2^s changed the denoted core",
                          s=sh, exponent=e, exponent_scaled_back=e0)
                ctx.label("shift:same_value")
            else:
                ctx.check(e == e0 + sh and Q.tobytes() == Q0.tobytes(), f"core_stab({what}): scaling the core by 2^s must shift the exponent by s and keep the scaled core "
                          "bit-identical", s=sh, exponent=e, exponent_scaled_back=e0)
                ctx.label("shift:bitwise")
    elif op == "scalar":
        v, p, ref, (rv, rp), _, _ = run_scalar(ctx, Y1, Y2, None, None, None)
        g = Guard(ctx, "mul_scalar(Y2, Y1, use_stab=True)")
        w, q = check_stab_pair(g, g.lib(teneva.mul_scalar, Y2, Y1, use_stab=True), "mul_scalar")
        check_scalar_value(g, ctx, w, q, ref, rv, rp, "swapped arguments")
        agree_stab(ctx, "mul_scalar(Y1, Y2) vs mul_scalar(Y2, Y1), subnormal cores", (v, p), (w, q), None if ref.zero else ref.tol)
        shifted_stab(ctx, "mul_scalar(Y1, Y2, use_stab=True)", (v, p), ctx.lib(teneva.mul_scalar, M1, M2, use_stab=True), S[0] + S[1], True)
        shifted_stab(ctx, "mul_scalar(Y2, Y1, use_stab=True)", (w, q), ctx.lib(teneva.mul_scalar, M2, M1, use_stab=True), S[0] + S[1], True)
    elif op == "norm":
        for (Y, Y0, St, nm) in ((Y1, M1, S[0], "Y1"), (Y2, M2, S[1], "Y2")):
            z, q, _, _, _ = run_norm(ctx, Y, None, None)
            shifted_stab(ctx, f"norm({nm}, use_stab=True)", (z, q), ctx.lib(teneva.norm, Y0, use_stab=True), St, True, half=True)
    elif op == "accuracy":
        for (A, B, A0, B0, nm) in ((Y1, Y2, M1, M2, "accuracy(Y1, Y2)"), (Y2, Y1, M2, M1, "accuracy(Y2, Y1)")):
            if Gram(B, B).zero:                                     # the reference tensor is exactly zero: the documented return is undecided
                ctx.label("accuracy:zero_reference_skipped")
                continue
            acc, _ = run_accuracy(ctx, A, B, None, None, None)
            if S[0] == S[1]:
                same_factor_accuracy(ctx, nm, acc, float(ctx.lib(teneva.accuracy, A0, B0)), S[0])
    else:
        Y, Y0, sh1 = Y1, M1, shs[0]
        state = scaling_state(Y, Y0, sh1)
        ctx.check(state != "lossy", "harness: the mantissa tensor is an exact rescaling")
        ctx.label("scaling:" + state)
        pos = [int(j) for j in np.nonzero(sh1)[0]]
        what = f"cores {pos} times 2^{[int(sh1[j]) for j in pos]}"
        if op == "orth":
            kmain = {"first": 0, "last": d - 1, "mid": d // 2, "frac": case["kf"] % d, "at_subnormal": pos[case["kf"] % len(pos)]}[case["k"]]
            pivots = list(range(d)) if d <= 4 else [kmain]
            ctx.inner(len(pivots))
            for k in pivots:
                ctx.label("pivot:" + ("first" if k == 0 else "last" if k == d - 1 else "interior"), "pivot_subnormal" if k in pos else "pivot_ordinary")
                Z, p, gy = run_orth(ctx, Y, k)
                if Z is None:
                    continue
                orth_shift(ctx, f"orthogonalize(k={k}, use_stab=True), {what}", Y0, k, S[0], state, Z, p)
        else:
            e = case["e"]
            truncate_shift(ctx, f"truncate(e={e}, use_stab=True), {what}", Y, Y0, e, S[0], state)
    for Y, sn, nm in zip((Y1, Y2, M1, M2), snaps, ("Y1", "Y2", "mantissa tensor of Y1", "mantissa tensor of Y2")):
        unchanged(ctx, Y, sn, "subnormal cores: " + nm)


# ------------------------------------------------------------------------------------------- truncate(orth=False, use_stab=True)
# The documented spelling for a tensor the caller has orthogonalised to the last core himself: no sweep is performed and e is the ABSOLUTE
# Frobenius threshold of every core SVD.  There is nothing to rescale, so the stabilisation flag must not change the meaning of e: whenever
# the plain call is representable the stabilised one returns the same ranks and the same tensor up to rounding (property text), and the
# result lies within sqrt(d-1) e of the input.  Tensors whose norm is far from 1 (2^+-40, up to 2^+-480) - there an absolute and a
# relative reading of e differ by that factor - with e placed BETWEEN singular values:
# family spectrum: every unfolding has the prescribed singular values 2^L m_a (strong m in [.5, 1], weak ones w [.5, 1], w = 1e-2..1e-5):
#   superdiagonal tensor sum_a m_a q_a^(0) x ... x q_a^(d-1) with orthonormal q_a^(k), written with left-orthogonal cores, the scale in the
#   last core, a random orthogonal gauge between neighbouring cores; e = 4 sqrt(R) w 2^L (between: the weak part goes, a factor 4 to the
#   tail of the weak values, a factor >= 3 to the smallest strong one) / w 2^L / 16 (below everything) / 4 sqrt(R) 2^L (above everything);
# family generic: the module's truncate tensors (a sum of two random tensors, the second one 2^-q smaller) with total scale 2^L,
#   orthogonalised by teneva.orthogonalize(Y, d-1), e = c ||Y||, c in 1e-6..0.3 (>= 1e-6: the eigh floor of the rank decision is 1e-8).

OF_SCALES = st.one_of(st.sampled_from([40, -40, 40, -40, 0, 1, -1, 100, -100, 300, -300, 450, -450]), st.integers(-450, 450), st.integers(-60, 60))
OF_PATTERNS = ["uniform", "uniform", "left", "right", "single", "alt", "alt_neg"]      # every partial product stays representable


@st.composite
def orth_false_cases(draw, tier):
    fam = draw(st.sampled_from(["spectrum", "spectrum", "spectrum", "generic", "generic"]))
    case = {"fam": fam, "L": draw(OF_SCALES), "r": draw(st.sampled_from([None, None, None, None, 1e12, 3, 2, 1])),
            "seed": draw(st.integers(0, 2 ** 31 - 1))}
    if fam == "spectrum":
        a = draw(st.integers(1, 3))
        b = min(draw(st.sampled_from([0, 1, 1, 2, 2])), 4 - a)
        case.update(d=draw(st.sampled_from([2, 3, 4, 5, 6, 8, 12] if tier == "quick" else [2, 3, 4, 5, 6, 8, 12, 30, 100])), a=a, b=b,
                    n=a + b + draw(st.integers(0, 2)), w=draw(st.sampled_from([2, 3, 4, 5])),
                    where=draw(st.sampled_from(["between", "between", "between", "below", "above"])), gauge=draw(st.booleans()))
    else:
        d = draw(st.one_of(st.sampled_from([2, 3, 4, 6, 10, 30] if tier == "quick" else [2, 3, 4, 6, 10, 30, 50]), st.integers(2, 12)))
        Ya = draw(tensor_specs(d))
        Yb = draw(tensor_specs(d))
        Yb["nm"] = Ya["nm"]
        Ya["rp"] = [min(2, x) for x in Ya["rp"]]
        Yb["rp"] = [min(2, x) for x in Yb["rp"]]
        case.update(Ya=Ya, Yb=Yb, sum=draw(st.integers(0, 3)) > 0, q=draw(st.integers(0, 30)),
                    c=draw(st.sampled_from([1e-6, 1e-4, 1e-2, 0.1, 0.3])),
                    sc={"pat": draw(st.sampled_from(OF_PATTERNS)), "total": case["L"], "amp": draw(st.integers(0, 200))})
    return case


def spectrum_tensor(case):
    """Left-orthogonal cores of sum_a 2^L m_a q_a^(0) x ... x q_a^(d-1): every unfolding has the singular values 2^L m_a.  Returns
    (cores, m)."""
    d, n, a, b, L = case["d"], case["n"], case["a"], case["b"], case["L"]
    R = a + b
    rng = np.random.default_rng(case["seed"])
    m = np.concatenate([rng.uniform(0.5, 1.0, size=a), 10.0 ** -case["w"] * rng.uniform(0.5, 1.0, size=b)])
    Q = [np.linalg.qr(rng.normal(size=(n, n)))[0][:, :R] for _ in range(d)]
    Y = []
    for k in range(d):
        if k == 0:
            G = Q[0][None, :, :].copy()                                         # (1, n, R)
        else:
            G = np.zeros((R, n, R))
            for al in range(R):
                G[al, :, al] = Q[k][:, al]
        if k == d - 1:
            G = (G @ m)[:, :, None]                                             # (R, n, 1): column al of Q times m_al
            if d == 1:
                G = G.reshape(1, n, 1)
        Y.append(G)
    if d >= 2 and Y[0].shape[2] != R:
        raise AssertionError
    if case["gauge"]:
        for k in range(d - 1):
            W = np.linalg.qr(rng.normal(size=(R, R)))[0]
            Y[k] = np.einsum('aib,bc->aic', Y[k], W)
            Y[k + 1] = np.einsum('cb,bid->cid', W.T, Y[k + 1])
    Y[-1] = np.ldexp(Y[-1], L)
    return Y, m


def prop_orth_false(case, ctx):
    fam, L, r = case["fam"], case["L"], case["r"]
    if fam == "spectrum":
        Y, m = spectrum_tensor(case)
        d, R, w = len(Y), len(m), 10.0 ** -case["w"]
        where = case["where"] if case["b"] else ("below" if case["where"] == "between" else case["where"])
        c = {"between": 4 * math.sqrt(R) * w, "below": w / 16, "above": 4 * math.sqrt(R)}[where]
        e_abs = math.ldexp(c, L)
        ctx.label("e:" + where, f"strong={case['a']}", f"weak={case['b']}", "gauge" if case["gauge"] else "no_gauge")
        for k in range(d - 1):                                                 # harness: the cores left of the last one are left-orthogonal
            df = oracle.ortho_defect_left(Y[k])
            ctx.check(df <= 64 * EPS * max(Y[k].shape), "harness: spectrum tensor is not orthogonalised to the last core", core=k, defect=df)
    else:
        d = case["Ya"]["d"]
        s = scales(d, case["sc"], LO, HI)
        Ya = build(case["Ya"], s)
        if case["sum"]:
            Yb = build(case["Yb"], s)
            Yb[0] = Yb[0] * 2.0 ** -case["q"]
            Ya = block_diff(Ya, Yb)
        Y = ctx.lib(teneva.orthogonalize, Ya, d - 1)                            # the caller orthogonalises (plain sweep, representable)
        nrm = float(np.linalg.norm(Y[-1]))
        if oracle.wellformed(Y, oracle.shape_of(Ya)) is not None or not (2.0 ** -500 < nrm < 2.0 ** 500):
            ctx.label("plain_sweep_not_representable")
            return
        e_abs = case["c"] * nrm
        ctx.label(f"c={case['c']}", "pat:" + case["sc"]["pat"], "sum" if case["sum"] else "single")
    d = len(Y)
    n = oracle.shape_of(Y)
    ctx.label("fam:" + fam, f"d={d}" if d in (2, 3, 4, 5, 6, 8, 10, 12, 30) else "d=other", f"r={r}",
              "scale:" + ("2^+-40" if abs(L) == 40 else "O(1)" if abs(L) <= 3 else "moderate" if abs(L) < 40 else "large" if abs(L) <= 200 else "extreme"))
    ctx.nontrivial(abs(L) >= 20)                                               # an absolute and a relative reading of e differ by 2^L
    kw = {} if r is None else {"r": r}
    what = f"truncate(e={e_abs!r}, orth=False, use_stab=True{'' if r is None else ', r=' + repr(r)})"
    g = Guard(ctx, what)
    snap = snapshot(Y)
    Ts = g.lib(teneva.truncate, Y, e_abs, orth=False, use_stab=True, **kw)
    unchanged(ctx, Y, snap, what)
    Tp = ctx.lib(teneva.truncate, Y, e_abs, orth=False, **kw)
    unchanged(ctx, Y, snap, "truncate(orth=False)")
    why = oracle.wellformed(Ts, n)
    g.check(why is None, f"result not well-formed / finite / same shape: {why}")
    rin, rs = oracle.ranks_of(Y), oracle.ranks_of(Ts)
    g.check(all(x <= y for x, y in zip(rs, rin)), "a rank increased", rin=rin[:12], rout=rs[:12])
    if r is not None:
        g.check(max(rs) <= max(1, int(r)), "a rank exceeds r", rout=rs[:12], r=r)
    if rs != rin:
        ctx.label("rank_reduced")
    if max(rs) > 1 and rs != rin:
        ctx.label("rank_reduced_partly")
    if fam == "spectrum" and r is None:
        ctx.label("ranks_as_predicted" if rs[1:-1] == [{"between": case["a"], "below": R, "above": 1}[where]] * (d - 1) else "ranks_not_as_predicted")
    gy = Gram(Y, Y)
    ctx.check(not gy.zero, "harness: the tensor is not zero")
    R = max(rin)
    # the requested (absolute) accuracy: every step cuts a tail of Frobenius norm <= e from a tensor in orthogonal form
    if r is None or r >= R:
        r2, t2, a_, b_ = rel_dist2(Ts, 0, Y, gy)
        me, ee = math.frexp(e_abs)
        e_rel2 = pow2(me * me / gy.m, 2 * ee - gy.p)                           # e^2 / ||Y||^2, integer exponent arithmetic
        bound = (d - 1) * e_rel2 * (1 + 1e-3) ** 2 + 16 * (d - 1) * R * EPS + 2 * t2
        g.check(r2 <= bound, "result is farther from the input than sqrt(d-1) e (relative distance^2 from three reference Gram values)",
                dist2=r2, bound=bound, e_rel2=e_rel2, rounding=t2, ranks_in=rin[:10], ranks_out=rs[:10])
        ctx.label("distance_asserted")
    # stabilised = plain: the plain call is representable (norm within 2^+-500, e^2 and the squares of the last core are normal numbers)
    whyp = oracle.wellformed(Tp, n)
    ctx.check(whyp is None, f"truncate(orth=False): result not well-formed / finite: {whyp}")
    rp = oracle.ranks_of(Tp)
    g.check(rs == rp, "the ranks differ from those of the plain call although everything is representable (e is an absolute threshold "
            "between singular values for both)", ranks_stab=rs[:12], ranks_plain=rp[:12], ranks_in=rin[:12])
    if bitwise_same(Ts, Tp):
        ctx.label("agree:bitwise")
    else:
        r2p, t2p, _, _ = rel_dist2(Ts, 0, Tp)
        g.check(r2p <= 2 * t2p + 64 * (d - 1) * R * EPS, "differs from the plain result beyond rounding although everything is representable", dist2=r2p,
                bound=2 * t2p + 64 * (d - 1) * R * EPS)
        ctx.label("agree:within_bound")


# ------------------------------------------------------------------------------------------- small cores (underflow side)
# Before repo commit 79c85eb core_stab left every state below 1e-100 unscaled, so one small step made the following ones underflow
# (norm = 0 for entries of 2^-200 in three cores).  This sub-check keeps the underflow side densely covered: all totals negative.

@st.composite
def tiny_cases(draw, tier):
    op = draw(st.sampled_from(["norm", "norm", "scalar", "accuracy", "orth", "truncate"]))
    strat = {"norm": norm_cases, "scalar": scalar_cases, "accuracy": accuracy_cases, "orth": orth_cases, "truncate": truncate_cases}[op]
    case = draw(strat(tier, tiny=True))
    case["op"] = op
    return case


def prop_tiny(case, ctx):
    ctx.label("op:" + case["op"])
    {"norm": prop_norm, "scalar": prop_scalar, "accuracy": prop_accuracy, "orth": prop_orth, "truncate": prop_truncate}[case["op"]](case, ctx)


# ------------------------------------------------------------------------------------------- very long chains, huge total exponent, tight e
# The factor 2^p gathered by the orthogonalisation (|p| up to 30000) is handed back to the d cores after the rounding.  A relative error
# delta in the per-core share is raised to the power d: the SCALE of the result is off by d delta although its direction, its ranks and
# its finiteness are right.  Such an error is visible only when d AND |p| are large and the measurement is finer than the distance from
# three Gram values (floor 1e-5 for d = 3000): this sub-check draws d in 1000..4096, | log2 ||Y|| | up to 29900 and e = 1e-8 .. 1e-12 and
# relies on check_scale (ratio of reference Gram values of the result and of the input).

LONG_PATTERNS = ["uniform", "uniform", "uniform", "alt", "alt_neg", "halves", "left", "right"]
LONG_LIMIT = 29900            # | log2 ||Y|| | of the generated tensor (quantifier of the property: 2^-30000 .. 2^+30000)


@st.composite
def long_cases(draw, tier):
    d = draw(st.one_of(st.integers(1000, 4096), st.integers(2500, 4096), st.sampled_from([1000, 2048, 3000, 4095, 4096])))
    spec = draw(tensor_specs(d))
    spec["over"] = False
    spec["rp"] = [min(2, x) for x in spec["rp"]]
    kind = draw(st.sampled_from(["rank1", "generic", "generic"]))
    if kind == "rank1":
        spec["ends"] = "all1"
    else:
        # unfoldings of moderate condition: a chain of 1 x 1 modes is one matrix product (numerically of rank one after a few hundred
        # factors) and identity + noise 2^-30 has a second singular value of 1e-9 - both sit below the eigh floor of the rank decision
        if max(spec["nm"]) == 1:
            spec["nm"] = [2] + spec["nm"][1:]
        if spec["fam"] == "eye":
            spec["noise"] = 3 + spec["noise"] % 4
    mag = draw(st.one_of(st.integers(20000, 29500), st.integers(20000, 29500), st.integers(3000, 29500)))
    return {"Y": spec, "kind": kind, "e": draw(st.sampled_from([1e-10, 1e-10, 1e-11, 1e-12, 1e-8])),
            "sc": {"pat": draw(st.sampled_from(LONG_PATTERNS)), "total": mag * draw(st.sampled_from([-1, 1])), "amp": draw(st.integers(0, 480))}}


def prop_long(case, ctx):
    spec, e = case["Y"], case["e"]
    d = spec["d"]
    s = scales(d, case["sc"], LO, HI)
    Y = build(spec, s)
    gy = Gram(Y, Y)
    ctx.check(not gy.zero, "harness: the tensor is not zero")
    L = gy.log2() / 2
    if abs(L) > LONG_LIMIT:
        # the bulk adds up to +-1 per core to the drawn total: bring the norm back into the range of the property (exact scaling)
        q = int(math.ceil((abs(L) - LONG_LIMIT) / d)) * (1 if L > 0 else -1)
        Y = [np.ldexp(G, -q) for G in Y]
        gy = Gram(Y, Y)
        L = gy.log2() / 2
        ctx.label("norm_brought_into_range")
    ctx.label("kind:" + case["kind"], "fam:" + spec["fam"], "pat:" + case["sc"]["pat"], f"e={e}", "d<2000" if d < 2000 else "d<3000" if d < 3000 else "d>=3000",
              "huge" if L > 0 else "tiny", "|log2 norm|>=20000" if abs(L) >= 20000 else "|log2 norm|<20000")
    Z, _ = run_truncate(ctx, Y, e, gy=gy)
    ctx.label("rank_kept" if oracle.ranks_of(Z) == oracle.ranks_of(Y) else "rank_cut")


# ------------------------------------------------------------------------------------------- storage type of the cores

@st.composite
def storage_cases(draw, tier):
    long = draw(st.integers(0, 3)) == 0
    d = draw(st.sampled_from([30, 60, 120, 400])) if long else draw(st.integers(2, 6))
    n = [draw(st.integers(1, 3 if long else 4)) for _ in range(d)]
    rmax = 2 if long else 3
    r = [1] + [draw(st.integers(1, rmax)) for _ in range(d - 1)] + [1]
    return {"n": n, "r": r, "seed": draw(st.integers(0, 2 ** 32 - 1)), "store": draw(st.sampled_from(["int64", "int32", "mixed", "some"])),
            "lo": draw(st.sampled_from([-3, -3, 0, -9])), "k": draw(st.integers(0, d - 1)), "log10e": draw(st.sampled_from([-10, -6, -2, -1])),
            "at": draw(st.integers(0, 10 ** 6))}


def prop_storage(case, ctx):
    """The same tensor with small-integer cores, once in float64 arrays and once in integer arrays (all cores / every other core / one core):
    every stabilised routine must return bit-for-bit the same (value, exponent) resp. cores - the first thing each of them does to a core is
    the exact division by a power of two.  What the float64 results themselves must be is settled by the other sub-checks."""
    n, r, d = case["n"], case["r"], len(case["n"])
    rng = np.random.default_rng(case["seed"])
    Yf, Y2f = [[rng.integers(case["lo"], 4, size=(r[k], n[k], r[k + 1])).astype(float) for k in range(d)] for _ in range(2)]
    for Y in (Yf, Y2f):
        for G in Y:
            if not np.any(G):
                G[0, 0, 0] = 1.0
    st_ = case["store"]
    pick = {"int64": lambda k: np.int64, "int32": lambda k: np.int32, "mixed": lambda k: np.int64 if k % 2 == 0 else None,
            "some": lambda k: np.int32 if k == case["at"] % d else None}[st_]
    Yi = [G.astype(pick(k)) if pick(k) else G.copy() for k, G in enumerate(Yf)]
    Y2i = [G.astype(pick(k)) if pick(k) else G.copy() for k, G in enumerate(Y2f)]
    ctx.label("stored_as:" + st_, "long" if d >= 30 else "short", f"entries>={case['lo']}")
    ctx.nontrivial(max(r) >= 2)
    snap = snapshot(Yi)

    def same(a, b):
        if isinstance(a, (list, tuple)):
            return isinstance(b, (list, tuple)) and len(a) == len(b) and all(same(x, y) for x, y in zip(a, b))
        if isinstance(a, np.ndarray):
            return isinstance(b, np.ndarray) and a.shape == b.shape and a.dtype == b.dtype and np.array_equal(a, b, equal_nan=True)
        return type(a) == type(b) and (a == b or (a != a and b != b))

    e = 10.0 ** case["log10e"]
    calls = [("mul_scalar(use_stab)", lambda A, B: teneva.mul_scalar(A, B, use_stab=True)), ("mul_scalar(use_stab), swapped", lambda A, B: teneva.mul_scalar(B, A, use_stab=True)),
             ("norm(use_stab)", lambda A, B: teneva.norm(A, use_stab=True)), ("orthogonalize(use_stab)", lambda A, B: teneva.orthogonalize(A, case["k"], use_stab=True)),
             ("truncate(use_stab)", lambda A, B: teneva.truncate(A, e, use_stab=True)), ("accuracy", lambda A, B: teneva.accuracy(A, B)),
             ("accuracy (second operand stored as integers only)", None)]
    with np.errstate(all="ignore"):
        for what, fn in calls:
            if fn is None:
                a, b = ctx.lib(teneva.accuracy, Yf, Y2i), ctx.lib(teneva.accuracy, Yf, Y2f)
            else:
                a, b = ctx.lib(fn, Yi, Y2i), ctx.lib(fn, Yf, Y2f)
            ctx.check(same(a, b), f"{what}: the result for integer-stored cores differs from that for the float64 copy of the same cores",
                      stored=_brief(a), float64=_brief(b), store=st_)
            ctx.inner(1)
    unchanged(ctx, Yi, snap, "stabilised routines (integer-stored cores)")


def _brief(x):
    if isinstance(x, (list, tuple)):
        return [_brief(v) for v in list(x)[:4]]
    if isinstance(x, np.ndarray):
        return {"dtype": str(x.dtype), "shape": list(x.shape), "max": float(np.abs(x).max()) if x.size else 0.0}
    return x


SUBCHECKS = [
    Sub("scalar", prop_scalar, strategy=scalar_cases, quick=60, thorough=600),
    Sub("norm", prop_norm, strategy=norm_cases, quick=60, thorough=600),
    Sub("accuracy", prop_accuracy, strategy=accuracy_cases, quick=40, thorough=400),
    Sub("zero_terms", prop_accuracy, strategy=zero_term_cases, quick=30, thorough=300),
    Sub("orthogonalize", prop_orth, strategy=orth_cases, quick=30, thorough=300),
    Sub("truncate", prop_truncate, strategy=truncate_cases, quick=25, thorough=250),
    Sub("shared", prop_shared, strategy=shared_cases, quick=40, thorough=400),
    Sub("tiny", prop_tiny, strategy=tiny_cases, quick=40, thorough=400),
    Sub("one_core", prop_one_core, strategy=one_core_cases, quick=16, thorough=300),
    Sub("extreme_pairs", prop_extreme_pairs, strategy=extreme_pair_cases, quick=24, thorough=400),
    Sub("extreme_cores", prop_extreme, strategy=extreme_cases, quick=60, thorough=600),
    Sub("subnormal", prop_subnormal, strategy=subnormal_cases, quick=40, thorough=500),
    Sub("orth_false", prop_orth_false, strategy=orth_false_cases, quick=30, thorough=400),
    Sub("long_scale", prop_long, strategy=long_cases, quick=3, thorough=24),
    Sub("storage", prop_storage, strategy=storage_cases, quick=40, thorough=500),
]
