"""C19 - explicit constructors build exactly the tensor they describe.

const / delta / poly / vector_delta / matrix_delta are compared with the tensor their docstring describes (dense export by
an independent contraction); the random constructors are driven by an *auditing generator* passed as `seed` (teneva._rand
uses any non-int, non-None object as the generator), which records every request and dictates the values returned.
"""
import sys
import math
import importlib
import itertools
import numpy as np
from hypothesis import strategies as st

import harness.core  # noqa: F401  (sets sys.path for the code under test)
from harness.core import Sub, OracleFailure
from harness import gen, oracle
from harness.oracle import EPS, dense

import teneva

LEVEL = "exploration"
RULE = ("const/poly/random constructors: Hypothesis draws shapes (d 2..5(6), mode sizes 1..4(5) incl. forced size-1 modes, both "
        "list and ndarray spellings), values v (+-O(1), ints, 0, -0.0, +-1e-17, +-1e-16, +-1e-300, 3e5, 1e200, m*10^e), zero-index "
        "lists built around the protected index (copy / one mode changed / two modes changed / free rows), shifts / powers / "
        "scales, scalar and per-bond (ragged, over-ranked) rank profiles, int seeds, Generator instances and auditing/forcing "
        "generator objects. delta / vector_delta / matrix_delta: EXHAUSTIVE enumeration of every position including the "
        "negative spellings (delta: all shapes d 2..4 with mode sizes 1..6/5/4 plus long binary shapes, size <= 256, every "
        "signed position when size*2^d <= 2048, else non-negative + all-negative + rotating mixed mask; vector_delta q <= 5(12): "
        "every i in [-2^q, 2^q); matrix_delta q <= 5(7): every (i, j) in [-2^q, 2^q)^2). Non-trivial = non-empty zero list / a "
        "negative position / non-uniform rank profile or rank >= 2 / vector shift or non-default power; distinct by SHA-1 of the case. "
        "Call order (every (sub-check, shard) is a fresh process, so histories are built inside one case): delta_order repeats the "
        "exhaustive sweeps of vector_delta (q <= 7(10)), matrix_delta (q <= 4(6), boundary rows up to q = 5(7)) and delta (binary / "
        "cubic / nested / rectangular shape ladders) inside ONE case with the levels visited descending, zig-zag, twice ascending, "
        "descending-then-ascending and in two fixed permutations, vector and matrix sweeps interleaved both ways, positions ascending "
        "and descending; history draws a sequence of 2..8(14) calls of const / delta / poly / vector_delta / matrix_delta / seeded "
        "random constructors / rejected QTT requests that share parameters (one position on several quantisation levels and in "
        "both signed spellings, one shape / index / value pool with prefix, suffix and bumped variants), checks every call with "
        "the single-call oracle (= the result of the call in isolation), overwrites results already handed out (NaN / scaling), "
        "and repeats every int-seeded random call at the end (bit-identical cores). Non-trivial history = two calls that share a "
        "position on different levels or share a shape."
        " Positions of vector_delta / matrix_delta are also given as NumPy integer scalars (int64 / int32 / intp) and 0-d integer arrays, ONE such object for row and column and for two consecutive calls: same cores as for the Python int, object untouched.")
TOLERANCES = ("const/delta value: |got - v| <= (|ln|v|| + 4d + 4)*eps*|v| (the rounded exponent 1/d costs |ln|v||*eps/2, pow and the "
              "d-1 products the rest); zeros are exact zeros. poly: (32*(d+sum r+max n) + 8*(power+2))*eps*|scale|*sum|(i+shift)^power|. "
              "auditing generator: cores bit-for-bit equal to the Fortran-ordered cut of the returned flat vector. rand_stab: "
              "|entry - 1| <= [prod_k (eye(r_k,r_k+1) + delta*ones)]_00 - 1 + 32*(d+sum r+max n)*eps*(1+B), delta = 3*noise for forced "
              "draws (10*noise for real generators), plus the lower bound entry - 1 >= 3*noise*d when every forced draw is +3*noise.")
ASSUMPTIONS = ["d >= 2 for tensor shapes (library-wide precondition); q >= 1 for the QTT constructors",
               "indices inside the shape (const / delta: 0 <= i_k < n_k, delta also -n_k <= i_k < 0)",
               "poly: non-negative integer power (docstring: int, 'polynomial'); x**0 == 1 also for x == 0",
               "rand: a < b; rand_norm: s > 0; rand_stab: 1e-15 <= noise <= 1e-2",
               "a draw of numpy's Generator.normal does not exceed 10 standard deviations (p < 1e-22 per draw) in the int-seed "
               "rand_stab cases; the forced-draw cases need no such assumption",
               "libm pow is accurate to 2 ulp",
               "history: an int seed determines the random tensor (docstring 'seed (int): random seed'), so the same call repeated "
               "later in the process returns bit-identical cores; the caller may overwrite a returned tensor in place"]

VALS = [1.0, -1.0, 2.5, -0.375, 0.0, -0.0, 0, 7, -3, 1e-17, -1e-17, 1e-16, -1e-16, 1.0000001e-16, -1.0000001e-16, 1e-15,
        1e-300, -1e-300, 3e5, -3e5, 1e12, 1e200, -1e300]


def values():
    return st.one_of(st.sampled_from(VALS), gen.reals(-10, 10),
                     st.builds(lambda s, m, e: s * m * 10.0 ** e, st.sampled_from([1.0, -1.0]),
                               st.floats(1.0, 10.0, allow_nan=False), st.integers(-300, 300)))


def tol_v(v, d):
    """Rounding bound for a value rebuilt as sign * (|v|**fl(1/d))**d."""
    v = float(v)
    if v == 0:
        return 0.0
    return (abs(math.log(abs(v))) + 4 * d + 4) * EPS * abs(v)


def v_labels(v):
    labs = []
    if v == 0:
        labs.append("v==0")
    elif abs(v) <= 1e-16:
        labs.append("v_tiny")
    elif abs(v) >= 1e5:
        labs.append("v_big")
    if v < 0:
        labs.append("v<0")
    if isinstance(v, int):
        labs.append("v_int")
    return labs


def shape_labels(n):
    labs = []
    if len(n) == 2:
        labs.append("d==2")
    if 1 in n:
        labs.append("has_mode_1")
    return labs


def arg_n(case):
    return np.array(case["n"], dtype=int) if case.get("n_arr") else list(case["n"])


def check_rank1(ctx, Y, n, what):
    why = oracle.wellformed(Y, n)
    ctx.check(why is None, f"{what}: not a well-formed TT-tensor of the requested shape: {why}")
    ctx.check(all(G.shape[0] == 1 and G.shape[2] == 1 for G in Y), f"{what}: TT-ranks are not all 1",
              ranks=oracle.ranks_of(Y))


# ------------------------------------------------------------------------------------------- const

@st.composite
def const_cases(draw, tier, shape=None, anchor=None, value=None):
    """shape / anchor / value: fixed by the caller (history sub-check: calls that share parameters)."""
    big = tier != "quick"
    n = list(shape) if shape is not None else draw(
        gen.shapes(d_min=2, d_max=6 if big else 5, n_min=1, n_max=5 if big else 4, size_max=4096 if big else 1024))
    d = len(n)
    case = {"n": n, "n_arr": draw(st.booleans()), "v": draw(values()) if value is None else value,
            "v_default": draw(st.integers(0, 9)) == 0,
            "mode": draw(st.sampled_from(["plain", "zeros", "zeros", "protected", "protected", "protected", "protected"]))}
    if case["mode"] == "plain":
        return case
    anchor = draw(gen.multi_index(n)) if anchor is None else list(anchor)
    free_modes = [k for k in range(d) if n[k] >= 2]
    nrows = draw(st.integers(0, 10 if big else 6))
    rows = []
    for _ in range(nrows):
        kind = draw(st.sampled_from(["free", "one", "one", "one", "two"])) if free_modes else "copy"
        if kind == "free":
            rows.append(draw(gen.multi_index(n)))
            continue
        row = list(anchor)
        for _ in range({"copy": 0, "one": 1, "two": 2}[kind]):
            k = draw(st.sampled_from(free_modes))
            row[k] = (anchor[k] + draw(st.integers(1, n[k] - 1))) % n[k]
        rows.append(row)
    if case["mode"] == "protected" and draw(st.integers(0, 3)) == 0:
        rows.insert(draw(st.integers(0, len(rows))), list(anchor))        # a conflicting request
    case["I_zero"] = rows
    case["I_arr"] = draw(st.booleans())
    case["i_nz"] = anchor if case["mode"] == "protected" else None
    case["i_nz_arr"] = draw(st.booleans())
    return case


def prop_const(case, ctx):
    run_const(case, ctx)


def run_const(case, ctx, mark=True):
    """One const call checked against its description; returns the constructed tensor (None for a rejected request)."""
    n = case["n"]
    d = len(n)
    v = 1.0 if case["v_default"] else case["v"]
    ctx.label(*shape_labels(n), *v_labels(v), "mode:" + case["mode"])
    kw = {}
    rows, i_nz = [], None
    if case["mode"] != "plain":
        rows = case["I_zero"]
        i_nz = case["i_nz"]
        kw["I_zero"] = (np.array(rows, dtype=int).reshape(len(rows), d) if case["I_arr"] else [list(r) for r in rows])
        if i_nz is not None:
            kw["i_non_zero"] = np.array(i_nz, dtype=int) if case["i_nz_arr"] else list(i_nz)
    args = (arg_n(case),) if case["v_default"] else (arg_n(case), case["v"])
    ctx.label(f"rows:{min(len(rows), 4)}")
    if mark:
        ctx.nontrivial(len(rows) > 0)

    conflict = i_nz is not None and any(list(r) == list(i_nz) for r in rows)
    if conflict:
        ctx.label("conflict")
        ctx.raises(ValueError, teneva.const, *args, **kw)
        return None
    Y = ctx.lib(teneva.const, *args, **kw)
    check_rank1(ctx, Y, n, "const")
    F = dense(Y)
    tol = tol_v(v, d)
    near_v = np.abs(F - v) <= tol
    if not rows:
        ctx.check(bool(np.all(near_v)), "const: some entry differs from v beyond the rounding bound",
                  v=v, worst=float(F.ravel()[int(np.argmax(np.abs(F - v)))]), tol=tol)
        return Y
    bad = ~((F == 0) | near_v)
    ctx.check(not np.any(bad), "const with zero list: an entry is neither 0 nor v",
              v=v, got=float(F[bad][0]) if np.any(bad) else None, tol=tol)
    for r in rows:
        ctx.check(F[tuple(r)] == 0, "const: a listed zero index is not zero", index=r, got=float(F[tuple(r)]))
    if i_nz is not None:
        got = float(F[tuple(i_nz)])
        ctx.check(abs(got - v) <= tol and (v == 0 or got != 0), "const: the protected index does not hold v",
                  index=i_nz, got=got, v=v, tol=tol)
        # rows that differ from the protected index in exactly one mode force the round-robin search to skip
        if any(sum(a != b for a, b in zip(r, i_nz)) == 1 for r in rows):
            ctx.label("single_mode_difference")
    return Y


# ------------------------------------------------------------------------------------------- delta (exhaustive)

DELTA_VALS = [2.5, -0.375, -1e-17, 1e-300, 3e5, -7, 1e-16, -1.0000001e-16, 0.0, -1e300, 1.0, 1e-15]


def delta_shapes(tier):
    big = tier != "quick"
    out = []
    for d, top in ((2, 16 if big else 6), (3, 6 if big else 5), (4, 4)) + (((5, 3), (6, 2)) if big else ()):
        for n in itertools.product(range(1, top + 1), repeat=d):
            if int(np.prod(n)) <= 256:
                out.append(list(n))
    out += [[2] * d for d in range(5, 9)]
    out += [[16, 16], [256, 1], [1, 256], [2, 128], [1, 1, 1, 1, 1], [3, 1, 2, 1, 3], [6, 6, 7], [3, 3, 3, 3, 3], [2, 1, 2, 1, 2, 1, 2]]
    return out


def delta_cases(tier):
    per_shape = 2 if tier == "quick" else 4
    for j, n in enumerate(delta_shapes(tier)):
        for t in range(per_shape):
            v = DELTA_VALS[(j * per_shape + t) % len(DELTA_VALS)]
            yield {"n": n, "v": v, "v_default": (t == 1 and j % 5 == 0), "n_arr": (j + t) % 2 == 1}


def signed_positions(n):
    """Every spelling (pos, idx) of the positions of shape n that the check executes."""
    d = len(n)
    size = int(np.prod(n))
    if size * 2 ** d <= 2048:
        for idx in itertools.product(*[range(-k, k) for k in n]):
            yield [i % k for i, k in zip(idx, n)], list(idx)
        return
    for f, pos in enumerate(itertools.product(*[range(k) for k in n])):
        pos = list(pos)
        yield pos, pos
        yield pos, [p - k for p, k in zip(pos, n)]
        mask = f % (1 << d)
        if mask not in (0, (1 << d) - 1):
            yield pos, [p - k if (mask >> j) & 1 else p for j, (p, k) in enumerate(zip(pos, n))]


def prop_delta(case, ctx):
    n = case["n"]
    d = len(n)
    v = 1.0 if case["v_default"] else case["v"]
    ctx.label(*shape_labels(n), *v_labels(v), f"d:{d}")
    ctx.nontrivial(True)                          # every case executes the negative spellings of every position
    count = 0
    for t, (pos, idx) in enumerate(signed_positions(n)):
        one_delta(ctx, n, arg_n(case), pos, idx, t % 3 == 2, case["v"], case["v_default"])
        count += 1
    ctx.inner(count - 1)


def one_delta(ctx, n, n_arg, pos, idx, i_arr, v_arg, v_default=False):
    """One delta call (signed spelling idx of the position pos) checked against its description; returns the tensor."""
    v = 1.0 if v_default else v_arg
    tol = tol_v(v, len(n))
    i_arg = np.array(idx, dtype=int) if i_arr else list(idx)
    Y = ctx.lib(teneva.delta, n_arg, i_arg) if v_default else ctx.lib(teneva.delta, n_arg, i_arg, v_arg)
    check_rank1(ctx, Y, n, "delta")
    F = dense(Y)
    got = float(F[tuple(pos)])
    ctx.check(abs(got - v) <= tol and (v == 0 or got != 0), "delta: the value at the given position is not v",
              n=n, i=idx, got=got, v=v, tol=tol)
    ctx.check(int(np.count_nonzero(F)) == (0 if v == 0 else 1), "delta: non-zero entries away from the given position",
              n=n, i=idx, nonzero=np.argwhere(F != 0)[:4])
    return Y


# ------------------------------------------------------------------------------------------- vector_delta / matrix_delta

QTT_VALS = [1.0, 2.5, -0.375, 0.0, -1e-17, 1e-300, -3e5, 7]


def vector_cases(tier):
    for q in range(1, (5 if tier == "quick" else 12) + 1):
        for t, v in enumerate(QTT_VALS):
            yield {"q": q, "v": v, "v_default": False}
        yield {"q": q, "v": 1.0, "v_default": True}


def out_of_range(q):
    m = 1 << q
    return [m, m + 1, -m - 1, 3 * m, -2 * m - 1]


def prop_vector_delta(case, ctx):
    q = case["q"]
    v = 1.0 if case["v_default"] else case["v"]
    m = 1 << q
    ctx.label(f"q:{q}", *v_labels(v))
    ctx.nontrivial(True)                          # all negative positions are executed
    for i in range(-m, m):
        one_vector(ctx, q, i, case["v"], case["v_default"])
    for i in out_of_range(q):
        ctx.raises(ValueError, teneva.vector_delta, q, i, v)
    # the position as a NumPy integer scalar or a 0-d integer array (an entry of an index array, np.argmax(...)), the very same object used
    # for a second call: the same QTT-vector both times, the object untouched
    for i in sorted({0, 1, m - 1, m // 2, -1, -m, (5 * q) % m}):
        ref = ctx.lib(teneva.vector_delta, q, int(i), v)
        for mk in (np.int64, np.int32, np.array, lambda x: np.array(x, dtype=np.int32), np.intp):
            pos = mk(i)
            for rep in range(2):
                Y = ctx.lib(teneva.vector_delta, q, pos, v)
                ctx.check(len(Y) == len(ref) and all(np.array_equal(a, b) and a.dtype == b.dtype for a, b in zip(Y, ref)),
                          "vector_delta: the position given as a NumPy integer / 0-d array gives another QTT-vector than the Python int",
                          q=q, i=int(i), spelled=type(pos).__name__, call=rep + 1)
                ctx.check(int(pos) == i, "vector_delta changed the position object it was given", q=q, i=int(i), now=int(pos))
    ctx.inner(2 * m - 1 + len(out_of_range(q)) + 7 * 5 * 2)


def one_vector(ctx, q, i, v_arg, v_default=False):
    """One vector_delta call checked against its description; returns the QTT-vector."""
    v = 1.0 if v_default else v_arg
    m = 1 << q
    tol = tol_v(v, q)
    Y = ctx.lib(teneva.vector_delta, q, i) if v_default else ctx.lib(teneva.vector_delta, q, i, v_arg)
    check_rank1(ctx, Y, [2] * q, "vector_delta")
    F = dense(Y)
    p = i if i >= 0 else m + i
    bits = tuple((p >> k) & 1 for k in range(q))            # little-endian: core k carries bit k
    got = float(F[bits])
    ctx.check(abs(got - v) <= tol and (v == 0 or got != 0), "vector_delta: the value at position i is not v",
              q=q, i=i, got=got, v=v, nonzero=np.argwhere(F != 0)[:4])
    ctx.check(int(np.count_nonzero(F)) == (0 if v == 0 else 1), "vector_delta: non-zero entries away from position i",
              q=q, i=i, nonzero=np.argwhere(F != 0)[:4])
    x = np.asarray(ctx.lib(teneva.full, Y)).reshape(-1, order='F')   # the library's own export, first index fastest
    ctx.check(x.shape == (m,) and x[p] == F[bits] and int(np.count_nonzero(x)) == (0 if v == 0 else 1),
              "vector_delta: exported vector (teneva.full, Fortran order) is not the delta vector", q=q, i=i)
    return Y


def matrix_cases(tier):
    for q in range(1, (5 if tier == "quick" else 7) + 1):
        m = 1 << q
        for i in range(-m, m):
            for t in range(2):
                v = QTT_VALS[(i + q + 3 * t) % len(QTT_VALS)]
                yield {"q": q, "i": i, "v": v, "v_default": (t == 1 and i % 4 == 0)}


def dense_matrix(Y):
    """Independent export of a QTT-matrix with rank-1 4-D cores: little-endian bits, core k carries bit k of both indices."""
    M = np.ones((1, 1))
    for G in Y:
        M = np.kron(G[0, :, :, 0], M)
    return M


def prop_matrix_delta(case, ctx):
    q, i = case["q"], case["i"]
    v = 1.0 if case["v_default"] else case["v"]
    m = 1 << q
    ctx.label(f"q:{q}", *v_labels(v), "i<0" if i < 0 else "i>=0")
    ctx.nontrivial(True)                          # all negative column positions are executed
    for j in range(-m, m):
        one_matrix(ctx, q, i, j, case["v"], case["v_default"])
    # row and column given as ONE 0-d integer array object (a diagonal position taken from an index array), and as NumPy scalars
    ref = ctx.lib(teneva.matrix_delta, q, i, i, v)
    for mk in (np.array, np.int64, lambda x: np.array(x, dtype=np.int32)):
        pos = mk(i)
        for rep in range(2):
            Y = ctx.lib(teneva.matrix_delta, q, pos, pos, v)
            ctx.check(len(Y) == len(ref) and all(np.array_equal(a, b) and a.dtype == b.dtype for a, b in zip(Y, ref)),
                      "matrix_delta: row and column given as one NumPy integer / 0-d array object give another QTT-matrix than Python ints",
                      q=q, i=i, spelled=type(pos).__name__, call=rep + 1)
            ctx.check(int(pos) == i, "matrix_delta changed the position object it was given", q=q, i=i, now=int(pos))
    ctx.inner(6)
    bad = out_of_range(q)
    if i in (0, -1, m - 1, -m):
        for b in bad:
            ctx.raises(ValueError, teneva.matrix_delta, q, b, i, v)
            ctx.raises(ValueError, teneva.matrix_delta, q, i, b, v)
        ctx.inner(2 * len(bad))
    ctx.inner(2 * m - 1)


def one_matrix(ctx, q, i, j, v_arg, v_default=False, lib_export=True):
    """One matrix_delta call checked against its description; returns the QTT-matrix."""
    v = 1.0 if v_default else v_arg
    m = 1 << q
    tol = tol_v(v, q)
    nz = 0 if v == 0 else 1
    Y = ctx.lib(teneva.matrix_delta, q, i, j) if v_default else ctx.lib(teneva.matrix_delta, q, i, j, v_arg)
    ctx.check(isinstance(Y, list) and len(Y) == q and all(isinstance(G, np.ndarray) and G.shape == (1, 2, 2, 1)
                                                           and G.dtype.kind == 'f' for G in Y),
              "matrix_delta: not a list of q float cores of shape (1, 2, 2, 1)", q=q, i=i, j=j)
    pi = i if i >= 0 else m + i
    pj = j if j >= 0 else m + j
    exports = [("independent export", dense_matrix(Y))]
    if lib_export:
        exports.append(("teneva.full_matrix", ctx.lib(teneva.full_matrix, Y)))
    for what, M in exports:
        M = np.asarray(M)
        ctx.check(M.shape == (m, m), f"matrix_delta ({what}): wrong shape", shape=M.shape)
        got = float(M[pi, pj])
        ctx.check(abs(got - v) <= tol and (v == 0 or got != 0), f"matrix_delta ({what}): the value at (i, j) is not v",
                  q=q, i=i, j=j, got=got, v=v, nonzero=np.argwhere(M != 0)[:4])
        ctx.check(int(np.count_nonzero(M)) == nz, f"matrix_delta ({what}): non-zero entries away from (i, j)",
                  q=q, i=i, j=j, nonzero=np.argwhere(M != 0)[:4])
    return Y


def shard_of(cases_fn):
    def enum(tier, shard, nshards):
        for j, c in enumerate(cases_fn(tier)):
            if j % nshards == shard:
                yield c
    return enum


# ------------------------------------------------------------------------------------------- poly

@st.composite
def poly_cases(draw, tier, shape=None):
    big = tier != "quick"
    n = list(shape) if shape is not None else draw(
        gen.shapes(d_min=2, d_max=6 if big else 5, n_min=1, n_max=6 if big else 5, size_max=4096 if big else 1024))
    d = len(n)
    num = st.one_of(st.integers(-3, 3), st.integers(-3, 3).map(float), gen.reals(-3, 3))
    kind = draw(st.sampled_from(["default", "scalar", "list", "array", "int_scalar", "int_list", "int_array", "narrow_array"]))
    case = {"n": n, "n_arr": draw(st.booleans()), "shift_kind": kind}
    if kind == "narrow_array":
        # a shift array of a narrower float / integer dtype holding values it represents exactly (multiples of 1/4 up to 300)
        case["shift"] = [draw(st.integers(-1200, 1200)) / 4.0 for _ in range(d)]
        case["shift_dtype"] = draw(st.sampled_from(["float32", "float16", "int32", "int16"]))
        if case["shift_dtype"].startswith("int"):
            case["shift"] = [float(int(v)) for v in case["shift"]]
    # integer shifts (Python int, list of ints, integer ndarray) incl. large ones: (index + shift)**power then exceeds 2**63
    bigint = st.one_of(st.integers(-3, 3), st.integers(1, 3000), st.integers(-3000, -1))
    if kind == "scalar":
        case["shift"] = draw(num)
    elif kind in ("list", "array"):
        case["shift"] = [draw(num) for _ in range(d)]
    elif kind == "int_scalar":
        case["shift"] = draw(bigint)
    elif kind in ("int_list", "int_array"):
        case["shift"] = [draw(bigint) for _ in range(d)]
    case["power"] = None if draw(st.integers(0, 5)) == 0 else draw(st.integers(0, 8))
    if kind.startswith("int") and draw(st.integers(0, 3)) == 0:
        # negative integer powers are fine as long as no index + shift is zero: use positive shifts there
        case["power"] = draw(st.sampled_from([-1, -2, -3]))
        case["shift"] = abs(case["shift"]) + 1 if kind == "int_scalar" else [abs(v) + 1 for v in case["shift"]]
    case["scale"] = draw(st.one_of(st.none(), st.integers(-3, 3), gen.reals(-5, 5), st.sampled_from([1e-3, -1e6, 0.5])))
    return case


def prop_poly(case, ctx):
    run_poly(case, ctx)


def run_poly(case, ctx, mark=True):
    """One poly call checked against its description; returns the constructed tensor."""
    n = case["n"]
    d = len(n)
    kind = case["shift_kind"]
    kw = {}
    if kind in ("scalar", "int_scalar"):
        kw["shift"] = case["shift"]
        shift = [float(case["shift"])] * d
    elif kind == "default":
        shift = [0.0] * d
    elif kind == "int_array":
        kw["shift"] = np.array(case["shift"], dtype=np.int64)
        shift = [float(s) for s in case["shift"]]
    elif kind == "narrow_array":
        kw["shift"] = np.array(case["shift"], dtype=case["shift_dtype"])
        shift = [float(v) for v in kw["shift"]]
        if not np.array_equal(np.asarray(shift), np.asarray(case["shift"])):
            raise RuntimeError("harness: shift not exactly representable in " + case["shift_dtype"])
    else:
        kw["shift"] = np.array(case["shift"], dtype=float) if kind == "array" else list(case["shift"])
        shift = [float(s) for s in case["shift"]]
    power = 2 if case["power"] is None else case["power"]
    scale = 1.0 if case["scale"] is None else case["scale"]
    if case["power"] is not None:
        kw["power"] = case["power"]
    if case["scale"] is not None:
        kw["scale"] = case["scale"]
    ctx.label(*shape_labels(n), "shift:" + kind, f"power:{power}", "scale<0" if scale < 0 else ("scale==0" if scale == 0 else "scale>0"))
    if mark:
        ctx.nontrivial(kind in ("list", "array", "int_list", "int_array") or case["power"] not in (None, 2))

    Y = ctx.lib(teneva.poly, arg_n(case), **kw)
    why = oracle.wellformed(Y, n)
    ctx.check(why is None, f"poly: not a well-formed TT-tensor of the requested shape: {why}")
    S = np.zeros(n)
    A = np.zeros(n)
    for k in range(d):
        p = np.array([(float(m) + shift[k]) ** power for m in range(n[k])], dtype=float)
        sh = [1] * d
        sh[k] = n[k]
        S = S + p.reshape(sh)
        A = A + np.abs(p).reshape(sh)
    ref = float(scale) * S
    maj = abs(float(scale)) * A
    tol = (oracle.K_of(Y) + 8.0 * (abs(power) + 2)) * EPS * maj
    F = dense(Y)
    err = np.abs(F - ref)
    if np.any(err > tol) or not np.all(np.isfinite(F)):
        j = int(np.argmax(err - tol))
        ctx.check(False, "poly: dense tensor differs from scale * sum_k (i_k + shift_k)^power",
                  index=list(map(int, np.unravel_index(j, F.shape))), got=float(F.ravel()[j]), ref=float(ref.ravel()[j]),
                  tol=float(tol.ravel()[j]))
    return Y


# ------------------------------------------------------------------------------------------- random constructors

class AuditGen:
    """Duck-typed generator handed to the library as `seed`: records every request, dictates the answer."""

    def __init__(self, answer):
        self.answer = answer            # answer(count) -> flat float array of that many values
        self.calls = []                 # (method, p1, p2, size)
        self.flat = []                  # the flat vector returned for each call

    def _reply(self, size):
        shape = tuple(int(s) for s in np.atleast_1d(size)) if size is not None else ()
        count = int(np.prod(shape, dtype=np.int64)) if shape else 1
        x = np.asarray(self.answer(count), dtype=float).reshape(-1)
        self.flat.append(x.copy())
        return x.reshape(shape).copy() if shape else float(x[0])

    def uniform(self, low=0.0, high=1.0, size=None):
        self.calls.append(("uniform", low, high, size))
        return self._reply(size)

    def normal(self, loc=0.0, scale=1.0, size=None):
        self.calls.append(("normal", loc, scale, size))
        return self._reply(size)


def expand_r(r, d):
    return [1] + [int(r)] * (d - 1) + [1] if isinstance(r, int) else [int(x) for x in r]


def total_entries(n, r):
    return sum(r[k] * n[k] * r[k + 1] for k in range(len(n)))


def fcut(flat, n, r):
    """Cores as the Fortran-ordered cut of a flat vector, by explicit index arithmetic (first index fastest)."""
    out, off = [], 0
    for k in range(len(n)):
        a = np.arange(r[k])[:, None, None]
        i = np.arange(n[k])[None, :, None]
        b = np.arange(r[k + 1])[None, None, :]
        out.append(flat[off + a + r[k] * (i + n[k] * b)])
        off += r[k] * n[k] * r[k + 1]
    return out


@st.composite
def rank_args(draw, n, r_max, deep=False):
    """(r as in the case: int or list, spelling)."""
    d = len(n)
    if deep or draw(st.integers(0, 2)) == 0:
        return draw(st.integers(1, r_max)), "scalar"
    _, r = draw(gen.rank_profiles(n, r_max, ("uniform", "ragged", "ragged", "over_ranked"), entries_max=3000))
    return r, draw(st.sampled_from(["list", "array"]))


def arg_r(case):
    return np.array(case["r"], dtype=int) if case["r_kind"] == "array" else case["r"]


def rank_labels(case, r):
    labs = ["r:" + case["r_kind"]]
    if len(set(r[1:-1])) > 1:
        labs.append("ragged")
    if max(r) >= 2:
        labs.append("rank>=2")
    return labs


def check_profile(ctx, Y, n, r, what):
    why = oracle.wellformed(Y, n)
    ctx.check(why is None, f"{what}: not a well-formed TT-tensor of the requested shape: {why}")
    ctx.check(oracle.ranks_of(Y) == r, f"{what}: rank profile differs from the requested one", got=oracle.ranks_of(Y), ref=r)


@st.composite
def audit_cases(draw, tier):
    big = tier != "quick"
    n = draw(gen.shapes(d_min=2, d_max=7 if big else 6, n_min=1, n_max=6 if big else 5, size_max=10 ** 9))
    r, r_kind = draw(rank_args(n, 7 if big else 6))
    fn = draw(st.sampled_from(["rand", "rand", "rand_norm", "rand_norm", "rand_custom"]))
    case = {"fn": fn, "n": n, "n_arr": draw(st.booleans()), "r": r, "r_kind": r_kind,
            "fill": draw(st.sampled_from(["arange", "seeded"])), "seed": draw(gen.seeds), "defaults": draw(st.integers(0, 5)) == 0}
    if fn == "rand":
        a = draw(st.one_of(st.integers(-3, 3), gen.reals(-1e3, 1e3)))
        case["p1"], case["p2"] = a, a + draw(st.one_of(st.integers(1, 4), st.floats(2.0 ** -10, 100.0)))
    elif fn == "rand_norm":
        case["p1"] = draw(st.one_of(st.integers(-3, 3), gen.reals(-1e3, 1e3)))
        case["p2"] = draw(st.one_of(st.integers(1, 4), st.floats(2.0 ** -20, 100.0)))
    else:
        case["ret"] = draw(st.sampled_from(["array", "list", "int_array"]))
    return case


def prop_audit(case, ctx):
    n, fn = case["n"], case["fn"]
    d = len(n)
    r = expand_r(case["r"], d)
    total = total_entries(n, r)
    ctx.label("fn:" + fn, *shape_labels(n), *rank_labels(case, r), "fill:" + case["fill"])
    ctx.nontrivial(len(set(r[1:-1])) > 1 or max(r) >= 2)
    rng = np.random.default_rng(case["seed"])

    def answer(count):
        if case["fill"] == "arange":
            return 0.5 + np.arange(count, dtype=float)
        return rng.standard_normal(count)

    if fn == "rand_custom":
        asked = []
        flats = []

        def f(size):
            asked.append(size)
            x = np.asarray(answer(int(size)), dtype=float)
            if case["ret"] == "int_array":
                x = np.arange(int(size), dtype=np.int64) - 3
            flats.append(np.asarray(x, dtype=float).copy())
            return x.tolist() if case["ret"] == "list" else x

        ctx.label("ret:" + case["ret"])
        Y = ctx.lib(teneva.rand_custom, arg_n(case), arg_r(case), f)
        ctx.check(len(asked) == 1, "rand_custom: the sampling function was not called exactly once", calls=len(asked))
        ctx.check(np.ndim(asked[0]) == 0 and int(asked[0]) == total,
                  "rand_custom: the sampling function was not asked for the total number of core entries", asked=repr(asked[0]), total=total)
        flat = flats[0]
    else:
        g = AuditGen(answer)
        if fn == "rand":
            method, defaults = "uniform", (-1.0, 1.0)
            lib = teneva.rand
        else:
            method, defaults = "normal", (0.0, 1.0)
            lib = teneva.rand_norm
        if case["defaults"]:
            ctx.label("default_params")
            p1, p2 = defaults
            Y = ctx.lib(lib, arg_n(case), arg_r(case), seed=g)
        else:
            p1, p2 = case["p1"], case["p2"]
            Y = ctx.lib(lib, arg_n(case), arg_r(case), p1, p2, g)
        ctx.check(len(g.calls) == 1, f"{fn}: the generator was not asked exactly once", calls=[c[0] for c in g.calls])
        m_, q1, q2, size = g.calls[0]
        ctx.check(m_ == method, f"{fn}: wrong distribution requested", got=m_, ref=method)
        ctx.check(q1 == p1 and q2 == p2, f"{fn}: the distribution parameters differ from the requested ones",
                  got=[q1, q2], ref=[p1, p2])
        ctx.check(size is not None and np.size(size) == 1 and int(np.ravel(size)[0]) == total,
                  f"{fn}: the number of requested values is not the total number of core entries", size=repr(size), total=total)
        flat = g.flat[0]
    check_profile(ctx, Y, n, r, fn)
    ref = fcut(flat, n, r)
    for k in range(d):
        ctx.check(Y[k].shape == ref[k].shape and bool(np.all(Y[k] == ref[k])),
                  f"{fn}: core is not the Fortran-ordered cut of the returned flat vector", k=k, shape=Y[k].shape)


@st.composite
def seeded_cases(draw, tier):
    big = tier != "quick"
    n = draw(gen.shapes(d_min=2, d_max=7 if big else 6, n_min=1, n_max=6 if big else 5, size_max=10 ** 9))
    r, r_kind = draw(rank_args(n, 7 if big else 6))
    fn = draw(st.sampled_from(["rand", "rand_norm"]))
    case = {"fn": fn, "n": n, "n_arr": draw(st.booleans()), "r": r, "r_kind": r_kind, "seed": draw(gen.seeds),
            "seed_kind": draw(st.sampled_from(["int", "int", "generator"])), "defaults": draw(st.integers(0, 5)) == 0}
    if fn == "rand":
        a = draw(st.one_of(st.integers(-3, 3), gen.reals(-1e3, 1e3), st.sampled_from([-1e6, 1e6, 1e-3])))
        case["p1"], case["p2"] = a, a + draw(st.one_of(st.integers(1, 4), st.floats(2.0 ** -10, 100.0)))
    else:
        case["p1"] = draw(st.one_of(st.integers(-3, 3), gen.reals(-1e3, 1e3)))
        case["p2"] = draw(st.one_of(st.integers(1, 4), st.floats(2.0 ** -20, 100.0)))
    return case


def prop_seeded(case, ctx):
    n, fn = case["n"], case["fn"]
    d = len(n)
    r = expand_r(case["r"], d)
    total = total_entries(n, r)
    ctx.label("fn:" + fn, "seed:" + case["seed_kind"], *shape_labels(n), *rank_labels(case, r))
    ctx.nontrivial(len(set(r[1:-1])) > 1 or max(r) >= 2)
    seed = case["seed"] if case["seed_kind"] == "int" else np.random.default_rng(case["seed"])
    lib = teneva.rand if fn == "rand" else teneva.rand_norm
    if case["defaults"]:
        p1, p2 = (-1.0, 1.0) if fn == "rand" else (0.0, 1.0)
        Y = ctx.lib(lib, arg_n(case), arg_r(case), seed=seed)
    else:
        p1, p2 = case["p1"], case["p2"]
        Y = ctx.lib(lib, arg_n(case), arg_r(case), p1, p2, seed)
    check_profile(ctx, Y, n, r, fn)
    x = np.concatenate([G.ravel() for G in Y])
    ctx.check(x.size == total, f"{fn}: number of core entries", got=x.size, ref=total)
    if fn == "rand":
        ctx.check(bool(np.all((x >= p1) & (x <= p2))), "rand: a core entry lies outside [a, b]",
                  a=p1, b=p2, lo=float(x.min()), hi=float(x.max()))
    if total >= 4:
        ctx.check(float(x.min()) < float(x.max()), f"{fn}: all core entries are equal (not random)", value=float(x[0]))


# ------------------------------------------------------------------------------------------- rand_stab

@st.composite
def stab_cases(draw, tier):
    big = tier != "quick"
    deep = draw(st.integers(0, 3)) == 0
    if deep:
        d = draw(st.integers(20, 300 if big else 60))
        n = [draw(st.integers(1, 3)) for _ in range(d)]
    else:
        n = draw(gen.shapes(d_min=2, d_max=7 if big else 6, n_min=1, n_max=5, size_max=4096))
    r, r_kind = draw(rank_args(n, 4 if deep else 5, deep=deep))
    mode = draw(st.sampled_from(["plus", "minus", "signs", "uniform", "zero", "int", "int", "generator"]))
    noise_exp = None if draw(st.integers(0, 4)) == 0 else draw(st.integers(5 if deep else 2, 15))
    return {"n": n, "n_arr": draw(st.booleans()), "r": r, "r_kind": r_kind, "mode": mode, "noise_exp": noise_exp,
            "seed": draw(gen.seeds), "deep": deep}


def entries_at(Y, I):
    out = []
    for i in I:
        w = Y[0][0, i[0], :]
        for k in range(1, len(Y)):
            w = w @ Y[k][:, i[k], :]
        out.append(float(w[0]))
    return np.array(out)


def prop_stab(case, ctx):
    n, mode = case["n"], case["mode"]
    d = len(n)
    r = expand_r(case["r"], d)
    noise = 1e-15 if case["noise_exp"] is None else 10.0 ** -case["noise_exp"]
    kw = {} if case["noise_exp"] is None else {"noise": noise}
    forced = mode not in ("int", "generator")
    ctx.label("mode:" + mode, "deep" if case["deep"] else "shallow", *shape_labels(n), *rank_labels(case, r),
              "noise:default" if case["noise_exp"] is None else f"noise:1e-{case['noise_exp']}")
    ctx.nontrivial(max(r) >= 2)
    rng = np.random.default_rng(case["seed"])
    c = 3.0 * noise

    def answer(count):
        if mode == "plus":
            return np.full(count, c)
        if mode == "minus":
            return np.full(count, -c)
        if mode == "signs":
            return c * rng.choice([-1.0, 1.0], size=count)
        if mode == "uniform":
            return rng.uniform(-c, c, size=count)
        return np.zeros(count)

    if forced:
        g = AuditGen(answer)
        seed = g
    else:
        seed = case["seed"] if mode == "int" else np.random.default_rng(case["seed"])
    Y = ctx.lib(teneva.rand_stab, arg_n(case), arg_r(case), seed=seed, **kw)
    check_profile(ctx, Y, n, r, "rand_stab")
    if forced:
        ctx.check(len(g.calls) >= 1, "rand_stab: the generator was never asked")
        for m_, loc, scale, size in g.calls:
            ctx.check(m_ == "normal" and loc == 0 and scale == noise, "rand_stab: the noise is not requested as normal(0, noise)",
                      got=[m_, loc, scale], noise=noise)
        delta = 0.0 if mode == "zero" else c
    else:
        delta = 10.0 * noise
    delta = delta * (1 + EPS) + EPS                  # fl(draw + 1) in the library
    w = np.ones(1)
    for k in range(d):
        w = w @ (np.eye(r[k], r[k + 1]) + delta)
    B = (float(w[0]) - 1.0) * (1 + 1e-9)
    K = 32.0 * (d + sum(r) + max(n))
    tol = B + K * EPS * (1 + B)
    if d <= 12 and int(np.prod(n, dtype=object)) <= 4096:
        F = dense(Y).ravel()
    else:
        I = np.stack([rng.integers(0, k, size=16) for k in n], axis=1)
        F = entries_at(Y, I)
    ctx.check(bool(np.all(np.isfinite(F))) and bool(np.all(np.abs(F - 1.0) <= tol)),
              "rand_stab: an entry deviates from 1 by more than the requested noise allows",
              worst=float(F[int(np.argmax(np.abs(F - 1.0)))]), tol=tol, noise=noise, d=d)
    if mode == "plus" and noise >= 1e-10:
        # every core is eye + c with c > 0: each entry is >= 1 + d*c (the d first-order terms), so the noise really enters
        ctx.check(float(F.min()) - 1.0 >= d * c * (1 - 1e-9) - K * EPS * (1 + B),
                  "rand_stab: positive forced noise does not raise the entries by the first-order amount d*3*noise",
                  lowest=float(F.min()), expected=1 + d * c)

# ------------------------------------------------------------------------------------------- call order (exhaustive sweeps, one process)

def fresh_library():
    """Re-import the modules the constructors live in, so that a history starts from the state of a fresh process (module
    level caches emptied) and the verdict of a case is a function of the case alone: replayable, shrinkable, not flaky."""
    for name in ("teneva.utils", "teneva.grid", "teneva.tensors", "teneva.vectors", "teneva.matrices"):
        if name in sys.modules:
            importlib.reload(sys.modules[name])
    importlib.reload(teneva)


def _orders(lo, hi):
    """Named visiting orders of the levels lo..hi other than the plain ascending sweep."""
    asc = list(range(lo, hi + 1))
    desc = asc[::-1]
    zig = []
    a, b = 0, len(asc) - 1
    while a <= b:
        zig.append(asc[b])
        if a < b:
            zig.append(asc[a])
        a, b = a + 1, b - 1
    prime = next(p for p in range(len(asc) + 1, 4 * len(asc) + 8) if all(p % f for f in range(2, p)))
    perm = lambda mult: [asc[k - 1] for k in sorted(range(1, len(asc) + 1), key=lambda k: (mult * k) % prime)]
    return [("desc", desc), ("zigzag_hi", zig), ("zigzag_lo", [zig[k ^ 1] if (k ^ 1) < len(zig) else zig[k] for k in range(len(zig))]),
            ("asc_twice", asc + asc), ("desc_asc", desc + asc[1:]), ("perm3", perm(3)), ("perm5", perm(5))]


ORDER_SHAPES = {"binary": lambda q: [2] * (q + 1), "cube": lambda q: [q] * 3, "prefix": lambda q: [3, 2, 4, 1, 3, 2, 2, 3][:q + 1],
                "pair": lambda q: [q, 7 - q] if q <= 6 else [q, 1]}


def order_cases(tier):
    big = tier != "quick"
    qv, qm = (10, 6) if big else (7, 4)
    t = 0
    for kind, lo, hi in (("vector", 1, qv), ("matrix", 1, qm), ("matrix_rows", 1, qm + 1), ("vector_matrix", 1, qm), ("matrix_vector", 1, qm),
                         ("vector_pass_matrix_pass", 1, qm), ("delta:binary", 1, 8 if big else 7), ("delta:cube", 1, 6 if big else 5),
                         ("delta:prefix", 1, 7), ("delta:pair", 1, 6)):
        for name, steps in _orders(lo, hi):
            t += 1
            yield {"kind": kind, "order": name, "steps": steps, "pos_desc": t % 2 == 0, "v0": t % len(DELTA_VALS)}


BOUNDARY_ROWS = lambda q: sorted({0, 1, (1 << q) - 1, (1 << q) - 2, 1 << (q - 1), (1 << (q - 1)) - 1, -1, -2, -(1 << q), 1 - (1 << q),
                                  -(1 << (q - 1)), -(1 << (q - 1)) - 1} & set(range(-(1 << q), 1 << q)))


def prop_order(case, ctx):
    """The exhaustive position sweeps of the delta constructors, visited in a non-ascending order of the quantisation levels
    (shapes) inside ONE process: the tensor described by a call does not depend on the calls made before it."""
    kind, steps = case["kind"], case["steps"]
    fresh_library()
    ctx.label("kind:" + kind, "order:" + case["order"], "positions:" + ("desc" if case["pos_desc"] else "asc"))
    ctx.nontrivial(True)                          # every case revisits smaller levels after larger ones
    count = 0

    def positions(q):
        r = range(-(1 << q), 1 << q)
        return reversed(r) if case["pos_desc"] else r

    def value(t):
        v = DELTA_VALS[(case["v0"] + t) % len(DELTA_VALS)]
        return v, (t % 5 == 4)

    def vector_sweep(q, t):
        v, dflt = value(t)
        c = 0
        for i in positions(q):
            one_vector(ctx, q, i, v, dflt)
            c += 1
        return c

    def matrix_sweep(q, t, rows=None):
        v, dflt = value(t + 1)
        c = 0
        for i in (positions(q) if rows is None else rows):
            for j in positions(q):
                one_matrix(ctx, q, i, j, v, dflt, lib_export=(c % 4 == 0))
                c += 1
        return c

    if kind == "vector_pass_matrix_pass":
        for t, q in enumerate(steps):
            count += vector_sweep(q, t)
        for t, q in enumerate(reversed(steps)):
            count += matrix_sweep(q, t)
    else:
        for t, q in enumerate(steps):
            if kind == "vector":
                count += vector_sweep(q, t)
            elif kind == "matrix":
                count += matrix_sweep(q, t)
            elif kind == "matrix_rows":
                count += matrix_sweep(q, t, BOUNDARY_ROWS(q))
            elif kind == "vector_matrix":
                count += vector_sweep(q, t) + matrix_sweep(q, t)
            elif kind == "matrix_vector":
                count += matrix_sweep(q, t) + vector_sweep(q, t)
            else:
                n = ORDER_SHAPES[kind.split(":")[1]](q)
                v, dflt = value(t)
                for c, (pos, idx) in enumerate(signed_positions(n)):
                    one_delta(ctx, n, np.array(n, dtype=int) if t % 2 else list(n), pos, idx, c % 3 == 2, v, dflt)
                    count += 1
    ctx.inner(count - 1)


# ------------------------------------------------------------------------------------------- history of constructor calls

HIST_KINDS = {"all": ["const", "delta", "poly", "vector_delta", "matrix_delta", "rand", "qtt_reject"],
              "qtt": ["vector_delta", "vector_delta", "matrix_delta", "matrix_delta", "delta", "qtt_reject"],
              "tensor": ["const", "const", "delta", "delta", "poly", "rand", "vector_delta"]}


@st.composite
def history_cases(draw, tier):
    """A sequence of constructor calls that share parameters (the same position on several quantisation levels, the same
    shape / index / value with other arguments), so that state carried from one call to the next has something to hit."""
    big = tier != "quick"
    base = draw(gen.shapes(d_min=2, d_max=5, n_min=1, n_max=4, size_max=256))
    anchor = draw(gen.multi_index(base))
    qmax = draw(st.integers(2, 8 if big else 6))
    top = (1 << qmax) - 1
    pool_p = [draw(st.integers(0, top)) for _ in range(2)]
    pool_v = [draw(values()) for _ in range(2)]
    focus = draw(st.sampled_from(["all", "qtt", "tensor"]))
    calls = []

    def position():
        return draw(st.one_of(st.sampled_from(pool_p), st.sampled_from(pool_p), st.integers(0, top)))

    def level(p):
        return min(qmax, max(1, int(p).bit_length()) + draw(st.sampled_from([0, 0, 1, 2, 3])))

    def signed(p, q):
        return p - (1 << q) if draw(st.booleans()) else p

    def value():
        return draw(st.one_of(st.sampled_from(pool_v), values()))

    def shape():
        how = draw(st.sampled_from(["same", "same", "prefix", "suffix", "bump", "fresh"]))
        n, a = list(base), list(anchor)
        if how == "prefix" and len(n) > 2:
            k = draw(st.integers(2, len(n) - 1))
            n, a = n[:k], a[:k]
        elif how == "suffix" and len(n) > 2:
            k = draw(st.integers(2, len(n) - 1))
            n, a = n[-k:], a[-k:]
        elif how == "bump":
            k = draw(st.integers(0, len(n) - 1))
            n[k] = draw(st.integers(1, 5))
            a[k] = a[k] % n[k]
        elif how == "fresh":
            n = draw(gen.shapes(d_min=2, d_max=5, n_min=1, n_max=4, size_max=256))
            a = [x % k for x, k in zip((anchor * 3)[:len(n)], n)]
        if draw(st.integers(0, 2)) == 0:
            a = draw(gen.multi_index(n))
        return n, a

    for _ in range(draw(st.integers(2, 14 if big else 8))):
        kind = draw(st.sampled_from(HIST_KINDS[focus]))
        call = {"kind": kind}
        if kind == "vector_delta":
            p = position()
            q = level(p)
            call.update(q=q, i=signed(p, q), v=value(), v_default=draw(st.integers(0, 7)) == 0)
        elif kind == "matrix_delta":
            p = position()
            q = level(p)
            p2 = position() & ((1 << q) - 1)
            if draw(st.booleans()):
                p, p2 = p2, p
            call.update(q=q, i=signed(p, q), j=signed(p2, q), v=value(), v_default=draw(st.integers(0, 7)) == 0)
        elif kind == "qtt_reject":
            q = draw(st.integers(1, qmax))
            call.update(q=q, bad=draw(st.sampled_from(out_of_range(q))), ok=signed(position() & ((1 << q) - 1), q),
                        fn=draw(st.sampled_from(["vector", "matrix_i", "matrix_j"])), v=value())
        elif kind == "delta":
            n, a = shape()
            idx = [x - k if draw(st.booleans()) else x for x, k in zip(a, n)]
            call.update(n=n, pos=a, idx=idx, n_arr=draw(st.booleans()), i_arr=draw(st.booleans()), v=value(),
                        v_default=draw(st.integers(0, 7)) == 0)
        elif kind == "const":
            n, a = shape()
            call["case"] = draw(const_cases(tier, shape=n, anchor=a, value=value()))
        elif kind == "poly":
            n, a = shape()
            call["case"] = draw(poly_cases(tier, shape=n))
        else:
            n, a = shape()
            fn = draw(st.sampled_from(["rand", "rand_norm", "rand_stab"]))
            r = draw(st.one_of(st.integers(1, 3), st.just(None)))
            if r is None:
                r = [1] + [draw(st.integers(1, 3)) for _ in range(len(n) - 1)] + [1]
            call.update(fn=fn, n=n, n_arr=draw(st.booleans()), r=r, seed=draw(st.one_of(st.sampled_from([0, 1, 42]), gen.seeds)))
            if fn == "rand":
                a_ = draw(st.one_of(st.integers(-3, 3), gen.reals(-1e3, 1e3)))
                call["params"] = [a_, a_ + draw(st.one_of(st.integers(1, 4), st.floats(2.0 ** -10, 100.0)))]
            elif fn == "rand_norm":
                call["params"] = [draw(st.one_of(st.integers(-3, 3), gen.reals(-1e3, 1e3))),
                                  draw(st.one_of(st.integers(1, 4), st.floats(2.0 ** -20, 100.0)))]
            else:
                call["params"] = [10.0 ** -draw(st.integers(2, 15))]
        calls.append(call)
    return {"calls": calls, "scribble": draw(st.sampled_from(["nan", "nan", "scale", "none"]))}


def _rand_call(call, ctx):
    lib = {"rand": teneva.rand, "rand_norm": teneva.rand_norm, "rand_stab": teneva.rand_stab}[call["fn"]]
    n_arg = np.array(call["n"], dtype=int) if call["n_arr"] else list(call["n"])
    r_arg = call["r"] if isinstance(call["r"], int) else list(call["r"])
    Y = ctx.lib(lib, n_arg, r_arg, *call["params"], call["seed"])
    check_profile(ctx, Y, call["n"], expand_r(call["r"], len(call["n"])), call["fn"])
    return Y


def _related(a, b):
    """Two calls of a history that share a parameter while differing in another one."""
    qtt = ("vector_delta", "matrix_delta")
    if a["kind"] in qtt and b["kind"] in qtt:
        pa = {x % (1 << a["q"]) for x in (a["i"], a.get("j", a["i"]))}
        pb = {x % (1 << b["q"]) for x in (b["i"], b.get("j", b["i"]))}
        return a["q"] != b["q"] and bool(pa & pb)
    shape = lambda c: c.get("n") or c.get("case", {}).get("n")
    return shape(a) is not None and shape(a) == shape(b)


def prop_history(case, ctx):
    """Every call of the sequence builds the tensor it describes (the same oracles as in the single-call sub-checks, i.e. the
    result of the call in isolation), whatever was constructed before; results handed out earlier may be overwritten by the
    caller; a random constructor called again with the same int seed returns the same cores."""
    calls = case["calls"]
    kinds = [c["kind"] for c in calls]
    fresh_library()
    ctx.label(f"len:{min(len(calls), 8)}", "scribble:" + case["scribble"], *["has:" + k for k in set(kinds)])
    nt = any(_related(calls[a], calls[b]) for b in range(len(calls)) for a in range(b))
    first_rand = {}
    for t, call in enumerate(calls):
        kind = call["kind"]
        try:
            if kind == "vector_delta":
                Y = one_vector(ctx, call["q"], call["i"], call["v"], call["v_default"])
            elif kind == "matrix_delta":
                Y = one_matrix(ctx, call["q"], call["i"], call["j"], call["v"], call["v_default"])
            elif kind == "qtt_reject":
                args = {"vector": (call["bad"],), "matrix_i": (call["bad"], call["ok"]), "matrix_j": (call["ok"], call["bad"])}[call["fn"]]
                ctx.raises(ValueError, teneva.vector_delta if call["fn"] == "vector" else teneva.matrix_delta, call["q"], *args, call["v"])
                Y = None
            elif kind == "delta":
                Y = one_delta(ctx, call["n"], np.array(call["n"], dtype=int) if call["n_arr"] else list(call["n"]),
                              call["pos"], call["idx"], call["i_arr"], call["v"], call["v_default"])
            elif kind == "const":
                Y = run_const(call["case"], ctx, mark=False)
            elif kind == "poly":
                Y = run_poly(call["case"], ctx, mark=False)
            else:
                Y = _rand_call(call, ctx)
                first_rand.setdefault(t, [G.copy() for G in Y])
        except OracleFailure as e:
            raise OracleFailure(f"call {t} of the history ({kind}, after {kinds[:t]}): {e.msg}", {**e.details, "call": call})
        if Y is not None and case["scribble"] != "none":
            for G in Y:                           # the caller owns the result: overwrite it in place
                if case["scribble"] == "nan":
                    G[...] = np.nan
                else:
                    G *= -3.0
    for t, ref in first_rand.items():             # after the whole history: the same int seed gives the same tensor again
        call = calls[t]
        Y = _rand_call(call, ctx)
        ctx.check(len(Y) == len(ref) and all(G.shape == H.shape and bool(np.all(G == H)) for G, H in zip(Y, ref)),
                  f"{call['fn']}: the same call with the same int seed returned different cores later in the process",
                  call=call, step=t, history=kinds)
    ctx.nontrivial(nt)
    ctx.inner(len(calls) - 1)


SUBCHECKS = [
    Sub("const", prop_const, strategy=const_cases, quick=300, thorough=3000),
    Sub("delta", prop_delta, enumerate=shard_of(delta_cases), exhaustive=True),
    Sub("vector_delta", prop_vector_delta, enumerate=shard_of(vector_cases), exhaustive=True),
    Sub("matrix_delta", prop_matrix_delta, enumerate=shard_of(matrix_cases), exhaustive=True),
    Sub("delta_order", prop_order, enumerate=shard_of(order_cases), exhaustive=True),
    Sub("history", prop_history, strategy=history_cases, quick=120, thorough=2000),
    Sub("poly", prop_poly, strategy=poly_cases, quick=200, thorough=3000),
    Sub("rand_audit", prop_audit, strategy=audit_cases, quick=200, thorough=3000),
    Sub("rand_seeded", prop_seeded, strategy=seeded_cases, quick=120, thorough=1500),
    Sub("rand_stab", prop_stab, strategy=stab_cases, quick=150, thorough=2500),
]
