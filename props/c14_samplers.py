"""C14 - samplers draw from exactly the distribution their TT-tensor defines.

Observation point: `teneva._rand(seed)` uses any object that is neither `None` nor an `int` *as* the generator.
  * Forcer    - a duck-typed generator that records the probability vector of every `choice` request and answers
                with the next component of a chosen target multi-index.  Enumerating every multi-index of a small
                tensor with m = 1 decides the distribution claim exactly (no statistics).
  * Recorder  - wraps a real numpy Generator, records (p, answer) of every request; used for m > 1, where the
                requests are attributed to the samples and the attribution is validated against the returned rows.
  * A rigorous (Hoeffding + union bound, false alarm <= 1e-12 per case) goodness-of-fit test with plain int seeds is
    the protocol-independent fallback.
"""
import math
import functools
import numpy as np
from hypothesis import strategies as st

import harness.core  # noqa: F401  (sets sys.path for the code under test)
from harness.core import Sub
from harness import gen
from harness.oracle import EPS, dense, dense_abs

import teneva

LEVEL = "exploration"
RULE = ("Hypothesis draws small TT-tensors (d 2..4, mode sizes 1..4(5), ranks up to 4(5); `sample`: cores with "
        "non-negative entries incl. exact zero entries / slices / fibres, power-of-two scaled cores, explicit cores, and "
        "strictly positive tensors re-gauged to signed cores; `sample_square`: the shared families smallint/dyadic/float/"
        "gauss/scaled/rank_deficient/explicit).  Inside one case EVERY multi-index is forced through the sampler "
        "(counted as inner executions).  Oracle = dense reference T[i]/sum(T) resp. T[i]^2/||T||^2.  Non-trivial = some "
        "bond rank >= 2 and at least two modes of size >= 2 (grid samplers: d >= 2 and m not a multiple of some mode size; "
        "sample_tt: r >= 2 and d >= 3); distinct by SHA-1 of the case.  HISTORIES (`history`): one tensor (one list object, the same "
        "ndarray objects) is sampled, then updated by the caller IN PLACE (zero a mode slice / a rank fibre, rescale a slice or a core, "
        "overwrite a core, put a new core object into the same list, pass another list of the same arrays) and sampled again, 1..3 "
        "updates; after every update an ordinary call (int seed / Generator, recorded) and the full forced enumeration are audited "
        "against the dense reference of the cores as they are NOW; non-trivial = a distribution-changing update was audited.  "
        "GRID SAMPLERS: random shapes with mode sizes up to 80 (200) and m free or q*n_k, q*n_k+-1; `lhs_all_n` enumerates EVERY mode "
        "size 1..128 (400) with m in {1, k-1, k, k+1, 2k-1, 2k, 2k+1, 3k, 4k, 7k, 10k, ...}, 3 int seeds and 4 Generator objects, both "
        "int and float spellings of n and m; `tt_all_n` enumerates sample_tt for every mode size 1..128 (200) with r = k and r = 2k.  "
        "SCALED TENSORS (`square_forced`, `chains`, `structure_tt`, `gof`, `unique_args`): half of the sample_square tensors are deep "
        "(d 4..6 (7), modes 1..3) and every core k is multiplied by 2**x_k, |x_k| in {40, 120, 200, 250} (+-3 jitter), patterns all-up / "
        "all-down / alternating / one core / random signs - each core is an ordinary finite array, the scaled tensor itself may be as "
        "far as 2**+-1500 outside the double range; the reference is the UNSCALED base tensor (the squared distribution is invariant).  "
        "`sample` only gets scales whose total product stays in range (nn_scaled: |x_k| <= 60, d <= 4), because its marginal vectors "
        "carry the un-normalised product.  UNIQUE ARGUMENTS (`unique_args`): unique=True (explicit / default / positional) with m_fact in "
        "{default, 1, 2, 5, 50}, max_rep in {default, 100, 10, 0, 1, 2, 3}, m as int / float / np.int64 / np.float64, int seeds and Generator "
        "objects reused by 1..3 consecutive calls, on tensors peaked by damping slice i of core k with 2**(-a_k i); with max_rep <= 3 "
        "m is free (1..size+2, also more than the tensor has entries), otherwise m <= n_eff/2; non-trivial = m >= 2 rows were returned.  "
        "STORAGE TYPES (`core_dtypes`): tensors (d 2..4) whose cores are kept in int64 / int32 / bool / float32 / float64 arrays - one typed "
        "core in any position among arbitrary float64 cores, a typed first core, typed prefixes / suffixes, every other core, all cores "
        "alike, an independent draw per core; typed cores hold exactly representable values.  `sample` and `sample_square` are audited by "
        "the full forced enumeration against the dense reference of the float64 copy and must return, for the same int seed / Generator "
        "kind and m in 1..40, the very rows the float64 copy gives; non-trivial = d >= 3, a typed core before the last one, rank >= 2.  "
        "`grid` / `sample_tt` also get the shape as int32 / int16 / uint8 arrays.  SCALE-FREE CONDITIONALS: (a) `long_chains`: d 12..40 (64), "
        "modes 2..4, ranks 1..2 (product / two-component mixture / dense / peaked / sparse non-negative cores) normalised to total mass 1 "
        "(also 0.5, 3, 7.25, 1e-3, 1e3; optionally times 2**+-20..100) so that prefix marginals decay to 1e-12 .. 1e-30 and below; for `sample` "
        "in 3 of 6 cases instead integer-stored count cores (int64 / int32, entries 0..1 or 0..3, unnormalised: the sum of the tensor and single "
        "entries pass 2**63, labels counts_*; non-trivial then = one of them does); 2..4 target "
        "rows per case (drawn from the distribution, uniform, greedily most / least likely) are forced through `sample` (unsert 0 and "
        "default / 1e-10 / 1e-6 / 1e-14) resp. `sample_square` (cores with a random sign per mode slice), and an ordinary call (m 1..5, real "
        "Generator, recorded) is audited: EVERY probability vector handed to the generator, the late modes included, is compared with the "
        "conditional distribution given the drawn prefix, computed from the cores in non-negative arithmetic; non-trivial = a conditional "
        "behind a prefix of marginal <= 1e-12 was audited.  (b) `chains` multiplies the short `sample` tensors by 2**+-20..100 overall (one "
        "core / spread): with unsert=0 the same generator state must give the rows of the unscaled tensor.  (c) every forced / recorded "
        "`sample` audit (`sample_forced`, `chains`, `history`, `core_dtypes`) also asserts that the conditionals of the modes 1..d-1 multiply "
        "to T[i]/M0[i_0] with a purely relative tolerance, whatever unsert and the total mass are.")
TOLERANCES = ("sample: |prod p - T[i]/S| <= 4 d K eps rho T[i]/S (+ n_0 unsert/S for unsert > 0), K = 32(d+sum r+sum n), rho = max "
              "abs-majorant/value ratio over all prefix marginals (1 for non-negative cores, so zero entries are exact); "
              "sample_square: eta = K eps prod||G_k||_F/||T||_F, |prod p - P| <= 4 eta (sqrt(P)+P) + 4 eta^2; every recorded p: finite, "
              ">= 0, |sum-1| <= K eps; sample, modes after the first: |prod_{k>=1} p_k - T[i]/M0[i_0]| <= 4 d K eps rho T[i]/M0[i_0] (the noise term "
              "only enters the first-mode marginal); long chains: `sample` |p_k - c_k| <= 4 K eps c_k elementwise (mode 0 with unsert u: + n_0 u/(S + n_0 u)), "
              "`sample_square` rank 1: the same, rank 2: |p_k - c_k| <= 16 sqrt(n_k) eta'/sqrt(prefix marginal) + 4 K eps with eta' = K eps sum_k "
              "||L_k||_2 ||G_k||_F ||R_{k+1}||_2 / ||T||_F (normwise backward error of the orthogonalisation sweep), asserted while that is <= 1e-2; "
              "goodness of fit: max_i |count_i/m - P_i| <= sqrt(ln(2N/1e-12)/(2m)) + bias bound")
ASSUMPTIONS = ["d >= 2 (library-wide precondition)",
               "forced/recorded audits assume the request protocol 'modes left to right; within a mode either one vector request of "
               "size m or scalar requests in sample order'; any other protocol is labelled protocol_unknown and skipped, never failed",
               "sample: the tensor has a strictly positive entry (S > 0), enforced by construction (a positive path through the cores)",
               "sample with unsert > 0: targets whose first-mode marginal is zero are skipped (the code continues with 0/0 there, the "
               "property does not define that case); random-draw sub-checks use unsert=0 on such tensors",
               "sample_square: exactly-zero tensors and eta > 1e-7 (cancellation-dominated) are labelled and skipped",
               "sample_square(unique=True) with more than 3 restarts allowed: m <= half the number of entries with probability >= 1/(4 size), "
               "so the retry logic terminates quickly; with max_rep <= 3 any m (the work is bounded by 2**(max_rep+2) m_fact m <= 3000 rows)",
               "sample_square(unique=True) may give up with ValueError 'Can not generate the required number of samples' (the only accepted "
               "exception); this is rejected only when already the first round of m_fact*m i.i.d. rows hits the m most probable entries with "
               "probability >= 1 - 1e-12 (independent of how max_rep counts restarts and of how m_fact grows between them)",
               "scaled sample_square tensors: |x_k| <= 253 per core on top of the base family (`scaled`: another 2**+-30), so products of two "
               "neighbouring cores stay far inside the double range - the stabilised sweep never sees more than that",
               "m_fact is an int (documented type); float m_fact is not exercised",
               "float_cf (documented as 'TODO: check') is not exercised",
               "core_dtypes: typed cores hold values their type represents exactly (small integers, 0/1, multiples of 1/4 for float32 so that "
               "single-precision products / sums of them are exact); int64 / int32 / bool / float32 / float64 in any position were verified "
               "on the unmodified library to give the rows of the float64 copy, with two exceptions that are labelled and excluded: "
               "(a) `sample` with d >= 3 and BOTH cores 0 and 1 stored as bool (the prefix product is a bool einsum = logical or-of-ands, "
               "not a count: reported as a finding), (b) `sample_square` with a float32 or bool core: scipy.linalg.rq factorises those in "
               "single precision, so the chain is audited with the float32 unit roundoff and the rows are not compared with the float64 copy",
               "sample with unsert > 0: the noise is an ABSOLUTE amount added to the un-normalised first-mode marginal (docstring: 'noise "
               "parameter'; code: p += unsert before the first draw only).  For a tensor of small total mass S it legitimately dominates the "
               "first draw (bound n_0 unsert / S, vacuous for S <= 1e-10); what is asserted independently of it is the distribution of the "
               "modes 1..d-1 given the first index, which the unmodified library computes without any noise",
               "long_chains: cores are non-negative (sample) or non-negative up to one sign per mode slice (sample_square), so that the "
               "reference marginals are sums of non-negative terms (relative accuracy K eps); un-normalised prefix marginals stay above 1e-260 even in the thorough tier (d 64, least likely path of a peaked squared chain): no underflow; "
               "sample_square conditionals of rank-2 chains are asserted only while the normwise error bound resolves them (labelled otherwise)",
               "scale equivariance of rows (sample, unsert=0) is asserted for power-of-two factors only: they commute with every rounding "
               "as long as nothing under/overflows (|x| <= 100 on top of entries in 1e-80 .. 1e80)",
               "history: the caller's updates keep the tensor inside the domain by construction for `sample` (the positive path of the "
               "cores is never zeroed; signed-core tensors only get whole-slice updates); for `sample_square` a history ends (labelled) "
               "when an update makes the tensor exactly zero or ill-conditioned (eta > 1e-7)"]

DELTA = 1e-12       # false-alarm level of one goodness-of-fit case


# =========================================================================================== generator doubles

class _Stop(Exception):
    """The forced path has probability zero: a real generator could not go on from here."""


class _Unknown(Exception):
    """The sampler talks to its generator in a way the double does not understand."""


def _domain(a):
    if isinstance(a, (int, np.integer)):
        return int(a), True
    arr = np.asarray(a)
    if arr.ndim == 0:
        return int(arr), True
    return len(arr), bool(arr.ndim == 1 and np.array_equal(arr, np.arange(len(arr))))


class Forcer:
    """Answers the k-th `choice` request with the k-th component of `target`, recording the probability vector."""

    def __init__(self, target, shape):
        self.target = [int(t) for t in target]
        self.shape = [int(s) for s in shape]
        self.rec = []                       # (p, forced index)

    def choice(self, a, size=None, replace=True, p=None, axis=0, shuffle=True):
        k = len(self.rec)
        n, plain = _domain(a)
        if k >= len(self.target) or not plain or n != self.shape[k]:
            raise _Unknown(f"choice request {k} over a domain of size {n}")
        q = np.full(n, 1.0 / n) if p is None else np.array(p, dtype=float).reshape(-1)
        if q.shape != (n,):
            raise _Unknown("probability vector of another length than the domain")
        i = self.target[k]
        self.rec.append((q, i))
        if not (q[i] > 0) or not np.all(np.isfinite(q)):
            raise _Stop()
        if size is None:
            return np.int64(i)
        cnt = int(np.prod(size))
        if cnt != 1:
            raise _Unknown("vector request of size != 1 with m = 1")
        return np.full(size, i, dtype=np.int64)

    def shuffle(self, x, axis=0):            # the identity is a valid permutation
        return None

    def permutation(self, x, axis=0):
        return np.arange(x) if isinstance(x, (int, np.integer)) else np.array(x)

    def __getattr__(self, name):
        raise _Unknown("generator method " + name)


class Recorder:
    """A real numpy Generator whose `choice` requests are recorded with their answers."""

    def __init__(self, g):
        self._g = g
        self.calls = []                     # (n, plain, p or None, answer)
        self.other = []

    def choice(self, a, size=None, replace=True, p=None, axis=0, shuffle=True):
        out = self._g.choice(a, size=size, replace=replace, p=p, axis=axis, shuffle=shuffle)
        n, plain = _domain(a)
        self.calls.append((n, plain and replace, None if p is None else np.array(p, dtype=float).reshape(-1), np.array(out)))
        return out

    def shuffle(self, x, axis=0):
        self.other.append("shuffle")
        return self._g.shuffle(x, axis=axis)

    def __getattr__(self, name):
        self.other.append(name)
        return getattr(self._g, name)


def _guard(fn):
    @functools.wraps(fn)
    def run(*a, **k):
        try:
            return "ok", fn(*a, **k)
        except _Stop:
            return "stop", None
        except _Unknown as e:
            return "unknown", str(e)
    return run


def make_seed(kind, seed):
    if kind == "int":
        return int(seed)
    if kind == "pcg64":
        return np.random.default_rng(seed)
    if kind == "philox":
        return np.random.Generator(np.random.Philox(seed))
    if kind == "mt19937":
        return np.random.Generator(np.random.MT19937(seed))
    if kind == "sfc64":
        return np.random.Generator(np.random.SFC64(seed))
    raise ValueError(kind)


SEED_KINDS = ("int", "int", "pcg64", "philox", "mt19937", "sfc64")


# =========================================================================================== tensors

def sizes(tier):
    if tier == "quick":
        return dict(d_max=4, n_max=4, r_max=4, size_max=64)
    return dict(d_max=4, n_max=5, r_max=5, size_max=320)


@st.composite
def small_shapes(draw, tier, size_max=None):
    """d 2..4, mode sizes 1..4 (5 thorough) with size-1 modes present but not dominant; dense size capped by shrinking the largest mode."""
    kw = sizes(tier)
    d = draw(st.integers(2, kw["d_max"]))
    pool = [1, 2, 2, 3, 3, 4, 4] + ([5] if kw["n_max"] >= 5 else [])
    n = [draw(st.sampled_from(pool)) for _ in range(d)]
    return gen._cap_shape(n, size_max or kw["size_max"])


NN_FAMILIES = ("nn_int", "nn_dyadic", "nn_float", "nn_scaled", "nn_gauged", "nn_explicit")
_EXPL = [0.0, 0.0, 0.0, 1.0, 1.0, 2.0, 3.0, 0.5, 0.25, 1.5]


@st.composite
def nn_specs(draw, tier, size_max=None, families=NN_FAMILIES):
    """A TT-tensor with S = sum(T) > 0 and T >= 0: non-negative cores (exact zeros allowed) or, for nn_gauged, a strictly
    positive tensor whose cores were re-gauged by exact integer shears (signed cores)."""
    kw = sizes(tier)
    n = draw(small_shapes(tier, size_max))
    rfam, r = draw(gen.rank_profiles(n, r_max=kw["r_max"], entries_max=400))
    d = len(n)
    fam = draw(st.sampled_from(list(families)))
    entries = sum(r[k] * n[k] * r[k + 1] for k in range(d))
    if fam == "nn_explicit" and entries > 30:
        fam = "nn_float"
    spec = {"n": n, "r": r, "fam": fam, "rfam": rfam, "path": [draw(st.integers(0, k - 1)) for k in n]}
    if fam == "nn_explicit":
        spec["cores"] = [[draw(st.sampled_from(_EXPL)) for _ in range(r[k] * n[k] * r[k + 1])] for k in range(d)]
        return spec
    spec["seed"] = draw(gen.seeds)
    if fam == "nn_gauged":
        spec["shears"] = [[k, draw(st.integers(0, r[k] - 1)), draw(st.integers(0, r[k] - 1)), draw(st.sampled_from([-2, -1, 1, 2]))]
                          for k in range(1, d) if r[k] >= 2 for _ in range(draw(st.integers(1, 2)))]
        return spec
    if fam == "nn_scaled":
        # `sample` carries the product of the core scales un-normalised through its marginal vectors, so only scales whose total
        # product (d <= 4: at most 2**+-240) stays far inside the double range are in its domain
        e_max = draw(st.sampled_from([20, 20, 60]))
        pat = draw(st.sampled_from(["free", "free", "up", "down", "alt"]))
        if pat == "free":
            spec["exp"] = [draw(st.integers(-e_max, e_max)) for _ in range(d)]
        else:
            spec["exp"] = [{"up": e_max, "down": -e_max, "alt": e_max * (-1) ** k}[pat] for k in range(d)]
    spec["zfrac"] = draw(st.sampled_from([0.0, 0.0, 0.15, 0.4]))
    spec["zeros"] = [[draw(st.sampled_from(["slice", "left", "right"])), draw(st.integers(0, d - 1)), draw(st.integers(0, 7))]
                     for _ in range(draw(st.integers(0, 3)))]
    return spec


def build_nn(spec):
    n, r, fam = spec["n"], spec["r"], spec["fam"]
    d = len(n)
    if fam == "nn_explicit":
        Y = [np.array(spec["cores"][k], dtype=float).reshape(r[k], n[k], r[k + 1]) for k in range(d)]
    else:
        rng = np.random.default_rng(spec["seed"])
        Y = []
        for k in range(d):
            sh = (r[k], n[k], r[k + 1])
            if fam == "nn_int":
                G = rng.integers(0, 4, size=sh).astype(float)
            elif fam == "nn_dyadic":
                G = rng.integers(0, 17, size=sh) / 8.0
            elif fam == "nn_gauged":
                G = rng.uniform(0.25, 4.0, size=sh)
            else:
                G = rng.uniform(0.0, 4.0, size=sh)
            if fam != "nn_gauged" and spec.get("zfrac", 0.0) > 0:
                G = G * (rng.uniform(size=sh) >= spec["zfrac"])
            if fam == "nn_scaled":
                G = G * 2.0 ** spec["exp"][k]
            Y.append(G)
        for kind, k, j in spec.get("zeros", []):
            G = Y[k]
            if kind == "slice":
                G[:, j % G.shape[1], :] = 0.0
            elif kind == "left":
                G[j % G.shape[0], :, :] = 0.0
            else:
                G[:, :, j % G.shape[2]] = 0.0
    if fam != "nn_gauged":
        # a strictly positive path through the cores: T[path] > 0, hence S > 0 (restriction by construction)
        for k in range(d):
            if not Y[k][0, spec["path"][k], 0] > 0:
                Y[k][0, spec["path"][k], 0] = 2.0 ** spec["exp"][k] if fam == "nn_scaled" else 1.0
    else:
        for k, a, b, c in spec["shears"]:
            if a == b:
                continue
            R = np.eye(r[k]); R[a, b] = c
            Ri = np.eye(r[k]); Ri[a, b] = -c            # exact inverse of an integer shear
            Y[k - 1] = np.einsum('aib,bc->aic', Y[k - 1], R)
            Y[k] = np.einsum('ab,bic->aic', Ri, Y[k])
    return Y


def Kc(Y):
    return 32.0 * (len(Y) + sum(G.shape[2] for G in Y) + sum(G.shape[1] for G in Y))


def nn_reference(Y):
    """Dense reference of a non-negative TT-tensor: F, S, first-mode marginal, rho (majorant/value over all prefix marginals)."""
    F = dense(Y)
    A = dense_abs(Y)
    d = F.ndim
    if not (np.all(np.isfinite(F)) and F.min() >= 0 and F.sum() > 0):
        return None
    rho = float(A.sum() / F.sum())
    for k in range(d):
        axes = tuple(range(k + 1, d))
        Fk = F.sum(axis=axes) if axes else F
        Ak = A.sum(axis=axes) if axes else A
        mask = Fk > 0
        if np.any((Ak > 0) & ~mask):
            return None                              # a marginal that is zero only through cancellation: conditionals are noise
        rho = max(rho, float(np.max(Ak[mask] / Fk[mask])))
    M0 = F.sum(axis=tuple(range(1, d)))
    return {"F": F, "S": float(F.sum()), "M0": M0, "rho": rho, "P": F / F.sum()}


def sq_reference(Y):
    F = dense(Y)
    if not np.all(np.isfinite(F)):
        return None
    nrm2 = float((F * F).sum())
    if not nrm2 > 0:
        return None
    kappa = float(np.prod([np.linalg.norm(G.ravel()) for G in Y])) / math.sqrt(nrm2)
    eta = Kc(Y) * EPS * kappa
    P = F * F / nrm2
    tol = 4 * eta * (np.sqrt(P) + P) + 4 * eta * eta
    return {"F": F, "P": P, "eta": eta, "tol": tol}


def nn_labels(spec, ref):
    labs = ["fam:" + spec["fam"], "rfam:" + spec["rfam"], f"d=={len(spec['n'])}"]
    if 1 in spec["n"]:
        labs.append("has_mode_1")
    if max(spec["r"]) >= 2:
        labs.append("rank>=2")
    if ref is not None:
        if np.any(ref["F"] == 0):
            labs.append("has_zero_entries")
        if np.any(ref["M0"] == 0):
            labs.append("zero_first_marginal")
    return labs


def nontrivial_tt(spec):
    return max(spec["r"]) >= 2 and sum(1 for k in spec["n"] if k >= 2) >= 2


def check_pvec(ctx, q, K, what, **kw):
    ok = bool(np.all(np.isfinite(q)) and np.all(q >= 0) and abs(float(q.sum()) - 1.0) <= K * EPS)
    ctx.check(ok, f"{what}: a vector handed to the generator is not a probability vector", p=q, **kw)


def check_index_array(ctx, I, m, n, what):
    ctx.check(isinstance(I, np.ndarray), f"{what}: result is not an ndarray", type=type(I).__name__)
    ctx.check(I.dtype.kind in "iu", f"{what}: result dtype is not integer", dtype=str(I.dtype))
    ctx.check(I.shape == (m, len(n)), f"{what}: result shape is not (m, d)", shape=I.shape, m=m, d=len(n))
    ctx.check(bool(np.all(I >= 0) and np.all(I < np.array(n, dtype=int)[None, :])), f"{what}: index outside the tensor bounds",
              lo=I.min(axis=0) if m else None, hi=I.max(axis=0) if m else None, n=n)


# =========================================================================================== sample: forced enumeration

UNSERTS = [None, None, 1e-10, 1e-6, 1e-2]         # None = the default of the signature (1e-10)


@st.composite
def sample_forced_cases(draw, tier):
    return {"Y": draw(nn_specs(tier)), "unsert": draw(st.sampled_from(UNSERTS))}


def forced_sample_run(ctx, Y, n, ref, unsert):
    """Force every multi-index through teneva.sample with m = 1; `unsert` None means 'do not pass the keyword'."""
    d = len(n)
    K = Kc(Y)
    u = 1e-10 if unsert is None else float(unsert)
    kw = {} if unsert is None else {"unsert": unsert}
    F, S, P, rho = ref["F"], ref["S"], ref["P"], ref["rho"]
    bias = n[0] * u / S * (1 + 1e-9)
    run = _guard(teneva.sample)
    done = 0
    for idx in np.ndindex(*n):
        if u > 0 and ref["M0"][idx[0]] == 0:
            ctx.label("unsert_zero_first_marginal_skipped")
            continue
        aud = Forcer(idx, n)
        status, out = ctx.lib(run, Y, 1, aud, **kw)
        if status == "unknown":
            ctx.label("protocol_unknown")
            return done
        done += 1
        for q, _ in aud.rec:
            check_pvec(ctx, q, K, "sample", target=idx, unsert=u)
        prod = 1.0
        for q, i in aud.rec:
            prod *= float(q[i])
        if status == "stop":
            prod = 0.0
            ctx.label("zero_conditional_reached")
        else:
            if len(aud.rec) != d:
                ctx.label("protocol_unknown")
                return done
            check_index_array(ctx, out, 1, n, "sample(m=1)")
            ctx.check(out[0].tolist() == list(idx), "sample: the returned multi-index is not the one the generator picked",
                      got=out[0], picked=idx)
        p_ref = float(P[idx])
        tol = 4 * d * K * EPS * rho * p_ref + bias
        ctx.check(abs(prod - p_ref) <= tol, "sample: the chain of conditionals does not multiply to T[i]/sum(T)",
                  target=idx, chain=prod, ref=p_ref, tol=tol, unsert=u, conditionals=[float(q[i]) for q, i in aud.rec])
        # The noise term enters the marginal of the FIRST mode only (bias above, relative to the total mass S: for a tensor of
        # small overall scale it legitimately dominates the first draw).  The conditionals of the modes 1..d-1 given the first
        # index do not see it and do not depend on the overall scale: they multiply to T[i] / M0[i_0] - whatever unsert is.
        m0 = float(ref["M0"][idx[0]])
        if m0 > 0 and len(aud.rec) >= 2:
            tail = 0.0 if status == "stop" else float(np.prod([float(q[i]) for q, i in aud.rec[1:]]))
            t_ref = float(F[idx]) / m0
            ctx.check(abs(tail - t_ref) <= 4 * d * K * EPS * rho * t_ref, "sample: the conditionals of the modes after the first do not "
                      "multiply to T[i]/M0[i_0] (the distribution of the later modes given the first index)", target=idx, chain=tail,
                      ref=t_ref, unsert=u, first_marginal=m0, total=S, conditionals=[float(q[i]) for q, i in aud.rec])
    return done


def prop_sample_forced(case, ctx):
    spec = case["Y"]
    Y = build_nn(spec)
    n = spec["n"]
    ref = nn_reference(Y)
    ctx.label(*nn_labels(spec, ref))
    if ref is None or ref["rho"] > 1e4:
        ctx.label("reference_undefined_skipped")
        return
    with np.errstate(all="ignore"):
        done = forced_sample_run(ctx, Y, n, ref, 0.0)
        done += forced_sample_run(ctx, Y, n, ref, case["unsert"])
    ctx.label("unsert:" + ("default" if case["unsert"] is None else repr(case["unsert"])))
    ctx.inner(max(0, done - 1))
    ctx.nontrivial(nontrivial_tt(spec) and done > 0)


# =========================================================================================== sample_square: forced enumeration

SQ_FAMILIES = ("smallint", "dyadic", "float", "gauss", "scaled", "rank_deficient", "explicit")


@st.composite
def deep_shapes(draw, tier, size_max=None):
    """d 4..6 (7 thorough) with small modes: the depth at which a product of per-core scales leaves the double range."""
    kw = sizes(tier)
    d = draw(st.integers(4, 6 if tier == "quick" else 7))
    n = [draw(st.sampled_from([1, 2, 2, 2, 3])) for _ in range(d)]
    return gen._cap_shape(n, size_max or kw["size_max"])


@st.composite
def sq_specs(draw, tier, size_max=None, deep=False):
    kw = sizes(tier)
    shape = draw(deep_shapes(tier, size_max)) if deep else draw(small_shapes(tier, size_max))
    return draw(gen.tt_specs(shape=shape, r_max=kw["r_max"], families=SQ_FAMILIES, entries_max=400))


SCALE_E = (40, 120, 200, 250)
SCALE_PATTERNS = ("up", "down", "alt", "one", "signs")


@st.composite
def scale_specs(draw, d, none_weight=2):
    """Per-core power-of-two scales 2**x_k, |x_k| <= 250: every scaled core is a perfectly valid finite array and the squared
    distribution does not depend on the scales (they are exact), but the scaled TENSOR may be far outside the double range."""
    pat = draw(st.sampled_from(["none"] * none_weight + list(SCALE_PATTERNS)))
    if pat == "none":
        return {"pat": "none", "exp": [0] * d}
    e = draw(st.sampled_from(SCALE_E))
    if pat == "up":
        exp = [e] * d
    elif pat == "down":
        exp = [-e] * d
    elif pat == "alt":
        s0 = draw(st.sampled_from([1, -1]))
        exp = [s0 * e * (-1) ** k for k in range(d)]
    elif pat == "one":
        exp = [0] * d
        exp[draw(st.integers(0, d - 1))] = e * draw(st.sampled_from([1, -1]))
    else:
        exp = [e * draw(st.sampled_from([1, -1])) for _ in range(d)]
    if draw(st.booleans()):
        exp = [max(-250, min(250, x + draw(st.integers(-3, 3)))) for x in exp]
    return {"pat": pat, "e": e, "exp": exp}


@st.composite
def sq_scaled(draw, tier, size_max=None, none_weight=2):
    """(spec, scale): shallow tensors (d 2..4) or deep ones (d 4..6) together with a scale pattern."""
    deep = draw(st.booleans())
    spec = draw(sq_specs(tier, size_max, deep=deep))
    return spec, draw(scale_specs(len(spec["n"]), none_weight))


def apply_scale(ctx, Y, scale, layout="C"):
    """The tensor handed to the library: core k of the base tensor times 2**x_k (exact), in the memory layout of the base."""
    if scale is None or scale["pat"] == "none":
        ctx.label("scale:none")
        return Y
    ctx.label("scale:" + scale["pat"], f"scale_e:{scale['e']}", "d>=5" if len(Y) >= 5 else "d<5")
    if abs(sum(scale["exp"])) > 1000:
        ctx.label("scaled_tensor_outside_double_range")
    return [gen.relayout(G * 2.0 ** x, layout) for G, x in zip(Y, scale["exp"])]


@st.composite
def square_forced_cases(draw, tier):
    spec, scale = draw(sq_scaled(tier))
    return {"Y": spec, "scale": scale, "unique_spelling": draw(st.booleans())}


def sq_ref_labelled(ctx, Y):
    """Reference of the squared distribution of Y as it is now; None (labelled) outside the asserted domain."""
    ref = sq_reference(Y)
    if ref is None:
        ctx.label("zero_tensor_skipped")
        return None
    if ref["eta"] > 1e-7:
        ctx.label("ill_conditioned_skipped")
        return None
    if np.any(ref["F"] == 0):
        ctx.label("has_zero_entries")
    return ref


def sq_prepare(ctx, spec, scale=None):
    """(tensor for the library, reference).  The reference (dense tensor, eta, tolerances) is that of the UNSCALED base tensor:
    T[i]^2/||T||^2 is invariant under non-zero factors on the cores and power-of-two factors commute with every rounding."""
    Y = gen.build_tt(spec)
    ctx.label(*gen.spec_labels(spec), f"d=={len(spec['n'])}")
    ref = sq_ref_labelled(ctx, Y)
    return apply_scale(ctx, Y, scale, spec.get("layout", "C")), ref


def forced_square_run(ctx, Y, n, ref, kw, K=None):
    """Force every multi-index through teneva.sample_square with m = 1 (keywords `kw` select the spelling)."""
    d = len(n)
    K = Kc(Y) if K is None else K
    run = _guard(teneva.sample_square)
    done = 0
    for idx in np.ndindex(*n):
        aud = Forcer(idx, n)
        status, out = ctx.lib(run, Y, 1, seed=aud, **kw)
        if status == "unknown":
            ctx.label("protocol_unknown")
            break
        done += 1
        for q, _ in aud.rec:
            check_pvec(ctx, q, K, "sample_square", target=idx)
        prod = 1.0
        for q, i in aud.rec:
            prod *= float(q[i])
        if status == "stop":
            prod = 0.0
            ctx.label("zero_conditional_reached")
        else:
            if len(aud.rec) != d:
                ctx.label("protocol_unknown")
                break
            check_index_array(ctx, out, 1, n, "sample_square(m=1)")
            ctx.check(out[0].tolist() == list(idx), "sample_square: the returned multi-index is not the one the generator picked",
                      got=out[0], picked=idx)
        p_ref, tol = float(ref["P"][idx]), float(ref["tol"][idx])
        ctx.check(abs(prod - p_ref) <= tol, "sample_square: the chain of conditionals does not multiply to T[i]^2/||T||^2",
                  target=idx, chain=prod, ref=p_ref, tol=tol, conditionals=[float(q[i]) for q, i in aud.rec])
    return done


def prop_square_forced(case, ctx):
    spec = case["Y"]
    n = spec["n"]
    Y, ref = sq_prepare(ctx, spec, case.get("scale"))
    if ref is None:
        return
    # unique=True with m = 1 and m_fact = 1 draws exactly one row as well: the same distribution is claimed
    kw = dict(unique=True, m_fact=1) if case["unique_spelling"] else dict(unique=False)
    ctx.label("spelling:unique" if case["unique_spelling"] else "spelling:plain")
    with np.errstate(all="ignore"):
        done = forced_square_run(ctx, Y, n, ref, kw)
    ctx.inner(max(0, done - 1))
    ctx.nontrivial(nontrivial_tt(spec) and done > 0)


M_FACTS = (None, None, 1, 1, 2, 5, 50)          # None = the default of the signature (5)


# =========================================================================================== m > 1: recorded chains of a real generator

@st.composite
def chain_cases(draw, tier):
    which = draw(st.sampled_from(["sample", "square"]))
    scale = None
    if which == "sample":
        Y = draw(nn_specs(tier))
    else:
        Y, scale = draw(sq_scaled(tier))
    case = {"which": which, "Y": Y, "scale": scale, "m": draw(st.integers(1, 12 if tier == "quick" else 40)),
            "gen": draw(st.sampled_from(SEED_KINDS[2:])), "seed": draw(gen.seeds), "default_unsert": draw(st.booleans())}
    if which == "sample":
        case["overall"] = draw(overall_scales(len(Y["n"])))
    return case


OVERALL_E = (20, 33, 40, 66, 100)                   # 2**20 ~ 1e6 ... 2**100 ~ 1e30


@st.composite
def overall_scales(draw, d, none_weight=1):
    """An overall factor 2**+-x (1e+-6 .. 1e+-30) on the tensor handed to `sample`, put on one core or spread over all of them.
    The distribution is scale-free; power-of-two factors commute with every rounding, so even the rows must not change."""
    if draw(st.sampled_from([True] * none_weight + [False] * 3)):
        return None
    x = draw(st.sampled_from(OVERALL_E)) * draw(st.sampled_from([-1, -1, 1]))
    where = draw(st.sampled_from(["one", "spread"]))
    exp = [0] * d
    if where == "one":
        exp[draw(st.integers(0, d - 1))] = x
    else:
        for j in range(abs(x)):
            exp[j % d] += 1 if x > 0 else -1
    return {"x": x, "where": where, "exp": exp}


def apply_overall(ctx, Y, ov):
    if ov is None:
        ctx.label("overall:none")
        return Y
    ctx.label("overall:" + ("down" if ov["x"] < 0 else "up"), f"overall_e:{abs(ov['x'])}", "overall_where:" + ov["where"])
    return [G * 2.0 ** x for G, x in zip(Y, ov["exp"])]


def attribute(calls, m, d):
    """Attribute recorded choice requests to (sample, mode): modes left to right, a vector request of size m serves all
    samples, a scalar request serves the first sample that is furthest behind.  None if that does not fit."""
    pos = [0] * m
    chain = [[None] * d for _ in range(m)]
    for n, plain, p, out in calls:
        if not plain:
            return None
        if out.ndim == 0:
            who = [min(range(m), key=lambda j: (pos[j], j))]
            vals = [int(out)]
        elif out.shape == (m,):
            who = list(range(m))
            vals = [int(v) for v in out]
        else:
            return None
        for s, v in zip(who, vals):
            if pos[s] >= d:
                return None
            chain[s][pos[s]] = (n, p, v)
            pos[s] += 1
    if any(q != d for q in pos):
        return None
    return chain


def nn_tail(ref, d, K):
    """(T[i]/M0[i_0], tolerance): the probability of the modes 1..d-1 given the first index - the part of the chain of `sample` that
    neither the noise term nor the overall scale of the tensor touches; NaN where the first-mode marginal is zero."""
    M0 = ref["M0"].reshape((-1,) + (1,) * (d - 1))
    with np.errstate(all="ignore"):
        Pt = np.where(M0 > 0, ref["F"] / np.where(M0 > 0, M0, 1.0), np.nan)
    return Pt, 4 * d * K * EPS * ref["rho"] * Pt


def audit_recorded(ctx, name, I, g, m, n, P, tolP, K, tail=None):
    """The requests recorded by `g` during the call that returned I: every p is a probability vector and, when the requests
    can be attributed to the rows, the conditionals of every row multiply to its probability.  False = protocol unknown."""
    d = len(n)
    check_index_array(ctx, I, m, n, name)
    for _, _, p, _ in g.calls:
        if p is not None:
            check_pvec(ctx, p, K, name)
    chain = attribute(g.calls, m, d)
    if chain is None:
        ctx.label("protocol_unknown")
        return False
    for s in range(m):
        for k in range(d):
            nk, p, v = chain[s][k]
            if nk != n[k] or v != int(I[s, k]):
                ctx.label("protocol_unknown")       # requests cannot be matched with the returned rows: no claim
                return False
    for s in range(m):
        prod = 1.0
        for k in range(d):
            nk, p, v = chain[s][k]
            prod *= (1.0 / nk) if p is None else float(p[v])
        row = tuple(int(v) for v in I[s])
        p_ref, tol = float(P[row]), float(tolP[row])
        ctx.check(abs(prod - p_ref) <= tol, f"{name}(m={m}): the conditionals used for sample {s} do not multiply to its probability",
                  row=row, chain=prod, ref=p_ref, tol=tol)
        if tail is not None and d >= 2 and np.isfinite(tail[0][row]):
            rest = float(np.prod([(1.0 / nk) if p is None else float(p[v]) for nk, p, v in chain[s][1:]]))
            ctx.check(abs(rest - float(tail[0][row])) <= float(tail[1][row]), f"{name}(m={m}): the conditionals used for the modes after "
                      f"the first of sample {s} do not multiply to T[i]/M0[i_0]", row=row, chain=rest, ref=float(tail[0][row]))
    return True


def prop_chains(case, ctx):
    spec, m = case["Y"], case["m"]
    n = spec["n"]
    d = len(n)
    g = Recorder(make_seed(case["gen"], case["seed"]))
    ctx.label("which:" + case["which"], "gen:" + case["gen"])
    tail = None
    if case["which"] == "sample":
        Yb = build_nn(spec)
        Y = apply_overall(ctx, Yb, case.get("overall"))          # the tensor handed to the library; the reference is ITS dense form
        ref = nn_reference(Y)
        ctx.label(*nn_labels(spec, ref))
        if ref is None or ref["rho"] > 1e4:
            ctx.label("reference_undefined_skipped")
            return
        use_default = case["default_unsert"] and bool(np.all(ref["M0"] > 0))
        kw = {} if use_default else {"unsert": 0.0}
        u = 1e-10 if use_default else 0.0
        ctx.label("unsert:default" if use_default else "unsert:0")
        with np.errstate(all="ignore"):
            I = ctx.lib(teneva.sample, Y, m, g, **kw)
        K = Kc(Y)
        P = ref["P"]
        tolP = 4 * d * K * EPS * ref["rho"] * P + n[0] * u / ref["S"] * (1 + 1e-9)
        tail = nn_tail(ref, d, K)
        name = "sample"
        if ref["S"] * 1e-2 < 1e-10:
            ctx.label("total_mass<100*default_unsert")
        if case.get("overall") is not None:
            # scale-free: without the (absolute) noise term the SAME generator state gives the SAME rows for the tensor times 2**x
            with np.errstate(all="ignore"):
                I1 = ctx.lib(teneva.sample, Y, m, make_seed(case["gen"], case["seed"]), unsert=0.0)
                I0 = ctx.lib(teneva.sample, Yb, m, make_seed(case["gen"], case["seed"]), unsert=0.0)
            ctx.check(np.array_equal(I0, I1), "sample(unsert=0): the tensor times a power of two gives other rows than the tensor itself "
                      "(same generator state; the distribution does not depend on the overall scale)", exponent=case["overall"]["x"],
                      where=case["overall"]["where"], rows=I0[:6], rows_scaled=I1[:6])
    else:
        Y, ref = sq_prepare(ctx, spec, case.get("scale"))
        if ref is None:
            return
        I = ctx.lib(teneva.sample_square, Y, m, False, g)
        K = Kc(Y)
        P, tolP = ref["P"], ref["tol"]
        name = "sample_square"
    if not audit_recorded(ctx, name, I, g, m, n, P, tolP, K, tail=tail):
        return
    ctx.inner(m - 1)
    ctx.nontrivial(nontrivial_tt(spec) and m >= 2)


# =========================================================================================== long chains: tiny prefix marginals
#
# A probability tensor with many modes has total mass 1 (or O(1)) although EVERY prefix of more than a few modes carries a tiny
# marginal (n = 4: about 4**-k after k modes).  The conditional of mode k is a ratio of two such numbers, so it is scale-free; the
# samplers must use it however small both numbers are in absolute terms.  The dense reference is out of reach (4**40 entries), but
# for NON-NEGATIVE cores the marginals of a prefix are sums of non-negative products of the cores, which plain double arithmetic
# gives to high relative accuracy: the reference below is exact up to K eps per conditional.

LONG_FAMS = ("mixture", "mixture", "dense", "dense", "peaked", "product")
LONG_UNSERTS = (None, None, None, 1e-10, 1e-6, 1e-14)
LONG_RESOLUTION = 1e-2


@st.composite
def long_cases(draw, tier):
    which = draw(st.sampled_from(["sample", "sample", "sample", "square"]))
    d = draw(st.integers(12, 40 if tier == "quick" else 64))
    n0 = draw(st.integers(2, 4))
    n = [n0] * d if draw(st.booleans()) else [draw(st.integers(2, 4)) for _ in range(d)]
    fam = draw(st.sampled_from(LONG_FAMS + (("product", "product") if which == "square" else ())))
    if fam == "product":
        r = [1] * (d + 1)
    elif fam == "mixture" or draw(st.booleans()):
        r = [1] + [2] * (d - 1) + [1]
    else:
        r = [1] + [draw(st.sampled_from([1, 2, 2])) for _ in range(d - 1)] + [1]
    case = {"which": which, "n": n, "r": r, "fam": fam, "seed": draw(gen.seeds), "zfrac": draw(st.sampled_from([0.0, 0.0, 0.0, 0.15])),
            "peak": draw(st.sampled_from([1, 1, 2])), "mass": draw(st.sampled_from([1.0, 1.0, 1.0, 0.5, 3.0, 7.25, 1e-3, 1e3])),
            "targets": draw(st.lists(st.sampled_from(["typical", "typical", "uniform", "likely", "unlikely"]), min_size=2, max_size=4)),
            "tseed": draw(gen.seeds), "unsert": draw(st.sampled_from(LONG_UNSERTS)), "m": draw(st.integers(1, 5)),
            "kind": draw(st.sampled_from(SEED_KINDS[2:])), "cseed": draw(gen.seeds), "default_unsert": draw(st.booleans())}
    if which == "sample":
        case["overall"] = draw(overall_scales(d, none_weight=3))
        # integer-stored cores (small counts): the sum of the tensor and the partial products along a multi-index leave the int64
        # range after some twenty modes while every float64 quantity the sampler needs stays ordinary
        case["store"] = draw(st.sampled_from([None, None, None, "int64", "int64", "int32"]))
        if case["store"] is not None:
            case["fam"], case["overall"], case["mass"] = "counts", None, 1.0
            case["hi"] = draw(st.sampled_from([1, 3, 3]))
            if draw(st.booleans()):
                case["r"] = [1] + [2] * (d - 1) + [1]
    return case


def build_long(case):
    """Non-negative cores of ranks 1..2 whose right marginal vectors (`sample`) / right Gram matrices (`sample_square`) are
    normalised to maximum 1 in every position, so that the total mass (squared norm) is exactly `mass` (mass**2) up to rounding
    while a prefix of k modes keeps about prod 1/n_j of it.  For `sample_square` every mode slice then gets a random sign: the
    squared distribution is that of the non-negative tensor, the cores the library factorises are signed."""
    n, r, fam = case["n"], case["r"], case["fam"]
    d = len(n)
    rng = np.random.default_rng(case["seed"])
    Y = []
    if fam == "counts":
        for k in range(d):
            G = rng.integers(0, case["hi"] + 1, size=(r[k], n[k], r[k + 1]))
            G[0, 0, 0] = max(1, int(G[0, 0, 0]))        # a strictly positive path: the tensor is not zero
            Y.append(G.astype(case["store"]))
        return Y
    for k in range(d):
        sh = (r[k], n[k], r[k + 1])
        if fam == "mixture":
            G = np.zeros(sh)
            for j in range(2):
                G[min(j, sh[0] - 1), :, min(j, sh[2] - 1)] = rng.uniform(0.1, 1.0, n[k]) * (0.7 if (k == 0 and j == 0) else 1.0)
        else:
            G = rng.uniform(0.05, 1.0, size=sh)
            if fam == "peaked":
                G *= (2.0 ** (-case["peak"] * np.arange(n[k])))[None, :, None]
            if case["zfrac"] > 0:
                G *= rng.uniform(size=sh) >= case["zfrac"]
                if not G[0, 0, 0] > 0:
                    G[0, 0, 0] = 0.5                    # a strictly positive path: the tensor is not zero
        Y.append(G)
    if case["which"] == "sample":
        phi = np.ones(1)
        for k in range(d - 1, -1, -1):
            phi = Y[k].sum(axis=1) @ phi
            s = float(phi.max())
            Y[k] /= s
            phi = phi / s
    else:
        R = np.ones((1, 1))
        for k in range(d - 1, -1, -1):
            R = np.einsum('aib,bc,eic->ae', Y[k], R, Y[k])
            s = float(np.diag(R).max())
            Y[k] /= math.sqrt(s)
            R = R / s
        for k in range(d):
            Y[k] *= rng.choice([-1.0, 1.0], size=n[k])[None, :, None]
    Y[0] *= case["mass"]
    return Y


class LongRef:
    """Marginals of prefixes of a TT-tensor with non-negative cores (`sample`) resp. of the square of a tensor whose cores are
    non-negative up to a sign per mode slice (`sample_square`), computed from the cores in non-negative arithmetic."""

    def __init__(self, Y, square):
        self.A = [np.abs(np.asarray(G, dtype=float)) for G in Y]
        self.square = square
        d = self.d = len(Y)
        self.right = [None] * (d + 1)
        self.right[d] = np.ones((1, 1)) if square else np.ones(1)
        for k in range(d - 1, -1, -1):
            if square:
                self.right[k] = np.einsum('aib,bc,eic->ae', self.A[k], self.right[k + 1], self.A[k])
            else:
                self.right[k] = self.A[k].sum(axis=1) @ self.right[k + 1]
        self.total = float(np.ravel(self.right[0])[0])          # sum(T) resp. ||T||_F^2
        self.K = Kc(Y)
        self.eta = None
        self.rank1 = all(G.shape[0] == 1 and G.shape[2] == 1 for G in Y)
        if square:
            # normwise backward error of the orthogonalisation sweep: step k perturbs G_k R_{k+1} by c eps of its norm, the left
            # cores carry that into the tensor with the 2-norm of their unfolding (Gram matrices, all non-negative sums)
            L = np.ones((1, 1))
            kap = 0.0
            for k in range(d):
                kap += math.sqrt(float(np.linalg.eigvalsh(L)[-1])) * float(np.linalg.norm(self.A[k].ravel())) \
                       * math.sqrt(float(np.linalg.eigvalsh(self.right[k + 1])[-1]))
                L = np.einsum('aib,ae,eic->bc', self.A[k], L, self.A[k])
            self.eta = self.K * EPS * kap / math.sqrt(self.total)

    def step(self, v, k):
        """(unnormalised marginals of prefix + (i,) for every i, partial products prefix + (i,))"""
        w = np.einsum('a,aib->ib', v, self.A[k])
        if self.square:
            return np.einsum('ib,bc,ic->i', w, self.right[k + 1], w), w
        return w @ self.right[k + 1], w

    def conditionals(self, row):
        """[(conditional distribution of mode k given row[:k] or None for a zero-mass prefix, marginal of row[:k] / total)]"""
        v, out = np.ones(1), []
        for k in range(self.d):
            marg, w = self.step(v, k)
            tot = float(marg.sum())
            out.append((marg / tot if tot > 0 else None, tot / self.total))
            v = w[int(row[k])]
        return out

    def draw_row(self, kind, rng):
        """A target row: drawn from the distribution itself, uniform, or greedily the most / least likely continuation."""
        v, row = np.ones(1), []
        for k in range(self.d):
            marg, w = self.step(v, k)
            tot = float(marg.sum())
            if kind == "uniform" or not tot > 0:
                i = int(rng.integers(0, len(marg)))
            elif kind == "typical":
                i = int(rng.choice(len(marg), p=marg / tot))
            elif kind == "likely":
                i = int(np.argmax(marg))
            else:
                pos = np.where(marg > 0)[0]
                i = int(pos[np.argmin(marg[pos])])
            row.append(i)
            v = w[i]
        return row


def long_mode_check(ctx, name, lref, k, q, cond, n, u, row, worst):
    """One probability vector handed to the generator for mode k against the conditional distribution of the tensor given the
    prefix row[:k].  Returns False when a squared conditional is beyond what the normwise-stable factorisation resolves."""
    c, pm = cond
    if c is None:
        return False
    if lref.square and lref.rank1:
        # all ranks 1: the partial product is a scalar that cancels in the conditional g_i^2 / sum_j g_j^2 of the normalised core
        tolv = 4 * lref.K * EPS * c
    elif lref.square:
        # sqrt-marginals are accurate to 3 eta absolutely (backward error of the factorisation, normalisation, sampling sweep),
        # the conditional is the squared ratio of two of them: |dq| <= 4 * 3 sqrt(n_k) eta / sqrt(prefix marginal) + higher order
        tol = 16 * math.sqrt(n[k]) * lref.eta / math.sqrt(pm) + 4 * lref.K * EPS
        if tol > LONG_RESOLUTION:
            ctx.label("square_prefix_beyond_resolution")
            return False
        tolv = np.full(len(c), tol)
    else:
        tolv = 4 * lref.K * EPS * c
        if k == 0 and u > 0:
            # the noise term: (M0 + u) / (S + n_0 u) is within (n_0 - 1) u / (S + n_0 u) of M0 / S
            tolv = tolv + n[0] * u / (lref.total + n[0] * u) * (1 + 1e-9)
    err = np.abs(q - c)
    ctx.check(bool(np.all(err <= tolv)), f"{name}: the probability vector used for a mode is not the conditional distribution of the "
              "tensor given the indices drawn so far", mode=k, prefix=row[:k], prefix_marginal=pm, used=q, conditional=c, tol=tolv,
              total=lref.total, unsert=u)
    worst[0] = min(worst[0], pm * (1.0 if lref.square else lref.total))
    return True


def long_forced(ctx, name, fn, Y, n, lref, row, kw, u, worst):
    aud = Forcer(row, n)
    status, out = ctx.lib(_guard(fn), Y, 1, seed=aud, **kw)
    if status == "unknown" or (status == "ok" and len(aud.rec) != len(n)):
        ctx.label("protocol_unknown")
        return False
    conds = lref.conditionals(row)
    if status == "ok":
        check_index_array(ctx, out, 1, n, name + "(m=1)")
        ctx.check(out[0].tolist() == list(row), f"{name}: the returned multi-index is not the one the generator picked", got=out[0], picked=row)
    else:
        ctx.label("zero_conditional_reached")
    for k, (q, i) in enumerate(aud.rec):
        check_pvec(ctx, q, lref.K, name, mode=k)
        if not long_mode_check(ctx, name, lref, k, q, conds[k], n, u, row, worst):
            break
    return True


def long_recorded(ctx, name, I, g, m, n, lref, u, worst):
    d = len(n)
    check_index_array(ctx, I, m, n, name)
    chain = attribute(g.calls, m, d)
    if chain is None or any(chain[s][k][0] != n[k] or chain[s][k][2] != int(I[s, k]) or chain[s][k][1] is None
                            for s in range(m) for k in range(d)):
        ctx.label("protocol_unknown")
        return False
    for s in range(m):
        row = [int(v) for v in I[s]]
        conds = lref.conditionals(row)
        for k in range(d):
            check_pvec(ctx, chain[s][k][1], lref.K, name, mode=k)
            if not long_mode_check(ctx, f"{name}(m={m})", lref, k, chain[s][k][1], conds[k], n, u, row, worst):
                break
    return True


def prop_long_chains(case, ctx):
    n, d, square = case["n"], len(case["n"]), case["which"] == "square"
    Y = build_long(case)
    lref = LongRef(Y, square)
    ctx.label("which:" + case["which"], "fam:" + case["fam"], "d<20" if d < 20 else "d<30" if d < 30 else "d>=30", f"mass:{case['mass']}",
              "rank>=2" if max(case["r"]) >= 2 else "rank1")
    worst = [1.0]                                   # smallest prefix marginal (absolute for `sample`) whose conditional was audited
    rng = np.random.default_rng(case["tseed"])
    rows = [lref.draw_row(kind, rng) for kind in case["targets"]]
    counts_big = False
    if case.get("store"):
        path = max(float(lref.conditionals(row)[-1][1]) * lref.total for row in rows)      # value of the tensor at a target row
        counts_big = lref.total >= 2.0 ** 63 or path >= 2.0 ** 63
        ctx.label("store:" + case["store"], "counts_total>=2^63" if lref.total >= 2.0 ** 63 else "counts_total<2^63",
                  "counts_entry>=2^63" if path >= 2.0 ** 63 else "counts_entry<2^63")
    ctx.label(*("target:" + t for t in case["targets"]))
    done = 0
    with np.errstate(all="ignore"):
        if square:
            for row in rows:
                done += bool(long_forced(ctx, "sample_square", teneva.sample_square, Y, n, lref, row, {"unique": False}, 0.0, worst))
            g = Recorder(make_seed(case["kind"], case["cseed"]))
            I = ctx.lib(teneva.sample_square, Y, case["m"], False, g)
            long_recorded(ctx, "sample_square", I, g, case["m"], n, lref, 0.0, worst)
        else:
            M0 = lref.step(np.ones(1), 0)[0]
            for unsert in (0.0, case["unsert"]):
                kw = {} if unsert is None else {"unsert": unsert}
                u = 1e-10 if unsert is None else float(unsert)
                for row in rows:
                    if u > 0 and not M0[row[0]] > 0:
                        ctx.label("unsert_zero_first_marginal_skipped")
                        continue
                    done += bool(long_forced(ctx, "sample", teneva.sample, Y, n, lref, row, kw, u, worst))
            ctx.label("unsert:" + ("default" if case["unsert"] is None else repr(case["unsert"])))
            # an ordinary call with a real generator; then the same generator state on the tensor times 2**x
            use_default = case["default_unsert"] and bool(np.all(M0 > 0))
            kw = {} if use_default else {"unsert": 0.0}
            g = Recorder(make_seed(case["kind"], case["cseed"]))
            I = ctx.lib(teneva.sample, Y, case["m"], g, **kw)
            long_recorded(ctx, "sample", I, g, case["m"], n, lref, 1e-10 if use_default else 0.0, worst)
            ov = case.get("overall")
            if ov is not None:
                Ys = apply_overall(ctx, Y, ov)
                I0 = ctx.lib(teneva.sample, Y, case["m"], make_seed(case["kind"], case["cseed"]), unsert=0.0)
                I1 = ctx.lib(teneva.sample, Ys, case["m"], make_seed(case["kind"], case["cseed"]), unsert=0.0)
                ctx.check(np.array_equal(I0, I1), "sample(unsert=0): the tensor times a power of two gives other rows than the tensor itself "
                          "(same generator state; the distribution does not depend on the overall scale)", exponent=ov["x"], where=ov["where"],
                          rows=I0[:4], rows_scaled=I1[:4])
                sref = LongRef(Ys, False)
                g = Recorder(make_seed(case["kind"], case["cseed"]))
                I = ctx.lib(teneva.sample, Ys, case["m"], g, **kw)
                long_recorded(ctx, "sample", I, g, case["m"], n, sref, 1e-10 if use_default else 0.0, worst)
    for t in (1e-10, 1e-12, 1e-20, 1e-30):
        if worst[0] <= t:
            ctx.label(f"audited_prefix_marginal<={t:g}")
    ctx.inner(max(0, done - 1))
    ctx.nontrivial(done > 0 and (worst[0] <= 1e-12 or counts_big))


# =========================================================================================== histories: the tensor as it is NOW

HIST_OPS = ("zero_slice", "zero_slice", "scale_slice", "scale_core", "zero_left", "zero_right", "overwrite", "replace_obj", "none")
HIST_C = [2.0, 0.5, 3.0, 0.125, 1e3, 1e-3, -1.0, -2.0]


@st.composite
def history_cases(draw, tier):
    """One TT-tensor (one list object, the same ndarray objects) sampled, updated by the caller, sampled again, ..."""
    which = draw(st.sampled_from(["sample", "square"]))
    sm = 36 if tier == "quick" else 120
    Y = draw(nn_specs(tier, size_max=sm)) if which == "sample" else draw(sq_specs(tier, size_max=sm))
    steps = [{"op": draw(st.sampled_from(HIST_OPS)), "k": draw(st.integers(0, 3)), "j": draw(st.integers(0, 7)),
              "c": draw(st.sampled_from(HIST_C)), "seed": draw(gen.seeds), "container": draw(st.sampled_from(["same_list", "same_list", "new_list"]))}
             for _ in range(draw(st.integers(1, 3)))]
    return {"which": which, "Y": Y, "steps": steps, "m": draw(st.integers(1, 8 if tier == "quick" else 30)),
            "unique": draw(st.booleans()), "unique_spelling": draw(st.booleans()), "unsert": draw(st.sampled_from([0.0, 0.0, None])),
            "m_fact": draw(st.sampled_from(M_FACTS)),
            "kind": draw(st.sampled_from(SEED_KINDS)), "seed": draw(gen.seeds)}


def apply_step(Y, step, nn, spec):
    """The caller updates its tensor: IN PLACE inside the ndarray objects (all operations but replace_obj) or by putting a new
    core object into the same list (replace_obj).  Returns (operation actually applied, whether the distribution changed).
    For `sample` the update keeps T >= 0 and S > 0 by construction (the positive path of build_nn is never touched)."""
    d = len(Y)
    k = step["k"] % d
    G = Y[k]
    r1, nk, r2 = G.shape
    op, j = step["op"], step["j"]
    gauged = nn and spec["fam"] == "nn_gauged"
    c = abs(step["c"]) if nn else step["c"]
    i = j % nk
    if nn and not gauged and i == spec["path"][k]:
        i = (i + 1) % nk
    if op in ("zero_slice", "replace_obj", "scale_slice") and nk == 1:
        op = "scale_core"                              # the only slice: the tensor would become zero / only be rescaled
    if (op == "zero_left" and r1 == 1) or (op == "zero_right" and r2 == 1):
        op = "zero_slice" if nk >= 2 else "scale_core"
    if gauged and op in ("zero_left", "zero_right", "overwrite"):
        op = "scale_slice" if nk >= 2 else "scale_core"   # signed cores: only whole slices of T may be changed safely
    if op == "zero_slice":
        G[:, i, :] = 0.0
    elif op == "scale_slice":
        G[:, i, :] *= c
    elif op == "scale_core":
        G *= c
    elif op == "zero_left":
        G[(1 + j % (r1 - 1)) if nn else (j % r1), :, :] = 0.0
    elif op == "zero_right":
        G[:, :, (1 + j % (r2 - 1)) if nn else (j % r2)] = 0.0
    elif op == "overwrite":
        rng = np.random.default_rng(step["seed"])
        if nn:
            H = rng.uniform(0.0, 4.0, size=G.shape) * (rng.uniform(size=G.shape) >= 0.2)
            if not H[0, spec["path"][k], 0] > 0:
                H[0, spec["path"][k], 0] = 1.0
        elif step["seed"] % 2:
            H = rng.integers(-3, 4, size=G.shape).astype(float)
        else:
            H = rng.standard_normal(G.shape)
        G[...] = H
    elif op == "replace_obj":
        H = G.copy()
        H[:, i, :] = 0.0
        Y[k] = H                                       # a new core object in the SAME list object
    return op, op not in ("none", "scale_core")


def history_real_call(ctx, case, which, Ycall, n, ref, mkseed):
    """One ordinary call (int seed or Generator object) on the current tensor: shape/bounds/uniqueness, no row at a zero
    entry, and - for Generator objects - the recorded conditionals multiply to the probability of the drawn rows."""
    m, d = case["m"], len(n)
    K = Kc(Ycall)
    seed = mkseed()
    rec = Recorder(seed) if not isinstance(seed, int) else None
    arg = seed if rec is None else rec
    if which == "sample":
        use_default = case["unsert"] is None and bool(np.all(ref["M0"] > 0))
        kw = {} if use_default else {"unsert": 0.0}
        u = 1e-10 if use_default else 0.0
        I = ctx.lib(teneva.sample, Ycall, m, arg, **kw)
        check_index_array(ctx, I, m, n, "sample")
        if not use_default and ref["rho"] == 1.0:
            vals = ref["F"][tuple(I.T)]
            ctx.check(bool(np.all(vals > 0)), "sample(unsert=0) returned a multi-index whose entry is zero in the tensor as it is now",
                      row=I[int(np.argmin(vals))], value=float(vals.min()))
        if rec is not None:
            tolP = 4 * d * K * EPS * ref["rho"] * ref["P"] + n[0] * u / ref["S"] * (1 + 1e-9)
            audit_recorded(ctx, "sample", I, rec, m, n, ref["P"], tolP, K, tail=nn_tail(ref, d, K))
        return
    P, tol = ref["P"], ref["tol"]
    sharp = ref["eta"] <= 1e-10
    if case["unique"]:
        n_eff = int(np.sum(P >= 1.0 / (4 * P.size)))
        mu = min(m, max(1, n_eff // 2))
        kw = {} if case.get("m_fact") is None else {"m_fact": case["m_fact"]}
        I = ctx.lib(teneva.sample_square, Ycall, mu, seed=arg, **kw)
        check_index_array(ctx, I, mu, n, "sample_square(unique=True)")
        ctx.check(len({tuple(row) for row in I.tolist()}) == mu, "sample_square(unique=True) returned repeated rows", rows=I, m=mu)
    else:
        I = ctx.lib(teneva.sample_square, Ycall, m, False, arg)
        check_index_array(ctx, I, m, n, "sample_square(unique=False)")
    bad = P[tuple(I.T)] <= 2 * tol[tuple(I.T)]
    ctx.check(not (sharp and np.any(bad)), "sample_square returned a multi-index whose entry is zero in the tensor as it is now "
              "(probability below 1e-18)", row=I[int(np.argmax(bad))])
    if rec is not None and not case["unique"]:
        audit_recorded(ctx, "sample_square", I, rec, m, n, P, tol, K)


def prop_history(case, ctx):
    which, spec = case["which"], case["Y"]
    nn = which == "sample"
    n = spec["n"]
    Y = build_nn(spec) if nn else gen.build_tt(spec)             # ONE list object for the whole history
    ctx.label("which:" + which, "seed:" + case["kind"], f"d=={len(n)}", "fam:" + spec["fam"])
    sq_kw = dict(unique=True, m_fact=1) if case["unique_spelling"] else dict(unique=False)
    done, changed_audited = 0, False
    with np.errstate(all="ignore"):
        for t, step in enumerate([None] + case["steps"]):
            changed, Ycall = False, Y
            if step is not None:
                op, changed = apply_step(Y, step, nn, spec)
                ctx.label("op:" + op, "container:" + step["container"])
                if step["container"] == "new_list":
                    Ycall = list(Y)                                  # another list holding the same ndarray objects
            # the reference is computed from the cores as they are NOW, before the library sees them again
            if nn:
                ref = nn_reference(Y)
                if ref is None or ref["rho"] > 1e4:
                    ctx.label("reference_undefined_skipped")
                    break
            else:
                ref = sq_ref_labelled(ctx, Y)
                if ref is None:
                    break
            history_real_call(ctx, case, which, Ycall, n, ref, lambda: make_seed(case["kind"], case["seed"]))
            if nn:
                done += forced_sample_run(ctx, Ycall, n, ref, case["unsert"])
            else:
                done += forced_square_run(ctx, Ycall, n, ref, sq_kw)
            changed_audited = changed_audited or (changed and t > 0)
    ctx.inner(max(0, done - 1))
    ctx.nontrivial(nontrivial_tt(spec) and changed_audited and done > 0)


# =========================================================================================== structure of the TT samplers

@st.composite
def structure_tt_cases(draw, tier):
    Ysq, scale = draw(sq_scaled(tier))
    return {"Ynn": draw(nn_specs(tier)), "Ysq": Ysq, "scale": scale, "m": draw(st.integers(1, 50)), "mu": draw(st.integers(1, 50)),
            "m_float": draw(st.booleans()), "kind": draw(st.sampled_from(SEED_KINDS)), "seed": draw(gen.seeds),
            "default_unsert": draw(st.booleans()), "m_fact": draw(st.sampled_from(M_FACTS))}


def prop_structure_tt(case, ctx):
    m = case["m"]
    marg = float(m) if case["m_float"] else m
    ctx.label("seed:" + case["kind"], "m_float" if case["m_float"] else "m_int")

    spec = case["Ynn"]
    n = spec["n"]
    Y = build_nn(spec)
    ref = nn_reference(Y)
    ctx.label(*nn_labels(spec, ref))
    if ref is not None:
        use_default = case["default_unsert"] and bool(np.all(ref["M0"] > 0))
        kw = {} if use_default else {"unsert": 0.0}
        I = ctx.lib(teneva.sample, Y, marg, make_seed(case["kind"], case["seed"]), **kw)
        check_index_array(ctx, I, m, n, "sample")
        if not use_default and ref["rho"] == 1.0:
            # non-negative cores: zero entries have probability exactly zero
            vals = ref["F"][tuple(I.T)]
            ctx.check(bool(np.all(vals > 0)), "sample(unsert=0) returned a multi-index whose entry is zero",
                      row=I[int(np.argmin(vals))], value=float(vals.min()))
        ctx.nontrivial(nontrivial_tt(spec))
    else:
        ctx.label("reference_undefined_skipped")

    spec = case["Ysq"]
    n = spec["n"]
    Y, ref = sq_prepare(ctx, spec, case.get("scale"))
    if ref is None:
        return
    P, tol = ref["P"], ref["tol"]
    seed = make_seed(case["kind"], case["seed"])
    rec = Recorder(seed) if not isinstance(seed, int) else None
    I = ctx.lib(teneva.sample_square, Y, marg, False, seed if rec is None else rec)
    check_index_array(ctx, I, m, n, "sample_square(unique=False)")
    sharp = ref["eta"] <= 1e-10         # then P <= 2 tol means P <= 64 eta^2 < 1e-18: drawing such a row is a < 1e-15 event
    bad = P[tuple(I.T)] <= 2 * tol[tuple(I.T)]
    ctx.check(not (sharp and np.any(bad)), "sample_square returned a multi-index whose entry is zero (probability below 1e-18)",
              row=I[int(np.argmax(bad))])
    if rec is not None:
        audit_recorded(ctx, "sample_square", I, rec, m, n, P, tol, Kc(Y))
    n_eff = int(np.sum(P >= 1.0 / (4 * P.size)))
    mu = min(case["mu"], max(1, n_eff // 2))
    muarg = float(mu) if case["m_float"] else mu
    unique_kw = {} if case["seed"] % 2 else {"unique": True}         # unique=True is also the default
    if case.get("m_fact") is not None:
        unique_kw["m_fact"] = case["m_fact"]
    ctx.label(f"m_fact:{case.get('m_fact')}")
    I = ctx.lib(teneva.sample_square, Y, muarg, seed=make_seed(case["kind"], case["seed"]), **unique_kw)
    check_index_array(ctx, I, mu, n, "sample_square(unique=True)")
    ctx.check(len({tuple(row) for row in I.tolist()}) == mu, "sample_square(unique=True) returned repeated rows", rows=I, m=mu)
    bad = P[tuple(I.T)] <= 2 * tol[tuple(I.T)]
    ctx.check(not (sharp and np.any(bad)), "sample_square(unique=True) returned a multi-index whose entry is zero", row=I[int(np.argmax(bad))])
    ctx.label("unique_m>=2" if mu >= 2 else "unique_m==1")
    ctx.nontrivial(nontrivial_tt(spec))


# =========================================================================================== unique squared sampling: optional arguments

ERR_CANNOT = "Can not generate the required number of samples"
MAX_REPS = (None, None, 100, 10, 0, 1, 2, 3)     # None = the default of the signature (100)
M_KINDS = ("int", "int", "float", "np_int", "np_float")
DRAW_BUDGET = 3000                                # candidate rows the library may have to draw in one call (Python loop per row)


@st.composite
def unique_cases(draw, tier):
    """unique=True with the documented optional arguments m_fact / max_rep on tensors whose squared distribution is peaked
    (slice i of core k damped by 2**(-a_k i)), so that i.i.d. draws collide."""
    spec, scale = draw(sq_scaled(tier, none_weight=6))
    d = len(spec["n"])
    return {"Y": spec, "scale": scale, "peak": [draw(st.sampled_from([0, 0, 1, 1, 2, 3])) for _ in range(d)],
            "m": draw(st.one_of(st.integers(1, 12), st.integers(1, 70))), "m_kind": draw(st.sampled_from(M_KINDS)),
            "m_fact": draw(st.sampled_from(M_FACTS)), "max_rep": draw(st.sampled_from(MAX_REPS)),
            "spelling": draw(st.sampled_from(["kw", "kw_default_unique", "positional"])),
            "kind": draw(st.sampled_from(SEED_KINDS)), "seed": draw(gen.seeds), "repeat": draw(st.integers(1, 3))}


def m_arg(m, kind):
    return {"int": int, "float": float, "np_int": np.int64, "np_float": np.float64}[kind](m)


def call_unique(ctx, Y, marg, seed, m_fact, max_rep, spelling):
    """sample_square(unique=True) in one of its spellings.  Returns the array, or None for the one documented way of giving up
    (ValueError 'Can not generate the required number of samples'); anything else raised is a failure of the property."""
    def run():
        try:
            if spelling == "positional":
                args = [Y, marg, True, seed] + ([5 if m_fact is None else m_fact] if (m_fact is not None or max_rep is not None) else [])
                return teneva.sample_square(*(args + ([max_rep] if max_rep is not None else [])))
            kw = {} if spelling == "kw_default_unique" else {"unique": True}
            if m_fact is not None:
                kw["m_fact"] = m_fact
            if max_rep is not None:
                kw["max_rep"] = max_rep
            return teneva.sample_square(Y, marg, seed=seed, **kw)
        except ValueError as e:
            if ERR_CANNOT in str(e):
                return None
            raise
    run.__name__ = "sample_square"
    return ctx.lib(run)


def prop_unique_args(case, ctx):
    spec = case["Y"]
    n = spec["n"]
    Yb = gen.build_tt(spec)
    for G, a in zip(Yb, case["peak"]):
        G *= (2.0 ** (-a * np.arange(G.shape[1])))[None, :, None]       # in place: keeps the memory layout of the family
    ctx.label(*gen.spec_labels(spec), f"d=={len(n)}", f"peak:{max(case['peak'])}")
    ref = sq_ref_labelled(ctx, Yb)
    if ref is None:
        return
    Y = apply_scale(ctx, Yb, case.get("scale"), spec.get("layout", "C"))
    P, tol = ref["P"], ref["tol"]
    sharp = ref["eta"] <= 1e-10
    size = P.size
    mf = 5 if case["m_fact"] is None else case["m_fact"]
    mr = 100 if case["max_rep"] is None else case["max_rep"]
    if mr > 3:
        # (almost) unlimited restarts: m stays reachable so that the doubling of m_fact ends after a few rounds
        n_eff = int(np.sum(P >= 1.0 / (4 * size)))
        m = min(case["m"], max(1, n_eff // 2))
    else:
        # few restarts: any m, also more than the tensor has (non-zero) entries; giving up is then the documented outcome.
        # At most 2**(mr+2) - 1 times m_fact*m candidate rows are drawn before that.
        m = max(1, min(case["m"], size + 2, DRAW_BUDGET // (mf * (2 ** (mr + 2) - 1))))
    ctx.label(f"m_fact:{case['m_fact']}", f"max_rep:{case['max_rep']}", "m:" + case["m_kind"], "spelling:" + case["spelling"],
              "seed:" + case["kind"])
    if m >= 2 and float((P * P).sum()) * m * (m - 1) / 2 >= 0.5:
        ctx.label("collisions_expected")
    if m > size:
        ctx.label("m>size")
    seed = make_seed(case["kind"], case["seed"])          # a Generator object is reused by the repeated calls, an int is not
    Pl = np.sort(np.maximum(P - tol, 0.0).ravel())[::-1]
    returned = 0
    for _ in range(case["repeat"]):
        I = call_unique(ctx, Y, m_arg(m, case["m_kind"]), seed, case["m_fact"], case["max_rep"], case["spelling"])
        if I is None:
            ctx.label("outcome:cannot")
            # giving up means that EVERY round failed, the first one included: m_fact*m i.i.d. rows with fewer than m distinct ones.
            # If the m most probable entries are all hit with probability >= 1 - 1e-12 in that round, giving up is no valid outcome.
            if m <= size:
                miss = float(np.sum((1.0 - Pl[:m]) ** (mf * m)))
                ctx.check(miss > DELTA, "sample_square(unique=True) gave up although m_fact*m draws contain m distinct rows "
                          "with probability >= 1 - 1e-12", m=m, m_fact=mf, max_rep=mr, p_fail_bound=miss)
            continue
        returned += 1
        ctx.label("outcome:returned")
        check_index_array(ctx, I, m, n, "sample_square(unique=True)")
        ctx.check(len({tuple(row) for row in I.tolist()}) == m, "sample_square(unique=True) returned repeated rows",
                  rows=I, m=m, m_fact=case["m_fact"], max_rep=case["max_rep"])
        bad = P[tuple(I.T)] <= 2 * tol[tuple(I.T)]
        ctx.check(not (sharp and np.any(bad)), "sample_square(unique=True) returned a multi-index whose entry is zero "
                  "(probability below 1e-18)", row=I[int(np.argmax(bad))])
    ctx.inner(case["repeat"] - 1)
    ctx.nontrivial(nontrivial_tt(spec) and m >= 2 and returned > 0)


# =========================================================================================== sample_rand, sample_lhs

@st.composite
def grid_cases(draw, tier):
    d = draw(st.integers(1, 6))
    small = st.integers(1, 9 if tier == "quick" else 20)
    size = st.one_of(small, small, st.integers(10, 80 if tier == "quick" else 200))
    n = [draw(size) for _ in range(d)]
    # m free, or tied to one of the mode sizes (an exact multiple, one more, one less): the count claim is sharpest there
    m_kind = draw(st.sampled_from(["free", "free", "multiple", "multiple", "multiple+1", "multiple-1"]))
    if m_kind == "free":
        m = draw(st.integers(1, 50 if tier == "quick" else 200))
    else:
        q = draw(st.integers(1, 6 if tier == "quick" else 25))
        m = max(1, q * n[draw(st.integers(0, d - 1))] + {"multiple": 0, "multiple+1": 1, "multiple-1": -1}[m_kind])
    return {"n": n, "n_kind": draw(st.sampled_from(["list", "int_array", "float_array", "float_list", "int32_array", "uint8_array", "int16_array"])),
            "m": m, "m_kind": m_kind, "m_float": draw(st.booleans()),
            "kind": draw(st.sampled_from(SEED_KINDS)), "seed": draw(gen.seeds)}


def shape_arg(n, kind):
    if kind == "list":
        return list(n)
    if kind == "int_array":
        return np.array(n, dtype=int)
    if kind == "float_array":
        return np.array(n, dtype=float)
    if kind in ("int32_array", "uint8_array", "int16_array", "int8_array"):
        return np.array(n, dtype=kind[:-6])              # mode sizes are <= 200 in every sub-check that uses these spellings
    return [float(k) for k in n]


def lhs_counts_ok(col, k, m):
    cnt = np.bincount(np.asarray(col, dtype=int), minlength=k)
    return len(cnt) == k and bool(np.all((cnt == m // k) | (cnt == -(-m // k)))), cnt


def prop_grid(case, ctx):
    n, m = case["n"], case["m"]
    marg = float(m) if case["m_float"] else m
    ctx.label("seed:" + case["kind"], "n:" + case["n_kind"], f"d=={len(n)}" if len(n) <= 2 else "d>=3", "m:" + case.get("m_kind", "free"))
    if max(n) >= 22:
        ctx.label("mode>=22")
    I = ctx.lib(teneva.sample_rand, shape_arg(n, case["n_kind"]), marg, make_seed(case["kind"], case["seed"]))
    check_index_array(ctx, I, m, n, "sample_rand")
    I = ctx.lib(teneva.sample_lhs, shape_arg(n, case["n_kind"]), marg, make_seed(case["kind"], case["seed"]))
    check_index_array(ctx, I, m, n, "sample_lhs")
    for k in range(len(n)):
        ok, cnt = lhs_counts_ok(I[:, k], n[k], m)
        ctx.check(ok, "sample_lhs: an index of a mode is used neither floor(m/n) nor ceil(m/n) times", mode=k, n_k=n[k], m=m, counts=cnt)
    if any(m < k for k in n):
        ctx.label("m<n_k")
    ctx.nontrivial(len(n) >= 2 and any(m % k for k in n))


# ---- every mode size: the count claim is a statement about the pair (mode size, m); the pairs where it is sharpest (m an exact
#      multiple of the mode size: every index exactly m/n times; one more / one less; m = 1) are enumerated for ALL mode sizes.

LHS_SEEDS = (("int", 0), ("int", 1), ("int", 20240927), ("pcg64", 5), ("philox", 7), ("mt19937", 3), ("sfc64", 11))
N_KINDS = ("list", "int_array", "float_array", "float_list")


def lhs_ms(k, tier):
    mult = (1, 2, 3, 4, 7, 10) if tier == "quick" else (1, 2, 3, 4, 5, 7, 10, 16, 25, 100)
    ms = {1, k - 1, k + 1, 2 * k - 1, 2 * k + 1} | {q * k for q in mult}
    return sorted(m for m in ms if m >= 1)


def lhs_all_n_cases(tier, shard, nshards):
    kmax = 128 if tier == "quick" else 400
    for k in range(1, kmax + 1):
        if (k - 1) % nshards == shard:
            yield {"k": k, "partner": kmax + 1 - k, "ms": lhs_ms(k, tier), "n_kind": N_KINDS[k % 4]}


def prop_lhs_all_n(case, ctx):
    k = case["k"]
    n = [k, case["partner"]]
    runs = 0
    for kind, sd in LHS_SEEDS:
        seed = make_seed(kind, sd + k)                 # a Generator object is reused for all m (its state moves on), an int is not
        for j, m in enumerate(case["ms"]):
            marg = float(m) if (j + k) % 3 == 0 else m
            I = ctx.lib(teneva.sample_lhs, shape_arg(n, case["n_kind"]), marg, seed)
            check_index_array(ctx, I, m, n, "sample_lhs")
            for a in range(2):
                ok, cnt = lhs_counts_ok(I[:, a], n[a], m)
                ctx.check(ok, "sample_lhs: an index of a mode is used neither floor(m/n) nor ceil(m/n) times", mode=a, n_k=n[a], m=m,
                          seed=kind, floor=m // n[a], ceil=-(-m // n[a]),
                          wrong={int(i): int(c) for i, c in enumerate(cnt) if c not in (m // n[a], -(-m // n[a]))})
            runs += 1
    ctx.label("mode>=22" if k >= 22 else "mode<22", "n:" + case["n_kind"])
    ctx.inner(runs - 1)
    ctx.nontrivial(k >= 2)


# =========================================================================================== sample_tt

@st.composite
def tt_cases(draw, tier):
    d = draw(st.integers(2, 4 if tier == "quick" else 5))
    n = [draw(st.integers(1, 4 if tier == "quick" else 6)) for _ in range(d)]
    case = {"n": n, "n_kind": draw(st.sampled_from(["list", "int_array", "int_array", "int32_array", "uint8_array", "int16_array"])), "r": draw(st.integers(1, 5 if tier == "quick" else 7)),
            "r_default": draw(st.integers(0, 5)) == 0, "kind": draw(st.sampled_from(SEED_KINDS)), "seed": draw(gen.seeds)}
    if draw(st.integers(0, 3)) == 0:
        # larger modes in a narrow shape array: block sizes n_k r^2 and the block start positions pass 127 / 255 (and 32767 with modes ~120, r 17)
        big = draw(st.sampled_from(["i8", "u8", "i16"]))
        d = draw(st.integers(2, 3))
        case["n"] = [draw(st.integers(8, 20) if big != "i16" else st.integers(100, 127)) for _ in range(d)]
        case["r"] = draw(st.integers(3, 5)) if big != "i16" else draw(st.integers(16, 18))
        case["n_kind"] = {"i8": "int8_array", "u8": "uint8_array", "i16": "int16_array"}[big]
        case["r_default"] = False
    return case


def check_tt_layout(ctx, out, n, r):
    d = len(n)
    ctx.check(isinstance(out, tuple) and len(out) == 3, "sample_tt: result is not a triple")
    I, idx, idx_many = out
    len1 = [1] + [r] * (d - 1)
    len2 = [r] * (d - 1) + [1]
    starts = np.concatenate([[0], np.cumsum([n[k] * len1[k] * len2[k] for k in range(d)])])
    for name, arr, shp in (("idx", idx, (d + 1,)), ("idx_many", idx_many, (d,))):
        ctx.check(isinstance(arr, np.ndarray) and arr.dtype.kind in "iu" and arr.shape == shp,
                  f"sample_tt: {name} is not an integer array of shape {shp}", got=arr)
    ctx.check(idx.tolist() == starts.tolist(), "sample_tt: block k does not start at sum_{j<k} n_j*len1_j*len2_j", idx=idx, expected=starts)
    ctx.check(idx_many.tolist() == len2, "sample_tt: idx_many is not the number of suffixes per block", idx_many=idx_many, expected=len2)
    check_index_array(ctx, I, int(starts[-1]), n, "sample_tt")
    for k in range(d):
        B = I[idx[k]:idx[k + 1]].reshape(n[k], len1[k], len2[k], d)
        ctx.check(bool(np.all(B[..., k] == np.arange(n[k])[:, None, None])), "sample_tt: inside block k the k-th index does not run slowest over 0..n_k-1",
                  block=k, column=B[..., k].ravel()[:200])
        pre, suf = B[0, :, 0, :k], B[0, 0, :, k + 1:]
        ctx.check(bool(np.all(B[..., :k] == pre[None, :, None, :])), "sample_tt: prefixes of block k do not form (prefix slow) x (suffix fast) cross product", block=k)
        ctx.check(bool(np.all(B[..., k + 1:] == suf[None, None, :, :])), "sample_tt: suffixes of block k do not form (prefix slow) x (suffix fast) cross product", block=k)
        for part, off, what in ((pre, 0, "prefixes"), (suf, k + 1, "suffixes")):
            for j in range(part.shape[1]):
                ok, cnt = lhs_counts_ok(part[:, j], n[off + j], r)
                ctx.check(ok, f"sample_tt: the {what} of block k are not a Latin-hypercube sample of r rows", block=k, mode=off + j, n_k=n[off + j],
                          counts=cnt, r=r)


def prop_sample_tt(case, ctx):
    n = case["n"]
    d = len(n)
    seed = make_seed(case["kind"], case["seed"])
    if case["r_default"]:
        r = 4
        out = ctx.lib(teneva.sample_tt, shape_arg(n, case["n_kind"]), seed=seed)
    else:
        r = case["r"]
        out = ctx.lib(teneva.sample_tt, shape_arg(n, case["n_kind"]), r, seed)
    ctx.label("seed:" + case["kind"], f"d=={d}", "r_default" if case["r_default"] else "r_given", "n:" + case["n_kind"])
    check_tt_layout(ctx, out, n, r)
    ctx.nontrivial(r >= 2 and d >= 3)


def tt_all_n_cases(tier, shard, nshards):
    """Every mode size with the rank an exact multiple of it (the LHS prefixes / suffixes must then be exactly balanced)."""
    kmax = 128 if tier == "quick" else 200
    j = 0
    for k in range(1, kmax + 1):
        for q in (1, 2):
            if q * k > kmax:
                continue
            if j % nshards == shard:
                # the large modes sit at the ends (blocks of n_k*r rows), never in the middle (n_k*r*r rows)
                yield {"n": [k, 2, k] if k % 2 else [k, k], "r": q * k, "kind": SEED_KINDS[1 + j % 5], "seed": j}
            j += 1


def prop_tt_all_n(case, ctx):
    n, r = case["n"], case["r"]
    out = ctx.lib(teneva.sample_tt, list(n), r, make_seed(case["kind"], case["seed"]))
    ctx.label("seed:" + case["kind"], "mode>=22" if max(n) >= 22 else "mode<22")
    check_tt_layout(ctx, out, n, r)
    ctx.nontrivial(r >= 2)


# =========================================================================================== goodness of fit (protocol independent)

@st.composite
def gof_cases(draw, tier):
    which = draw(st.sampled_from(["sample", "square"]))
    sm = 24 if tier == "quick" else 48
    scale = None
    if which == "sample":
        Y = draw(nn_specs(tier, size_max=sm))
    else:
        Y, scale = draw(sq_scaled(tier, size_max=sm))
    return {"which": which, "Y": Y, "scale": scale, "m": 1500 if tier == "quick" else 12000, "seed": draw(gen.seeds),
            "kind": draw(st.sampled_from(SEED_KINDS)), "default_unsert": draw(st.booleans())}


def prop_gof(case, ctx):
    spec, m = case["Y"], case["m"]
    n = spec["n"]
    seed = make_seed(case["kind"], case["seed"])
    ctx.label("which:" + case["which"], "seed:" + case["kind"])
    if case["which"] == "sample":
        Y = build_nn(spec)
        ref = nn_reference(Y)
        if ref is None or ref["rho"] > 1e4:
            ctx.label("reference_undefined_skipped")
            return
        use_default = case["default_unsert"] and bool(np.all(ref["M0"] > 0))
        kw = {} if use_default else {"unsert": 0.0}
        I = ctx.lib(teneva.sample, Y, m, seed, **kw)
        P = ref["P"]
        bias = 1e-9 + (n[0] * 1e-10 / ref["S"] * (1 + 1e-9) if use_default else 0.0)
        name = "sample"
    else:
        Y, ref = sq_prepare(ctx, spec, case.get("scale"))
        if ref is None:
            return
        I = ctx.lib(teneva.sample_square, Y, m, False, seed)
        P = ref["P"]
        bias = 1e-9 + float(ref["tol"].max())
        name = "sample_square"
    check_index_array(ctx, I, m, n, name)
    N = P.size
    cnt = np.bincount(np.ravel_multi_index(tuple(I.T), tuple(n)), minlength=N).reshape(n)
    t = math.sqrt(math.log(2 * N / DELTA) / (2 * m))         # Hoeffding + union bound over the N cells
    dev = np.abs(cnt / m - P)
    j = np.unravel_index(int(np.argmax(dev)), P.shape)
    ctx.check(float(dev.max()) <= t + bias, f"{name}: empirical frequencies are farther from the distribution than a 1e-12 event allows",
              index=j, freq=float(cnt[j] / m), ref=float(P[j]), bound=t + bias, m=m)
    # the bound only bites if the distribution is visibly non-uniform
    ctx.nontrivial(nontrivial_tt(spec) and float(np.abs(P - 1.0 / N).max()) > 2 * t)


# =========================================================================================== storage types of the cores
#
# The distribution is a function of the VALUES of the cores.  A core kept in another numeric array type (a table of counts in an
# integer array, a 0/1 selector in a bool array, single-precision weights) denotes the same tensor as its float64 copy, so the
# samplers must use the same conditionals - whatever position the core has and whatever the types of its neighbours are.

CORE_DTYPES = ("float64", "int64", "int32", "bool", "float32")
DT_PATTERNS = ("one", "one", "first", "first", "prefix", "suffix", "random", "random", "all_same", "alternate")
F32_EPS = float(np.finfo(np.float32).eps)


@st.composite
def dtype_plans(draw, d):
    """The storage type of every core: one typed core in any position among float64 cores, a typed first core, typed prefixes /
    suffixes, every other core, all cores alike, or an independent draw per core."""
    typed = st.sampled_from(CORE_DTYPES[1:])
    pat = draw(st.sampled_from(DT_PATTERNS))
    plan = ["float64"] * d
    if pat == "one":
        plan[draw(st.integers(0, d - 1))] = draw(typed)
    elif pat == "first":
        plan[0] = draw(typed)
    elif pat == "prefix":
        for k in range(draw(st.integers(1, d - 1))):
            plan[k] = draw(typed)
    elif pat == "suffix":
        for k in range(draw(st.integers(1, d - 1)), d):
            plan[k] = draw(typed)
    elif pat == "alternate":
        t, off = draw(typed), draw(st.integers(0, 1))
        for k in range(off, d, 2):
            plan[k] = t
    elif pat == "all_same":
        plan = [draw(typed)] * d
    else:
        plan = [draw(st.sampled_from(CORE_DTYPES)) for _ in range(d)]
    return pat, plan


@st.composite
def dtype_cases(draw, tier):
    kw = sizes(tier)
    which = draw(st.sampled_from(["sample", "sample", "square"]))
    d = draw(st.sampled_from([2, 3, 3, 3, 4, 4]))
    n = gen._cap_shape([draw(st.sampled_from([1, 2, 2, 3, 3, 4])) for _ in range(d)], 48 if tier == "quick" else 160)
    rfam, r = draw(gen.rank_profiles(n, r_max=kw["r_max"], entries_max=400))
    pat, plan = draw(dtype_plans(d))
    return {"which": which, "n": n, "r": r, "rfam": rfam, "pat": pat, "plan": plan, "seed": draw(gen.seeds),
            "path": [draw(st.integers(0, k - 1)) for k in n], "zfrac": draw(st.sampled_from([0.0, 0.0, 0.2, 0.4])),
            "float_vals": draw(st.sampled_from(["uniform", "uniform", "dyadic"])),
            "unsert": draw(st.sampled_from(UNSERTS)), "m": draw(st.integers(1, 40)),
            "kind": draw(st.sampled_from(SEED_KINDS)), "call_seed": draw(gen.seeds), "unique_spelling": draw(st.booleans())}


def build_typed(case):
    """(tensor with the planned storage types, its float64 copy).  Typed cores hold values their type represents exactly: small
    integers (int64 / int32), 0/1 (bool), multiples of 1/4 up to 2 (float32: every product / sum the samplers can form of them
    is exact in single precision as well); float64 cores hold arbitrary doubles, so nothing about the tensor is integral."""
    n, r, nn = case["n"], case["r"], case["which"] == "sample"
    rng = np.random.default_rng(case["seed"])
    Y = []
    for k, t in enumerate(case["plan"]):
        sh = (r[k], n[k], r[k + 1])
        if t in ("int64", "int32"):
            G = rng.integers(0, 4, size=sh) if nn else rng.integers(-3, 4, size=sh)
        elif t == "bool":
            G = rng.integers(0, 2, size=sh)
        elif t == "float32" or case["float_vals"] == "dyadic":
            G = (rng.integers(0, 9, size=sh) if nn else rng.integers(-8, 9, size=sh)) / 4.0
        else:
            G = rng.uniform(0.0, 4.0, size=sh) if nn else rng.standard_normal(sh)
        if case["zfrac"] > 0:
            G = G * (rng.uniform(size=sh) >= case["zfrac"])
        if nn and not G[0, case["path"][k], 0] > 0:
            G[0, case["path"][k], 0] = 1                 # the strictly positive path of build_nn: S > 0 by construction
        Y.append(np.ascontiguousarray(G.astype(t)))
    Yf = [G.astype(np.float64) for G in Y]
    return Y, Yf


def prop_core_dtypes(case, ctx):
    which, n, plan, m = case["which"], case["n"], case["plan"], case["m"]
    d = len(n)
    Y, Yf = build_typed(case)
    for G, H in zip(Y, Yf):
        assert np.array_equal(G, H)                      # the cast is exact: both lists denote the same tensor
    spec = {"n": n, "r": case["r"]}
    ctx.label("which:" + which, "dtypes:" + case["pat"], f"d=={d}", "seed:" + case["kind"], "first:" + plan[0],
              *sorted({"has:" + t for t in plan}))
    typed_inner = any(t != "float64" for t in plan[:-1])
    done, single = 0, False
    with np.errstate(all="ignore"):
        if which == "sample":
            ref = nn_reference(Yf)
            if ref is None:
                ctx.label("reference_undefined_skipped")
                return
            if d >= 3 and plan[0] == plan[1] == "bool":
                # FINDING (reported, see ASSUMPTIONS): the left partial product of two bool cores is formed by a bool einsum, i.e.
                # as logical or-of-ands instead of a count; only the structural claims are checked for such tensors
                ctx.label("bool_bool_prefix_excluded")
                I = ctx.lib(teneva.sample, Y, m, make_seed(case["kind"], case["call_seed"]))
                check_index_array(ctx, I, m, n, "sample")
                return
            done += forced_sample_run(ctx, Y, n, ref, 0.0)
            done += forced_sample_run(ctx, Y, n, ref, case["unsert"])
            use_default = case["unsert"] is None and bool(np.all(ref["M0"] > 0))
            kw = {} if use_default else {"unsert": 0.0}
            call = lambda T: ctx.lib(teneva.sample, T, m, make_seed(case["kind"], case["call_seed"]), **kw)
            name = "sample"
        else:
            ref = sq_reference(Yf)
            if ref is None:
                ctx.label("zero_tensor_skipped")
                return
            single = any(t in ("float32", "bool") for t in plan)
            if single:
                # scipy.linalg.rq factorises a float32 core - and a bool core, which SciPy maps to float32 - in single precision:
                # the same bound with the unit roundoff of float32 (observed on the unmodified library, see ASSUMPTIONS)
                ctx.label("single_precision_tolerance")
                eta = ref["eta"] * F32_EPS / EPS
                ref = dict(ref, eta=eta, tol=4 * eta * (np.sqrt(ref["P"]) + ref["P"]) + 4 * eta * eta)
            if ref["eta"] > (1e-3 if single else 1e-7):
                ctx.label("ill_conditioned_skipped")
                return
            sq_kw = dict(unique=True, m_fact=1) if case["unique_spelling"] else dict(unique=False)
            done += forced_square_run(ctx, Y, n, ref, sq_kw, K=Kc(Y) * (F32_EPS / EPS if single else 1.0))
            call = lambda T: ctx.lib(teneva.sample_square, T, m, False, make_seed(case["kind"], case["call_seed"]))
            name = "sample_square"
        # the same seed on the typed tensor and on its float64 copy: the same tensor, hence the same rows (for a single-precision
        # factorisation under sample_square the conditionals agree only to single precision, so the rows are not compared there)
        I = call(Y)
        check_index_array(ctx, I, m, n, name)
        if not single:
            If = call(Yf)
            ctx.check(I.dtype == If.dtype and np.array_equal(I, If), f"{name}: a tensor whose cores are stored in other numeric types "
                      "gives other rows than its float64 copy (same values, same seed)", dtypes=plan, rows=I[:6], rows_float64=If[:6], m=m)
    ctx.inner(max(0, done - 1))
    ctx.nontrivial(nontrivial_tt(spec) and d >= 3 and typed_inner and done > 0)


SUBCHECKS = [
    Sub("sample_forced", prop_sample_forced, strategy=sample_forced_cases, quick=200, thorough=2000),
    Sub("square_forced", prop_square_forced, strategy=square_forced_cases, quick=200, thorough=2000),
    Sub("chains", prop_chains, strategy=chain_cases, quick=250, thorough=3000),
    Sub("long_chains", prop_long_chains, strategy=long_cases, quick=50, thorough=600),
    Sub("history", prop_history, strategy=history_cases, quick=70, thorough=800),
    Sub("structure_tt", prop_structure_tt, strategy=structure_tt_cases, quick=150, thorough=2000),
    Sub("unique_args", prop_unique_args, strategy=unique_cases, quick=120, thorough=1500),
    Sub("grid", prop_grid, strategy=grid_cases, quick=250, thorough=4000),
    Sub("lhs_all_n", prop_lhs_all_n, enumerate=lhs_all_n_cases, exhaustive=True),
    Sub("sample_tt", prop_sample_tt, strategy=tt_cases, quick=120, thorough=1500),
    Sub("tt_all_n", prop_tt_all_n, enumerate=tt_all_n_cases, exhaustive=True),
    Sub("gof", prop_gof, strategy=gof_cases, quick=12, thorough=60),
    Sub("core_dtypes", prop_core_dtypes, strategy=dtype_cases, quick=90, thorough=1200),
]
