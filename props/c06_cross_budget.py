"""C06 - TT-cross honours its evaluation budget, index domain and stop contract (fault enumeration)."""
import numpy as np
from hypothesis import strategies as st

import harness.core  # noqa: F401
from harness.core import Sub
from harness import gen, oracle
from harness.doubles import Objective
from harness.oracle import dense, fro

import teneva

LEVEL = "fault_enumeration"
RULE = ("Hypothesis draws a configuration (target tensor d 2..4, mode sizes 1..4, rank <= 3; initial tensor from teneva.rand or gauss cores; "
        "dr_min<=dr_max in 0..2; nswp 1..3; cache on/off). A reference run with an instrumented objective records the batch sequence "
        "b_1..b_K. Then EVERY budget m in 1..M+1 (M = total evaluations; all values when M <= 400, else every cumulative boundary -1/0/+1), "
        "EVERY call k in 1..K at which the objective returns None, EVERY sweep s at which the callback returns True, nswp in 0..3 and EVERY "
        "subset of the stop arguments are executed and compared with the prediction from the reference run (prefix determinism). "
        "Sub-check thresholds: targets that are not exactly low-rank (1/(1+sum i), sqrt(1+sum i), low rank + noise 1e-13..1e-4, decaying sums), "
        "thresholds e / e_vld = {1,2,3.3,5}*10^-14..-2: the documented rule evaluated on the values seen by the callback after every sweep predicts "
        "the sweep and reason of the end. Non-trivial = an interruption strictly inside a half-sweep, or a threshold crossed at sweep >= 2; "
        "distinct by (case digest, fault kind, fault point)."
        " The budget reaches cross as Python int / float or as np.int64 / np.int32 / np.intp / np.float64 / np.float32 / 0-d array of the same value (cycled over the enumerated budgets).")
TOLERANCES = "exact (counters, batch contents, stop reasons); returned tensors must be well-formed and finite; e/e_vld stops need value <= threshold"
ASSUMPTIONS = ["the objective is deterministic", "m >= 1 (m = 0 means 'no budget' in the code: `int(m) if m else None`)",
               "'conv' is accepted as a documented reason only with a cache and only when m_cache > m_cache_scale*m after a sweep"]

DOCUMENTED = {"nswp", "m", "e", "e_vld", "cb", "func", "conv"}


@st.composite
def configs(draw, tier):
    dmax = 3 if tier == "quick" else 4
    T = draw(gen.tt_specs(d_max=dmax, n_max=4, r_max=3, size_max=64 if tier == "quick" else 256,
                          families=("gauss", "float", "smallint"), rank_families=("rank1", "uniform", "ragged")))
    y0 = draw(st.sampled_from(["rand", "gauss"]))
    case = {"T": T, "y0": y0, "y0seed": draw(st.integers(0, 10 ** 6)), "r0": draw(st.integers(1, 3)),
            "dr_min": draw(st.integers(0, 2)), "nswp": draw(st.integers(1, 2 if tier == "quick" else 3)), "cache": draw(st.booleans()),
            "tscale10": draw(st.sampled_from([0, 0, 0, 0, -170, -250, 100, 12]))}
    case["dr_max"] = draw(st.integers(case["dr_min"], 2))
    if y0 == "gauss":
        case["Y0"] = draw(gen.tt_specs(shape=T["n"], r_max=3, families=("gauss",), rank_families=("rank1", "uniform", "ragged", "over_ranked")))
    return case


def batches_equal(a, b):
    return len(a) == len(b) and all((x is None and y is None) or (x is not None and y is not None and np.array_equal(x, y)) for x, y in zip(a, b))


def prop_config(case, ctx):
    T = gen.build_tt(case["T"])
    n = case["T"]["n"]
    d = len(n)
    F = dense(T) * 10.0 ** case.get("tscale10", 0)      # objective values of any magnitude (1e-250 .. 1e100)
    if case["y0"] == "rand":
        Y0 = ctx.lib(teneva.rand, n, case["r0"], seed=case["y0seed"])
    else:
        Y0 = gen.build_tt(case["Y0"])
    dr_min, dr_max, nswp, use_cache = case["dr_min"], case["dr_max"], case["nswp"], case["cache"]
    ctx.label(f"d={d}", "cache" if use_cache else "nocache", f"dr={dr_min}/{dr_max}", f"nswp={nswp}", f"scale=1e{case.get('tscale10', 0)}")
    kw = dict(dr_min=dr_min, dr_max=dr_max, m_cache_scale=1e9)

    # the caller may keep ONE info dictionary and hand it to every call (the docs only say it "will be filled"): each call
    # must overwrite whatever an earlier call left in it; every second run therefore reuses this dictionary
    shared_info = {}
    run_no = [0]

    def run(none_at=None, cb=None, max_calls=4000, **args):
        f = Objective(F, none_at=none_at, max_calls=max_calls)
        run_no[0] += 1
        info = shared_info if run_no[0] % 2 == 0 else {}
        cache = {} if use_cache else None
        Y = ctx.lib(teneva.cross, f, Y0, info=info, cache=cache, cb=cb, **{**kw, **args})
        for key in ("m", "e", "e_vld", "nswp", "m_cache", "stop"):
            ctx.check(key in info, "info lacks a documented entry after the call", key=key, reused_dictionary=(info is shared_info))
        why = oracle.wellformed(Y, n)
        ctx.check(why is None, f"cross returned a malformed / non-finite tensor: {why}", args={k: v for k, v in args.items() if k in ("m", "nswp", "e", "e_vld")}, none_at=none_at, info_stop=info.get("stop"))
        ctx.check(info["stop"] in DOCUMENTED, "undocumented stop reason", stop=info["stop"])
        ctx.check(info["m"] == f.evaluated, "info['m'] differs from the number of indices actually evaluated", m=info["m"], evaluated=f.evaluated)
        if use_cache:
            asked = [tuple(int(x) for x in row) for b in f.batches if b is not None for row in b]
            ctx.check(len(asked) == len(set(asked)), "an index was evaluated twice although a cache was supplied")
            ctx.check({tuple(int(x) for x in k) for k in cache} == set(asked), "cache keys differ from the evaluated indices")
        else:
            ctx.check(info["m_cache"] == 0, "m_cache counted without a cache")
        ctx.inner(1)
        return Y, info, f, cache

    # ---- reference runs: per sweep count 0..nswp, record the batches and the per-sweep boundaries
    sweep_end = []          # number of objective calls completed when sweep s ended (s = 1..nswp)
    req_at_call = []

    def cb_ref(Y, info, opts):
        sweep_end.append(len(ref_f_holder[0].batches))

    ref_f_holder = [None]
    f = Objective(F)
    ref_f_holder[0] = f
    info_ref = {}
    cache_ref = {} if use_cache else None
    Yref = ctx.lib(teneva.cross, f, Y0, nswp=nswp, info=info_ref, cache=cache_ref, cb=cb_ref, **kw)
    why = oracle.wellformed(Yref, n)
    ctx.check(why is None, f"cross (reference run): {why}")
    ctx.check(info_ref["stop"] == "nswp" and info_ref["nswp"] == nswp, "reference run did not stop by nswp after exactly nswp sweeps", info={k: info_ref[k] for k in ("stop", "nswp")})
    B = f.batches
    sizes = [len(b) for b in B]
    K = len(B)
    M = sum(sizes)
    cum = np.concatenate([[0], np.cumsum(sizes)]).astype(int)
    ctx.check(len(sweep_end) == nswp and sweep_end[-1] == K, "callback not called exactly once per sweep")
    # total requests (evaluated + served from cache) of the plain algorithm, needed for the cache identity
    if use_cache:
        fplain = Objective(F)
        ip = {}
        ctx.lib(teneva.cross, fplain, Y0, nswp=nswp, info=ip, cache=None, **kw)
        ctx.check(info_ref["m"] + info_ref["m_cache"] == ip["m"], "cached run: m + m_cache differs from the request count of the plain run",
                  m=info_ref["m"], m_cache=info_ref["m_cache"], plain=ip["m"])

    half = 1  # boundaries of half-sweeps in units of *requests*; with a cache some requests issue no call, so use calls of the plain structure
    # a call index j (0-based, about to be issued) is "strictly inside a half-sweep" if it is not the first call of a half sweep.
    # Without cache every half sweep issues exactly d calls; with cache we only know sweep boundaries -> use those.
    def inside(j):
        if not use_cache:
            return j % d != 0
        return j not in ([0] + sweep_end)

    # ---- every budget
    if M <= 400:
        budgets = list(range(1, M + 2))
    else:
        budgets = sorted({int(c) + dlt for c in cum for dlt in (-1, 0, 1) if 1 <= c + dlt <= M + 1})
    for m in budgets:
        # prediction: perform batches while the cumulative count stays <= m
        j = 0
        while j < K and cum[j + 1] <= m:
            j += 1
        # the budget is documented as "int, float": the same number also as a NumPy scalar / 0-d array (np.prod(n) // 20, an option array entry)
        spell = [int, float, np.int64, np.int32, np.float64, np.array, np.float32, np.intp][(m + K) % 8](m)
        Y, info, fm, _ = run(nswp=nswp, m=spell)
        ctx.check(fm.evaluated <= m, "more indices evaluated than the budget m", evaluated=fm.evaluated, m=m, m_given_as=type(spell).__name__)
        ctx.check(batches_equal(fm.batches, B[:j]), "budgeted run is not a prefix of the unconstrained run", m=m, calls=len(fm.batches), predicted=j)
        if j < K:
            ctx.check(info["stop"] == "m", "run should stop by budget exactly when the next batch would exceed it", m=m, stop=info["stop"], done=int(cum[j]), next=sizes[j])
            ctx.inner(0, nontrivial_key=f"m{m}" if inside(j) else None)
        else:
            ctx.check(info["stop"] == "nswp" and info["nswp"] == nswp, "budget not binding: run should finish by nswp", m=m, stop=info["stop"])
        if info["stop"] == "m":
            ctx.check(info["m"] + sizes[j] > m, "stop='m' although the next batch fits into the budget", m=m, done=info["m"], next=sizes[j])

    # ---- budgets with a cache that is already warm on entry (filled by an earlier run from another initial tensor)
    if use_cache:
        Y0w = ctx.lib(teneva.rand, n, case["r0"], seed=case["y0seed"] + 1)
        warm = {}
        ctx.lib(teneva.cross, Objective(F), Y0w, nswp=1, info={}, cache=warm, **kw)
        fw = Objective(F)
        iw = {}
        cw = dict(warm)
        ctx.lib(teneva.cross, fw, Y0, nswp=nswp, info=iw, cache=cw, **kw)
        ctx.check(iw["stop"] == "nswp" or (iw["stop"] == "conv" and iw["m_cache"] > 1e9 * iw["m"]), "warm cache: unexpected stop reason", stop=iw["stop"])
        Bw = fw.batches
        szw = [len(b) for b in Bw]
        cumw = np.concatenate([[0], np.cumsum(szw)]).astype(int)
        ctx.check(iw["m"] == fw.evaluated, "warm cache: info['m'] differs from the number of evaluated indices")
        asked = {tuple(int(x) for x in row) for b in Bw for row in b}
        ctx.check(not (asked & {tuple(int(x) for x in k) for k in warm}), "warm cache: an index already in the cache was evaluated again")
        bud = sorted({int(c) + dlt for c in cumw for dlt in (-1, 0, 1) if 1 <= c + dlt <= int(cumw[-1]) + 1})[:60]
        for m in bud:
            j = 0
            while j < len(Bw) and cumw[j + 1] <= m:
                j += 1
            fm = Objective(F)
            im = {}
            Ym = ctx.lib(teneva.cross, fm, Y0, nswp=nswp, m=m, info=im, cache=dict(warm), **kw)
            ctx.check(oracle.wellformed(Ym, n) is None, "warm cache + budget: malformed result", m=m)
            ctx.check(fm.evaluated <= m and im["m"] == fm.evaluated, "warm cache + budget: budget exceeded or info['m'] wrong", m=m, evaluated=fm.evaluated, info_m=im["m"])
            ctx.check(batches_equal(fm.batches, Bw[:j]), "warm cache + budget: run is not the prefix of the unconstrained run that fits the budget",
                      m=m, calls=len(fm.batches), predicted=j, warm_entries=len(warm))
            if j < len(Bw):
                ctx.check(im["stop"] == "m", "warm cache + budget: should stop by budget exactly when the next batch of NEW indices would exceed it", m=m, stop=im["stop"])
            else:
                # with (almost) everything served from the warm cache the documented 'conv' reason may end the run first
                ok = im["stop"] == "nswp" or (im["stop"] == "conv" and im["m_cache"] > 1e9 * im["m"])
                ctx.check(ok, "warm cache + budget not binding: should finish by nswp (or by 'conv' when nothing new is evaluated)", m=m, stop=im["stop"])
            ctx.inner(1, nontrivial_key=f"w{m}" if j < len(Bw) else None)

    # ---- objective returns None at its k-th call, for every k
    for k in range(1, K + 1):
        Y, info, fk, _ = run(nswp=nswp, none_at=k)
        ctx.check(info["stop"] == "func", "objective returned None but the stop reason is not 'func'", k=k, stop=info["stop"])
        ctx.check(len(fk.batches) == k and batches_equal(fk.batches[:k - 1], B[:k - 1]), "run interrupted by the objective is not a prefix of the reference run", k=k)
        ctx.check(info["m"] == int(cum[k - 1]), "info['m'] must count only the calls before the interrupted one", k=k, m=info["m"], expected=int(cum[k - 1]))
        ctx.check(info["nswp"] == sum(1 for s in sweep_end if s <= k - 1), "info['nswp'] is not the number of completed sweeps", k=k, nswp=info["nswp"])
        ctx.inner(0, nontrivial_key=f"f{k}" if inside(k - 1) else None)

    # ---- callback returns True at sweep s, for every s
    for s in range(1, nswp + 1):
        count = [0]

        def cb(Y, info, opts, s=s):
            count[0] += 1
            return count[0] == s

        Y, info, fs, _ = run(nswp=nswp, cb=cb)
        ctx.check(info["stop"] == "cb" and info["nswp"] == s, "callback returned True: run must stop right after that sweep with reason 'cb'", s=s, stop=info["stop"], nswp=info["nswp"])
        ctx.check(batches_equal(fs.batches, B[:sweep_end[s - 1]]), "run stopped by the callback is not the reference prefix up to that sweep", s=s)
    # a truthy-but-not-True return must not stop (the docs say "true value"; the code tests `is True`) -> not asserted either way

    # ---- sweep counts 0..nswp: stop 'nswp' after exactly that many sweeps, prefix of the reference
    for s in range(0, nswp + 1):
        Y, info, fs, _ = run(nswp=s)
        ctx.check(info["stop"] == "nswp" and info["nswp"] == s, "stop='nswp' must come after exactly nswp sweeps", requested=s, stop=info["stop"], nswp=info["nswp"])
        if s >= 1:
            ctx.check(batches_equal(fs.batches, B[:sweep_end[s - 1]]), "run with fewer sweeps is not a prefix of the reference run", s=s)

    # ---- every subset of the stop arguments
    rng = np.random.default_rng(case["y0seed"])
    I_vld = np.vstack([rng.integers(0, kk, size=6) for kk in n]).T
    y_vld = F[tuple(I_vld.T)]
    has_vld = bool(np.any(y_vld))
    for mask in range(16):
        use_m, use_e, use_n, use_v = bool(mask & 1), bool(mask & 2), bool(mask & 4), bool(mask & 8)
        args = {}
        if use_m:
            args["m"] = M + 3
        if use_e:
            args["e"] = 1e-3
        if use_n:
            args["nswp"] = nswp
        if use_v:
            args.update(I_vld=I_vld, y_vld=y_vld, e_vld=1e-5)
        if not (use_m or use_e or use_n or use_v):
            f0 = Objective(F)
            ctx.raises(ValueError, teneva.cross, f0, Y0, info={}, **kw)
            ctx.check(f0.calls == 0, "objective was called although no stop criterion was given", calls=f0.calls)
            f0 = Objective(F)
            ctx.raises(ValueError, teneva.cross, f0, Y0, info={}, I_vld=I_vld, y_vld=y_vld, **kw)   # data without e_vld
            ctx.raises(ValueError, teneva.cross, f0, Y0, info={}, e_vld=1e-3, **kw)                 # e_vld without data
            ctx.raises(ValueError, teneva.cross, f0, Y0, info={}, nswp=1, e_vld=1e-3, **kw)
            ctx.check(f0.calls == 0, "objective was called although the stop arguments were rejected", calls=f0.calls)
            ctx.inner(1)
            continue
        if use_v and not has_vld:
            continue
        if not (use_m or use_n):
            # only convergence criteria: termination relies on convergence; the objective double cuts runaways
            pass
        # default m_cache_scale here: with a cache and only a budget the run ends by the documented 'conv' reason
        Y, info, fs, _ = run(max_calls=300, m_cache_scale=5, **args)
        if fs.runaway:
            ctx.label("runaway_cut")
            continue
        st_ = info["stop"]
        given = {"m": use_m, "e": use_e, "nswp": use_n, "e_vld": use_v}
        if st_ == "conv":
            ctx.check(use_cache and info["m_cache"] > 5 * info["m"], "stop='conv' without the cache condition m_cache > m_cache_scale*m",
                      m=info["m"], m_cache=info["m_cache"])
            ctx.label("conv")
            continue
        ctx.check(st_ in given and given[st_], "stopped by a criterion that was not given", stop=st_, given=given)
        if st_ == "e":
            ctx.check(0 <= info["e"] <= args["e"], "stop='e' although the reported value is above the threshold", e=info["e"])
        if st_ == "e_vld":
            ctx.check(0 <= info["e_vld"] <= args["e_vld"], "stop='e_vld' although the reported value is above the threshold", e_vld=info["e_vld"])
        if st_ == "nswp":
            ctx.check(info["nswp"] == nswp, "stop='nswp' with a different sweep count", nswp=info["nswp"])
        if st_ == "m":
            ctx.check(info["m"] <= args["m"], "budget exceeded", m=info["m"])
        # prefix determinism also here
        k = len(fs.batches)
        if k <= K:
            ctx.check(batches_equal(fs.batches, B[:k]), "run with other stop arguments is not a prefix of the reference run", mask=mask)
    ctx.nontrivial(K >= 2)


# ---------------------------------------------------------------------------------------------------------------------
# the threshold stops as a reference model over the trajectory of reported values: on targets that are NOT exactly of low
# rank the reported e / e_vld decrease slowly through many decades, so thresholds from 1e-2 down to 1e-14 are crossed at
# different sweeps.  The documented rule, evaluated on the values the callback saw after every sweep, predicts the sweep
# at which the run ends and its reason - in both directions (not earlier, not later).
@st.composite
def threshold_cases(draw, tier):
    d = draw(st.integers(2, 4))
    n = [draw(st.integers(3, 6 if tier == "quick" else 8)) for _ in range(d)]
    return {"n": n, "target": draw(st.sampled_from(["inv", "sqrt", "noisy_lowrank", "gauss_decay"])), "tseed": draw(gen.seeds),
            "noise10": draw(st.integers(-13, -4)), "y0seed": draw(st.integers(0, 10 ** 6)), "r0": draw(st.integers(1, 2)),
            "dr": draw(st.sampled_from([(1, 1), (1, 2), (0, 1), (2, 2)])), "nswp": draw(st.integers(2, 8)),
            "e10": draw(st.one_of(st.none(), st.integers(-14, -2))), "ev10": draw(st.one_of(st.none(), st.integers(-14, -2))),
            "mant": draw(st.sampled_from([1.0, 2.0, 5.0, 3.3])), "cache": draw(st.booleans()), "scale10": draw(st.sampled_from([0, 0, 5, -5]))}


def threshold_target(case):
    n = case["n"]
    d = len(n)
    rng = np.random.default_rng(case["tseed"])
    G = np.indices(n).sum(axis=0).astype(float)
    if case["target"] == "inv":
        F = 1.0 / (1.0 + G)
    elif case["target"] == "sqrt":
        F = np.sqrt(1.0 + G)
    elif case["target"] == "noisy_lowrank":
        T = [rng.normal(size=(1 if k == 0 else 2, n[k], 1 if k == d - 1 else 2)) for k in range(d)]
        F = dense(T)
        F = F + 10.0 ** case["noise10"] * fro(F) / np.sqrt(F.size) * rng.normal(size=n)
    else:
        # a sum of rank-1 terms with geometrically decaying weights
        F = np.zeros(n)
        for j in range(8):
            t = np.ones(())
            for k in range(d):
                t = np.multiply.outer(t, rng.normal(size=n[k]))
            F = F + 10.0 ** (-1.5 * j) * t
    return F * 10.0 ** case["scale10"]


def prop_thresholds(case, ctx):
    n = case["n"]
    F = threshold_target(case)
    e = None if case["e10"] is None else case["mant"] * 10.0 ** case["e10"]
    e_vld = None if case["ev10"] is None else case["mant"] * 10.0 ** case["ev10"]
    rng = np.random.default_rng(case["y0seed"])
    I_vld = y_vld = None
    if e_vld is not None:
        I_vld = np.vstack([rng.integers(0, k, size=25) for k in n]).T
        y_vld = F[tuple(I_vld.T)]
    Y0 = ctx.lib(teneva.rand, n, case["r0"], seed=case["y0seed"])
    nswp = case["nswp"]
    traj = []

    def cb(Y, info, opts):
        traj.append((float(info["e"]), float(info["e_vld"])))

    info = {}
    f = Objective(F, max_calls=5000)
    Y = ctx.lib(teneva.cross, f, Y0, nswp=nswp, e=e, e_vld=e_vld, I_vld=I_vld, y_vld=y_vld, dr_min=case["dr"][0], dr_max=case["dr"][1],
                info=info, cb=cb, cache={} if case["cache"] else None, m_cache_scale=1e9)
    ctx.label("target:" + case["target"], "e:" + ("none" if e is None else "1e%d" % case["e10"]), "e_vld:" + ("none" if e_vld is None else "1e%d" % case["ev10"]),
              "stopped:" + str(info.get("stop")))
    why = oracle.wellformed(Y, n)
    ctx.check(why is None, f"cross: result not well-formed: {why}")
    ctx.check(info["stop"] in ("e", "e_vld", "nswp"), "unexpected stop reason", stop=info["stop"])
    if info["nswp"] == 0:
        # ended before the first sweep: only possible through the validation threshold met by the start
        ctx.check(info["stop"] == "e_vld" and 0 <= info["e_vld"] <= e_vld, "run ended before the first sweep without the validation threshold being met",
                  stop=info["stop"], e_vld=info["e_vld"], thr=e_vld)
        return ctx.label("ended_before_first_sweep")
    ctx.check(len(traj) == info["nswp"], "callback not called once per executed sweep", calls=len(traj), nswp=info["nswp"])
    pred = None
    for s, (es, evs) in enumerate(traj, 1):
        if e_vld is not None and evs >= 0 and evs <= e_vld and not np.isinf(evs):
            pred = (s, "e_vld")
        elif e is not None and es >= 0 and es <= e and not np.isinf(es):
            pred = (s, "e")
        elif s >= nswp:
            pred = (s, "nswp")
        if pred:
            break
    crossed = pred is not None and pred[1] != "nswp"
    ctx.nontrivial(crossed and pred[0] >= 2)
    ctx.check(pred is not None and (info["nswp"], info["stop"]) == pred,
              "the run did not end at the sweep / with the reason that the documented thresholds give for the reported values",
              ended=[info["nswp"], info["stop"]], predicted=list(pred) if pred else None, e=e, e_vld=e_vld, trajectory=traj[:10])
    ctx.check(info["e"] == traj[-1][0] and info["e_vld"] == traj[-1][1], "info values at return differ from those shown to the last callback")
    if info["stop"] == "e":
        ctx.check(0 <= info["e"] <= e, "stop='e' although the reported value is above the threshold", e=info["e"], thr=e)
    if info["stop"] == "e_vld":
        ctx.check(0 <= info["e_vld"] <= e_vld, "stop='e_vld' although the reported value is above the threshold", e_vld=info["e_vld"], thr=e_vld)


SUBCHECKS = [
    Sub("fault_enumeration", prop_config, strategy=configs, quick=20, thorough=200),
    Sub("thresholds", prop_thresholds, strategy=threshold_cases, quick=150, thorough=1500),
]
