"""C12 - Chebyshev interpolation is exact on polynomials of degree below the grid size.

The test function is a TT-tensor of *coefficient cores* C_k (r_k, n_k, r_{k+1}) in the scaled variable
t = (2x-a-b)/(b-a):   p(x) = prod_k M_k(t_k),   M_k(t)[a, b] = sum_j C_k[a, j, b] T_j(t),
i.e. a sum of products of 1-D Chebyshev series of degree < n_k with any TT-rank.  Its values on the Chebyshev
grid (index 0 <-> t = +1 <-> upper bound b) are assembled directly as TT cores; the reference evaluates the
series with numpy.polynomial.chebyshev (chebval / chebint / chebder), never with teneva.
"""
import math
from fractions import Fraction

import numpy as np
from numpy.polynomial import chebyshev as npcheb
from numpy.polynomial import legendre as npleg
from hypothesis import strategies as st

import harness.core  # noqa: F401  (sets sys.path for the code under test)
from harness.core import Sub
from harness import gen, oracle
from harness.oracle import EPS, dense

import teneva

LEVEL = "exploration"
RULE = ("Hypothesis draws per-dimension boxes (symmetric / offset ~1 / offset up to kappa~1e3, widths 1e-3..1e3, integer bounds "
        "symmetric or not; box GEOMETRY far from the unit scale in ~30% of the sides of every box-taking sub-check (tt, dense, diff) and in "
        "every case of tt_geo / dense_geo (one extreme side among ordinary ones, all sides extreme, one extreme box for all dimensions): "
        "symmetric / offset ~1 / [0, w] / [-w, 0] boxes of width 6e-13..7e12, far-offset boxes with kappa = max(|a|,|b|)/(b-a) log-uniform "
        "in 1e3..1e8 at any width 6e-13..7e12 (|a| up to 7e20, e.g. [1e6, 1e6+1], [1000, 1000.004], [5e-4, 5e-4 + 5e-12]), integer boxes "
        "[N, N+w] with |N| in 1e4..2^20 and w in 1..9; a and b spelled independently as float / Python-int / np.float64 scalars, float / int / mixed lists, "
        "float64 / float32 / int64 / int32 arrays - integer spellings only for integer-valued bounds; a/b=None variants), "
        "grid sizes n_k 2..9(17), d 2..4 (TT) and 1..3 (dense), Chebyshev coefficient cores of TT-rank 1..3 with O(2^s) "
        "magnitudes and optional degree deficiency, evaluation points inside / on the boundary / on grid nodes / outside "
        "(by 1 ulp .. 10 widths) / integer points inside and outside integer boxes, the point array as float ndarray, list, "
        "int64 / int32 / float32 ndarray or list of ints (integer-valued points only; ndarrays only for the dense routine), "
        "new grid sizes (None / int / float / list / int64 / int32 array), fill values incl. nan/inf spelled as float, "
        "np.float64, np.float32 (representable values), Python int / np.int64 / np.int32 (integer values) or omitted (0), "
        "differentiation-matrix call histories for one process (single call, orders 1..m increasing, m..1 decreasing, free "
        "sequences interleaving another box of the same size and the same box with another size, bounds respelled per call, "
        "returned matrices optionally overwritten by the caller), integer-dtype value / coefficient cores for integer data, "
        "custom bases (Chebyshev/Legendre/monomial/func_basis at jittered nodes, shared / per-core grids; the basis as it is, the WHOLE basis times "
        "10^e, |e| <= 12, or 2^e, |e| <= 40 (mostly |e| >= 7 / 23), one or two SINGLE functions times 10^e / 2^e, a GRADED basis g^j with g = 2^+-1, 2^+-2, "
        "10^+-1, and single / graded on top of a whole-basis factor - spread max/min of the functions within 1e3 / 1e5 / 1e6 for rcond = default / 1e-8 / "
        "1e-12; generating coefficients = O(2^s) contributions divided by the scale, i.e. inversely scaled; the function itself times 10^e, |e| <= 12, in one core); LONG tensors: d 2..200(320), mostly 96+, rank 1..2 "
        "(uniform / ragged), n_k 2..5, half-widths m*10^e with all e in -3..-2 / all in 2..3 / one uniform box at 1e-3 or 1e3 / any "
        "order with a bounded running product / e = 0, boxes symmetric, [0, w], offset ~1, offset up to 1.9e3 widths, integer bounds, "
        "polynomials positive (T_0-dominated), signed rank-1, signed rank-2; a 'density' whose coefficient magnitudes compensate the "
        "widths dimension by dimension (running integral O(2^+-48), while prod (b-a)/2 and the reference-cube integral alone leave "
        "the double range) for func_sum, and the same polynomial balanced to O(1) values for func_get (inside points, one point "
        "outside in a single late coordinate), func_int / func_gets entries and, where the widths allow, func_sum. "
        "Oracle = numpy.polynomial.chebyshev reference of the generating polynomial with a derived rounding bound. "
        "Non-trivial = TT-rank >= 2 or a non-symmetric box or a new grid size != n (tt/dense), rank >= 2 or two different "
        "operands (linear), n >= 3 (diff), rank >= 2 or per-core nodes or a non-Chebyshev basis or a rescaled basis (general), d >= 50 with both a "
        "func_sum and a func_get comparison inside the applicability guard (long); distinct by SHA-1.")
TOLERANCES = ("values: |got-ref| <= [32(d+sum r) + sum_k n_k^2 (8 kappa_k + 48)] * eps * scale, scale = chain product of "
              "sum_j |C_k[:, j, :]| (abs-majorant of every value, |T_j| <= 1, |T_j'| <= j^2, point->t map loses "
              "(4 kappa + 8) eps: the affine map t = (x - (a+b)/2) * 2/(b-a) is scale-free, its only error source is the rounding of the "
              "centre and of x - centre, eps * |offset| / width = eps * kappa, whatever the magnitude of the width - so NO absolute tolerance "
              "on a, b, b-a or x enters any bound and every bound is relative to the width: values ~ kappa n^2 eps scale, integrals ~ eps "
              "scale prod (b-a), D_j ~ eps (2/(b-a))^j, nodes ~ eps (|a|+|b|+width); measured on the pinned tree for kappa 1..1e13, widths "
              "1e-12..1e12: observed error <= 0.01 of the bound for func_get / func_get_full / func_get at ind_to_poi nodes, <= 0.13 of "
              "(4 kappa + 8) eps for poi_scale, <= 0.001 of the bound for func_sum; the generated kappa stops at 1e8 only because the bound "
              "8 kappa n^2 eps (1.4e-5 scale for n = 9, 5e-5 for n = 17) would stop being informative beyond); coefficient tensors and integrals: the same with kappa = 0 (integral times prod (b-a)); "
              "D_j y: 64 eps n^(2j+1) (2/(b-a))^j sum|c| (||D_j||_inf <= n^(2j)); fill value: bit-for-bit; arbitrary-Y "
              "transform pairs: 32(d+sum r+8 n) eps * dense of per-core l1 majorants; custom bases: coefficients compared as CONTRIBUTIONS "
              "c_j |phi_j| (|phi_j| = 2-norm of function j on the grid of the core, so the comparison is relative to the magnitude of the function and invariant "
              "under any rescaling of the whole basis): 64 eps d n^2 cond_n spread * prod ||C_k |phi||_F (||phi(x)/|phi|||_2 for values), cond_n = condition number "
              "of the column-normalised design matrix, spread = max|phi_j| / min|phi_j| (backward-stable SVD solve: (H+E) q = M, |E| <= c eps |H|, gives a "
              "contribution error c eps cond_n spread |contributions|; cond_n spread >= s_max/s_min); measured on the unmodified tree: <= 0.007 of the bound for "
              "every scale pattern and rcond (8000 cases per tier); long tensors: the value is a product R_1..R_d of per-dimension matrices (exact 1-D "
              "integrals times (b-a)/2, series values, coefficient slices) multiplied dimension by dimension; |got-ref| <= 2 eps sum_k "
              "|R_1|..|R_{k-1}| (K_k M_k) |R_{k+1}|..|R_d| with M_k = sum_j |C_k[:, j, :]| (times (b-a) for integrals) >= |R_k| and "
              "K_k = 32(1+r_k+r_{k+1}) + n_k^2 (8 kappa_k + 48) (+48 m_k on a new grid): first-order perturbation bound, relative "
              "~ d K eps for cancellation-free chains, factor 2 for higher orders (sum_k K_k eps < 1e-9)")
ASSUMPTIONS = ["mode sizes n_k >= 2 and new grid sizes m_k >= 2 (a one-node Chebyshev grid is undefined)",
               "d >= 2 for the TT routines, d >= 1 for the dense ones",
               "box offset ratio kappa = max(|a|,|b|)/(b-a) <= 1.1e8 (<= 2e3 for long tensors and custom bases), widths 6e-13..7e12 "
               "(6e-4..4e3 for long tensors); with a or b = None (library default -1 / 1 on one side) widths 6e-4..7e12, so that kappa <= 2e3",
               "non-symmetric boxes have ||b|-|a|| >= 0.25 (b-a)/2 >= 8e-14 (or >= 1 for integer bounds) >> 1e-16 (func_sum_full's ABSOLUTE "
               "symmetry threshold on the pinned tree: a non-symmetric box narrower than ~1e-16 would be accepted by it - below the generated widths)",
               "outside points are outside by >= 1 ulp of the bound or 1e-6 (b-a) >= 6e-19 >> 1e-99 (the library's absolute slack in the box test)",
               "scalar bounds are Python float / int or np.float64 (a float subclass): other NumPy scalars (np.int64, np.float32) and 0-d "
               "arrays are outside the documented 'float, list, np.ndarray' and are rejected by grid_prep_opts consumers with a TypeError / "
               "IndexError on the pinned tree - not generated; the same holds for an np.int64 scalar as the new grid size m",
               "an argument spelling (int vs float, list vs array, dtype) that denotes the same real numbers must give the same values up "
               "to rounding: integer spellings are generated only for integer-valued data of magnitude < 2^20, float32 only for exactly representable values",
               "func_get_full documents X as np.ndarray (lists are not generated for it); func_get accepts lists",
               "'outside' = beyond a bound by >= 1 ulp of a non-zero bound or by >= 1e-6 (b-a); membership decided by float comparison",
               "with skip_out=False (explicit, or defaulted because a/b is None) nothing is asserted about outside points",
               "custom bases follow the library-wide convention basis(x) -> [functions, points]; square systems whose COLUMN-NORMALISED design matrix has cond <= 1e4 "
               "(any overall scale 1e-12..1e12 of the basis: the conditioning does not depend on a common factor)",
               "func_int_general(rcond) drops singular values below rcond * s_max of the whole design matrix (SciPy lstsq cond=): basis functions of very different "
               "scales in ONE basis are legitimately cut - on the unmodified tree a single function times f is reproduced to 31 eps cond(H) for |log10 f| <= "
               "-log10(rcond) - 1 and lost (relative error 1) for |log10 f| >= -log10(rcond) + 1; reproduction is asserted iff s_max/s_min <= 0.01 / rcond "
               "(and cond_n * spread <= 1e8), which the generated spreads satisfy by construction in > 99% of the cases; rcond in {default 1e-6, 1e-8, 1e-12} "
               "is passed as the relative cut-off it is forwarded as",
               "long tensors: a comparison is made only if every partial product |R_1|..|R_k| and |R_k|..|R_d| of the reference chain and every "
               "per-dimension majorant lies in [1e-200, 1e200] (then any dimension-by-dimension evaluation order stays representable); true values "
               "that need an out-of-range intermediate in every sweep order are generated (func_sum of the O(1)-valued polynomial on small / large "
               "boxes) but nothing is asserted about them beyond 'does not raise'",
               "numpy.polynomial and LAPACK reference arithmetic is correct"]

_STAT = {}          # max observed error/tolerance ratio per comparison (diagnostic only, never read by a check)


# ------------------------------------------------------------------------------------------- helpers

def close(ctx, got, ref, tol, what, **kw):
    got = np.asarray(got, dtype=float)
    ref = np.asarray(ref, dtype=float)
    ctx.check(got.shape == ref.shape, f"{what}: shape {got.shape} != {ref.shape}", **kw)
    if got.size == 0:
        return
    err = np.abs(got - ref)
    tolb = np.broadcast_to(np.asarray(tol, dtype=float), err.shape)
    with np.errstate(all="ignore"):
        ratio = float(np.max(np.where(tolb > 0, err / np.where(tolb > 0, tolb, 1.0), np.where(err > 0, np.inf, 0.0))))
    if ratio == ratio:
        _STAT[what] = max(_STAT.get(what, 0.0), ratio)
    bad = ~(err <= tolb)
    if np.any(bad):
        j = int(np.argmax(np.where(np.isfinite(err), err - tolb, np.inf)))
        ctx.check(False, f"{what}: differs from the polynomial reference beyond the rounding bound",
                  got=float(got.ravel()[j]), ref=float(ref.ravel()[j]), tol=float(tolb.ravel()[j]), where=j, **kw)


def same_fill(v, z):
    v = float(v)
    return (v != v and z != z) or v == z


def cheb_nodes(n):
    """Nodes of the n-point Chebyshev grid in t, index 0 <-> t = +1 (upper bound)."""
    return np.cos(np.pi * np.arange(n) / (n - 1))


def coef_cores(p):
    rng = np.random.default_rng(p["seed"])
    C = []
    for k, nk in enumerate(p["n"]):
        G = rng.uniform(-1.0, 1.0, size=(p["r"][k], nk, p["r"][k + 1]))
        drop = min(int(p["drop"][k]), nk - 1)
        if drop:
            G[:, nk - drop:, :] = 0.0
        C.append(G * 2.0 ** p["exp"][k])
    return C


def series_at(Ck, t):
    """M_k(t) for a vector t: array (len(t), r1, r2)."""
    V = npcheb.chebval(np.asarray(t, dtype=float), np.transpose(Ck, (1, 0, 2)))   # (r1, r2, m)
    return np.transpose(V, (2, 0, 1))


def value_cores(C, nodes):
    return [np.ascontiguousarray(np.transpose(series_at(Ck, t), (1, 0, 2))) for Ck, t in zip(C, nodes)]


def ref_points(C, T):
    """p at scaled points T (m, d)."""
    T = np.asarray(T, dtype=float)
    v = np.ones((T.shape[0], 1, 1))
    for k, Ck in enumerate(C):
        v = v @ series_at(Ck, T[:, k])
    return v[:, 0, 0]


def ref_integral(C, a, b):
    v = np.ones((1, 1))
    for Ck, ak, bk in zip(C, a, b):
        ci = npcheb.chebint(np.transpose(Ck, (1, 0, 2)), axis=0)
        W = npcheb.chebval(1.0, ci) - npcheb.chebval(-1.0, ci)                     # (r1, r2)
        v = v @ (W * ((bk - ak) / 2.0))
    return float(v[0, 0])


def scale_of(C):
    v = np.ones((1, 1))
    for Ck in C:
        v = v @ np.abs(Ck).sum(axis=1)
    return float(v[0, 0])


def kappa_of(a, b):
    return [max(abs(x), abs(y)) / (y - x) for x, y in zip(a, b)]


def K_val(n, r, kappa=None):
    kappa = kappa or [0.0] * len(n)
    return 32.0 * (len(n) + sum(r)) + sum(nk * nk * (8.0 * kp + 48.0) for nk, kp in zip(n, kappa))


def geo_labels(a, b):
    """Histogram classes of the box geometry (widths and offset ratios far from the unit scale)."""
    w = [y - x for x, y in zip(a, b)]
    kap = kappa_of(a, b)
    out = []
    if min(w) <= 1e-8:
        out.append("geo:width<=1e-8")
    if max(w) >= 1e8:
        out.append("geo:width>=1e8")
    if max(kap) >= 1e5:
        out.append("geo:kappa>=1e5")
    elif max(kap) >= 3e3:
        out.append("geo:kappa>=3e3")
    if len(w) > 1 and max(w) >= 1e6 * min(w):
        out.append("geo:mixed_scales(ratio>=1e6)")
    if len(w) > 1 and max(kap) >= 1e3 * (min(kap) + 1.0):
        out.append("geo:mixed_offsets(ratio>=1e3)")
    return out


def exact_t(x, a, b):
    fx, fa, fb = Fraction(float(x)), Fraction(float(a)), Fraction(float(b))
    return float((2 * fx - fa - fb) / (fb - fa))


def is_int_valued(vals):
    return all(math.isfinite(float(v)) and float(v).is_integer() and abs(float(v)) < 2 ** 20 for v in vals)


# spellings of the bounds a / b.  The documented types are "float, list, np.ndarray" (Python int scalars are handled
# explicitly by grid_prep_opt and are the library's own defaults a=-1, b=1).  Integer spellings are used only for
# integer-valued bounds, so that every spelling denotes exactly the same real numbers.
INT_HOWS = {"int_scalar": "scalar", "int_list": "list", "mixed_list": "list", "int_array": "array", "int32_array": "array", "f32_array": "array"}
HOWS_ANY = ["list", "list", "array", "array"]
HOWS_ANY_UNIFORM = ["scalar", "scalar", "np_float64"]
HOWS_INT = ["int_list", "int_array", "int32_array", "mixed_list", "f32_array"]
HOWS_INT_UNIFORM = ["int_scalar", "int_scalar"]


def eff_how(vals, how):
    """The drawn spelling, or its float fallback when the bounds are not integer-valued (keeps shrunk cases in-domain)."""
    if how in INT_HOWS and not is_int_valued(vals):
        how = INT_HOWS[how]
    if how in ("scalar", "np_float64", "int_scalar") and len(set(float(v) for v in vals)) != 1:
        return "list"
    return how


def spell(vals, how):
    how = eff_how(vals, how)
    if how == "scalar":
        return float(vals[0])
    if how == "np_float64":
        return np.float64(vals[0])
    if how == "int_scalar":
        return int(vals[0])
    if how == "array":
        return np.array(vals, dtype=float)
    if how == "int_array":
        return np.array([int(v) for v in vals], dtype=np.int64)
    if how == "int32_array":
        return np.array([int(v) for v in vals], dtype=np.int32)
    if how == "f32_array":
        return np.array(vals, dtype=np.float32)
    if how == "int_list":
        return [int(v) for v in vals]
    if how == "mixed_list":
        return [int(v) if k % 2 == 0 else float(v) for k, v in enumerate(vals)]
    return [float(v) for v in vals]


def spell_x(X, how):
    """Point array (2-D or 1-D) in the drawn spelling; integer spellings only for integer-valued points."""
    X = np.asarray(X, dtype=float)
    if how in ("int_array", "int32_array", "f32_array", "int_list") and not is_int_valued(X.ravel().tolist()):
        how = "list" if how == "int_list" else "array"
    if how == "list":
        return X.tolist(), how
    if how == "int_list":
        return X.astype(np.int64).tolist(), how
    if how == "int_array":
        return X.astype(np.int64), how
    if how == "int32_array":
        return X.astype(np.int32), how
    if how == "f32_array":
        return X.astype(np.float32), how
    return X.copy(), "array"


def spell_z(z, how):
    """Fill value in the drawn spelling: (positional args tuple, effective spelling)."""
    z = float(z)
    if how in ("int", "np_int64", "np_int32") and not is_int_valued([z]):
        how = "float"
    if how == "np_float32" and not (z != z or float(np.float32(z)) == z):
        how = "float"
    if how == "default" and not z == 0.0:
        how = "float"
    if how == "default":
        return (), how                      # z omitted: the documented default 0.
    if how == "int":
        return (int(z),), how
    if how == "np_int64":
        return (np.int64(int(z)),), how
    if how == "np_int32":
        return (np.int32(int(z)),), how
    if how == "np_float64":
        return (np.float64(z),), how
    if how == "np_float32":
        return (np.float32(z),), how
    return (z,), "float"


def make_x(code, a, b, nk):
    """One coordinate from its drawn description; inside codes are clipped into [a, b]."""
    kind = code[0]
    w = b - a
    if kind == "u":
        x = a + w * float(code[1])
    elif kind == "lo":
        x = a
    elif kind == "hi":
        x = b
    elif kind == "node":
        i = int(code[1]) % nk
        x = math.cos(math.pi * i / (nk - 1)) * w / 2 + (b + a) / 2
    elif kind == "int":                      # a + j, j integer: an integer point when the bound is an integer
        x = a + float(int(code[1]) % (int(math.floor(w)) + 1))
    elif kind == "int_out_lo":
        return a - float(int(code[1]))
    elif kind == "int_out_hi":
        return b + float(int(code[1]))
    elif kind == "out_lo":
        return a - float(code[1]) * w
    elif kind == "out_hi":
        return b + float(code[1]) * w
    elif kind == "ulp_lo":
        return float(np.nextafter(a, -np.inf)) if a != 0 else a - 1e-6 * w
    elif kind == "ulp_hi":
        return float(np.nextafter(b, np.inf)) if b != 0 else b + 1e-6 * w
    else:
        raise ValueError(kind)
    return min(max(x, a), b)


def make_points(codes, a, b, n):
    X = np.array([[make_x(c, a[k], b[k], n[k]) for k, c in enumerate(p)] for p in codes], dtype=float)
    inside = np.array([all(a[k] <= x[k] <= b[k] for k in range(len(a))) for x in X], dtype=bool)
    return X, inside


def scaled_points(X, a, b):
    return np.array([[min(1.0, max(-1.0, exact_t(x[k], a[k], b[k]))) for k in range(len(a))] for x in X], dtype=float).reshape(len(X), len(a))


def m_spell(m, how):
    if how == "none":
        return None
    if how == "int":
        return int(m[0])
    if how == "float":                       # "It may be also int/float" (func_gets, func_gets_full)
        return float(m[0])
    if how == "array":
        return np.array(m, dtype=int)
    if how == "int32_array":
        return np.array(m, dtype=np.int32)
    return [int(v) for v in m]


# ------------------------------------------------------------------------------------------- strategies

nice = st.sampled_from([1.0, 0.5, 2.0, math.pi, 1.0 / 3.0])


# Box GEOMETRY far from the unit scale (the property quantifies over all boxes): the affine map x -> t and the factors
# (b-a)/2, 2/(b-a) are scale-free, so nothing but the conditioning kappa = max(|a|,|b|)/(b-a) may enter an error.
#   tsym / hsym  symmetric, half-width m * 10^e, e in -12..-4 / 4..12
#   toff / lo0   the same widths, centre = u * half-width with u in 0.25..3 / exactly [0, w] or [-w, 0]
#   far          kappa = 10^x, x in 3..8 (log-uniform), half-width m * 10^e with e in -12..12 (e.g. [1e6, 1e6+1], [1000, 1000.004])
#   intfar       integer bounds, |a| in 1e4..2^20-16, width 1..9 (kappa 1e3..1e6; every int / float32 spelling still exact)
GEO_CLS = ["tsym", "hsym", "toff", "toff", "lo0", "far", "far", "far", "intfar"]
GEO_KAPPA_MAX_LOG10 = 8.0


@st.composite
def box1(draw, force=None, tiny=True):
    cls = force or draw(st.sampled_from(["sym", "sym", "off1", "off1", "big", "isym", "int", "geo", "geo", "geo"]))
    if cls == "geo":
        cls = draw(st.sampled_from(GEO_CLS))
    if cls == "isym":                          # integer bounds (any int / float spelling denotes the same box)
        h = draw(st.integers(1, 6))
        return {"cls": cls, "a": -float(h), "b": float(h)}
    if cls == "int":
        lo = draw(st.integers(-8, 6))
        hi = lo + draw(st.integers(1, 9))
        if lo == -hi:
            hi += 1
        return {"cls": cls, "a": float(lo), "b": float(hi)}
    if cls == "intfar":
        lo = draw(st.sampled_from([-1, 1])) * draw(st.one_of(st.integers(10 ** 4, 2 ** 20 - 16), st.integers(10 ** 5, 2 ** 20 - 16)))
        w = draw(st.integers(1, 9))
        lo = lo if lo > 0 else lo - w
        return {"cls": cls, "a": float(lo), "b": float(lo + w)}
    m = draw(st.one_of(nice, gen.reals(0.5, 2.0)))
    if cls in GEO_CLS:
        e_tiny, e_huge = st.integers(-12, -4), st.integers(4, 12)
        if cls == "tsym" and not tiny:
            cls = "hsym"
        if cls == "tsym":
            e = draw(e_tiny)
        elif cls == "hsym":
            e = draw(e_huge)
        elif cls == "far":
            e = draw(st.one_of(e_tiny, e_huge, st.integers(-3, 3))) if tiny else draw(st.integers(-3, 12))
        else:
            e = draw(st.one_of(e_tiny, e_huge)) if tiny else draw(e_huge)
        h = m * 10.0 ** e
        sg = draw(st.sampled_from([-1.0, 1.0]))
        if cls in ("tsym", "hsym"):
            return {"cls": cls, "a": -h, "b": h}
        if cls == "lo0":
            return {"cls": cls, "a": 0.0, "b": 2.0 * h} if sg > 0 else {"cls": cls, "a": -2.0 * h, "b": 0.0}
        if cls == "toff":
            c = sg * draw(gen.reals(0.25, 3.0)) * h
        else:
            c = sg * 10.0 ** draw(gen.reals(3.0, GEO_KAPPA_MAX_LOG10)) * 2.0 * h
        return {"cls": cls, "a": c - h, "b": c + h}
    h = m * 10.0 ** draw(st.integers(-3, 3))
    if cls == "sym":
        return {"cls": cls, "a": -h, "b": h}
    u = draw(gen.reals(0.25, 3.0)) if cls == "off1" else draw(gen.reals(100.0, 1900.0))
    c = draw(st.sampled_from([-1.0, 1.0])) * u * h
    return {"cls": cls, "a": c - h, "b": c + h}


SYM_CLS = ("sym", "isym", "tsym", "hsym")


@st.composite
def boxes(draw, d, mode="given", geo=False):
    """geo=True: at least one side comes from GEO_CLS - one extreme side among ordinary ones / all sides extreme
    (independently drawn) / one extreme box for every dimension (scalar spellings)."""
    uniform = draw(st.integers(0, 3)) == 0
    tiny = mode not in ("a_none", "b_none")    # [-1, -1 + w] / [1 - w, 1]: a tiny w would mean kappa = 1 / w up to 1e12
    if mode == "none":
        bs = [{"cls": "sym", "a": -1.0, "b": 1.0}] * d
        uniform = True
    else:
        if geo:
            pat = draw(st.sampled_from(["one", "one", "all", "uniform"]))
            g = st.sampled_from(GEO_CLS)
            uniform = pat == "uniform"
            if pat == "uniform":
                bs = [draw(box1(force=draw(g), tiny=tiny))] * d
            elif pat == "all":
                bs = [draw(box1(force=draw(g), tiny=tiny)) for _ in range(d)]
            else:
                if draw(st.integers(0, 3)) == 0:
                    f = st.sampled_from(["isym", "int", "int"])
                    bs = [draw(box1(force=draw(f))) for _ in range(d)]
                    bs[draw(st.integers(0, d - 1))] = draw(box1(force="intfar"))
                else:
                    bs = [draw(box1(force=draw(st.sampled_from(["sym", "off1", "off1", "big", "int"])))) for _ in range(d)]
                    bs[draw(st.integers(0, d - 1))] = draw(box1(force=draw(g), tiny=tiny))
        elif draw(st.integers(0, 3)) == 0:     # all bounds integers: integer spellings of a / b / X become available
            f = st.sampled_from(["isym", "int", "int", "int", "intfar"])
            bs = [draw(box1(force=draw(f)))] * d if uniform else [draw(box1(force=draw(f))) for _ in range(d)]
        else:
            bs = [draw(box1(tiny=tiny))] * d if uniform else [draw(box1(tiny=tiny)) for _ in range(d)]
        if mode == "a_none":       # lower bound is the library default -1, upper bound drawn
            bs = [{"cls": "off1", "a": -1.0, "b": -1.0 + (x["b"] - x["a"])} for x in bs]
        elif mode == "b_none":
            bs = [{"cls": "off1", "a": 1.0 - (x["b"] - x["a"]), "b": 1.0} for x in bs]
    a, b = [x["a"] for x in bs], [x["b"] for x in bs]
    pool = HOWS_ANY + (HOWS_ANY_UNIFORM if uniform else [])
    if is_int_valued(a + b):
        pool = pool[::2] + HOWS_INT * 2 + (HOWS_INT_UNIFORM * 2 if uniform else [])
    how = draw(st.sampled_from(pool))
    how_b = draw(st.sampled_from(pool)) if draw(st.integers(0, 2)) == 0 else how
    return {"a": a, "b": b, "cls": [x["cls"] for x in bs], "how": how, "how_b": how_b, "int": is_int_valued(a + b)}


@st.composite
def polys(draw, tier, d_min, d_max, n_max=None, r_max=3, size_max=None):
    n_max = n_max or (9 if tier == "quick" else 17)
    size_max = size_max or (4096 if tier == "quick" else 2 ** 15)
    d = draw(st.integers(d_min, d_max))
    n = [draw(st.integers(2, n_max)) for _ in range(d)]
    while int(np.prod(n)) > size_max:
        n[int(np.argmax(n))] -= 1
    r = [1] + [draw(st.integers(1, r_max)) for _ in range(d - 1)] + [1]
    drop = [draw(st.sampled_from([0] * 8 + [1, 2, 99])) for _ in range(d)]
    exp = [draw(st.integers(-8, 8)) for _ in range(d)] if draw(st.booleans()) else [0] * d
    return {"n": n, "r": r, "drop": drop, "exp": exp, "seed": draw(gen.seeds)}


def coord_in(nk):
    return st.one_of(st.tuples(st.just("u"), st.floats(0.0, 1.0)), st.tuples(st.just("u"), st.floats(0.0, 1.0)),
                     st.tuples(st.just("lo")), st.tuples(st.just("hi")), st.tuples(st.just("node"), st.integers(0, nk - 1)))


coord_out = st.one_of(st.tuples(st.sampled_from(["out_lo", "out_hi"]), st.sampled_from([1e-6, 1e-3, 0.5, 10.0])),
                      st.tuples(st.sampled_from(["ulp_lo", "ulp_hi"])))


coord_int_out = st.tuples(st.sampled_from(["int_out_lo", "int_out_hi"]), st.integers(1, 3))


@st.composite
def point_codes(draw, n, m_max=6, int_box=False):
    d = len(n)
    pts = []
    all_int = int_box and draw(st.integers(0, 2)) > 0       # integer points only: X may be spelled with an integer dtype
    for _ in range(draw(st.integers(1, m_max))):
        if all_int:
            p = [draw(st.tuples(st.just("int"), st.integers(0, 12))) for _ in n]
        else:
            p = [draw(coord_in(nk)) for nk in n]
        if draw(st.integers(0, 3)) == 0:
            for _ in range(draw(st.integers(1, 2))):
                p[draw(st.integers(0, d - 1))] = draw(coord_int_out if all_int else coord_out)
        pts.append(p)
    return pts


def x_hows(int_box, lists=True):
    pool = ["array", "array"] + (["list", "list"] if lists else [])
    if int_box:
        pool = pool + ["int_array", "int_array", "int32_array", "f32_array"] + (["int_list", "int_list"] if lists else [])
    return st.sampled_from(pool)


@st.composite
def new_sizes(draw, n, tier, size_max=None):
    d = len(n)
    size_max = size_max or (4096 if tier == "quick" else 2 ** 15)
    m_max = 10 if tier == "quick" else 20
    how = draw(st.sampled_from(["none", "int", "list", "array", "float", "int32_array"]))
    if how == "none":
        return {"how": how, "m": list(n)}
    if how in ("int", "float"):
        m1 = draw(st.integers(2, m_max))
        while m1 ** d > size_max:
            m1 -= 1
        return {"how": how, "m": [m1] * d}
    m = [draw(st.integers(2, m_max)) for _ in range(d)]
    while int(np.prod(m)) > size_max:
        m[int(np.argmax(m))] -= 1
    return {"how": how, "m": m}


fills = st.one_of(st.sampled_from([0.0, 1.0, -2.5, 1e300, float("inf"), float("nan")]), gen.reals(-10, 10))


@st.composite
def fill_specs(draw):
    """(value, spelling): the fill value is documented as a float; an integer-valued one may be written 0, -3, np.int64(2), ..."""
    fam = draw(st.sampled_from(["float", "float", "int", "int", "f32", "default"]))
    if fam == "float":
        return [draw(fills), draw(st.sampled_from(["float", "float", "np_float64"]))]
    if fam == "int":
        return [float(draw(st.integers(-5, 5))), draw(st.sampled_from(["int", "int", "int", "np_int64", "np_int32", "float"]))]
    if fam == "f32":
        return [draw(st.sampled_from([0.0, 0.5, 1.0, -2.5, 3.0, float("inf"), float("-inf"), float("nan")])), "np_float32"]
    return [0.0, "default"]


# ------------------------------------------------------------------------------------------- TT routines

@st.composite
def tt_cases(draw, tier, geo=False):
    p = draw(polys(tier, 2, 4))
    n = p["n"]
    mode = draw(st.sampled_from(["given"] * 7 + ["a_none", "b_none"])) if geo else draw(st.sampled_from(["given"] * 5 + ["none", "a_none", "b_none"]))
    box = draw(boxes(len(n), mode, geo=geo))
    z, z_how = draw(fill_specs())
    return {"poly": p, "mode": mode, "box": box, "pts": draw(point_codes(n, int_box=box["int"])),
            "x_how": draw(x_hows(box["int"])), "z": z, "z_how": z_how, "skip_out": draw(st.sampled_from([None, None, True, False])),
            "m": draw(new_sizes(n, tier)), "I": draw(gen.indices(n, m_max=4))}


def prop_tt(case, ctx):
    p = case["poly"]
    n, r = p["n"], p["r"]
    d = len(n)
    a, b = [float(v) for v in case["box"]["a"]], [float(v) for v in case["box"]["b"]]
    how, mode = case["box"]["how"], case["mode"]
    how_b = case["box"].get("how_b", how)
    z = float(case["z"])
    zargs, z_how = spell_z(z, case.get("z_how", "float"))
    x_how = case.get("x_how", "list" if case.get("x_list") else "array")
    kap = kappa_of(a, b)
    C = coef_cores(p)
    scale = scale_of(C)
    Y = value_cores(C, [cheb_nodes(nk) for nk in n])
    FY = dense(Y)
    mm = case["m"]["m"]
    sym = all(c in SYM_CLS for c in case["box"]["cls"])
    ctx.label(f"d={d}", "rank>=2" if max(r) >= 2 else "rank1", "box:" + "+".join(sorted(set(case["box"]["cls"]))),
              "spell_a:" + eff_how(a, how), "spell_b:" + eff_how(b, how_b), "z:" + z_how, "mode:" + mode, "m:" + case["m"]["how"],
              "m!=n" if mm != n else "m==n", "deg_deficient" if any(p["drop"]) else "full_degree")
    ctx.label(*geo_labels(a, b))
    ctx.nontrivial(max(r) >= 2 or not sym or mm != n)

    tol0 = K_val(n, r) * EPS * scale

    # coefficients: the coefficient tensor of the interpolating polynomial is unique
    A = ctx.lib(teneva.func_int, Y)
    why = oracle.wellformed(A, n)
    ctx.check(why is None, f"func_int: result is not a well-formed TT-tensor of the input shape: {why}")
    close(ctx, dense(A), dense(C), tol0, "func_int: coefficient tensor")

    # re-sampling on the same grid inverts the transform
    Z = ctx.lib(teneva.func_gets, A)
    why = oracle.wellformed(Z, n)
    ctx.check(why is None, f"func_gets(A): not a well-formed TT-tensor of the grid shape: {why}")
    close(ctx, dense(Z), FY, 2 * tol0, "func_gets(func_int(Y)) vs Y")

    # re-sampling on a new grid
    Z = ctx.lib(teneva.func_gets, A, m_spell(mm, case["m"]["how"]))
    why = oracle.wellformed(Z, mm)
    ctx.check(why is None, f"func_gets(A, m): not a well-formed TT-tensor of shape m: {why}", m=mm)
    Fm = dense(value_cores(C, [cheb_nodes(mk) for mk in mm]))
    close(ctx, dense(Z), Fm, (K_val(n, r) + 48.0 * sum(mk for mk in mm)) * EPS * scale, "func_gets(A, m) vs polynomial on the new grid", m=mm)

    # evaluation at points
    a_arg = None if mode in ("none", "a_none") else spell(a, how)
    b_arg = None if mode in ("none", "b_none") else spell(b, how_b)
    skip = case["skip_out"]
    eff_skip = skip if skip is not None else (mode == "given")
    kw = {} if skip is None else {"skip_out": skip}
    tolp = K_val(n, r, kap) * EPS * scale

    def check_points(X, inside, what, ref=None):
        # every spelling of the same real numbers (int / float scalars, numpy scalars, int / float32 / float64 arrays,
        # lists) must give the function value inside the box and the fill value outside it
        Xarg, xh = spell_x(X, x_how)
        ctx.label("X:" + xh)
        got = ctx.lib(teneva.func_get, Xarg, A, a_arg, b_arg, *zargs, **kw)
        got = np.asarray(got)
        ctx.check(got.shape == (len(X),), f"{what}: result shape {got.shape} for {len(X)} points")
        if np.any(inside):
            refv = ref_points(C, scaled_points(X[inside], a, b)) if ref is None else ref[inside]
            close(ctx, got[inside], refv, tolp, f"{what}: inside the box", x=X[inside].tolist())
        if eff_skip:
            for j in np.nonzero(~inside)[0]:
                ctx.check(same_fill(got[j], z), f"{what}: a point outside the box did not receive the fill value",
                          x=X[j].tolist(), a=a, b=b, got=float(got[j]), z=z, skip_out=repr(skip), mode=mode)
        elif np.any(~inside):
            ctx.label("outside_unasserted(skip_out=False)")
        return got

    X, inside = make_points(case["pts"], a, b, n)
    if np.any(~inside):
        ctx.label("has_outside_point")
    if np.any(inside):
        ctx.label("has_inside_point")
    got = check_points(X, inside, "func_get")

    # single point spelling: 1-D X, scalar result
    x0 = spell_x(X[0], x_how)[0]
    one = ctx.lib(teneva.func_get, x0, A, a_arg, b_arg, *zargs, **kw)
    ctx.check(np.ndim(one) == 0, "func_get(single point) did not return a scalar", got=repr(one))
    if inside[0]:
        close(ctx, one, ref_points(C, scaled_points(X[:1], a, b))[0], tolp, "func_get(single point): inside the box", x=X[0].tolist())
    elif eff_skip:
        ctx.check(same_fill(one, z), "func_get(single point): a point outside the box did not receive the fill value", x=X[0].tolist(), got=float(one), z=z)

    # the library's own grid nodes: index 0 is the upper bound; the interpolant returns the data
    I = np.array(case["I"], dtype=int)
    Xg = np.asarray(ctx.lib(teneva.ind_to_poi, I, spell(a, how), spell(b, how_b), np.array(n), 'cheb'), dtype=float)
    ctx.check(Xg.shape == I.shape, "ind_to_poi: shape", got=Xg.shape)
    Xr = np.array([[math.cos(math.pi * i / (nk - 1)) * (bk - ak) / 2 + (bk + ak) / 2 for i, nk, ak, bk in zip(row, n, a, b)] for row in I])
    wid = np.array(b) - np.array(a)
    close(ctx, Xg, Xr, 8 * EPS * (np.abs(np.array(a)) + np.abs(np.array(b)) + wid)[None, :] + 0 * Xr, "ind_to_poi(cheb) nodes")
    ins_g = np.array([all(a[k] <= x[k] <= b[k] for k in range(d)) for x in Xg], dtype=bool)
    if np.any(~ins_g):
        ctx.label("grid_node_rounds_outside")
    check_points(Xg, ins_g, "func_get at grid nodes", ref=FY[tuple(I.T)])

    # integral over the box (any box)
    got = ctx.lib(teneva.func_sum, A, spell(a, how), spell(b, how_b))
    ctx.check(np.ndim(got) == 0, "func_sum: not a scalar", got=repr(got))
    vol = float(np.prod(wid))
    close(ctx, got, ref_integral(C, a, b), tol0 * vol, "func_sum vs analytic integral", a=a, b=b)


# ------------------------------------------------------------------------------------------- dense routines

@st.composite
def dense_cases(draw, tier, geo=False):
    p = draw(polys(tier, 1, 3, size_max=512 if tier == "quick" else 1024))
    n = p["n"]
    box = draw(boxes(len(n), geo=geo))
    z, z_how = draw(fill_specs())
    return {"poly": p, "box": box, "pts": draw(point_codes(n, int_box=box["int"])), "x_how": draw(x_hows(box["int"], lists=False)),
            "z": z, "z_how": z_how, "skip_out": draw(st.sampled_from([None, None, True, False])),
            "m": draw(new_sizes(n, tier, size_max=512 if tier == "quick" else 1024))}


def prop_dense(case, ctx):
    p = case["poly"]
    n, r = p["n"], p["r"]
    d = len(n)
    a, b = [float(v) for v in case["box"]["a"]], [float(v) for v in case["box"]["b"]]
    how = case["box"]["how"]
    how_b = case["box"].get("how_b", how)
    z = float(case["z"])
    zargs, z_how = spell_z(z, case.get("z_how", "float"))
    kap = kappa_of(a, b)
    C = coef_cores(p)
    scale = scale_of(C)
    Y = value_cores(C, [cheb_nodes(nk) for nk in n])
    FY = np.ascontiguousarray(dense(Y))
    mm = case["m"]["m"]
    m_how = case["m"]["how"]
    sym = all(c in SYM_CLS for c in case["box"]["cls"])
    ctx.label(f"d={d}", "rank>=2" if max(r) >= 2 else "rank1", "box:" + "+".join(sorted(set(case["box"]["cls"]))),
              "spell_a:" + eff_how(a, how), "spell_b:" + eff_how(b, how_b), "z:" + z_how,
              "m!=n" if mm != n else "m==n", "all_sym" if sym else "not_all_sym")
    ctx.label(*geo_labels(a, b))
    ctx.nontrivial(max(r) >= 2 or not sym or mm != n)
    tol0 = K_val(n, r) * EPS * scale
    tolp = K_val(n, r, kap) * EPS * scale

    Ad = ctx.lib(teneva.func_int_full, FY)
    ctx.check(isinstance(Ad, np.ndarray) and Ad.shape == tuple(n), "func_int_full: result is not an array of the input shape", got=getattr(Ad, "shape", None))
    close(ctx, Ad, dense(C), tol0, "func_int_full: coefficient tensor")
    At = None
    if d >= 2:
        At = ctx.lib(teneva.func_int, Y)
        close(ctx, Ad, dense(At), 2 * tol0, "func_int_full(dense Y) vs dense(func_int(Y))")

    # evaluation
    a_arg, b_arg = spell(a, how), spell(b, how_b)
    skip = case["skip_out"]
    eff_skip = True if skip is None else skip
    kw = {} if skip is None else {"skip_out": skip}
    X, inside = make_points(case["pts"], a, b, n)
    Xarg, xh = spell_x(X, case.get("x_how", "array"))          # func_get_full documents X as np.ndarray: no lists here
    ctx.label("X:" + xh)
    got = np.asarray(ctx.lib(teneva.func_get_full, Xarg, Ad, a_arg, b_arg, *zargs, **kw))
    ctx.check(got.shape == (len(X),), "func_get_full: result shape", got=got.shape)
    if np.any(inside):
        ctx.label("has_inside_point")
        close(ctx, got[inside], ref_points(C, scaled_points(X[inside], a, b)), tolp, "func_get_full: inside the box", x=X[inside].tolist())
    if np.any(~inside):
        ctx.label("has_outside_point")
    if eff_skip:
        for j in np.nonzero(~inside)[0]:
            ctx.check(same_fill(got[j], z), "func_get_full: a point outside the box did not receive the fill value",
                      x=X[j].tolist(), a=a, b=b, got=float(got[j]), z=z)
    if At is not None and eff_skip:
        gtt = np.asarray(ctx.lib(teneva.func_get, Xarg, At, a_arg, b_arg, *zargs))
        if np.any(inside):
            close(ctx, got[inside], gtt[inside], 2 * tolp, "func_get_full vs func_get")
        for j in np.nonzero(~inside)[0]:
            ctx.check(same_fill(gtt[j], z), "func_get: a point outside the box did not receive the fill value", x=X[j].tolist(), got=float(gtt[j]), z=z)

    # re-sampling
    Zd = ctx.lib(teneva.func_gets_full, Ad, a_arg, b_arg, m_spell(mm, m_how))
    ctx.check(isinstance(Zd, np.ndarray) and Zd.shape == tuple(mm), "func_gets_full: result is not an array of shape m", got=getattr(Zd, "shape", None), m=mm)
    Fm = dense(value_cores(C, [cheb_nodes(mk) for mk in mm]))
    tolm = (K_val(n, r) + 48.0 * sum(mm)) * EPS * scale
    close(ctx, Zd, Fm, tolm, "func_gets_full vs polynomial on the new grid", m=mm)
    if At is not None:
        Zt = ctx.lib(teneva.func_gets, At, m_spell(mm, m_how))
        close(ctx, Zd, dense(Zt), 2 * tolm, "func_gets_full vs dense(func_gets)", m=mm)

    # integral: symmetric boxes only, ValueError otherwise
    if sym:
        got = ctx.lib(teneva.func_sum_full, Ad, a_arg, b_arg)
        ctx.check(np.ndim(got) == 0, "func_sum_full: not a scalar", got=repr(got))
        vol = float(np.prod(np.array(b) - np.array(a)))
        ref = ref_integral(C, a, b)
        close(ctx, got, ref, tol0 * vol, "func_sum_full vs analytic integral", a=a, b=b)
        if At is not None:
            close(ctx, ctx.lib(teneva.func_sum, At, a_arg, b_arg), got, 2 * tol0 * vol, "func_sum vs func_sum_full")
    else:
        ctx.raises(ValueError, teneva.func_sum_full, Ad, a_arg, b_arg)


# ------------------------------------------------------------------------------------------- linearity / inverse pair on arbitrary data

VAL_FAMS = ("smallint", "dyadic", "float", "gauss", "scaled", "rank_deficient", "zero", "explicit")


@st.composite
def linear_cases(draw, tier):
    big = tier != "quick"
    n = draw(gen.shapes(d_min=2, d_max=5 if big else 4, n_min=2, n_max=17 if big else 9, size_max=2 ** 15 if big else 4096, force_one=False))
    kw = dict(shape=n, r_max=4, families=VAL_FAMS, rank_families=("rank1", "uniform", "ragged"))
    return {"Y1": draw(gen.tt_specs(**kw)), "Y2": draw(gen.tt_specs(**kw)), "c": draw(gen.numbers),
            "kind": draw(st.sampled_from(["cheb", "cheb", "sin"])), "kind_kw": draw(st.booleans()),
            "ydt": draw(st.sampled_from(["float", "float", "int64", "int32"]))}


def own_add(Y1, Y2, c):
    """TT cores of Y1 + c * Y2 (block construction, independent of teneva.add)."""
    d = len(Y1)
    out = []
    for k, (G1, G2) in enumerate(zip(Y1, Y2)):
        H2 = G2 * c if k == 0 else G2
        if k == 0:
            out.append(np.concatenate([G1, H2], axis=2))
        elif k == d - 1:
            out.append(np.concatenate([G1, H2], axis=0))
        else:
            r1, nk, r2 = G1.shape
            s1, _, s2 = G2.shape
            G = np.zeros((r1 + s1, nk, r2 + s2))
            G[:r1, :, :r2] = G1
            G[r1:, :, r2:] = H2
            out.append(G)
    return out


def l1_major(Y, factor):
    """Per-core majorant factor(n) * sum_i |G[:, i, :]| broadcast over the mode axis."""
    return [np.repeat(np.abs(G).sum(axis=1, keepdims=True) * factor(G.shape[1]), G.shape[1], axis=1) for G in Y]


def transform_ref(Y, kind):
    out = []
    for G in Y:
        nk = G.shape[1]
        if kind == "cheb":
            i = np.arange(nk)
            F = np.cos(np.pi * np.outer(i, i) / (nk - 1)) / (nk - 1)         # F[j, i]
            F[:, 1:-1] *= 2.0
            F[0, :] /= 2.0
            F[-1, :] /= 2.0
        else:
            i = np.arange(1, nk + 1)
            F = np.sin(np.pi * np.outer(i, i) / (nk + 1)) * 2.0 / (nk + 1)
        out.append(np.einsum('ji,aib->ajb', F, G))
    return out


def prop_linear(case, ctx):
    Y1, Y2 = gen.build_tt(case["Y1"]), gen.build_tt(case["Y2"])
    n = case["Y1"]["n"]
    d = len(n)
    c = float(case["c"])
    kind = case["kind"]
    args = (kind,) if not case["kind_kw"] else ()
    kw = {"kind": kind} if case["kind_kw"] else {}
    # integer-valued data may arrive in cores of an integer dtype (same numbers, another spelling)
    ydt = case.get("ydt", "float")
    if ydt != "float" and all(is_int_valued(G.ravel().tolist()) for G in Y1):
        Y1arg = [G.astype(np.int64 if ydt == "int64" else np.int32) for G in Y1]
    else:
        ydt, Y1arg = "float", Y1
    ctx.label("kind:" + kind, "Y1 dtype:" + ydt, *gen.spec_labels(case["Y1"]))
    ctx.nontrivial(max(case["Y1"]["r"]) >= 2 or case["Y1"] != case["Y2"])
    Ys = own_add(Y1, Y2, c)
    rs = [1] + [G.shape[2] for G in Ys]
    K = 32.0 * (d + sum(rs) + 8 * max(n))
    fac = (lambda nk: 2.0 / (nk - 1)) if kind == "cheb" else (lambda nk: 2.0 / (nk + 1))

    A1 = ctx.lib(teneva.func_int, Y1arg, *args, **kw)
    A2 = ctx.lib(teneva.func_int, Y2, *args, **kw)
    As = ctx.lib(teneva.func_int, Ys, *args, **kw)
    for nm, A, Y in (("Y1", A1, Y1), ("Y2", A2, Y2), ("Y1+cY2", As, Ys)):
        why = oracle.wellformed(A, n, finite=False)
        ctx.check(why is None, f"func_int({nm}, {kind}): not a well-formed TT-tensor of the input shape: {why}")
        ctx.check([G.shape for G in A] == [G.shape for G in Y], f"func_int({nm}): core shapes changed")
    M1, M2 = dense(l1_major(Y1, fac)), dense(l1_major(Y2, fac))
    D1, D2 = dense(A1), dense(A2)
    close(ctx, dense(As), D1 + c * D2, 3 * K * EPS * (M1 + abs(c) * M2), f"func_int linearity ({kind})", c=c)

    # Chebyshev kind: the transform is the inverse of sampling T_j on the grid (any data are values of a polynomial
    # of degree < n); for the sine kind only the pair and linearity are claimed
    if kind == "cheb":
        close(ctx, D1, dense(transform_ref(Y1, kind)), K * EPS * M1, "func_int vs the inverse of the Chebyshev basis matrix")

    # inverse pair on the same grid
    fac2 = lambda nk: 4.0                                                   # noqa: E731  n * 2/(n-1) <= 4
    Z = ctx.lib(teneva.func_gets, A1, None, *args, **kw)
    why = oracle.wellformed(Z, n, finite=False)
    ctx.check(why is None, f"func_gets(func_int(Y), {kind}): not a well-formed TT-tensor of the input shape: {why}")
    close(ctx, dense(Z), dense(Y1), 2 * K * EPS * dense(l1_major(Y1, fac2)), f"func_gets(func_int(Y)) vs Y ({kind})")

    # ... and the other way round (square transforms: a left inverse is a right inverse): the cores of Y1 read as
    # coefficients, sampled on the same grid (|values| <= sum_j |c_j|) and transformed back (factor n * 2/(n-1) <= 4)
    V = ctx.lib(teneva.func_gets, Y1arg, None, *args, **kw)
    why = oracle.wellformed(V, n, finite=False)
    ctx.check(why is None, f"func_gets(C, {kind}): not a well-formed TT-tensor of the input shape: {why}")
    B = ctx.lib(teneva.func_int, V, *args, **kw)
    close(ctx, dense(B), dense(Y1), 2 * K * EPS * dense(l1_major(Y1, fac2)), f"func_int(func_gets(C)) vs C ({kind})")


# ------------------------------------------------------------------------------------------- differentiation matrices

DIFF_HOWS = ["float", "float", "np_float64", "int"]


@st.composite
def diff_cases(draw, tier):
    """A call HISTORY in one process: the main grid (a, b, n) asked for orders in increasing / decreasing / free sequence,
    interleaved with another box of the same size and the same box with another size; every call is checked in full."""
    n_hi = 9 if tier == "quick" else 17
    jtop = 3 if tier == "quick" else 4
    n = draw(st.integers(2, n_hi))
    bx = draw(box1())
    jmax = draw(st.integers(1, jtop))
    pat = draw(st.sampled_from(["single", "single", "inc", "dec", "free", "free"]))
    if pat == "single":
        hist = [[jmax, 0]]
    elif pat in ("inc", "dec"):
        jmax = max(jmax, 2)
        hist = [[j, 0] for j in range(1, jmax + 1)]
        if pat == "dec":
            hist = hist[::-1]
    else:
        hist = draw(st.lists(st.tuples(st.integers(1, jtop), st.sampled_from([0, 0, 0, 1, 2])).map(list), min_size=2, max_size=5))
    bx2 = draw(box1())
    return {"n": n, "a": bx["a"], "b": bx["b"], "cls": bx["cls"], "jmax": jmax, "pat": pat, "hist": hist,
            "hows": [[draw(st.sampled_from(DIFF_HOWS)), draw(st.sampled_from(DIFF_HOWS))] for _ in hist],
            "m_default": draw(st.booleans()), "scribble": draw(st.booleans()),
            "a2": bx2["a"], "b2": bx2["b"], "n2": draw(st.integers(2, n_hi)),
            "drop": draw(st.sampled_from([0, 0, 0, 1, 2, 99])), "exp": draw(st.integers(-8, 8)), "seed": draw(gen.seeds)}


def spell1(v, how):
    v = float(v)
    if how == "int" and is_int_valued([v]):
        return int(v)
    if how == "np_float64":
        return np.float64(v)
    return v


def prop_diff(case, ctx):
    n0, a0, b0, jmax = int(case["n"]), float(case["a"]), float(case["b"]), int(case["jmax"])
    hist = [[int(m), int(g)] for m, g in case.get("hist", [[jmax, 0]])]
    hows = case.get("hows") or [["float", "float"]] * len(hist)
    grids = [(a0, b0, n0), (float(case.get("a2", a0)), float(case.get("b2", b0)), n0), (a0, b0, int(case.get("n2", n0)))]
    rng = np.random.default_rng(case["seed"])
    polys_ = []
    for (a, b, n) in grids:
        c = rng.uniform(-1.0, 1.0, size=n)
        drop = min(int(case["drop"]), n - 1)
        if drop:
            c[n - drop:] = 0.0
        polys_.append(c * 2.0 ** case["exp"])
    seen = {}
    grows = shrinks = False
    for m, g in hist:
        key = grids[g]
        if key in seen:
            grows, shrinks = grows or m > max(seen[key]), shrinks or m < max(seen[key])
        seen.setdefault(key, []).append(m)
    ctx.label(f"jmax={max(m for m, _ in hist)}", "box:" + case["cls"], "hist:" + case.get("pat", "single"), f"calls={len(hist)}",
              "n=2" if n0 == 2 else "n>=3", *(["order_grows_on_a_seen_grid"] if grows else []),
              *(["order_shrinks_on_a_seen_grid"] if shrinks else []), *(["other_grid_interleaved"] if len(seen) > 1 else []))
    ctx.nontrivial(n0 >= 3)
    for call, ((m, g), (how_a, how_b)) in enumerate(zip(hist, hows)):
        a, b, n = grids[g]
        c = polys_[g]
        S = float(np.abs(c).sum())
        t = cheb_nodes(n)
        y = npcheb.chebval(t, c)
        margs = () if (m == 1 and case.get("m_default")) else (m,)
        D = ctx.lib(teneva.func_diff_matrix, spell1(a, how_a), spell1(b, how_b), n, *margs)
        if m == 1:
            ctx.check(isinstance(D, np.ndarray), "func_diff_matrix(m=1) did not return one matrix", got=type(D).__name__, call=call)
            D = [D]
        else:
            ctx.check(isinstance(D, list) and len(D) == m, "func_diff_matrix(m>1) did not return a list of m matrices", got=repr(type(D)), call=call)
        lam = 2.0 / (b - a)
        for j in range(1, m + 1):
            Dj = np.asarray(D[j - 1], dtype=float)
            ctx.check(Dj.shape == (n, n), "func_diff_matrix: matrix shape", j=j, got=Dj.shape, call=call)
            ref = (npcheb.chebval(t, npcheb.chebder(c, j)) if j < n else np.zeros(n)) * lam ** j
            tol = 64.0 * EPS * float(n) ** (2 * j + 1) * S * lam ** j
            close(ctx, Dj @ y, ref, tol, f"D_{j} y vs the exact derivative at the nodes", n=n, a=a, b=b, call=call,
                  history=[[mm, list(grids[gg])] for mm, gg in hist[:call + 1]])
            ctx.inner(1)
        if case.get("scribble"):
            # the caller owns what was returned: overwriting it must not influence later calls
            for Dj in D:
                if isinstance(Dj, np.ndarray) and Dj.flags.writeable:
                    Dj[...] = np.nan


# ------------------------------------------------------------------------------------------- custom bases, least squares

def pow_of(spec):
    """Exact power of two / correctly rounded power of ten from its drawn description [base, exponent]."""
    base, e = int(spec[0]), int(spec[1])
    return math.ldexp(1.0, e) if base == 2 else float("1e%d" % e)


def scale_vector(sc, nf):
    """Per-function factors S_j = whole * per_j of a custom basis (None = the basis as it is)."""
    if not sc:
        return None
    per = sc.get("per") or []
    S = np.array([pow_of(sc["whole"]) * (pow_of(per[j]) if j < len(per) else 1.0) for j in range(nf)], dtype=float)
    return None if np.all(S == 1.0) else S


def make_basis(kind, nf, lo, hi, S=None):
    """basis(x) -> [functions, points] (the convention of func_basis, func_get(funcs=), als_func); function j times S[j]."""
    def base(x):
        x = np.asarray(x, dtype=float)
        if kind == "func_basis":
            return teneva.func_basis(x, nf)
        t = (2.0 * x - lo - hi) / (hi - lo)
        if kind == "cheb":
            V = npcheb.chebvander(t, nf - 1)
        elif kind == "leg":
            V = npleg.legvander(t, nf - 1)
        else:
            V = np.vander(t, nf, increasing=True)
        return V.T
    if S is None:
        return base
    S = np.asarray(S, dtype=float)
    return lambda x: S[:, None] * np.asarray(base(x), dtype=float)


# The fit is linear and the conditioning of the design matrix that matters is the one of the COLUMN-NORMALISED matrix: a basis
# c * phi_j (other units, functions normalised over a wide box, a Gaussian weight far in the tail) spans the same functions with
# coefficients 1 / c times as large, and nothing in a least-squares / pseudo-inverse step may depend on the absolute size of
# the singular values.  Scale patterns of a case: the whole basis times 10^e (|e| <= 12) or 2^e (|e| <= 40); one or two single
# functions times such a factor; a graded basis S_j = g^j (unnormalised monomials on a box of half-width g); combinations.
# The cut of lstsq(cond=rcond) is relative to s_max of the WHOLE matrix, so functions of very different scales in one basis
# are legitimately removed: measured on the unmodified tree (phi_j = T_j, one function times f, d = 3, rank 2), the
# contribution-scaled coefficient error is <= 31 eps cond(H) for |log10 f| <= -log10(rcond) - 1 (1e-11 at f = 1e+-5 with the
# default rcond = 1e-6, 2e-9 at f = 1e+-7 with 1e-8, 1e-7 at 1e+-9 with 1e-12) and 1.0 (the function is dropped, or all the
# others are) for |log10 f| >= -log10(rcond) + 1.  The spread of a generated basis therefore stays within 1e3 / 1e5 / 1e6 for
# rcond = default / 1e-8 / 1e-12, and reproduction is asserted iff s_max / s_min of the actual matrix is <= 0.01 / rcond.
GEN_SPREAD_LOG10 = {"default": 3, "1e-8": 5, "1e-12": 6}
GEN_RCOND = {"default": 1e-6, "1e-8": 1e-8, "1e-12": 1e-12}
GEN_PATTERNS = ["none", "none", "whole", "whole", "whole", "whole", "single", "single+whole", "single+whole", "graded", "graded+whole"]

whole_scales = st.one_of(
    st.tuples(st.just(10), st.one_of(st.integers(-12, -7), st.integers(7, 12), st.integers(-12, 12))),
    st.tuples(st.just(2), st.one_of(st.integers(-40, -23), st.integers(23, 40), st.integers(-40, 40)))).map(list)


@st.composite
def basis_scales(draw, nf, rcond):
    pat = draw(st.sampled_from(GEN_PATTERNS))
    L = GEN_SPREAD_LOG10[rcond]
    whole = draw(whole_scales) if "whole" in pat else [10, 0]
    per = [[10, 0] for _ in range(nf)]
    if pat.startswith("single"):
        # one factor, or two of the same sign: the spread max S / min S stays within 10^L
        sg = draw(st.sampled_from([-1, 1]))
        for _ in range(draw(st.integers(1, 2))):
            j = draw(st.integers(0, nf - 1))
            per[j] = [10, sg * draw(st.integers(1, L))] if draw(st.booleans()) else [2, sg * draw(st.integers(1, 3 * L))]
    elif pat.startswith("graded"):
        base, step = draw(st.sampled_from([(2, 1), (2, -1), (2, 2), (2, -2), (10, 1), (10, -1)]))
        top = (3 * L if base == 2 else L) // abs(step)
        per = [[base, step * min(j, top)] for j in range(nf)]
    return {"pat": pat, "whole": whole, "per": per}


@st.composite
def general_cases(draw, tier):
    kind = draw(st.sampled_from(["cheb", "leg", "mono", "func_basis"]))
    nf = draw(st.integers(2, (6 if kind == "mono" else 8) if tier == "quick" else (7 if kind == "mono" else 12)))
    d = draw(st.integers(2, 3 if tier == "quick" else 4))
    r = [1] + [draw(st.integers(1, 3)) for _ in range(d - 1)] + [1]
    if kind == "func_basis":
        lo, hi = -1.0, 1.0
    else:
        bx = draw(box1(force=draw(st.sampled_from(["sym", "sym", "off1", "off1", "tsym", "hsym", "toff", "lo0"]))))
        lo, hi = bx["a"], bx["b"]
    rcond = draw(st.sampled_from(["default", "default", "default", "1e-8", "1e-8", "1e-12"]))
    return {"kind": kind, "nf": nf, "r": r, "lo": lo, "hi": hi, "shared_X": draw(st.booleans()), "x_list": draw(st.booleans()),
            "exp": [draw(st.integers(-6, 6)) for _ in range(d)], "seed": draw(gen.seeds),
            "U": [[draw(st.floats(0.0, 1.0)) for _ in range(d)] for _ in range(draw(st.integers(1, 5)))],
            "bounds": draw(st.booleans()), "funcs_list": draw(st.booleans()), "rcond": rcond,
            "scale": draw(basis_scales(nf, rcond)),
            "fmag": draw(st.sampled_from([0, 0, 0, 0, 1])) * draw(st.one_of(st.integers(-12, 12), st.sampled_from([-12, -12, -11, 11, 12]))), "fmag_core": draw(st.integers(0, d - 1))}


def prop_general(case, ctx):
    kind, nf, r = case["kind"], int(case["nf"]), case["r"]
    d = len(r) - 1
    lo, hi = float(case["lo"]), float(case["hi"])
    rng = np.random.default_rng(case["seed"])
    sc = case.get("scale")
    S = scale_vector(sc, nf)
    basis = make_basis(kind, nf, lo, hi, S)
    rc_name = case.get("rcond") or ("default" if case.get("rcond_default", True) else "1e-8")
    rcond = GEN_RCOND[rc_name]

    def nodes():
        tt = np.cos(np.pi * (np.arange(nf) + 0.5 + rng.uniform(-0.3, 0.3, size=nf)) / nf)
        return rng.permutation((tt * (hi - lo) + (hi + lo)) / 2.0)

    if case["shared_X"]:
        x1 = nodes()
        Xk = [x1] * d
        Xarg = x1.tolist() if case["x_list"] else x1
    else:
        Xk = [nodes() for _ in range(d)]
        Xarg = [x.tolist() for x in Xk] if case["x_list"] else np.array(Xk)
    H = [np.asarray(basis(x), dtype=float) for x in Xk]                       # [functions, points]
    W = [np.linalg.norm(h, axis=1) for h in H]                                # size of function j on the grid of core k
    # generating coefficients: O(2^exp) CONTRIBUTIONS c_j * |phi_j| (the coefficients scale inversely with the basis)
    Cs = [rng.uniform(-1.0, 1.0, size=(r[k], nf, r[k + 1])) * 2.0 ** case["exp"][k] for k in range(d)]
    fmag = int(case.get("fmag", 0))
    if fmag:
        Cs[int(case.get("fmag_core", 0)) % d] *= float("1e%d" % fmag)
    C = [Cs[k] if S is None else Cs[k] / S[None, :, None] for k in range(d)]
    with np.errstate(all="ignore"):
        cond_n = max(float(np.linalg.cond(h / w[:, None])) for h, w in zip(H, W))    # column-normalised design matrix
        cond_a = max(float(np.linalg.cond(h)) for h in H)                             # s_max / s_min: what the relative cut sees
        spread = max(float(np.max(w) / np.min(w)) for w in W)
    cond = cond_n * spread                                                            # >= cond_a; governs the rounding error
    ctx.label("basis:" + kind, "X:shared" if case["shared_X"] else "X:per_core", f"d={d}", "rank>=2" if max(r) >= 2 else "rank1",
              "rcond:" + rc_name, "scale:" + (sc["pat"] if sc else "none"))
    if S is not None:
        lg = math.log10(float(np.max(S)))
        ctx.label("basis_max_scale:" + ("<=1e-7" if lg <= -6.5 else "1e-6..1e-3" if lg < -2.5 else ">=1e7" if lg >= 6.5 else "1e3..1e6" if lg > 2.5 else "~1"))
    if fmag:
        ctx.label("function_magnitude:1e%+03d" % (4 * (fmag // 4)))
    if not cond_n <= 1e4:
        ctx.label("ill_conditioned_skipped")
        return
    if not (cond_a * rcond <= 1e-2 and cond <= 1e8):
        ctx.label("spread_within_100x_of_the_relative_cut_skipped")
        return
    ctx.nontrivial(max(r) >= 2 or not case["shared_X"] or kind in ("leg", "mono") or S is not None)
    Y = [np.einsum('ajb,ji->aib', Ck, h) for Ck, h in zip(C, H)]
    args = () if rc_name == "default" else (rcond,)
    # (func_int_general overwrites value cores with a unit boundary rank in place; argument purity is C09's subject,
    #  so the library gets its own copy and nothing is asserted about it here)
    A = ctx.lib(teneva.func_int_general, [G.copy() for G in Y], Xarg, basis, *args)
    why = oracle.wellformed(A, [nf] * d)
    ctx.check(why is None, f"func_int_general: not a well-formed TT-tensor: {why}")
    ctx.check([G.shape for G in A] == [G.shape for G in C], "func_int_general: core shapes differ from the value cores")
    # compared as contributions c_j * |phi_j| on the grid, i.e. relative to the magnitude of the function itself
    As = [np.asarray(G, dtype=float) * w[None, :, None] for G, w in zip(A, W)]
    Cw = [G * w[None, :, None] for G, w in zip(C, W)]
    fro = float(np.prod([np.linalg.norm(Ck) for Ck in Cw]))
    tol = 64.0 * EPS * d * nf * nf * cond * fro
    close(ctx, dense(As), dense(Cw), tol, "func_int_general: fitted coefficient tensor vs the generating coefficients",
          cond_normalised=cond_n, spread=spread, basis_scale=None if S is None else S.tolist(), rcond=rc_name)

    # evaluation in the custom basis reproduces the function at arbitrary points
    Xp = np.array([[lo + (hi - lo) * float(u) for u in row] for row in case["U"]], dtype=float)
    Xp = np.minimum(np.maximum(Xp, lo), hi)
    P = [np.asarray(basis(Xp[:, k]), dtype=float) for k in range(d)]            # (nf, m)
    v = np.ones((len(Xp), 1, 1))
    maj = np.ones(len(Xp))
    for k in range(d):
        v = v @ np.einsum('ajb,jm->mab', C[k], P[k])
        maj = maj * np.linalg.norm(Cw[k]) * np.linalg.norm(P[k] / W[k][:, None], axis=0)
    funcs = [basis] * d if case["funcs_list"] else basis
    ab = (lo, hi) if case["bounds"] else (None, None)
    got = np.asarray(ctx.lib(teneva.func_get, Xp, A, ab[0], ab[1], 0.0, funcs))
    ctx.check(got.shape == (len(Xp),), "func_get(funcs=): result shape", got=got.shape)
    close(ctx, got, v[:, 0, 0], 64.0 * EPS * d * nf * nf * cond * maj,
          "func_get(funcs=basis) vs the generating function", cond_normalised=cond_n, spread=spread,
          basis_scale=None if S is None else S.tolist(), rcond=rc_name)


# ------------------------------------------------------------------------------------------- long tensors (d up to 200+)
#
# "for all boxes [a, b] ... all d >= 2": a long tensor on a box whose half-widths are all far from 1, with per-dimension
# coefficient magnitudes that compensate (a density ~ prod_k g_k(x_k) / w_k), has an ordinary integral although neither
# the integral over the reference cube nor the volume factor prod (b-a)/2 is representable on its own.  No dense
# reference exists for such d: every reference below is a chain of small per-dimension matrices multiplied left to
# right (dimension by dimension), with an applicability guard that all partial products stay far inside the double range.

LONG_W = ["small", "small", "large", "large", "small_u", "large_u", "walk", "unit"]
LONG_OFF = ["sym", "lo0", "off1", "far", "mixed", "int"]
LONG_POLY = ["pos", "pos", "pos", "signed_rank1", "signed"]
LONG_LO, LONG_HI = 1e-200, 1e200


@st.composite
def long_cases(draw, tier):
    d_hi = 200 if tier == "quick" else 320
    d = draw(st.one_of(st.integers(96, d_hi), st.integers(96, d_hi), st.integers(150, d_hi), st.integers(2, 95)))
    pool = HOWS_ANY + HOWS_ANY_UNIFORM + HOWS_INT + HOWS_INT_UNIFORM          # degraded by eff_how where not applicable
    how = draw(st.sampled_from(pool))
    return {"d": d, "rank": draw(st.integers(1, 2)), "ragged": draw(st.booleans()), "n_max": draw(st.integers(2, 5)),
            "n_uniform": draw(st.booleans()), "poly": draw(st.sampled_from(LONG_POLY)), "wcls": draw(st.sampled_from(LONG_W)),
            "off": draw(st.sampled_from(LONG_OFF)), "how": how, "how_b": draw(st.sampled_from(pool)) if draw(st.integers(0, 2)) == 0 else how,
            "jit": draw(st.integers(0, 2)), "npts": draw(st.integers(1, 3)), "x_list": draw(st.booleans()),
            "z": draw(st.sampled_from([0.0, -2.5, float("nan")])), "m_how": draw(st.sampled_from(["none", "list", "array", "int"])),
            "seed": draw(gen.seeds)}


def long_box(case, rng):
    d, wcls, off = int(case["d"]), case["wcls"], case["off"]
    if wcls in ("small_u", "large_u"):
        e = np.full(d, -3 if wcls == "small_u" else 3)
        mant = np.full(d, rng.uniform(0.5, 2.0))
    else:
        mant = rng.uniform(0.5, 2.0, size=d)
        if wcls == "small":
            e = rng.integers(-3, -1, size=d)
        elif wcls == "large":
            e = rng.integers(2, 4, size=d)
        elif wcls == "unit":
            e = np.zeros(d, dtype=int)
        else:                                   # widths 1e-3 .. 1e3 in any order, the running product of half-widths within 1e+-30
            e = rng.integers(-3, 4, size=d)
            cum = 0
            for k in range(d):
                if abs(cum + e[k]) > 30:
                    e[k] = -e[k]
                cum += e[k]
    h = mant * 10.0 ** e
    uniform = wcls in ("small_u", "large_u")
    if off == "sym":
        kap = np.zeros(d)
    elif off == "lo0":
        kap = np.ones(d)
    elif off == "off1":
        kap = np.full(d, rng.uniform(-3.0, 3.0)) if uniform else rng.uniform(-3.0, 3.0, size=d)
    elif off == "far":
        kap = (np.full(d, rng.uniform(100.0, 1900.0)) if uniform else rng.uniform(100.0, 1900.0, size=d)) * rng.choice([-1.0, 1.0])
    elif off == "int":
        kap = np.full(d, float(rng.integers(-2, 3))) if uniform else rng.integers(-2, 3, size=d).astype(float)
    else:
        kap = np.where(rng.integers(0, 2, size=d) == 0, 0.0, rng.uniform(-3.0, 3.0, size=d))
        if uniform:
            kap = np.full(d, kap[0])
    a, b = kap * h - h, kap * h + h
    if off == "int" and wcls in ("large", "large_u"):          # integer bounds: int spellings of a / b apply
        a, b = np.round(a), np.round(b)
    return [float(v) for v in a], [float(v) for v in b]


def long_poly(case, rng, n, r):
    P = []
    for k, nk in enumerate(n):
        sh = (r[k], nk, r[k + 1])
        if case["poly"] == "pos":               # T_0 coefficient dominates: positive on the box, positive integral
            G = rng.uniform(-1.0, 1.0, size=sh) * (0.4 / (nk - 1))
            G[:, 0, :] = rng.uniform(0.6, 1.4, size=(sh[0], sh[2]))
            G /= sh[2]
        else:
            G = rng.uniform(-1.0, 1.0, size=sh)
        P.append(G)
    return P


def int_mats(C):
    """Per-dimension integrals over [-1, 1] of the matrix-valued Chebyshev series: list of (r_k, r_{k+1})."""
    out = []
    for Ck in C:
        ci = npcheb.chebint(np.transpose(Ck, (1, 0, 2)), axis=0)
        out.append(npcheb.chebval(1.0, ci) - npcheb.chebval(-1.0, ci))
    return out


def balance(F, jit):
    """Exponents x_k such that the running product of F_k * 2**x_k has max-norm 2**(walk_k) (bounded walk |.| <= 48)."""
    x = []
    v = np.ones((1, 1))
    cum = 0
    for Fk, jk in zip(F, jit):
        jk = int(jk)
        if abs(cum + jk) > 48:
            jk = -jk
        cum += jk
        w = v @ Fk
        nrm = float(np.max(np.abs(w)))
        e = -int(math.floor(math.log2(nrm))) if (nrm > 0 and math.isfinite(nrm)) else 0
        v = np.ldexp(w, e)
        x.append(e + jk)
    return x


def chain_ref(R, M, K):
    """Product R_1 ... R_d of per-dimension matrices, multiplied dimension by dimension; first-order rounding bound
    2 eps sum_k |R_1|..|R_{k-1}| (K_k M_k) |R_{k+1}|..|R_d| (M_k >= |R_k| entrywise majorises factor k and its error,
    K_k counts the operations that produce it and the matrix product that absorbs it); in_range = every partial
    product from the left and from the right, and every majorant, lies in [1e-200, 1e200]."""
    d = len(R)
    with np.errstate(all="ignore"):
        L = [np.ones((1, 1))]
        for Rk in R:
            L.append(L[-1] @ np.abs(Rk))
        S = [np.ones((1, 1))]
        for Rk in reversed(R):
            S.append(np.abs(Rk) @ S[-1])
        S = S[::-1]                             # S[k] = |R_{k+1}| ... |R_d|
        v = np.ones((1, 1))
        for Rk in R:
            v = v @ Rk
        tol = 0.0
        for k in range(d):
            tol += float((L[k] @ (K[k] * M[k]) @ S[k + 1])[0, 0])
        tol *= 2.0 * EPS
        mags = [float(np.max(x)) for x in L] + [float(np.max(x)) for x in S] + [float(np.max(x)) for x in M]
    ok = all(LONG_LO <= m <= LONG_HI for m in mags) and math.isfinite(tol) and math.isfinite(float(v[0, 0]))
    return float(v[0, 0]), tol, ok


def tt_entry(Y, J):
    v = np.ones((1, 1))
    for G, j in zip(Y, J):
        v = v @ G[:, int(j), :]
    return float(v[0, 0])


def prop_long(case, ctx):
    d = int(case["d"])
    rng = np.random.default_rng(case["seed"])
    n = [int(case["n_max"])] * d if case["n_uniform"] else [int(v) for v in rng.integers(2, int(case["n_max"]) + 1, size=d)]
    if case["rank"] == 1 or case["poly"] == "signed_rank1":
        r = [1] * (d + 1)
    elif case["ragged"]:
        r = [1] + [int(v) for v in rng.integers(1, 3, size=d - 1)] + [1]
    else:
        r = [1] + [2] * (d - 1) + [1]
    a, b = long_box(case, rng)
    how, how_b = case["how"], case["how_b"]
    h = [(bk - ak) / 2.0 for ak, bk in zip(a, b)]
    kap = kappa_of(a, b)
    P = long_poly(case, rng, n, r)
    jit = rng.integers(-int(case["jit"]), int(case["jit"]) + 1, size=(2, d))
    Kc = [32.0 * (1 + r[k] + r[k + 1]) + 48.0 * n[k] * n[k] for k in range(d)]                       # coefficients, integrals
    Kp = [Kc[k] + 8.0 * kap[k] * n[k] * n[k] for k in range(d)]                                      # values at points
    nodes = [cheb_nodes(nk) for nk in n]
    ctx.label(f"d~{min(d // 50 * 50, 200)}+", "rank>=2" if max(r) >= 2 else "rank1", "poly:" + case["poly"], "widths:" + case["wcls"],
              "offset:" + case["off"], "spell_a:" + eff_how(a, how), "spell_b:" + eff_how(b, how_b))
    asserted = []

    def agree(got, R, M, K, what, **kw):
        ref, tol, ok = chain_ref(R, M, K)
        if not ok:
            ctx.label(what.split(":")[0] + ":out_of_range_unasserted")
            return False
        ctx.label(what.split(":")[0] + (":tight" if tol <= 1e-6 * abs(ref) else ":loose"))
        close(ctx, got, ref, tol, what, d=d, **kw)
        asserted.append(what.split(":")[0])
        return True

    # ---- the density: coefficient magnitudes compensate the widths, int_box p = O(1)
    WP = int_mats(P)
    xI = balance(WP, jit[0])
    D = [P[k] * (2.0 ** xI[k] / h[k]) for k in range(d)]
    RI = [W * h[k] for k, W in enumerate(int_mats(D))]
    MI = [np.abs(D[k]).sum(axis=1) * (2.0 * h[k]) for k in range(d)]
    YD = value_cores(D, nodes)
    a_arg, b_arg = spell(a, how), spell(b, how_b)
    AD = ctx.lib(teneva.func_int, YD)
    why = oracle.wellformed(AD, n)
    ctx.check(why is None, f"func_int (long tensor): not a well-formed TT-tensor of the input shape: {why}", d=d)
    with np.errstate(all="ignore"):
        got = ctx.lib(teneva.func_sum, AD, a_arg, b_arg)
    ctx.check(np.ndim(got) == 0, "func_sum (long tensor): not a scalar", got=repr(got))
    agree(got, RI, MI, Kc, "func_sum(func_int(Y)) of a long density: vs the per-dimension chain of exact integrals",
          widths=case["wcls"], h_min=min(h), h_max=max(h))
    with np.errstate(all="ignore"):
        got = ctx.lib(teneva.func_sum, [G.copy() for G in D], spell(a, how), spell(b, how_b))
    agree(got, RI, MI, Kc, "func_sum(coefficients) of a long density: vs the per-dimension chain of exact integrals",
          widths=case["wcls"], h_min=min(h), h_max=max(h))

    # ---- the same polynomial with O(1) values: evaluation, re-sampling, coefficients; its integral where representable
    U0 = rng.uniform(0.0, 1.0, size=(int(case["npts"]), d))
    edge = rng.integers(0, 12, size=U0.shape)
    U0 = np.where(edge == 0, 0.0, np.where(edge == 1, 1.0, U0))
    X = np.array([[min(max(a[k] + (b[k] - a[k]) * u, a[k]), b[k]) for k, u in enumerate(row)] for row in U0], dtype=float)
    T = scaled_points(X, a, b)
    Mt = [series_at(P[k], T[:, k]) for k in range(d)]                          # (m, r1, r2)
    xV = balance([Mt[k][0] for k in range(d)], jit[1])
    U = [P[k] * 2.0 ** xV[k] for k in range(d)]
    MV = [np.abs(U[k]).sum(axis=1) for k in range(d)]
    YU = value_cores(U, nodes)
    AU = ctx.lib(teneva.func_int, YU)
    why = oracle.wellformed(AU, n)
    ctx.check(why is None, f"func_int (long tensor): not a well-formed TT-tensor of the input shape: {why}", d=d)

    z = float(case["z"])
    kout = int(rng.integers(0, d))
    Xo = X[0].copy()
    Xo[kout] = b[kout] + 0.5 * (b[kout] - a[kout]) if rng.integers(0, 2) else a[kout] - 1e-3 * (b[kout] - a[kout])
    Xall = np.vstack([X, Xo[None, :]])
    Xarg = Xall.tolist() if case["x_list"] else Xall
    with np.errstate(all="ignore"):
        got = np.asarray(ctx.lib(teneva.func_get, Xarg, AU, spell(a, how), spell(b, how_b), z))
    ctx.check(got.shape == (len(Xall),), "func_get (long tensor): result shape", got=got.shape)
    for i in range(len(X)):
        agree(got[i], [Mt[k][i] * 2.0 ** xV[k] for k in range(d)], MV, Kp, "func_get of a long interpolant: vs the per-dimension chain of series values",
              point=i)
    ctx.check(same_fill(got[-1], z), "func_get (long tensor): a point outside the box in one coordinate did not receive the fill value",
              coordinate=kout, x=float(Xo[kout]), a=a[kout], b=b[kout], got=float(got[-1]), z=z)

    # entries of the coefficient tensor (all-T_0 entry and a few sparse ones) and of the re-sampled tensors
    Js = [[0] * d]
    for _ in range(2):
        J = [0] * d
        for k in rng.integers(0, d, size=3):
            J[int(k)] = int(rng.integers(0, n[int(k)]))
        Js.append(J)
    for J in Js:
        agree(tt_entry(AU, J), [U[k][:, J[k], :] for k in range(d)], MV, Kc, "func_int of long data: entry of the coefficient tensor", J_nonzero=[(k, j) for k, j in enumerate(J) if j])
    m_how = case["m_how"]
    if m_how == "none":
        mm = list(n)
    elif m_how == "int":
        mm = [int(rng.integers(2, 7))] * d
    else:
        mm = [int(v) for v in rng.integers(2, 7, size=d)]
    Z = ctx.lib(teneva.func_gets, AU, m_spell(mm, m_how))
    why = oracle.wellformed(Z, mm)
    ctx.check(why is None, f"func_gets (long tensor): not a well-formed TT-tensor of shape m: {why}", d=d)
    Km = [Kc[k] + 48.0 * mm[k] for k in range(d)]
    for _ in range(2):
        J = [int(rng.integers(0, mk)) for mk in mm]
        R = [series_at(U[k], [math.cos(math.pi * J[k] / (mm[k] - 1))])[0] for k in range(d)]
        agree(tt_entry(Z, J), R, MV, Km, "func_gets of a long interpolant: entry of the re-sampled tensor")

    # integral of the O(1)-valued polynomial: representable only if the widths multiply to something moderate
    with np.errstate(all="ignore"):
        got = ctx.lib(teneva.func_sum, AU, spell(a, how), spell(b, how_b))
    agree(got, [WP[k] * 2.0 ** xV[k] * h[k] for k in range(d)], [MV[k] * (2.0 * h[k]) for k in range(d)], Kc,
          "func_sum of a long O(1)-valued interpolant: vs the per-dimension chain of exact integrals", widths=case["wcls"])

    far = sum(abs(math.log10(v)) for v in h) > 320.0             # prod (b-a)/2 alone is not representable
    if far:
        ctx.label("volume_factor_alone_out_of_range")
    ctx.nontrivial(d >= 50 and any(s.startswith("func_sum") for s in asserted) and any(s.startswith("func_get") for s in asserted))


SUBCHECKS = [
    Sub("tt", prop_tt, strategy=tt_cases, quick=120, thorough=2000),
    Sub("dense", prop_dense, strategy=dense_cases, quick=90, thorough=1500),
    Sub("tt_geo", prop_tt, strategy=lambda tier: tt_cases(tier, geo=True), quick=50, thorough=800),
    Sub("dense_geo", prop_dense, strategy=lambda tier: dense_cases(tier, geo=True), quick=50, thorough=800),
    Sub("linear", prop_linear, strategy=linear_cases, quick=120, thorough=2000),
    Sub("diff", prop_diff, strategy=diff_cases, quick=150, thorough=3000),
    Sub("general", prop_general, strategy=general_cases, quick=160, thorough=3000),
    Sub("long", prop_long, strategy=long_cases, quick=24, thorough=300),
]
