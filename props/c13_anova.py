"""C13 - TT-ANOVA cores encode exactly the additive (plus pair) model estimated from the data; functional variant."""
import os
import math
import itertools
import numpy as np
from hypothesis import strategies as st

import harness.core  # noqa: F401  (sets sys.path for the code under test)
from harness.core import Sub
from harness import gen, oracle
from harness.oracle import EPS, dense, fro

import teneva

LEVEL = "exploration"
RULE = ("Hypothesis draws sample sets over d 2..4(5) modes with 1..4(5) index values per mode: full grids (also balanced repeats, "
        "unbalanced extra rows), sparse random subsets (observed domain may be smaller than the nominal one), duplicates with "
        "different values, single samples, tiny fully explicit sets; index values relabelled (identity, 2i+3, drawn distinct "
        "integers incl. negative, unsorted; family `big`: per mode small labels or base + offsets with |base| from 65520 to 2^63-16, "
        "both signs, contiguous / step 2 / gaps / small and large labels mixed in one mode, drawn order, at least one such mode, "
        "carried by int64 / int32 / uint16 / uint32 / uint64 / float64 (|label| <= 2^53) arrays, C / F / strided, or nested lists of "
        "Python ints / floats: labels are names, the model may not depend on their size, sign, spacing or storage); y families gauss/smallint/const/zero/explicit, scale 10^{0,+-3}; ranks r 2..5,12,50; "
        "orders 1 and 2; noise in {0,1e-10,1e-3,0.1} or rel_noise through the class; the `seed` argument is a duck-typed generator "
        "whose normal() returns values we control (uniform/clipped normal/+-3/all +3, modulus <= 3) or an int. Oracle = independent "
        "recomputation (math.fsum) of the mean, conditional means and pair terms, the noise-free core pattern built from it and "
        "the rigorous multilinear noise majorant. Functional variant: points in a box (uniform, on the boundary, duplicated, few distinct abscissae), n 2..6(8), "
        "sample count m free in 1..30(60) or placed at n-1, n, n+1, 2n, 3n+1; lamb default / 10^p for p in -8..1, 3, 6 / exactly 0.0 "
        "and -0.0 / tiny 1e-10, 1e-12, 1e-20, 1e-300, spelled as float, np.float64, np.float32 or int (lamb=None is rejected by the "
        "unchanged library and not passed); e in {None, default, 1e-8, 1e-4, 1e-2}; oracle = independent fit of EVERY dimension "
        "(augmented least-squares ridge solve on the own Chebyshev design matrix; for lamb < 1e-8 on exactly rank-deficient designs "
        "the orthogonal projection = fitted values at all training points) + own Chebyshev basis for the interpolant. "
        "Boxes of the functional variant: default / one scalar interval / drawn real per-dimension intervals / family `perdim` (sub "
        "func_boxes and a share of func): a DIFFERENT dyadic interval per dimension from a catalogue (the standard interval, "
        "sub-intervals touching -1, +1 or neither, [0, 1], negative, positive, wider, asymmetric, integer ones), kinds free / "
        "unit_hull (hull of the box exactly [-1, 1] with narrower dimensions) / unit_some (some dimensions exactly [-1, 1]) / integer / "
        "same; a, b spelled as list, tuple, ndarray (float64, float32, int64, int32, strided), list of ints / np.float64, scalar float "
        "/ int / np.float64 (constant boxes), one bound scalar and the other a sequence, positional or keyword; every case "
        "repeats the call with a second drawn spelling of the same box (also default vs explicit, scalar vs constant list) and "
        "requires identical cores; points inside and on the faces; the independent refit uses the per-dimension affine map. "
        "Non-trivial = (sparse data or duplicates) or r > 2 or order 2; functional: m >= 2 and non-constant y. Distinct by SHA-1. "
        "order2_wide: order 2 over d = 5, 6, 7 (mode sizes 2..3(4), at most one mode of size 1) and d = 10 (8, 9, 11 thorough; mode "
        "size 2), i.e. 11..56 add_many summands so that the periodic roundings of the summation schedule are reached (also exactly "
        "on the last summand: d = 6, 10), up to 250(400) samples, r in {2,3,4,5,8,50} (small r binds); the class's A(I) is evaluated "
        "on a drawn sample of 300 multi-indices when the domain exceeds 600. History in both order-2 subs: the fitted object is "
        "asked again for cores with another rank r2 in {2,3,4,8,50}: shape, rank bound r2, values (cap not binding), f0/f1 unchanged. "
        "Spelling / dtype of the data arguments (all subs): y_trn as float64 / float32 / float16 / int64 / int32 ndarray (also "
        "non-contiguous views), list of Python floats / ints; I_trn as int64 / int32 / uint8 / uint32 / float64 ndarray (also "
        "Fortran-ordered, non-contiguous) or nested list of ints / floats (the storages of family `big` in addition); functional variant X_trn float64 / float32 (C, F, strided) or nested list, y_trn as above. "
        "The reference is computed in binary64 from the values the argument denotes (float(v) per element, exact), with the "
        "tolerances of the float64 spelling. y family `offset`: 1000 / -250 / 1e6 / 100 + 0.1 N(0,1) (offset >> variation), also as "
        "the additive function of the full-grid sub. "
        "history: ONE ANOVA object (order 1 / 2, d 2..4(5)) constructed on data set 0 and then driven through a drawn sequence of "
        "1..6(7) operations + a final cores() and __call__: build(I, y) on one of 2..3(4) data sets (same labels and sizes with other "
        "samples / the same samples permuted / only the first 30-80 % of the samples / other mode sizes / other d / the same data "
        "again), load(file) of the model that another object (itself asked for cores before, or not) saved for such a data set, "
        "cores(r, noise[, only_near, rel_noise]) with r and noise drawn per call (positional / keyword / default spelling; "
        "only_near=True for d = 2 only), __call__ on drawn multi-indices of the current domain, sample(with_square), reads of the "
        "public arrays f1_arr / f2_arr. After EVERY operation the object is compared with a FRESH object constructed on the "
        "data last built: d, shapes, domain, dtype, f0, y_max, y_min, f1, f2 equal bit for bit; the operation's own result equals "
        "the fresh object's result bit for bit when the duck-typed generator is re-positioned identically for both (cores, "
        "sample), always for __call__ / f1_arr / f2_arr; every cores() result additionally satisfies the statement of the "
        "property (shape, ranks, values within the order-1 majorant / order-2 bound) for the recomputed model of the data last "
        "built (also for int seeds, where streams cannot be aligned). func_history: ONE ANOVA_func object asked for coeffs and "
        "cores(e), e in {default, None, 1e-8, 1e-4, 1e-2, 0.5}, 2..6 times in a drawn order: every answer equals that of a fresh "
        "object and of anova_func(...) on identical arguments, bit for bit (boxes: default / drawn list / family `perdim` in a drawn spelling).")
TOLERANCES = ("f0: 2(m+4) eps mean|y|; f1/f2: the same for the conditional mean + inherited terms; order 1: |dense - model| <= "
              "dense(|C0|+D) - dense(|C0|) + 2K eps dense(|C0|+D), D = 3*noise (40*noise for int seeds) on non-structural entries and the "
              "f-tolerances on structural ones, K = 32(d+sum r+max n); order 2 (no bond rank equal to the cap r): Frobenius error <= "
              "pre-truncation bound (order-1 majorant + per pair 1e-10 absolute skeleton cut + 64 n eps ||f2||) + add_many bound "
              "1e-10 ||S|| + floor_eigh(R,d,||S||) + cancel as derived in C02 (floor_eigh = 8 sqrt(eps R)(d-1)||S||); ridge coefficients: "
              "first-order perturbation bound 8 (dG ||c|| + db)/(lamb + lambda_min(A^T A)), used when lamb >= 1e-8 or 4 dG <= lamb + lambda_min "
              "(then cond(A^T A + lamb I) <= 1/(256 eps): gelsy keeps full rank); lamb < 1e-8 on a design with q < n distinct abscissae "
              "whose q non-zero singular values lie within a factor 100: fitted values at the training points within PRED_F s_max "
              "(dG ||c_minnorm|| + db)/(s_q^2 - dG) + lamb ||y - mean||/s_q^2 per dimension, PRED_F = 1e4 stating the gain with which the "
              "rounding-sized null-space components that gelsy keeps (noise eigenvalue just above its cut eps lambda_max) couple back "
              "into the range part (<= dG/(eps lambda_max) ~ 1e3; observed <= 2 without the factor); truncated functional cores: "
              "e||A|| + floor_eigh")
ASSUMPTIONS = ["d >= 2, r >= 2 (cores_1 writes column 1 of every core), noise >= 0, integer index values",
               "index values are integers in [-2^63, 2^63) held exactly by the storage that carries them (float64 storage: |value| <= 2^53; "
               "the unchanged library accepts float64 / unsigned index arrays and lists of floats and keys its tables by them); they "
               "are labels: equal labels denote the same index, different labels different indices, whatever their distance",
               "int seeds: |standard normal draw| <= 40 (NumPy's ziggurat cannot exceed ~14 in binary64)",
               "additive reproduction is claimed for balanced full grids only (every grid point equally often)",
               "functional variant: lamb >= 0 (None is rejected by the library), points inside the box, box offset ratio "
               "max(|a|,|b|)/(b-a) <= ~20, n >= 2; the coefficients are compared with the independent solve where they are unique up to "
               "rounding (lamb >= 1e-8, or the normal equations far from gelsy's 1/eps rank cut: 4 dG <= lamb + lambda_min); for lamb < 1e-8 on "
               "exactly rank-deficient designs with a gap only the fitted values at the training points are claimed (the coefficients "
               "are legitimately non-unique); for lamb < 1e-8 on numerically rank-deficient designs without a gap (a handful of cases) "
               "only the consistency of cores, ANOVA_func.coeffs and interpolant is claimed",
               "the eigh floor of truncate (C02) is a stated tolerance of the order-2 route, not a finding",
               "only_near=True of ANOVA.cores is outside the property text and exercised only for d = 2 (history sub), where it selects "
               "the same single pair of modes",
               "histories: only public methods / attributes are used (ANOVA(...), build, load, save, cores, __call__, sample, f1_arr, f2_arr, "
               "f0, f1, f2, d, shapes, domain, dtype, y_max, y_min; ANOVA_func(...), coeffs, cores); the order of one object is not changed "
               "(there is no method for it); bit-identity with a fresh object is claimed because both run the same deterministic "
               "computation on equal arguments in one process (the generator double is re-positioned for both before a compared call)",
               "functional variant, box arguments: a / b are numbers or sequences of length d holding the per-dimension bounds; Python "
               "float / int, np.float64, list (of floats / ints / np.float64), tuple, ndarray (float64 / float32 / int64 / int32, also a "
               "non-contiguous view) and a number for one bound with a sequence for the other all denote the float64 box they "
               "spell (every one of them is accepted by the unchanged library); dimension k is fitted in the variable "
               "(2x - a_k - b_k)/(b_k - a_k) whatever the other dimensions' intervals are; two spellings of the same box give the "
               "same cores bit for bit (the library converts both to the same float64 bounds before any arithmetic)",
               "data arrays of a narrower real or an integer dtype denote the (exactly representable) doubles of their elements; "
               "uint8 index arrays carry labels in 0..255; float16 values are clipped to +-60000 and int32 to +-2e9 before the cast "
               "(by construction, so that every value passed is finite); the additive full-grid claim is asserted up to "
               "(2d+2 [+3d(d-1) for order 2]) times the rounding of the values into the drawn dtype"]

B_DUCK = 3.0
B_INT = 40.0
PRED_F = 1.0e4           # functional variant, rank-deficient designs without regularisation: see prop_func (regime `pred`)
E_ADD = 1.0e-10          # default accuracy of add_many (order 2) and of matrix_skeleton in _second_order_2_tt


def floor_eigh(R, d, nrm):
    return 8 * math.sqrt(EPS * R) * (d - 1) * nrm


# ------------------------------------------------------------------------------------------- generator double

class BoundedGen:
    """Duck-typed generator handed to teneva as `seed`: normal() answers with values of modulus <= 3 that we control."""

    def __init__(self, kind, seed):
        self.kind = kind
        self.g = np.random.default_rng(seed)
        self.requests = []

    def normal(self, loc=0.0, scale=1.0, size=None):
        if self.kind == "uniform":
            v = self.g.uniform(-B_DUCK, B_DUCK, size=size)
        elif self.kind == "clipnormal":
            v = np.clip(self.g.normal(size=size), -B_DUCK, B_DUCK)
        elif self.kind == "extreme":
            v = B_DUCK * (2.0 * self.g.integers(0, 2, size=size) - 1.0)
        else:  # plus3
            v = np.full(size, B_DUCK) if size is not None else B_DUCK
        self.requests.append(tuple(int(s) for s in np.shape(v)))
        return v


def make_seed(case):
    if case["gen"] == "int":
        return int(case["gseed"]), B_INT
    return BoundedGen(case["gen"], case["gseed"]), B_DUCK


# ------------------------------------------------------------------------------------------- data sets

def _cap(n, size_max):
    n = list(n)
    while int(np.prod(n)) > size_max:
        n[int(np.argmax(n))] -= 1
    return n


def mode_sizes(big):
    return st.sampled_from([1, 2, 2, 3, 3, 4, 4] + ([5, 5] if big else []))


@st.composite
def data_fields(draw, tier, layouts, n=None, m_hi=None, m_many=False):
    big = tier != "quick"
    if n is None:
        d = draw(st.integers(2, 5 if big else 4))
        n = _cap([draw(mode_sizes(big)) for _ in range(d)], 1024 if big else 256)
    if m_hi is None:
        m_hi = 60 if big else 30
    lay = draw(st.sampled_from(layouts))
    case = {"n": n, "layout": lay, "dseed": draw(gen.seeds), "shuffle": draw(st.booleans()),
            "m": draw(st.one_of(*([st.integers(1, 5)] + [st.integers(6, m_hi)] * (5 if m_many else 2)))),
            "rep": draw(st.integers(2, 3)),
            "as_list": draw(st.integers(0, 3)) == 0,
            "ydt": draw(st.sampled_from(YDT)), "idt": draw(st.sampled_from(IDT))}
    lk = draw(st.sampled_from(["affine", "affine", "identity", "drawn", "drawn", "big", "big"]))
    if lk == "affine":
        case["labels"] = [[2 * i + 3 for i in range(k)] for k in n]
    elif lk == "identity":
        case["labels"] = [list(range(k)) for k in n]
    elif lk == "big":                                   # labels of large modulus; the storage is drawn with them (must hold them)
        case["labels"], case["idt"] = draw(big_labels(n))
    else:
        case["labels"] = [draw(st.lists(st.integers(-9, 40), min_size=k, max_size=k, unique=True)) for k in n]
    case["labkind"] = lk
    if lay == "explicit":
        m = draw(st.integers(1, 6))
        case["J"] = [[draw(st.integers(0, k - 1)) for k in n] for _ in range(m)]
        case["yv"] = [draw(st.one_of(st.integers(-3, 3).map(float), gen.reals(-10, 10))) for _ in range(m)]
        case["yfam"] = "explicit"
    else:
        case["yfam"] = draw(st.sampled_from(["gauss", "gauss", "gauss", "smallint", "const", "zero", "offset", "offset"]))
        if case["yfam"] == "offset":
            case["offset"] = draw(st.sampled_from([1000.0, 1000.0, -250.0, 1.0e6, 100.0]))
    case["scale10"] = draw(st.sampled_from([0, 0, 0, 3, -3]))
    return case


# ---- dtype / spelling of the data arguments.  The model is the one of the VALUES passed: an array of a narrower real dtype or
# of an integer dtype, or a list of Python numbers, denotes exactly representable doubles; the reference is computed in
# binary64 from those doubles (float(v) of every element is exact), with the tolerances of the float64 spelling.
YDT = ["f8", "f8", "f4", "f4", "f4", "f2", "i8", "i4", "list", "list", "list_int", "f8_strided", "f4_strided"]
IDT = ["i8", "i8", "i4", "u1", "list", "list", "i8_forder", "i4_strided", "f8", "listf", "u4"]

# ---- index LABELS are names of the observed index values, not quantities: the model of a data set does not depend on how large
# they are, on their sign, on gaps between them or on the storage that carries them.  Label family `big`: per mode either small
# labels or base + offsets with |base| in 65520 .. 2^63 - 16 (positive and negative; contiguous / step 2 / drawn gaps in 0..15 /
# a mix of small and large labels in ONE mode; listed in drawn order), at least one mode large, carried by a drawn storage that
# holds them exactly: int64, int32, uint16, uint32, uint64, float64 (|label| <= 2^53), nested list of Python ints / floats,
# Fortran-ordered / strided views.
I_RANGE = {"i8": (-2 ** 63, 2 ** 63 - 1), "i4": (-2 ** 31, 2 ** 31 - 1), "u1": (0, 255), "u2": (0, 2 ** 16 - 1), "u4": (0, 2 ** 32 - 1),
           "u8": (0, 2 ** 63 - 1),              # the reference keeps the labels in int64
           "f8": (-2 ** 53, 2 ** 53), "list": (-2 ** 63, 2 ** 63 - 1), "listf": (-2 ** 53, 2 ** 53)}
BIG_IDT = ["i8", "i8", "i4", "i4", "u2", "u4", "u8", "f8", "f8", "list", "listf", "i8_forder", "i4_strided", "f8_strided", "u8_strided", "f8_forder"]
BIG_SPAN = 15
BIG_BASES = [65520, 99990, 100000, 100000, 2 ** 17, 2 ** 20, 2 ** 20, 10 ** 6, 10 ** 9, 2 ** 31 - 16, 2 ** 31, 2 ** 32 - 16, 2 ** 32, 2 ** 40, 10 ** 15,
             2 ** 53 - 15, 2 ** 62, 2 ** 63 - 16,
             -100015, -100000, -2 ** 20, -10 ** 9, -2 ** 31, -2 ** 40, -2 ** 53, -2 ** 62, -2 ** 63]


@st.composite
def big_labels(draw, n):
    idt = draw(st.sampled_from(BIG_IDT))
    lo, hi = I_RANGE[idt.split("_")[0]]
    bases = [b for b in BIG_BASES if lo <= b and b + BIG_SPAN <= hi]
    d = len(n)
    large = [draw(st.integers(0, 2)) > 0 for _ in range(d)]
    large[draw(st.integers(0, d - 1))] = True
    labels = []
    for k in range(d):
        if not large[k]:
            labels.append(draw(st.sampled_from([list(range(n[k])), [2 * i + 3 for i in range(n[k])]])))
            continue
        b = draw(st.sampled_from(bases))
        how = draw(st.sampled_from(["contig", "contig", "step2", "gaps", "gaps", "mixed"]))
        if how == "contig":
            off = list(range(n[k]))
        elif how == "step2":
            off = [2 * i for i in range(n[k])]
        else:
            off = sorted(draw(st.lists(st.integers(0, BIG_SPAN), min_size=n[k], max_size=n[k], unique=True)))
        lab = [b + o for o in off]
        if how == "mixed":                              # one mode whose labels are partly small, partly large
            lab = [(o if j % 2 == 0 else b + o) for j, o in enumerate(off)]
        if draw(st.booleans()):
            lab = list(draw(st.permutations(lab)))
        labels.append(lab)
    return labels, idt
XDT = ["f8", "f8", "f4", "f4", "list", "f8_forder", "f4_strided"]


def _strided(a):
    """The same values as a non-contiguous view (every second element along the first axis of a twice as long buffer)."""
    buf = np.repeat(a, 2, axis=0)
    if buf.dtype.kind == "f":
        buf[1::2] = np.nan                              # what lies between the elements is not data
    else:
        buf[1::2] = 7
    v = buf[::2]
    assert not v.flags["C_CONTIGUOUS"] or len(a) <= 1
    return v


def spell_y(y, ydt):
    """(argument handed to the library, the float64 array of exactly the values it denotes)."""
    y = np.asarray(y, dtype=float)
    base = ydt.split("_")[0]
    if ydt in ("list",):
        arg = y.tolist()
    elif ydt == "list_int":
        arg = [int(v) for v in np.rint(y)]
    elif base == "f8":
        arg = y.copy()
    elif base == "f4":
        arg = y.astype(np.float32)
    elif base == "f2":
        arg = np.clip(y, -60000.0, 60000.0).astype(np.float16)
    elif base == "i8":
        arg = np.rint(y).astype(np.int64)
    elif base == "i4":
        arg = np.rint(np.clip(y, -2.0e9, 2.0e9)).astype(np.int32)
    else:
        raise ValueError(ydt)
    if ydt.endswith("_strided"):
        arg = _strided(arg)
    ref = np.array([float(v) for v in arg], dtype=float).reshape(-1)
    assert np.all(np.isfinite(ref))
    return arg, ref


def spell_I(I, idt):
    """(argument handed to the library, the int64 array of the labels it denotes); uint8 needs labels in 0..255 (ours are in
    -9..83, shifted by construction when one is negative; the same shift for the other unsigned storages); family `big`
    draws the storage together with the labels so that it holds them."""
    I = np.asarray(I, dtype=np.int64)
    base = idt.split("_")[0]
    if base[0] == "u" and I.size and int(I.min()) < 0:
        I = I + 9
    lo, hi = I_RANGE[base]
    assert not I.size or (lo <= int(I.min()) and int(I.max()) <= hi), (idt, int(I.min()), int(I.max()))
    if idt == "list":
        arg = I.tolist()
    elif idt == "listf":                                # nested list of Python floats (exact: |label| <= 2^53)
        arg = [[float(v) for v in row] for row in I.tolist()]
    elif base == "i8":
        arg = I.copy()
    elif base in ("i4", "u1", "u2", "u4", "u8", "f8"):
        arg = I.astype({"i4": np.int32, "u1": np.uint8, "u2": np.uint16, "u4": np.uint32, "u8": np.uint64, "f8": np.float64}[base])
    else:
        raise ValueError(idt)
    if idt.endswith("_forder"):
        arg = np.asfortranarray(arg)
    elif idt.endswith("_strided"):
        arg = _strided(arg)
    ref = np.array([[int(v) for v in row] for row in arg], dtype=np.int64).reshape(len(I), I.shape[1])
    assert np.array_equal(ref, I)
    return arg, ref


def case_dtypes(case):
    """Spellings of (I_trn, y_trn); cases stored before the dtype axis existed carry only `as_list`."""
    if "ydt" in case:
        return case["idt"], case["ydt"]
    return ("list", "list") if case.get("as_list") else ("i8", "f8")


def positions(case):
    """Row positions (0-based, before relabelling) of the data set."""
    n = case["n"]
    lay = case["layout"]
    rng = np.random.default_rng(case["dseed"])
    grid = np.array(list(np.ndindex(*n)), dtype=int)
    m = case["m"]
    if lay == "grid":
        J = grid
    elif lay == "grid_rep":
        J = np.tile(grid, (case["rep"], 1))
    elif lay == "grid_plus":
        J = np.vstack([grid, grid[rng.integers(0, len(grid), size=m)]])
    elif lay == "explicit":
        J = np.array(case["J"], dtype=int)
    else:
        if lay == "single":
            m = 1
        J = np.column_stack([rng.integers(0, k, size=m) for k in n])
        if lay == "dups":
            J = np.vstack([J, J[rng.integers(0, m, size=1 + m // 2)]])
    if case["shuffle"]:
        J = J[rng.permutation(len(J))]
    return J, rng


def make_data(case):
    J, rng = positions(case)
    n = case["n"]
    I = np.column_stack([np.array(case["labels"][k], dtype=int)[J[:, k]] for k in range(len(n))])
    fam = case["yfam"]
    m = len(I)
    if fam == "explicit":
        y = np.array(case["yv"][:m], dtype=float)
    elif fam == "gauss":
        y = rng.normal(size=m) * 2.0 + rng.normal()
    elif fam == "smallint":
        y = rng.integers(-3, 4, size=m).astype(float)
    elif fam == "const":
        y = np.full(m, 1.75)
    elif fam == "offset":                               # large offset relative to the variation
        y = case["offset"] + 0.1 * rng.normal(size=m)
    else:
        y = np.zeros(m)
    y = y * 10.0 ** case["scale10"]
    idt, ydt = case_dtypes(case)
    Iarg, I = spell_I(I, idt)
    yarg, y = spell_y(y, ydt)
    return I, y, J, Iarg, yarg


# ------------------------------------------------------------------------------------------- reference model

def _mean(v):
    return math.fsum(v.tolist()) / len(v)


def ref_model(I, y, order):
    """Constant, per-mode and pair terms recomputed independently (exact summation), with rounding allowances for the
    library's floating-point evaluation of the same quantities, and the model table over the observed domain."""
    m, d = I.shape
    dom = [sorted(set(int(x) for x in I[:, k])) for k in range(d)]
    n = [len(dm) for dm in dom]
    ay = np.abs(y)
    f0 = _mean(y)
    t0 = 2 * (m + 4) * EPS * _mean(ay)
    masks = [[I[:, k] == x for x in dom[k]] for k in range(d)]
    f1, t1 = [], []
    for k in range(d):
        v = np.zeros(n[k]); t = np.zeros(n[k])
        for j, sel in enumerate(masks[k]):
            cnt = int(sel.sum())
            cm = _mean(y[sel])
            v[j] = cm - f0
            t[j] = 2 * (cnt + 4) * EPS * _mean(ay[sel]) + t0 + 4 * EPS * (abs(cm) + abs(f0))
        f1.append(v); t1.append(t)
    f2, t2, cells = {}, {}, {}
    if order >= 2 or d == 2:
        for k1 in range(d - 1):
            for k2 in range(k1 + 1, d):
                v = np.zeros((n[k1], n[k2])); t = np.zeros((n[k1], n[k2])); c = np.full((n[k1], n[k2]), np.nan)
                for j1 in range(n[k1]):
                    for j2 in range(n[k2]):
                        sel = masks[k1][j1] & masks[k2][j2]
                        cnt = int(sel.sum())
                        if cnt == 0:
                            continue
                        cm = _mean(y[sel])
                        c[j1, j2] = cm
                        v[j1, j2] = cm - f0 - f1[k1][j1] - f1[k2][j2]
                        t[j1, j2] = (2 * (cnt + 4) * EPS * _mean(ay[sel]) + t0 + t1[k1][j1] + t1[k2][j2]
                                     + 8 * EPS * (abs(cm) + abs(f0) + abs(f1[k1][j1]) + abs(f1[k2][j2])))
                f2[k1, k2] = v; t2[k1, k2] = t; cells[k1, k2] = c

    def bc(a, axes):
        sh = [1] * d
        for ax, s in zip(axes, np.shape(a)):
            sh[ax] = s
        return np.reshape(a, sh)

    M = np.full(n, f0)
    A = np.full(n, abs(f0))
    T = np.full(n, t0)
    for k in range(d):
        M = M + bc(f1[k], [k]); A = A + bc(np.abs(f1[k]), [k]); T = T + bc(t1[k], [k])
    terms = 1 + d
    if order >= 2:
        for (k1, k2), v in f2.items():
            M = M + bc(v, [k1, k2]); A = A + bc(np.abs(v), [k1, k2]); T = T + bc(t2[k1, k2], [k1, k2])
            terms += 1
    T = T + 4 * (terms + 2) * EPS * A
    return {"dom": dom, "n": n, "f0": f0, "t0": t0, "f1": f1, "t1": t1, "f2": f2, "t2": t2, "cells": cells,
            "M": M, "tolM": T, "bc": bc}


def pattern(ref, r, bn):
    """Noise-free order-1 core pattern C0 (from the reference terms) and the elementwise deviation bound D of the library's
    cores from it: bn = B*noise at formally-zero entries, the f-tolerances at the entries that hold estimated terms, 0 at ones."""
    d = len(ref["n"])
    f0, t0, f1, t1 = ref["f0"], ref["t0"], ref["f1"], ref["t1"]
    C, D = [], []
    for k in range(d):
        nk = ref["n"][k]
        r1 = 1 if k == 0 else r
        r2 = 1 if k == d - 1 else r
        G = np.zeros((r1, nk, r2))
        E = np.full((r1, nk, r2), float(bn))
        if k < d - 1:
            G[0, :, 0] = 1.0; E[0, :, 0] = 0.0
            G[0, :, 1] = f1[k]; E[0, :, 1] = t1[k]
            if k > 0:
                G[1, :, 1] = 1.0; E[1, :, 1] = 0.0
        else:
            G[0, :, 0] = f1[k] + f0; E[0, :, 0] = t1[k] + t0 + 2 * EPS * (np.abs(f1[k]) + abs(f0))
            G[1, :, 0] = 1.0; E[1, :, 0] = 0.0
        C.append(G); D.append(E)
    return C, D


def order1_bound(ref, r, bn):
    """Elementwise bound of |dense(library order-1 cores) - model table| (model = f0 + sum_k f1_k)."""
    C, D = pattern(ref, r, bn)
    P = [np.abs(G) for G in C]
    PD = [p + e for p, e in zip(P, D)]
    hi = dense(PD)
    lo = dense(P)
    K = oracle.K_of(C)
    return np.maximum(hi - lo, 0.0) * (1 + 1e-9) + 2 * K * EPS * hi, hi


def check_f01(ctx, A, ref):
    d = len(ref["n"])
    ctx.check(abs(float(A.f0) - ref["f0"]) <= ref["t0"], "ANOVA.f0 is not the sample mean", got=float(A.f0), ref=ref["f0"], tol=ref["t0"])
    ctx.check(isinstance(A.f1, list) and len(A.f1) == d, "ANOVA.f1 is not a list of d per-mode tables")
    for k in range(d):
        keys = sorted(int(x) for x in A.f1[k].keys())
        ctx.check(keys == ref["dom"][k], "ANOVA.f1[k] is not keyed by the observed index values of mode k", k=k, got=keys, ref=ref["dom"][k])
        for j, x in enumerate(ref["dom"][k]):
            got = float(A.f1[k][x])
            ctx.check(abs(got - ref["f1"][k][j]) <= ref["t1"][k][j], "ANOVA.f1[k][x] is not the conditional sample mean minus f0",
                      k=k, x=x, got=got, ref=float(ref["f1"][k][j]), tol=float(ref["t1"][k][j]))


CALL_FULL = 600          # domains with more multi-indices than this are evaluated through the class on a drawn sample only


def check_call(ctx, A, ref, as_list, sample_seed=0):
    """The class's own model A(I) at every multi-index of the observed domain against the recomputed table (a sample of
    CALL_FULL//2 multi-indices, drawn without replacement, when the domain is large; then None is returned)."""
    dom = ref["dom"]
    allI = np.array(list(itertools.product(*dom)), dtype=int)
    if len(allI) > CALL_FULL:
        pick = np.sort(np.random.default_rng(sample_seed).choice(len(allI), size=CALL_FULL // 2, replace=False))
        pick[0] = 0
        Is = allI[pick]
        got = np.asarray(ctx.lib(A, Is.tolist() if as_list else Is), dtype=float)
        ctx.inner(len(Is))
        refv = ref["M"].ravel()[pick]; tol = ref["tolM"].ravel()[pick]
        ctx.check(got.shape == refv.shape, "ANOVA(I) does not return one value per multi-index", got=got.shape)
        if np.any(np.abs(got - refv) > tol) or not np.all(np.isfinite(got)):
            j = int(np.argmax(np.abs(got - refv) - tol))
            ctx.check(False, "ANOVA(I) differs from the recomputed model (constant + per-mode terms + pair terms)",
                      index=Is[j].tolist(), got=float(got[j]), ref=float(refv[j]), tol=float(tol[j]))
        one = ctx.lib(A, allI[0])
        ctx.check(np.ndim(one) == 0 and abs(float(one) - ref["M"].ravel()[0]) <= ref["tolM"].ravel()[0],
                  "ANOVA(single index) differs from the model", got=repr(one))
        return None
    got = ctx.lib(A, allI.tolist() if as_list else allI)
    got = np.asarray(got, dtype=float).reshape(ref["n"])
    ctx.inner(len(allI))
    bad = np.abs(got - ref["M"]) > ref["tolM"]
    if np.any(bad) or not np.all(np.isfinite(got)):
        j = int(np.argmax(np.abs(got - ref["M"]) - ref["tolM"]))
        ctx.check(False, "ANOVA(I) differs from the recomputed model (constant + per-mode terms + pair terms)",
                  index=allI[j].tolist(), got=float(got.ravel()[j]), ref=float(ref["M"].ravel()[j]), tol=float(ref["tolM"].ravel()[j]))
    one = ctx.lib(A, allI[0])
    ctx.check(np.ndim(one) == 0 and abs(float(one) - ref["M"].ravel()[0]) <= ref["tolM"].ravel()[0], "ANOVA(single index) differs from the model",
              got=repr(one))
    return got


def cmp_table(ctx, got, refv, tol, what, **kw):
    ctx.check(got.shape == refv.shape, f"{what}: shape {got.shape} != {refv.shape}", **kw)
    bad = np.abs(got - refv) > tol
    if np.any(bad) or not np.all(np.isfinite(got)):
        j = int(np.argmax(np.abs(got - refv) - tol))
        ctx.check(False, what, index=list(map(int, np.unravel_index(j, got.shape))), got=float(got.ravel()[j]),
                  ref=float(refv.ravel()[j]), tol=float(np.asarray(tol).ravel()[j] if np.ndim(tol) else tol), **kw)


def run_anova(ctx, case, Iarg, yarg, y, order):
    """Call the library along the drawn route with the data in the drawn spelling (Iarg, yarg; y = the float64 values that
    yarg denotes); returns (cores, class instance built with an identical generator, noise, B)."""
    r = case["r"]
    seed, B = make_seed(case)
    route = case["route"]
    if route == "class_rel":
        A = ctx.lib(teneva.ANOVA, Iarg, yarg, order, seed)
        noise = case["rel_noise"] * float(np.max(np.abs(y))) * (1 + 4 * EPS)
        Y = ctx.lib(A.cores, r, 1e-10, False, case["rel_noise"])
        return Y, A, noise, B
    noise = case["noise"]
    Y = ctx.lib(teneva.anova, Iarg, yarg, r, order, noise, seed)
    seed2, _ = make_seed(case)
    A = ctx.lib(teneva.ANOVA, Iarg, yarg, order, seed2)
    if route == "class":
        Y2 = ctx.lib(A.cores, r, noise)
        same = len(Y2) == len(Y) and all(a.shape == b.shape and np.array_equal(a, b) for a, b in zip(Y, Y2))
        ctx.check(same, "anova(...) and ANOVA(...).cores(r, noise) differ although the function is documented as a wrapper "
                        "(identical data, identical generator stream)")
    return Y, A, noise, B


@st.composite
def call_fields(draw, order):
    if order == 1:
        r = draw(st.sampled_from([2, 2, 3, 4, 5, 12, 50]))
    else:
        r = draw(st.sampled_from([2, 3, 50, 50, 50, 4, 8]))
    route = draw(st.sampled_from(["function", "function", "class", "class_rel"]))
    return {"r": r, "route": route, "noise": draw(st.sampled_from([0.0, 0.0, 1e-10, 1e-10, 1e-3, 0.1])),
            "rel_noise": draw(st.sampled_from([0.0, 1e-9, 1e-4])),
            "gen": draw(st.sampled_from(["uniform", "clipnormal", "extreme", "plus3", "int"])), "gseed": draw(gen.seeds)}


LAYOUTS = ["grid", "grid_rep", "grid_plus", "sparse", "sparse", "sparse", "dups", "dups", "single", "explicit"]


def big_label_classes(ctx, dom):
    """Histogram classes of the observed label values (evidence only)."""
    mx = max(max(abs(x) for x in dm) for dm in dom)
    ctx.label("max|label|:" + ("<1e5" if mx < 10 ** 5 else ("<2^31" if mx < 2 ** 31 else ("<=2^53" if mx <= 2 ** 53 else ">2^53"))))
    if any(x < -9 for dm in dom for x in dm):
        ctx.label("labels_large_negative")
    if any(abs(a - b) * 10 ** 5 <= max(abs(a), abs(b)) for dm in dom for a, b in zip(dm, dm[1:])):
        ctx.label("labels_closer_than_1e-5_relative")
    if any(len(dm) > 1 and dm[-1] - dm[0] > 2 ** 16 for dm in dom):
        ctx.label("small_and_large_labels_in_one_mode")


def data_labels(ctx, case, ref, I):
    d = len(ref["n"])
    ctx.label("layout:" + case["layout"], "labels:" + case["labkind"], "y:" + case["yfam"], f"d={d}", f"r={case['r']}",
              "gen:" + case["gen"], "route:" + case["route"], f"scale=1e{case['scale10']}")
    idt, ydt = case_dtypes(case)
    ctx.label("I_trn:" + idt, "y_trn:" + ydt)
    big_label_classes(ctx, ref["dom"])
    if case["route"] != "class_rel":
        ctx.label(f"noise={case['noise']:g}")
    if 1 in ref["n"]:
        ctx.label("has_mode_1")
    if ref["n"] != case["n"]:
        ctx.label("observed_domain_smaller")
    if len(I) == 1:
        ctx.label("m==1")
    dup = len({tuple(row) for row in I.tolist()}) < len(I)
    if dup:
        ctx.label("duplicates")
    return dup


# ------------------------------------------------------------------------------------------- order 1

@st.composite
def order1_cases(draw, tier):
    case = draw(data_fields(tier, LAYOUTS))
    case.update(draw(call_fields(1)))
    return case


def prop_order1(case, ctx):
    I, y, J, Iarg, yarg = make_data(case)
    ref = ref_model(I, y, 1)
    d = len(ref["n"])
    r = case["r"]
    dup = data_labels(ctx, case, ref, I)
    sparse = int(np.prod(ref["n"])) > len({tuple(row) for row in I.tolist()})
    ctx.nontrivial((sparse and dup) or r > 2)

    Y, A, noise, B = run_anova(ctx, case, Iarg, yarg, y, 1)
    check_f01(ctx, A, ref)
    check_call(ctx, A, ref, case["as_list"])

    why = oracle.wellformed(Y, ref["n"])
    ctx.check(why is None, f"anova(order=1): result is not a well-formed TT-tensor with the observed mode sizes: {why}",
              observed=ref["n"], got=[list(np.shape(G)) for G in Y] if isinstance(Y, list) else None)
    ranks = oracle.ranks_of(Y)
    ctx.check(ranks == [1] + [r] * (d - 1) + [1], "anova(order=1): TT-ranks are not all equal to the requested rank", ranks=ranks, r=r)
    bound, _ = order1_bound(ref, r, B * noise)
    cmp_table(ctx, dense(Y), ref["M"], bound + ref["tolM"],
              "anova(order=1): dense tensor differs from constant + sum of per-mode terms beyond the noise majorant", noise=noise, r=r)
    # the fitted model object can be asked for its cores repeatedly (other ranks / noise levels): every call must encode the
    # same additive model (only the noise draws differ, and they stay inside the same majorant)
    if case["route"] != "class_rel":
        for rep in (2, 3):
            Yk = ctx.lib(A.cores, r, noise)
            ctx.check(oracle.wellformed(Yk, ref["n"]) is None, "ANOVA.cores called again: malformed result", call=rep)
            cmp_table(ctx, dense(Yk), ref["M"], bound + ref["tolM"],
                      "ANOVA.cores called again on the same fitted object no longer encodes the additive model", call=rep, noise=noise, r=r)
        check_f01(ctx, A, ref)


# ------------------------------------------------------------------------------------------- order 2

@st.composite
def order2_cases(draw, tier):
    case = draw(data_fields(tier, LAYOUTS))
    case.update(draw(call_fields(2)))
    case["r2"] = draw(st.sampled_from(R2_CHOICES))
    return case


R2_CHOICES = [2, 2, 3, 4, 8, 50]
WIDE_LAYOUTS = ["grid", "grid_rep", "grid_plus", "sparse", "sparse", "sparse", "sparse", "dups", "dups", "explicit"]


@st.composite
def wide_cases(draw, tier):
    """Order 2 over many modes: the cores are the add_many sum of 1 + d(d-1)/2 summands (11, 16, 22, .., 46, 56), so the
    intermediate roundings of the summation schedule (every 15 additions) are reached, also exactly at the last summand
    (d = 6, 10).  Mode sizes stay at 1..3 (d <= 7) and 1..2 (d >= 8) so that the dense reference stays small."""
    big = tier != "quick"
    d = draw(st.sampled_from([5, 6, 6, 7, 10, 10] + ([8, 9, 11] if big else [])))
    if d <= 7:
        n = _cap([draw(st.sampled_from([2, 2, 3, 3] + ([4] if big else []))) for _ in range(d)], 2187 if big else 768)
    else:
        n = [2] * d
    if draw(st.integers(0, 4)) == 0:                 # at most one mode with a single index value (bond ranks 1 around it)
        n[draw(st.integers(0, d - 1))] = 1
    case = draw(data_fields(tier, WIDE_LAYOUTS, n=n, m_hi=400 if big else 250, m_many=True))
    case.update(draw(call_fields(2)))
    case["r"] = draw(st.sampled_from([2, 2, 3, 3, 4, 5, 8, 50, 50]))
    case["r2"] = draw(st.sampled_from(R2_CHOICES))
    return case


def order2_bounds(ref, r, bn):
    """(pre, Efin): elementwise bound of the summands' deviation from the model before add_many truncates, and the Frobenius
    bound of what add_many(e=1e-10, r) may remove when no bond rank equals the cap (mirrors the schedule, trunc_freq=15)."""
    n = ref["n"]
    d = len(n)
    N = float(np.prod(n))
    pre, hi = order1_bound(ref, r, bn)
    Mabs = fro(hi)
    R = r
    partial = [Mabs]
    for (k1, k2), v in ref["f2"].items():
        fv = fro(np.abs(v) + ref["t2"][k1, k2])
        pre = pre + ref["bc"](ref["t2"][k1, k2] + E_ADD + 64 * max(n) * EPS * fv, [k1, k2])
        q = min(n[k1], n[k2])
        R += q
        Mabs += math.sqrt(q) * (fv + E_ADD) * math.sqrt(N / (n[k1] * n[k2])) * (1 + 1e-9)
        partial.append(Mabs)
    Sup = fro(np.abs(ref["M"]) + pre + ref["tolM"])
    cancel = 64 * (d + R + max(n)) * EPS * Mabs
    E = 0.0
    for i in range(len(ref["f2"])):
        if (i + 1) % 15 == 0:
            nr = partial[i + 1] + E + cancel         # ||partial sum|| <= sum of the majorant norms
            E = E + E_ADD * nr * (1 + 1e-9) + floor_eigh(R, d, nr) + cancel
    nr = Sup + E + cancel
    Efin = E + E_ADD * nr * (1 + 1e-9) + floor_eigh(R, d, nr) + cancel
    return pre, Efin


def order2_values(ctx, Y, ref, r, bn, own, what, **kw):
    """Value oracle of the order-2 route for a result whose rank cap does not bind; returns (dense, pre, Efin)."""
    pre, Efin = order2_bounds(ref, r, bn)
    F = dense(Y)
    err = fro(F - ref["M"])
    bound = fro(pre + ref["tolM"]) + Efin
    ctx.check(np.all(np.isfinite(F)) and err <= bound,
              f"{what} (rank cap not binding): dense tensor differs from constant + per-mode + pair terms beyond the derived bound",
              err=err, bound=bound, ranks=oracle.ranks_of(Y), r=r, norm=fro(ref["M"]), **kw)
    if own is not None:
        err = fro(F - own)
        ctx.check(err <= bound + fro(ref["tolM"]), f"{what}: dense tensor differs from the class's own model A(I)", err=err, bound=bound, **kw)
    return F, pre, Efin


def prop_order2(case, ctx):
    I, y, J, Iarg, yarg = make_data(case)
    ref = ref_model(I, y, 2)
    n = ref["n"]
    d = len(n)
    r = case["r"]
    data_labels(ctx, case, ref, I)
    ctx.label(f"summands={1 + d * (d - 1) // 2}")
    ctx.nontrivial(True)

    Y, A, noise, B = run_anova(ctx, case, Iarg, yarg, y, 2)
    check_f01(ctx, A, ref)
    own = check_call(ctx, A, ref, case["as_list"], case["dseed"])

    why = oracle.wellformed(Y, n)
    ctx.check(why is None, f"anova(order=2): result is not a well-formed TT-tensor with the observed mode sizes: {why}", observed=n)
    ranks = oracle.ranks_of(Y)
    ctx.check(max(ranks) <= r, "anova(order=2): a TT-rank exceeds the requested rank", ranks=ranks, r=r, d=d)
    binds = any(q == r for q in ranks[1:-1])
    if binds:
        ctx.label("cap_binds")
    else:
        ctx.label("values_checked")
        F, pre, Efin = order2_values(ctx, Y, ref, r, B * noise, own, "anova(order=2)", noise=noise)
        if d == 2:
            c = ref["cells"][0, 1]
            obs = ~np.isnan(c)
            tol = pre + ref["tolM"] + Efin
            badv = np.abs(F - np.where(obs, c, 0.0))[obs] - tol[obs]
            ctx.check(not np.any(badv > 0), "anova(order=2, d=2): an observed cell is not reproduced by its sample mean", worst=float(badv.max()))
            if obs.all():
                ctx.label("d2_full_grid_reproduced")

    # the fitted object asked again for cores with another rank: the rank statement and the encoded model hold for every
    # call (only the noise draws differ; they stay inside the same majorant), and the fitted terms are left as they were
    r2 = case.get("r2")
    if r2 is None or case["route"] == "class_rel":
        return
    Y2 = ctx.lib(A.cores, r2, noise)
    why = oracle.wellformed(Y2, n)
    ctx.check(why is None, f"ANOVA.cores (order 2) called again with another rank: malformed result: {why}", observed=n, r=r2)
    ranks2 = oracle.ranks_of(Y2)
    ctx.check(max(ranks2) <= r2, "ANOVA.cores (order 2) called again: a TT-rank exceeds the requested rank", ranks=ranks2, r=r2, first_r=r, d=d)
    if any(q == r2 for q in ranks2[1:-1]):
        ctx.label("second_call_cap_binds")
    else:
        ctx.label("second_call_values_checked")
        order2_values(ctx, Y2, ref, r2, B * noise, own, "ANOVA.cores (order 2) called again", noise=noise, first_r=r)
    check_f01(ctx, A, ref)


# ------------------------------------------------------------------------------------------- additive function on a full grid

@st.composite
def additive_cases(draw, tier):
    big = tier != "quick"
    d = draw(st.integers(2, 5 if big else 4))
    n = _cap([draw(mode_sizes(big)) for _ in range(d)], 1024 if big else 256)
    order = draw(st.sampled_from([1, 2]))
    case = {"n": n, "order": order, "rep": draw(st.integers(1, 3)), "shuffle": draw(st.booleans()), "dseed": draw(gen.seeds),
            "gfam": draw(st.sampled_from(["smallint", "gauss", "gauss", "explicit", "offset"])), "scale10": draw(st.sampled_from([0, 0, 3, -3])),
            "as_list": draw(st.integers(0, 3)) == 0, "ydt": draw(st.sampled_from(YDT)), "idt": draw(st.sampled_from(IDT))}
    if case["gfam"] == "offset":
        case["offset"] = draw(st.sampled_from([1000.0, -250.0, 1.0e6, 100.0]))
    if case["gfam"] == "explicit":
        case["g"] = [[draw(st.one_of(st.integers(-3, 3).map(float), gen.reals(-4, 4))) for _ in range(k)] for k in n]
        case["c"] = draw(gen.reals(-4, 4))
    lk = draw(st.sampled_from(["affine", "identity", "drawn", "big", "big"]))
    if lk == "affine":
        case["labels"] = [[2 * i + 3 for i in range(k)] for k in n]
    elif lk == "identity":
        case["labels"] = [list(range(k)) for k in n]
    elif lk == "big":
        case["labels"], case["idt"] = draw(big_labels(n))
    else:
        case["labels"] = [draw(st.lists(st.integers(-9, 40), min_size=k, max_size=k, unique=True)) for k in n]
    case["labkind"] = lk
    case.update(draw(call_fields(order)))
    case["route"] = "function"
    return case


def prop_additive(case, ctx):
    n = case["n"]
    d = len(n)
    order, r = case["order"], case["r"]
    rng = np.random.default_rng(case["dseed"])
    if case["gfam"] == "explicit":
        g = [np.array(v, dtype=float) for v in case["g"]]; c = float(case["c"])
    elif case["gfam"] == "smallint":
        g = [rng.integers(-3, 4, size=k).astype(float) for k in n]; c = float(rng.integers(-3, 4))
    elif case["gfam"] == "offset":                      # constant far larger than the variation of the univariate terms
        g = [rng.normal(size=k) * 0.1 for k in n]; c = float(case["offset"])
    else:
        g = [rng.normal(size=k) * 2 for k in n]; c = float(rng.normal())
    sc = 10.0 ** case["scale10"]
    g = [v * sc for v in g]; c *= sc
    grid = np.array(list(np.ndindex(*n)), dtype=int)
    J = np.tile(grid, (case["rep"], 1))
    if case["shuffle"]:
        J = J[rng.permutation(len(J))]
    y = np.full(len(J), c)
    for k in range(d):
        y = y + g[k][J[:, k]]
    I = np.column_stack([np.array(case["labels"][k], dtype=int)[J[:, k]] for k in range(d)])
    # the data in the drawn spelling / dtype; from here on y is the float64 array of the values actually passed
    idt, ydt = case_dtypes(case)
    Iarg, I = spell_I(I, idt)
    yarg, ycast = spell_y(y, ydt)
    cast = float(np.max(np.abs(ycast - y)))
    y = ycast
    # position in the tensor = rank of the label among the observed labels of the mode
    rank_of = [np.argsort(np.argsort(case["labels"][k])) for k in range(d)]
    Ytab = np.zeros(n)
    Ytab[tuple(rank_of[k][J[:, k]] for k in range(d))] = y
    mag = abs(c) + sum(float(np.max(np.abs(v))) for v in g)
    # the values passed are additive only up to delta = rounding of their own evaluation + rounding into the drawn dtype;
    # the model is linear in y and reproduces the additive part, so |model(y) - y| <= |model(delta)| + |delta| with
    # |f0(delta)| <= delta, |f1| <= 2 delta per mode, |f2| <= 6 delta per pair
    delta = 4 * (d + 1) * EPS * mag + cast
    drift = (2 * d + 2 + (3 * d * (d - 1) if order == 2 else 0)) * delta

    ref = ref_model(I, y, order)
    ctx.label(f"order={order}", f"d={d}", f"rep={case['rep']}", "g:" + case["gfam"], f"r={r}", "gen:" + case["gen"], f"noise={case['noise']:g}",
              "I_trn:" + idt, "y_trn:" + ydt, "cast_exact" if cast == 0 else "cast_rounds", "labels:" + case["labkind"])
    big_label_classes(ctx, ref["dom"])
    ctx.nontrivial(r > 2 or order == 2 or case["rep"] > 1)
    Y, A, noise, B = run_anova(ctx, case, Iarg, yarg, y, order)
    why = oracle.wellformed(Y, n)
    ctx.check(why is None, f"anova on a full grid: result is not a well-formed TT-tensor of the grid shape: {why}")
    ranks = oracle.ranks_of(Y)
    F = dense(Y)
    if order == 1:
        ctx.check(ranks == [1] + [r] * (d - 1) + [1], "anova(order=1): TT-ranks are not all equal to the requested rank", ranks=ranks, r=r)
        bound, _ = order1_bound(ref, r, B * noise)
        cmp_table(ctx, F, Ytab, bound + ref["tolM"] + drift,
                  "anova(order=1): additive function sampled on a full grid is not reproduced", noise=noise, r=r)
    else:
        ctx.check(max(ranks) <= r, "anova(order=2): a TT-rank exceeds the requested rank", ranks=ranks, r=r)
        if any(q == r for q in ranks[1:-1]):
            ctx.label("cap_binds")
            return
        ctx.label("values_checked")
        pre, Efin = order2_bounds(ref, r, B * noise)
        err = fro(F - Ytab)
        bound = fro(pre + ref["tolM"] + drift) + Efin
        ctx.check(np.all(np.isfinite(F)) and err <= bound, "anova(order=2): additive function sampled on a full grid is not reproduced",
                  err=err, bound=bound, ranks=ranks, noise=noise)
    got = np.asarray(ctx.lib(A, Iarg), dtype=float)
    ctx.check(bool(np.all(np.abs(got - y) <= ref["tolM"].max() + drift)), "ANOVA(I) does not reproduce an additive function on its full grid",
              worst=float(np.max(np.abs(got - y))))


# ------------------------------------------------------------------------------------------- functional variant

# ---- per-dimension boxes of the functional variant.  a / b are documented as "float, list, np.ndarray: grid lower / upper bounds
# for each dimension (list or np.ndarray of length d or float)": every dimension has its OWN interval [a_k, b_k], and the fit of
# dimension k is done in the variable (2x - a_k - b_k)/(b_k - a_k).  Box family `perdim` draws one interval per dimension from a
# catalogue of dyadic intervals (exact in binary32 and in the affine map's numerator): the standard interval, sub-intervals of
# it (touching -1, touching +1, touching neither), [0, 1] (the other library default), negative, positive, wider and
# asymmetric ones, integer ones.  Kinds: `free` (any mix), `unit_hull` (all inside [-1, 1], one dimension starts at -1 and one
# ends at +1: the hull of the box is exactly the default box while single dimensions are narrower), `unit_some` (some
# dimensions exactly [-1, 1], the others anything), `integer` (integer bounds only), `same` (one interval for all dimensions).
IV_UNIT = [-1.0, 1.0]
IV_IN_UNIT = [[-1.0, 1.0], [0.0, 1.0], [-1.0, 0.0], [-0.5, 0.5], [-1.0, 0.5], [-0.25, 0.75], [-0.5, 1.0], [0.0, 0.5], [-0.75, -0.25],
              [-1.0, -0.5], [0.5, 1.0], [-0.25, 0.25], [-1.0, 0.75]]
IV_OTHER = [[-2.0, -1.0], [-3.0, -0.5], [-4.0, -2.0], [1.0, 4.0], [2.0, 3.0], [-2.0, 3.0], [-1.0, 3.0], [-4.0, 1.0], [-2.0, 2.0], [0.0, 2.0],
            [-10.0, 10.0], [0.0, 8.0], [-1.0, 2.0], [-3.0, 1.0], [-1.5, 1.0], [-1.0, 1.25], [0.5, 2.5], [-6.0, -5.0]]
IV_INT = [iv for iv in IV_IN_UNIT + IV_OTHER if all(float(v).is_integer() for v in iv)]
# spellings of the pair (a, b); one that the drawn box does not admit (scalar for a non-constant box, integers for
# non-integer bounds, binary32 for bounds it does not hold) falls back to the list spelling (see spell_box)
BOX_SPELLINGS = ["list", "list", "tuple", "ndarray", "ndarray", "list_int", "ndarray_int", "ndarray_i4", "ndarray_f4", "list_np", "ndarray_strided",
                 "mixed_a", "mixed_b", "scalar", "scalar_int", "scalar_np", "kw_list", "kw_ndarray"]


@st.composite
def perdim_boxes(draw, d):
    kind = draw(st.sampled_from(["free", "free", "unit_hull", "unit_hull", "unit_hull", "unit_some", "integer", "same"]))
    if kind == "free":
        ivs = [draw(st.sampled_from(IV_IN_UNIT + IV_OTHER)) for _ in range(d)]
    elif kind == "unit_hull":
        ivs = [draw(st.sampled_from(IV_IN_UNIT)) for _ in range(d)]
        i, j = draw(st.integers(0, d - 1)), draw(st.integers(0, d - 1))
        if i == j:
            ivs[i] = IV_UNIT
        else:
            ivs[i] = draw(st.sampled_from([iv for iv in IV_IN_UNIT if iv[0] == -1.0]))
            ivs[j] = draw(st.sampled_from([iv for iv in IV_IN_UNIT if iv[1] == 1.0]))
    elif kind == "unit_some":
        ivs = [IV_UNIT if draw(st.booleans()) else draw(st.sampled_from(IV_IN_UNIT + IV_OTHER)) for _ in range(d)]
        ivs[draw(st.integers(0, d - 1))] = IV_UNIT
    elif kind == "integer":
        ivs = [draw(st.sampled_from(IV_INT)) for _ in range(d)]
    else:
        ivs = [draw(st.sampled_from(IV_IN_UNIT + IV_OTHER))] * d
    return kind, [list(iv) for iv in ivs]


def spell_box(a, b, sp):
    """(positional arguments, keyword arguments, name of the spelling used) that hand the box [a_k, b_k] to the library.  All
    spellings denote exactly the float64 values in a / b.  Verified on the unchanged library: Python float / int, np.float64,
    list of floats / ints / np.float64, tuple, ndarray of float64 / float32 / int64 / int32 (also a non-contiguous view), and
    a scalar for one bound with a sequence for the other are all accepted."""
    a = np.asarray(a, dtype=float); b = np.asarray(b, dtype=float)
    const_a = bool(np.all(a == a[0])); const_b = bool(np.all(b == b[0]))
    ints = bool(np.all(a == np.rint(a)) and np.all(b == np.rint(b)))
    f4 = bool(np.all(a.astype(np.float32).astype(float) == a) and np.all(b.astype(np.float32).astype(float) == b))
    if sp == "default" and bool(np.all(a == -1.0) and np.all(b == 1.0)):
        return (), {}, sp
    if sp in ("scalar", "scalar_int", "scalar_np") and const_a and const_b:
        if sp == "scalar_int" and ints:
            return (int(a[0]), int(b[0])), {}, sp
        if sp == "scalar_np":
            return (np.float64(a[0]), np.float64(b[0])), {}, sp
        return (float(a[0]), float(b[0])), {}, "scalar"
    if sp == "tuple":
        return (tuple(a.tolist()), tuple(b.tolist())), {}, sp
    if sp == "ndarray":
        return (a.copy(), b.copy()), {}, sp
    if sp == "ndarray_strided":
        return (_strided(a.copy()), _strided(b.copy())), {}, sp
    if sp == "list_np":
        return ([np.float64(v) for v in a], [np.float64(v) for v in b]), {}, sp
    if sp == "list_int" and ints:
        return ([int(v) for v in a], [int(v) for v in b]), {}, sp
    if sp in ("ndarray_int", "ndarray_i4") and ints:
        dt = np.int64 if sp == "ndarray_int" else np.int32
        return (a.astype(dt), b.astype(dt)), {}, sp
    if sp == "ndarray_f4" and f4:
        return (a.astype(np.float32), b.astype(np.float32)), {}, sp
    if sp == "mixed_a" and const_a:                  # one bound common to all dimensions as a number, the other per dimension
        return (float(a[0]), b.tolist()), {}, sp
    if sp == "mixed_b" and const_b:
        return (a.copy(), float(b[0])), {}, sp
    if sp == "kw_list":
        return (), {"a": a.tolist(), "b": b.tolist()}, sp
    if sp == "kw_ndarray":
        return (), {"b": b.copy(), "a": a.copy()}, sp
    return (a.tolist(), b.tolist()), {}, "list"


@st.composite
def func_cases(draw, tier, boxes=("unit", "scalar", "list", "list", "perdim")):
    big = tier != "quick"
    d = draw(st.integers(2, 5 if big else 4))
    n = draw(st.integers(2, 8 if big else 6))
    box = draw(st.sampled_from(list(boxes)))
    # sample count: free, or placed relative to the mode size n (below / equal / just above / a few multiples)
    mk = draw(st.sampled_from(["free", "free", "free", "n-1", "n", "n", "n+1", "2n", "3n+1"]))
    m = {"free": draw(st.integers(1, 60 if big else 30)), "n-1": n - 1, "n": n, "n+1": n + 1, "2n": 2 * n, "3n+1": 3 * n + 1}[mk]
    case = {"d": d, "n": n, "m": m, "mkind": mk, "box": box, "xseed": draw(gen.seeds),
            "pts": draw(st.sampled_from(["uniform", "uniform", "uniform", "boundary", "dups", "few_values"])),
            "yfam": draw(st.sampled_from(["gauss", "gauss", "cheb_additive", "smallint", "const", "zero", "offset"])),
            "lamb10": draw(st.sampled_from(LAMB_CHOICES)),
            "lsp": draw(st.sampled_from(["float", "float", "np64", "int", "np32"])),
            "e": draw(st.sampled_from([None, None, "default", 1e-8, 1e-4, 1e-2])),
            "scale10": draw(st.sampled_from([0, 0, 3, -3])), "ntest": draw(st.integers(1, 6)), "as_list": draw(st.integers(0, 3)) == 0,
            "xdt": draw(st.sampled_from(XDT)), "ydt": draw(st.sampled_from(YDT))}
    if case["yfam"] == "offset":
        case["offset"] = draw(st.sampled_from([1000.0, -250.0, 1.0e6, 100.0]))
    k = 1 if box == "scalar" else (d if box == "list" else 0)
    case["a"] = [draw(gen.reals(-5, 5)) for _ in range(k)]
    case["w"] = [draw(st.sampled_from([0.5, 1.0, 2.0, 3.7, 10.0])) for _ in range(k)]
    if box == "perdim":
        case["boxkind"], case["ivs"] = draw(perdim_boxes(d))
        case["bsp"] = draw(st.sampled_from(BOX_SPELLINGS))
    # a second spelling of the SAME box (all families): the cores may not depend on how the box is written
    case["bsp2"] = draw(st.sampled_from(BOX_SPELLINGS + ["default", "scalar", "list", "ndarray"]))
    return case


def func_box_cases(tier):
    return func_cases(tier, boxes=("perdim",))


# regularisation values: None = the default (argument not passed); an int p = 10^p; "zero" / "negzero" = exactly 0.0 / -0.0
# (no regularisation: the boundary of lamb >= 0); tiny values (far below the rounding of A^T A) and large ones.  lamb=None is
# not in the domain: the unchanged library rejects it (TypeError in ANOVA_func.coeffs).
LAMB_CHOICES = [None, -8, -7, -6, -4, -3, -2, -1, 0, 1, "zero", "zero", "zero", "zero", "negzero", -300, -20, -12, -10, 3, 6]


def lamb_of(case):
    """(value as a float, argument handed to the library or None for `not passed`).  Spellings of the same number: Python float,
    np.float64, np.float32 (only values that binary32 holds exactly: 0 and 10^p, 0 <= p <= 6), Python int (integer values)."""
    l10 = case["lamb10"]
    if l10 is None:
        return 1e-7, None
    if l10 == "zero":
        v = 0.0
    elif l10 == "negzero":
        v = -0.0
    else:
        v = 10.0 ** l10
    sp = case.get("lsp", "float")
    if sp == "np64":
        return float(v), np.float64(v)
    if sp == "int" and v == int(v) and not (v == 0 and math.copysign(1.0, v) < 0):
        return float(v), int(v)
    if sp == "np32" and float(np.float32(v)) == v:
        return float(v), np.float32(v)
    return float(v), float(v)


def cheb_vander(t, n):
    """T_0..T_{n-1} at the points t by the three-term recurrence (own code)."""
    V = np.ones((len(t), n))
    if n > 1:
        V[:, 1] = t
    for p in range(2, n):
        V[:, p] = 2 * t * V[:, p - 1] - V[:, p - 2]
    return V


def prop_func(case, ctx):
    d, n, m = case["d"], case["n"], case["m"]
    rng = np.random.default_rng(case["xseed"])
    box = case["box"]
    if box == "unit":
        a = np.full(d, -1.0); b = np.full(d, 1.0)
    elif box == "scalar":
        a = np.full(d, case["a"][0]); b = a + case["w"][0]
    elif box == "perdim":
        a = np.array([iv[0] for iv in case["ivs"]], dtype=float); b = np.array([iv[1] for iv in case["ivs"]], dtype=float)
    else:
        a = np.array(case["a"], dtype=float); b = a + np.array(case["w"], dtype=float)

    def points(k):
        U = rng.uniform(0, 1, size=(k, d))
        if case["pts"] == "boundary":
            U = np.where(rng.integers(0, 4, size=U.shape) == 0, rng.integers(0, 2, size=U.shape).astype(float), U)
        elif case["pts"] == "few_values":
            U = rng.integers(0, 3, size=U.shape) / 2.0
        return np.clip(a + (b - a) * U, a, b)

    if "xdt" in case:
        xdt, ydt = case["xdt"], case["ydt"]
    else:
        xdt = ydt = "list" if case["as_list"] else "f8"

    def spell_X(P):
        """(argument for the library, float64 array of the values it denotes); float32 points that rounding put outside the
        box are moved to the neighbouring float32 number inside it (the points are inside the box by construction)."""
        base = xdt.split("_")[0]
        if xdt == "list":
            return P.tolist(), P
        if base == "f4":
            Q = P.astype(np.float32)
            for _ in range(2):
                Q = np.where(Q.astype(float) < a, np.nextafter(Q, np.float32(np.inf)), Q)
                Q = np.where(Q.astype(float) > b, np.nextafter(Q, np.float32(-np.inf)), Q)
            Q = np.ascontiguousarray(Q, dtype=np.float32)
        else:
            Q = P.copy()
        if xdt.endswith("_forder"):
            Q = np.asfortranarray(Q)
        elif xdt.endswith("_strided"):
            Q = _strided(Q)
        R = np.array([[float(v) for v in row] for row in Q], dtype=float).reshape(P.shape)
        assert np.all(R >= a) and np.all(R <= b)
        return Q, R

    X = points(m)
    if case["pts"] == "dups" and m >= 2:
        X[m // 2:] = X[rng.integers(0, m // 2, size=m - m // 2)]
    Xarg, X = spell_X(X)
    t = np.clip((2 * X - a - b) / (b - a), -1.0, 1.0)
    fam = case["yfam"]
    if fam == "gauss":
        y = rng.normal(size=m) * 2 + rng.normal()
    elif fam == "cheb_additive":
        y = np.full(m, rng.normal())
        for k in range(d):
            y = y + cheb_vander(t[:, k], n) @ rng.normal(size=n)
    elif fam == "smallint":
        y = rng.integers(-3, 4, size=m).astype(float)
    elif fam == "const":
        y = np.full(m, 1.75)
    elif fam == "offset":
        y = case["offset"] + 0.1 * rng.normal(size=m)
    else:
        y = np.zeros(m)
    y = y * 10.0 ** case["scale10"]
    yarg, y = spell_y(y, ydt)                        # from here on y = float64 array of the values actually passed
    lamb, larg = lamb_of(case)
    if case["lamb10"] is None:
        ll = "lamb=default"
    elif isinstance(case["lamb10"], str):
        ll = "lamb=0" if case["lamb10"] == "zero" else "lamb=-0"
    else:
        ll = f"lamb=1e{case['lamb10']}"
    ctx.label("box:" + box, "pts:" + case["pts"], "y:" + fam, f"d={d}", f"n={n}", f"e={case['e']}", "X_trn:" + xdt, "y_trn:" + ydt,
              ll, "lamb_arg:" + type(larg).__name__, "m<n" if m < n else ("m==n" if m == n else "m>n"), "m:" + case.get("mkind", "free"))
    ctx.nontrivial(m >= 2 and float(np.ptp(y)) > 0)

    # ---- library calls
    kw = {}
    if larg is not None:
        kw["lamb"] = larg
    if box == "unit":
        pos = (Xarg, yarg, n)
        gkw = {}
    elif box == "scalar":
        pos = (Xarg, yarg, n, float(a[0]), float(b[0]))
        gkw = {"a": float(a[0]), "b": float(b[0])}
    elif box == "perdim":
        bpos, bkw, bsp = spell_box(a, b, case["bsp"])
        pos = (Xarg, yarg, n) + bpos
        kw.update(bkw)
        gkw = {"a": a.copy(), "b": b.copy()}
        unit_hull = float(a.min()) == -1.0 and float(b.max()) == 1.0
        ctx.label("boxkind:" + case["boxkind"], "box_spelling:" + bsp,
                  "hull:" + ("[-1,1]" if unit_hull else ("[0,1]" if float(a.min()) == 0.0 and float(b.max()) == 1.0 else "other")),
                  "dims_equal_[-1,1]:" + ("all" if np.all(a == -1) and np.all(b == 1) else ("some" if np.any((a == -1) & (b == 1)) else "none")))
        if unit_hull and not (np.all(a == -1) and np.all(b == 1)):
            ctx.label("hull_[-1,1]_with_narrower_dimension")
        if np.any(b <= 0):
            ctx.label("box_has_negative_dimension")
        if np.any((a < -1) | (b > 1)):
            ctx.label("box_has_dimension_beyond_[-1,1]")
    else:
        pos = (Xarg, yarg, n, a.tolist() if case["as_list"] else a, b.tolist() if case["as_list"] else b)
        gkw = {"a": pos[3], "b": pos[4]}
    A0 = ctx.lib(teneva.anova_func, *pos, e=None, **kw)
    # ---- the same box in another spelling (default / scalar / list / tuple / ndarray / integers / one bound scalar): the
    # arguments denote the same numbers, so the result is the same (bit for bit: the library turns every spelling into the
    # same float64 bounds before it computes anything; the computation is deterministic)
    if "bsp2" in case:
        bpos2, bkw2, bsp2 = spell_box(a, b, case["bsp2"])
        kw2 = {k: v for k, v in kw.items() if k not in ("a", "b")}
        A0b = ctx.lib(teneva.anova_func, spell_X(X)[0], spell_y(y, ydt)[0], n, *bpos2, e=None, **kw2, **bkw2)
        ctx.check(same_cores(A0, A0b), "anova_func: the same box written in two ways (scalar / list / tuple / ndarray / integer / default "
                  "spelling of a, b) gives different cores", first=[repr(v) for v in pos[3:]] + [repr(kw.get("a")), repr(kw.get("b"))],
                  second=[repr(v) for v in bpos2] + [repr(bkw2.get("a")), repr(bkw2.get("b"))], a=a, b=b,
                  err=fro(dense(A0) - dense(A0b)) if oracle.wellformed(A0b, [n] * d) is None and oracle.wellformed(A0, [n] * d) is None else None)
        ctx.label("box_spelling2:" + bsp2)
    why = oracle.wellformed(A0, [n] * d)
    ctx.check(why is None, f"anova_func(e=None): result is not a well-formed TT-tensor of shape [n]*d: {why}")
    F0 = dense(A0)

    # ---- independent fit of EVERY dimension.  Three regimes per dimension (stated in ASSUMPTIONS):
    #   coef : the ridge system is well posed (lamb >= 1e-8, or 4 dG <= lamb + lambda_min(A^T A), which also covers lamb = 0 on
    #          full-column-rank designs): the coefficients are unique and compared with the reference solve;
    #   pred : lamb < 1e-8 and the design is exactly rank deficient with a gap (q < n distinct abscissae, the q non-zero singular
    #          values within a factor 100): the coefficients are legitimately non-unique (any least-squares solution up to
    #          rounding-sized null components), but the fitted values at the training points are unique (orthogonal projection);
    #   self : otherwise (numerically rank-deficient without a gap): no reference, only the internal consistency of the results.
    y0 = _mean(y)
    t0 = 2 * (m + 4) * EPS * _mean(np.abs(y))
    yc = y - y0
    nyc = float(np.linalg.norm(yc))
    kap = float(np.max((np.abs(a) + np.abs(b) + np.max(np.abs(X), axis=0)) / (b - a)))
    dt = 8 * EPS * (1 + kap)
    p2 = np.arange(n, dtype=float) ** 2
    tT = p2 * dt + 8 * n * EPS                       # deviation of a basis value between two correct evaluations
    dims = []
    for k in range(d):
        V = cheb_vander(t[:, k], n)
        nA = float(np.linalg.norm(V))
        dA = float(np.linalg.norm(tT)) * math.sqrt(m)
        dG = 2 * nA * dA + 2 * m * EPS * nA ** 2 + 32 * n * EPS * (nA ** 2 + lamb)
        db = dA * nyc + 2 * m * EPS * nA * nyc + nA * math.sqrt(m) * (t0 + 2 * EPS * float(np.max(np.abs(yc), initial=0.0)))
        lmin = float(np.linalg.eigvalsh(V.T @ V)[0])
        mu = lamb + max(0.0, lmin - dG)
        D = {"V": V, "regime": "self"}
        if lamb >= 1e-8 or 4 * dG <= mu:
            aug = np.vstack([V, math.sqrt(lamb) * np.eye(n)])
            c = np.linalg.lstsq(aug, np.concatenate([yc, np.zeros(n)]), rcond=None)[0]
            D.update(regime="coef", c=c, tc=8 * (dG * float(np.linalg.norm(c)) + db) / mu)
        else:
            q = min(len(np.unique(X[:, k])), n)
            U, s, Wt = np.linalg.svd(V, full_matrices=False)
            if q < n and s[q - 1] >= 1e-2 * s[0] and (q == len(s) or s[q] <= 1e-10 * s[0]) and s[q - 1] ** 2 >= 64 * dG:
                proj = U[:, :q].T @ yc
                cmn = float(np.linalg.norm(proj / s[:q]))
                # fitted values: first-order bound of the range part (as above, restricted to the range), times the stated
                # factor PRED_F for the coupling with the rounding-sized null part, plus the shrinkage of a tiny lamb > 0
                tp = PRED_F * s[0] * (dG * cmn + db) / (s[q - 1] ** 2 - dG) + lamb / s[q - 1] ** 2 * nyc
                D.update(regime="pred", fit=U[:, :q] @ proj, tp=tp)
        dims.append(D)
    regimes = [D["regime"] for D in dims]
    mode = "coef" if all(g == "coef" for g in regimes) else ("pred" if "self" not in regimes else "self")
    ctx.label("oracle:" + mode)
    if lamb == 0:
        ctx.label("lamb0:" + mode, "lamb0:" + ("m<n" if m < n else ("m==n" if m == n else "m>n")) + ":" + mode)

    # ---- the class spelling: every well-posed dimension against its reference solve
    C = ctx.lib(teneva.ANOVA_func, *pos, **kw)
    cf = ctx.lib(lambda: C.coeffs)
    ctx.check(isinstance(cf, list) and len(cf) == d + 1, "ANOVA_func.coeffs is not [c0, c_1, .., c_d]")
    ctx.check(np.ndim(cf[0]) == 0 and math.isfinite(float(cf[0])), "ANOVA_func.coeffs[0] is not a finite number", got=repr(cf[0]))
    for k in range(d):
        got = np.asarray(cf[k + 1], dtype=float)
        ctx.check(got.shape == (n - 1,) and bool(np.all(np.isfinite(got))), "ANOVA_func.coeffs[k] is not a finite vector of n - 1 "
                  "coefficients", k=k, got=got, lamb=lamb)
        if dims[k]["regime"] == "coef":
            ctx.check(float(np.linalg.norm(got - dims[k]["c"][1:])) <= dims[k]["tc"],
                      "ANOVA_func.coeffs[k] differs from the independent ridge solve", k=k, got=got, ref=dims[k]["c"][1:],
                      tol=dims[k]["tc"], lamb=lamb, m=m)
    if mode == "coef":
        c0 = y0
        tc0 = t0
        for D in dims:
            c0 += D["c"][0]; tc0 += D["tc"] + 4 * EPS * (abs(c0) + abs(D["c"][0]))
        cs = [D["c"][1:] for D in dims]; tcs = [D["tc"] for D in dims]
        ctx.check(abs(float(cf[0]) - c0) <= tc0, "ANOVA_func.coeffs[0] is not the fitted constant", got=float(cf[0]), ref=c0, tol=tc0, lamb=lamb)
        src = "independent fit"
    else:                    # the coefficients the class reports are the reference of the cores (no tolerance of their own)
        c0 = float(cf[0]); tc0 = 0.0
        cs = [np.asarray(v, dtype=float) for v in cf[1:]]; tcs = [0.0] * d
        src = "ANOVA_func.coeffs"

    def powtol(v):
        v = abs(v)
        return 0.0 if v == 0 else 16 * (d + abs(math.log(v)) + 4) * EPS * v

    # ---- the coefficient tensor: c0 at the origin, c_kp on the axes, exact zeros elsewhere
    origin = (0,) * d
    ctx.check(abs(F0[origin] - c0) <= tc0 + powtol(c0), "anova_func(e=None): entry [0..0] is not the fitted constant (mean + sum of the "
              "zero-order ridge coefficients)", got=float(F0[origin]), ref=c0, tol=tc0 + powtol(c0), lamb=lamb, ref_from=src)
    on_axis = np.zeros([n] * d, dtype=bool)
    on_axis[origin] = True
    for k in range(d):
        for p in range(1, n):
            idx = tuple(p if j == k else 0 for j in range(d))
            on_axis[idx] = True
            got = float(F0[idx])
            ctx.check(abs(got - cs[k][p - 1]) <= tcs[k] + powtol(cs[k][p - 1]),
                      "anova_func(e=None): an axis entry is not the ridge coefficient of the one-dimensional Chebyshev fit",
                      k=k, p=p, got=got, ref=float(cs[k][p - 1]), tol=tcs[k], lamb=lamb, ref_from=src)
    ctx.check(bool(np.all(F0[~on_axis] == 0.0)), "anova_func(e=None): a coefficient off the coordinate axes is non-zero (cross term)",
              worst=float(np.max(np.abs(F0[~on_axis]), initial=0.0)))

    # ---- the interpolant at the training points and at fresh points of the box
    Kev = oracle.K_of(A0) + 16 * (d + 44)

    def interpolant(tt):
        """c0 + sum_k sum_p c_kp T_p(t_k) with its tolerance, and the basis tables."""
        Vt = [cheb_vander(tt[:, k], n) for k in range(d)]
        refv = np.full(len(tt), c0)
        maj = np.full(len(tt), abs(c0))
        tolv = np.full(len(tt), tc0)
        for k in range(d):
            refv = refv + Vt[k][:, 1:] @ cs[k]
            maj = maj + np.abs(Vt[k][:, 1:]) @ np.abs(cs[k])
            tolv = tolv + tcs[k] * np.linalg.norm(Vt[k][:, 1:], axis=1) + float(np.abs(cs[k]) @ tT[1:])
        return refv, tolv + Kev * EPS * maj, Vt

    Xtarg, Xt = spell_X(np.vstack([X[:min(m, 8)], points(case["ntest"])]))
    tt = np.clip((2 * Xt - a - b) / (b - a), -1.0, 1.0)
    refv, tolv, Vt = interpolant(tt)
    got = np.asarray(ctx.lib(teneva.func_get, Xtarg, A0, **gkw), dtype=float)
    cmp_table(ctx, got, refv, tolv, "func_get(X, anova_func(e=None)) differs from c0 + sum_k sum_p c_kp T_p(t_k)", lamb=lamb, ref_from=src)

    # ---- no unique coefficients, but unique fitted values: the interpolant at ALL training points is the mean plus the sum
    # over the dimensions of the least-squares fitted values (orthogonal projection of y - mean onto the span of the basis
    # columns at the abscissae of that dimension; the ridge fit where the dimension is well posed)
    if mode == "pred":
        own, tolo, _ = interpolant(t)
        fit = np.full(m, y0)
        tolf = np.full(m, t0) + tolo
        for D in dims:
            if D["regime"] == "coef":
                fit = fit + D["V"] @ D["c"]; tolf = tolf + D["tc"] * np.linalg.norm(D["V"], axis=1)
            else:
                fit = fit + D["fit"]; tolf = tolf + D["tp"]
        gtrn = np.asarray(ctx.lib(teneva.func_get, Xarg, A0, **gkw), dtype=float)
        cmp_table(ctx, gtrn, fit, tolf + 8 * d * EPS * np.abs(fit), "func_get(X_trn, anova_func(e=None)): the fitted values at the training "
                  "points are not the mean plus the sum of the per-dimension least-squares fitted values (rank-deficient design, "
                  "lamb < 1e-8)", lamb=lamb, regimes=regimes, m=m, n=n)

    # ---- truncated cores
    e = case["e"]
    if e is None:
        return
    if e == "default":
        Ae = ctx.lib(teneva.anova_func, *pos, **kw)
        e = 1e-8
    else:
        Ae = ctx.lib(teneva.anova_func, *pos, e=e, **kw)
    why = oracle.wellformed(Ae, [n] * d)
    ctx.check(why is None, f"anova_func(e): result is not a well-formed TT-tensor of shape [n]*d: {why}")
    Ce = ctx.lib(C.cores, e)
    ctx.check(len(Ce) == len(Ae) and all(np.array_equal(g1, g2) for g1, g2 in zip(Ce, Ae)),
              "anova_func(...) and ANOVA_func(...).cores(e) differ on identical arguments")
    nrm = fro(F0)
    R = max(oracle.ranks_of(A0))
    cancel = oracle.K_of(A0) * EPS * nrm            # the cores of A0 carry one non-zero path per entry: |A0| = A0 up to sign
    bound = e * nrm * (1 + 1e-9) + floor_eigh(R, d, nrm + cancel) + cancel
    Fe = dense(Ae)
    err = fro(Fe - F0)
    ctx.check(np.all(np.isfinite(Fe)) and err <= bound, "anova_func(e): truncated coefficient tensor is farther than e*||A|| from the untruncated one",
              err=err, bound=bound, e=e, norm=nrm)
    gote = np.asarray(ctx.lib(teneva.func_get, Xt, Ae, **gkw), dtype=float)
    w = np.ones(len(Xt))
    for k in range(d):
        w = w * (np.linalg.norm(Vt[k], axis=1) + math.sqrt(n) * float(tT.max()))
    maje = np.ones((len(Xt), 1))
    for k in range(d):       # abs-majorant of the evaluation of the truncated cores
        maje = np.einsum('sa,aib,si->sb', maje, np.abs(Ae[k]), np.abs(Vt[k]) + tT[None, :])
    tole = bound * w + tolv + oracle.K_of(Ae) * EPS * maje[:, 0]
    cmp_table(ctx, gote, refv, tole, "func_get(X, anova_func(e)) is farther from the fitted interpolant than the e-scaled bound", e=e)
    if max(oracle.ranks_of(Ae)) < R:
        ctx.label("truncation_reduced_rank")


# ------------------------------------------------------------------------------------------- histories on one object

class HistGen(BoundedGen):
    """BoundedGen whose stream can be re-positioned (so that the object with a history and a fresh object can be handed the
    same stream for one call) and that also answers choice(), which ANOVA.sample asks for."""

    def reset(self, seed):
        self.g = np.random.default_rng(seed)

    def choice(self, a, size=None, replace=True, p=None):
        return self.g.choice(a, size=size, replace=replace, p=p)


HIST_LAYOUTS = ["grid_plus", "grid_plus", "sparse", "sparse", "sparse", "dups", "grid_rep", "explicit", "single"]
HIST_DERIVED = ["same_labels", "same_labels", "permuted", "head", "other_sizes", "other_sizes", "other_d", "other_d"]


@st.composite
def history_cases(draw, tier):
    """One ANOVA object with a drawn history: construction on data set 0, then builds on other data sets (same labels / the
    same samples in another order / the first samples only / other mode sizes / other d), cores() with several ranks and
    noise spellings, __call__, sample(), reads of the public arrays f1_arr / f2_arr, in a drawn order; the history always
    ends with cores() and __call__."""
    big = tier != "quick"
    order = draw(st.sampled_from([1, 2, 2]))
    d0 = draw(st.integers(2, 5 if big else 4))
    n0 = _cap([draw(mode_sizes(big)) for _ in range(d0)], 256 if big else 64)
    sets = [draw(data_fields(tier, HIST_LAYOUTS, n=n0, m_hi=40 if big else 24))]
    for j in range(1, draw(st.integers(2, 4 if big else 3))):
        kind = draw(st.sampled_from(HIST_DERIVED))
        if kind in ("permuted", "head"):
            ds = {"derived": kind, "from": draw(st.integers(0, j - 1)), "pseed": draw(gen.seeds), "frac": draw(st.sampled_from([0.3, 0.5, 0.8]))}
        else:
            if kind == "same_labels":
                n = n0
            elif kind == "other_sizes":
                n = _cap([draw(mode_sizes(big)) for _ in range(d0)], 256 if big else 64)
            else:
                dd = draw(st.sampled_from([x for x in (2, 3, 4, 5) if x != d0 and (big or x <= 4)]))
                n = _cap([draw(mode_sizes(big)) for _ in range(dd)], 256 if big else 64)
            ds = draw(data_fields(tier, HIST_LAYOUTS, n=n, m_hi=40 if big else 24))
            if kind == "same_labels":
                ds["labels"] = sets[0]["labels"]; ds["labkind"] = sets[0]["labkind"]
                if ds["labkind"] == "big":           # the storage drawn with the labels holds them
                    ds["idt"] = sets[0]["idt"]
            ds["derived"] = kind
        sets.append(ds)
    rs = [2, 2, 3, 4, 5, 12] if order == 1 else [2, 3, 4, 8, 50, 50]

    def cores_op():
        return {"op": "cores", "r": draw(st.sampled_from(rs)), "noise": draw(st.sampled_from([0.0, 0.0, 1e-10, 1e-3])),
                "rel": draw(st.sampled_from([None, None, None, 0.0, 1e-9])), "near": draw(st.booleans()),
                "spell": draw(st.sampled_from(["pos", "kw", "default"]))}

    def call_op():
        return {"op": "call", "pseed": draw(gen.seeds), "k": draw(st.integers(1, 6))}

    ops = []
    cur = 0
    for _ in range(draw(st.integers(1, 7 if big else 6))):
        what = draw(st.sampled_from(["build", "build", "build", "load", "cores", "cores", "call", "sample", "arr"]))
        if what in ("build", "load"):                # mostly another data set than the current one, sometimes the same again
            cur = (cur + draw(st.sampled_from([1, 1, 1, 2, 2, 0]))) % len(sets)
            ops.append({"op": what, "set": cur})     # load: the model of that data set saved by another object, then A.load(file)
        elif what == "cores":
            ops.append(cores_op())
        elif what == "call":
            ops.append(call_op())
        elif what == "sample":
            ops.append({"op": "sample", "sq": draw(st.booleans())})
        else:
            ops.append({"op": "arr"})
    if not any(o["op"] in ("build", "load") for o in ops):
        ops.insert(draw(st.integers(0, len(ops))), {"op": "build", "set": draw(st.integers(1, len(sets) - 1))})
    ops += [cores_op(), call_op()]
    return {"order": order, "sets": sets, "ops": ops, "gen": draw(st.sampled_from(["uniform", "clipnormal", "extreme", "plus3", "int"])),
            "gseed": draw(gen.seeds)}


def hist_data(sets, j):
    """(I, y) of data set j as int64 / float64 arrays of the denoted values, and its spelling (idt, ydt)."""
    ds = sets[j]
    if ds.get("derived") in ("permuted", "head"):
        I, y, sp = hist_data(sets, ds["from"])
        rng = np.random.default_rng(ds["pseed"])
        if ds["derived"] == "permuted":
            p = rng.permutation(len(I))
        else:
            p = np.arange(max(1, int(math.ceil(ds["frac"] * len(I)))))
        return I[p], y[p], sp
    I, y, J, Iarg, yarg = make_data(ds)
    return I, y, case_dtypes(ds)


def same_cores(Y1, Y2):
    return (isinstance(Y1, list) and isinstance(Y2, list) and len(Y1) == len(Y2)
            and all(np.shape(a) == np.shape(b) and np.array_equal(a, b) for a, b in zip(Y1, Y2)))


def cores_vs_ref(ctx, Y, ref, order, r, bn, what, **kw):
    """The statement of the property for one cores() result against the recomputed model of the data last built."""
    n = ref["n"]
    d = len(n)
    why = oracle.wellformed(Y, n)
    ctx.check(why is None, f"{what}: result is not a well-formed TT-tensor with the observed mode sizes of the data last built: {why}",
              observed=n, got=[list(np.shape(G)) for G in Y] if isinstance(Y, list) else None, **kw)
    ranks = oracle.ranks_of(Y)
    if order == 1:
        ctx.check(ranks == [1] + [r] * (d - 1) + [1], f"{what}: TT-ranks are not all equal to the requested rank", ranks=ranks, r=r, **kw)
        bound, _ = order1_bound(ref, r, bn)
        cmp_table(ctx, dense(Y), ref["M"], bound + ref["tolM"],
                  f"{what}: dense tensor differs from constant + sum of per-mode terms of the data last built", r=r, **kw)
        return
    ctx.check(max(ranks) <= r, f"{what}: a TT-rank exceeds the requested rank", ranks=ranks, r=r, **kw)
    if any(q == r for q in ranks[1:-1]):
        ctx.label("hist_cap_binds")
    else:
        ctx.label("hist_values_checked")
        order2_values(ctx, Y, ref, r, bn, None, what, **kw)


# ANOVA.load after a cores() / f1_arr / f2_arr access on the same object: "assert" = cores / arrays are claimed afterwards as well,
# "label" = that combination is only labelled (the cached arrays of the previous model survive load on the current tree)
LOAD_AFTER_CORES = "assert"


def prop_history(case, ctx):
    import shutil
    import tempfile
    tmp = tempfile.mkdtemp(prefix="c13hist-", dir="/dev/shm" if os.path.isdir("/dev/shm") else None) \
        if any(o["op"] == "load" for o in case["ops"]) else None
    try:
        _prop_history(case, ctx, tmp)
    finally:
        if tmp is not None:
            shutil.rmtree(tmp, ignore_errors=True)


def _prop_history(case, ctx, tmp):
    import contextlib
    import io
    order, sets, ops = case["order"], case["sets"], case["ops"]
    duck = case["gen"] != "int"
    B = B_DUCK if duck else B_INT
    data, refs = {}, {}

    def get(j):
        if j not in data:
            data[j] = hist_data(sets, j)
            refs[j] = ref_model(data[j][0], data[j][1], order)
        return data[j]

    def args(j):                                     # a new pair of argument objects for every call (nothing is shared)
        I, y, (idt, ydt) = get(j)
        Iarg, I2 = spell_I(I, idt)
        yarg, y2 = spell_y(y, ydt)
        assert np.array_equal(y2, y)
        return Iarg, yarg

    def new_gen():
        return HistGen(case["gen"], case["gseed"]) if duck else int(case["gseed"])

    def fresh(j):
        g = new_gen()
        return ctx.lib(teneva.ANOVA, *args(j), order, g), g

    def quiet(fn, *a):
        with contextlib.redirect_stdout(io.StringIO()):
            return ctx.lib(fn, *a)

    def num_eq(a, b):
        return np.ndim(a) == 0 and np.ndim(b) == 0 and float(a) == float(b)

    def same_state(A, F, step):
        """Documented / public state of the object with a history against the freshly constructed one (no cached array read)."""
        kw = {"step": step, "history": trail}
        ctx.check(int(A.d) == int(F.d) and A.order == F.order, "history: ANOVA.d / order differ from a fresh object on the latest data", got=int(A.d), ref=int(F.d), **kw)
        ctx.check(np.array_equal(A.shapes, F.shapes), "history: ANOVA.shapes differ from a fresh object on the latest data", got=A.shapes, ref=F.shapes, **kw)
        ctx.check(len(A.domain) == len(F.domain) and all(np.array_equal(a, b) for a, b in zip(A.domain, F.domain)),
                  "history: ANOVA.domain differs from a fresh object on the latest data", **kw)
        ctx.check(A.dtype == F.dtype, "history: ANOVA.dtype differs from a fresh object on the latest data", got=str(A.dtype), ref=str(F.dtype), **kw)
        ctx.check(num_eq(A.f0, F.f0) and num_eq(A.y_max, F.y_max) and num_eq(A.y_min, F.y_min),
                  "history: ANOVA.f0 / y_max / y_min differ from a fresh object on the latest data", got=[float(A.f0), float(A.y_max), float(A.y_min)],
                  ref=[float(F.f0), float(F.y_max), float(F.y_min)], **kw)
        for name in ("f1", "f2"):
            ta, tf = getattr(A, name), getattr(F, name)
            ok = isinstance(ta, list) and len(ta) == len(tf)
            for k in range(len(tf) if ok else 0):
                ka, kf = list(ta[k].keys()), list(tf[k].keys())
                ok = ok and ka == kf and all(float(ta[k][x]) == float(tf[k][x]) for x in kf)
            ctx.check(ok, f"history: ANOVA.{name} differs from a fresh object constructed on the latest data", **kw)

    cur = 0
    gh = new_gen()
    A = ctx.lib(teneva.ANOVA, *args(0), order, gh)
    trail = ["init(0)"]
    cores_since_start = False                        # a cores() / f1_arr / f2_arr access happened on A
    cached = False                                   # ... since the last build
    stale = False                                    # load() after such an access, no build since (see LOAD_AFTER_CORES)
    rebuilds = 0
    ctx.label(f"hist_order={order}", "hist_gen:" + case["gen"])
    for t, op in enumerate(ops):
        kind = op["op"]
        if kind in ("build", "load"):
            j = op["set"]
            prev_n = refs[cur]["n"]
            get(j)
            if kind == "build":
                ctx.lib(A.build, *args(j))
                cached = stale = False
            else:
                path = os.path.join(tmp, f"m{t}.pickle")
                S, _ = fresh(j)
                if op.get("warm", t % 2 == 0):       # the saving object may itself have been asked for cores before
                    ctx.lib(S.cores, 2, 0.0)
                ctx.lib(S.save, path)
                ctx.lib(A.load, path)
                ctx.label("load_after_cores_or_arr" if cached else "load_before_any_cores")
                if cached and LOAD_AFTER_CORES != "assert":
                    stale = True
            rebuilds += 1
            trail.append(f"{kind}({j})")
            nn = refs[j]["n"]
            big_label_classes(ctx, refs[j]["dom"])
            ctx.label("rebuild:" + ("same_data" if j == cur else sets[j].get("derived", "set0")),
                      "rebuild:other_d" if len(nn) != len(prev_n) else ("rebuild:same_sizes" if nn == prev_n else "rebuild:other_sizes"),
                      "rebuild_after_cores_or_arr" if cores_since_start else "rebuild_before_any_cores")
            cur = j
            F, gf = fresh(cur)
            same_state(A, F, t)
            check_f01(ctx, A, refs[cur])
            continue
        ref = refs[cur]
        I, y, _ = data[cur]
        d = len(ref["n"])
        F, gf = fresh(cur)
        if stale and kind in ("cores", "arr"):
            ctx.label("not_asserted:cores_after_load_after_cores")
            continue
        if kind == "cores":
            r, noise, rel = op["r"], op["noise"], op["rel"]
            near = bool(op["near"]) and d == 2           # only_near is outside the property text for d >= 3 (ASSUMPTIONS); for d = 2 both spellings select the one pair
            if rel is not None:
                a = (r, noise, near, rel); kw = {}
                noise = rel * float(np.max(np.abs(y))) * (1 + 4 * EPS)
            elif op["spell"] == "kw":
                a = (); kw = {"r": r, "noise": noise, "only_near": near}
            elif op["spell"] == "default" and noise == 1e-10 and not near:
                a = (r,); kw = {}
            else:
                a = (r, noise, near); kw = {}
            trail.append(f"cores(r={r},noise={noise:g}{',near' if near else ''})")
            if duck:
                gh.reset(case["gseed"] + t); gf.reset(case["gseed"] + t)
            Yh = ctx.lib(A.cores, *a, **kw)
            cores_vs_ref(ctx, Yh, ref, order, r, B * noise, "ANOVA.cores after a history on the same object", step=t, history=trail)
            if duck:
                Yf = ctx.lib(F.cores, *a, **kw)
                ctx.check(same_cores(Yh, Yf), "ANOVA.cores on an object with a history differs from the cores of a fresh object constructed on the "
                          "latest data (identical arguments, identical generator stream)", step=t, history=trail,
                          err=fro(dense(Yh) - dense(Yf)) if oracle.wellformed(Yh, ref["n"]) is None else None)
                ctx.label("hist_cores_bit_identical")
            cores_since_start = cached = True
        elif kind == "call":
            rng = np.random.default_rng(op["pseed"])
            pos = np.column_stack([rng.integers(0, k, size=op["k"]) for k in ref["n"]])
            P = np.column_stack([np.array(ref["dom"][k], dtype=np.int64)[pos[:, k]] for k in range(d)])
            trail.append("call")
            got = np.asarray(ctx.lib(A, P), dtype=float)
            exp = np.asarray(ctx.lib(F, P), dtype=float)
            ctx.check(got.shape == (len(P),) and np.array_equal(got, exp), "ANOVA(I) on an object with a history differs from a fresh object "
                      "constructed on the latest data", step=t, history=trail, got=got, ref=exp)
            idx = tuple(pos[:, k] for k in range(d))
            cmp_table(ctx, got, ref["M"][idx], ref["tolM"][idx], "ANOVA(I) after a history differs from the recomputed model of the data last built",
                      step=t, history=trail)
            ctx.inner(len(P))
        elif kind == "sample":
            trail.append("sample")
            if duck:
                gh.reset(case["gseed"] + t); gf.reset(case["gseed"] + t)
            sh = quiet(A.sample, None, 1e-10, bool(op["sq"]))
            ctx.check(isinstance(sh, list) and len(sh) == d and all(int(x) in ref["dom"][k] for k, x in enumerate(sh)),
                      "ANOVA.sample after a history: not one observed index value per mode of the data last built", got=repr(sh), step=t, history=trail)
            if duck:
                sf = quiet(F.sample, None, 1e-10, bool(op["sq"]))
                ctx.check([int(x) for x in sh] == [int(x) for x in sf], "ANOVA.sample on an object with a history differs from a fresh object "
                          "(identical generator stream)", got=repr(sh), ref=repr(sf), step=t, history=trail)
        else:
            trail.append("arr")
            for name in ("f1_arr", "f2_arr"):
                ah = ctx.lib(lambda: getattr(A, name)); af = ctx.lib(lambda: getattr(F, name))
                ctx.check(len(ah) == len(af) and all(np.shape(u) == np.shape(v) and np.array_equal(u, v) for u, v in zip(ah, af)),
                          f"ANOVA.{name} on an object with a history differs from a fresh object constructed on the latest data",
                          step=t, history=trail)
            for k in range(d):
                ctx.check(np.shape(A.f1_arr[k]) == (ref["n"][k],) and bool(np.all(np.abs(A.f1_arr[k] - ref["f1"][k]) <= ref["t1"][k])),
                          "ANOVA.f1_arr[k] is not the table of conditional means minus the mean of the data last built", k=k, step=t, history=trail)
            cores_since_start = cached = True
        same_state(A, F, t)
    check_f01(ctx, A, refs[cur])
    ctx.label(f"rebuilds={min(rebuilds, 3)}")
    ctx.nontrivial(rebuilds >= 1)


@st.composite
def func_history_cases(draw, tier):
    big = tier != "quick"
    d = draw(st.integers(2, 4))
    n = draw(st.integers(2, 8 if big else 6))
    return {"d": d, "n": n, "m": draw(st.integers(1, 40 if big else 20)), "xseed": draw(gen.seeds),
            "box": draw(st.sampled_from(["unit", "list", "perdim"])), "a": [draw(gen.reals(-5, 5)) for _ in range(d)],
            "ivs": draw(perdim_boxes(d))[1], "bsp": draw(st.sampled_from(BOX_SPELLINGS)),
            "w": [draw(st.sampled_from([0.5, 1.0, 2.0, 3.7])) for _ in range(d)],
            "lamb": draw(st.sampled_from([None, 1e-7, 1e-3, 1.0, 0.0])), "xdt": draw(st.sampled_from(["f8", "f4", "list"])),
            "ydt": draw(st.sampled_from(["f8", "f4", "list", "i8"])),
            "ops": draw(st.lists(st.sampled_from(["coeffs", "default", None, None, 1e-8, 1e-4, 1e-2, 0.5]), min_size=2, max_size=6))}


def prop_func_history(case, ctx):
    """One ANOVA_func object asked repeatedly (coeffs, cores(e) for several e, in a drawn order): every answer equals the
    answer of a fresh object / of the function on identical arguments, bit for bit (the computation is deterministic)."""
    d, n, m = case["d"], case["n"], case["m"]
    rng = np.random.default_rng(case["xseed"])
    if case["box"] == "unit":
        a = np.full(d, -1.0); b = np.full(d, 1.0); box = ()
    elif case["box"] == "perdim":                    # a different interval per dimension, in a drawn spelling (new objects per call)
        a = np.array([iv[0] for iv in case["ivs"]], dtype=float); b = np.array([iv[1] for iv in case["ivs"]], dtype=float); box = None
    else:
        a = np.array(case["a"], dtype=float); b = a + np.array(case["w"], dtype=float); box = (a.tolist(), b.tolist())
    X = a + (b - a) * rng.uniform(0.02, 0.98, size=(m, d))
    y = rng.normal(size=m) * 2 + rng.normal()
    kw = {} if case["lamb"] is None else {"lamb": case["lamb"]}
    if box is None:
        kw.update(spell_box(a, b, case["bsp"])[1])

    def args():
        Xa = X.tolist() if case["xdt"] == "list" else (X.astype(np.float32) if case["xdt"] == "f4" else X.copy())
        bx = spell_box(a, b, case["bsp"])[0] if box is None else tuple(list(v) for v in box)
        return (Xa, spell_y(y, case["ydt"])[0], n) + bx

    ctx.label("fh_box:" + case["box"], f"fh_lamb={case['lamb']}", "fh_X:" + case["xdt"], "fh_y:" + case["ydt"])
    ctx.nontrivial(m >= 2 and len(set(map(str, case["ops"]))) >= 2)

    def same_coeffs(c1, c2):
        return (len(c1) == len(c2) == d + 1 and float(c1[0]) == float(c2[0])
                and all(np.shape(u) == np.shape(v) and np.array_equal(u, v) for u, v in zip(c1[1:], c2[1:])))

    C = ctx.lib(teneva.ANOVA_func, *args(), **kw)
    first = None
    trail = []
    for t, op in enumerate(case["ops"]):
        Fr = ctx.lib(teneva.ANOVA_func, *args(), **kw)
        trail.append(str(op))
        if op == "coeffs":
            got = ctx.lib(lambda: C.coeffs); exp = ctx.lib(lambda: Fr.coeffs)
            ctx.check(same_coeffs(got, exp), "ANOVA_func.coeffs read after a history of calls differs from a fresh object", step=t, history=trail)
            continue
        ea = () if op == "default" else (op,)
        got = ctx.lib(C.cores, *ea)
        exp = ctx.lib(Fr.cores, *ea)
        fun = ctx.lib(teneva.anova_func, *args(), **kw, **({} if op == "default" else {"e": op}))
        ctx.check(same_cores(got, exp), "ANOVA_func.cores(e) after a history of calls on the same object differs from a fresh object "
                  "(identical arguments)", step=t, history=trail, e=op)
        ctx.check(same_cores(exp, fun), "anova_func(...) and ANOVA_func(...).cores(e) differ on identical arguments", e=op)
        ctx.label("fh_e=" + str(op))
    got = ctx.lib(lambda: C.coeffs)
    exp = ctx.lib(lambda: ctx.lib(teneva.ANOVA_func, *args(), **kw).coeffs)
    ctx.check(same_coeffs(got, exp), "ANOVA_func.coeffs after a history of calls differs from a fresh object", history=trail)


SUBCHECKS = [
    Sub("order1", prop_order1, strategy=order1_cases, quick=300, thorough=6000),
    Sub("order2", prop_order2, strategy=order2_cases, quick=250, thorough=5000),
    Sub("order2_wide", prop_order2, strategy=wide_cases, quick=100, thorough=600),
    Sub("additive", prop_additive, strategy=additive_cases, quick=150, thorough=3000),
    Sub("func", prop_func, strategy=func_cases, quick=200, thorough=4000),
    Sub("func_boxes", prop_func, strategy=func_box_cases, quick=120, thorough=2500),
    Sub("history", prop_history, strategy=history_cases, quick=150, thorough=2500),
    Sub("func_history", prop_func_history, strategy=func_history_cases, quick=60, thorough=800),
]
