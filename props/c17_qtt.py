"""C17 - QTT conversion and index maps are mutually inverse and value-preserving.

Sub-checks
    index    exhaustive: every multi-index of every (q, d) with q*d <= 12 (thorough 16) through both index maps
    deep     sampled: q 1..62 (the whole range in which n = 2^q and the indices are signed 64-bit integers), d 1..3, indices
             built from Python ints (0, 1, 2^q - 1, 2^q - 2, 2^(q-1) +- 1, 2^k +- 1 for k at the 8/16/24/31/32/53/54-bit
             boundaries, alternating and random bit patterns) through both index maps and both compositions against a
             pure-Python big-integer bit reference; batch / list / batch-of-one / single spellings, n as int or np.int64,
             narrower integer dtypes of the argument arrays, integer type of the result wide enough for 2^q - 1;
             1..3 blocks with different (q, d) inside one case
    convert  generated TT-tensors of shape [2^q]*d -> tt_to_qtt -> qtt_to_tt / get_many, accuracy, ranks, caps
    merge    generated QTT-tensors -> qtt_to_tt, entries at the binary expansion (all four functions together)
    reject   non-power-of-two mode sizes => ValueError (ind_tt_to_qtt, core_tt_to_qtt, tt_to_qtt, optima_qtt), fresh process
    walk     the whole index-map enumeration of every (q, d) inside ONE case, in descending / zigzag / strided / there-and-
             back (q, d) orders, with the rejection of the sizes next to 2^q after every visit (state kept by the library
             for one quantisation level, dimension or batch size must not leak into another)
    history  drawn call sequences inside ONE case: valid calls with the neighbouring powers of two first (all four
             functions, drawn order), then drawn valid / invalid steps, then invalid -> valid for every function; every
             step is judged by a state-independent oracle (ValueError for an invalid size, exact bits / shape, ranks and
             accuracy for a valid one) and an identical valid call repeated later must give the same result
    dtype    element types of the cores: TT-tensors / QTT-tensors whose cores are int64 / int32 / int16 / float32 arrays (one
             type for all cores, or mixed with float64) through core_tt_to_qtt, tt_to_qtt, core_qtt_to_tt, qtt_to_tt; all
             oracles of `convert` / `merge` against the float64 copy of the values, plus: the result for the typed cores and the
             result for their float64 copy denote the same tensor (sum of the two bounds) and have the same ranks when nothing
             may be cut; merging integer QTT-cores is exact (derivation: comment above `prop_dtype`)
    layout   memory layout of every array argument: index batches / single indices / bit strings (q 1..62), TT-cores and
             QTT-cores handed over C-ordered, Fortran-ordered (np.asfortranarray), as a transposed view (np.array(cols).T), as
             every other (third) row / column of a larger array, with negative strides, and in drawn combinations (memory
             order of the axes x step per axis x offset) with the same logical contents: results as for the C-ordered copy
             plus all oracles of `index` / `convert` / `merge` (details: comment above LAY_NAMED); `index` also runs every
             block of the enumeration through four of these layouts
    gauge    QTT-cores re-gauged by exact powers of two INSIDE a mode (exponents of mixed signs, |s| <= 1000, every prefix
             product and the total representable, suffix / inner sub-products up to 2^+-1400, i.e. not representable):
             qtt_to_tt / core_qtt_to_tt must return 2^(sum s) times the merge of the unscaled cores (rounding bound of one
             evaluation; == for small-integer cores); unscaled cores Gaussian, small integers, or the result of tt_to_qtt of a
             Gaussian TT (then also: the re-gauged round trip returns the cores of Y within the accuracy model); derivation:
             comment above G_PMAX

Tolerance model of `convert` (derivation)
    core_tt_to_qtt factorises q matrices per core with matrix_svd (eigen-decomposition of B B^T or B^T B).  Each
    step replaces B by a projection P B (or B P); the dropped part has squared norm sum_dropped u_j^T C u_j <=
    e^2 + (number dropped) * ||dC||, where dC is the backward error of forming C and of eigh, ||dC|| <= S*eps*||B||^2
    with S = n*max(r1, r2) >= every dimension of every intermediate matrix.  Hence per step
        ||B - U V||_F <= e + nu,     nu = 4*S*sqrt(eps)*||G||_F   (the "1e-7 floor" of DESIGN C03; observed <= 1.3e-8)
    The error of step t reaches the core through the factors V of the earlier steps.  Rows of V are orthonormal
    except for retained directions whose computed eigenvalue is at the rounding level nu^2; such directions exist
    only if neither of the following holds, and then no accuracy is claimed (labelled, shape/rank claims remain):
        regime T  e >= 100*nu: every retained eigenvalue is >= e^2 - nu^2, row norms of V <= 1 + 1e-4
        regime L  every unfolding M_j of the core (rows = left rank and the j low bits) has its generic rank g_j with
                  sigma_{g_j}(M_j) >= 100*q*nu, and e <= sigma_min/2: nothing is cut, nothing is at rounding level, every
                  step is U U^T B with a complete orthogonal U, i.e. exact up to 64*S*eps*||G||_F (observed <= 0.8*S*eps)
    The q step errors are mutually orthogonal in exact arithmetic (rows of E_t are orthogonal to the rows of V_t, the
    later errors enter as D V_t), so they add in quadrature as in TT-SVD: sum_t ||E_t||^2 <= q*e^2.  With the rounding
    terms added linearly (cross terms <= nu^2/e <= nu/100 in regime T):
        ||merge(core_tt_to_qtt(G)) - G||_F <= b = 1.001*(sqrt(q)*e + q*nu)  in regime T,
                                                  1.001*(sqrt(q)*e + q*64*S*eps*||G||_F)  in regime L.
    Tensor level: ||T(G+dG) - T(G)||_F <= prod(||G_k||_F + b_k) - prod ||G_k||_F  (multilinearity, sub-multiplicativity).
    The cap r cannot bind iff int(r) >= max_j g_j for every core; otherwise only shape/rank/consistency claims.
    The consistency claims (QTT entry at the bits == entry of qtt_to_tt(QTT)) involve no truncation and carry the
    abs-majorant rounding bound only.
"""
import math
import numpy as np
from hypothesis import strategies as st

import harness.core  # noqa: F401  (sets sys.path for the code under test)
from harness.core import Sub
from harness import gen, oracle
from harness.oracle import EPS, dense, dense_abs, K_of, fro, ranks_of

import teneva

LEVEL = "exploration"
RULE = ("index: exhaustive enumeration of all 2^(q*d) multi-indices for every (q, d) with q*d <= 12 (thorough 16), in "
        "blocks of 512, batch (ndarray and list) and single spellings, against own shift/mask arithmetic. convert: "
        "Hypothesis draws q 1..4(5), d 1..6 with q*d <= 10(14), TT specs of shape [2^q]*d (all rank and value "
        "families), accuracy e (0, default, tiny/big relative to the core norms, absolute) and cap r (default, "
        "non-binding, binding, fractional); oracle = own dense chain and own bit regrouping. merge: random QTT-tensors. "
        "deep: q 1..62 (half of the draws in 48..62 or at a word-size edge), d 1..3, 4..8 (thorough 15) multi-indices per block from the "
        "families corner / 2^k +- small / random bits / spanning all q digits / mostly ones / mostly zeros, always with the "
        "rows [2^q - 1]*d and [0]*d, 1..3 blocks per case; oracle = Python big-integer shift/mask; non-trivial = q >= 13 (beyond "
        "the enumeration). reject: random non-power-of-two mode sizes 3..40(300), d 2..3 (and the d = 1 spellings), for the index map also sizes 2^k +- 1, 2^k + 3, 2^k + 2^(k/3), 2^k + 2^(k-1) - 1 with k 20..62 as int / np.int64 (and 2^k itself accepted). Non-trivial = q >= 2 and "
        "d >= 2 (index, convert, merge), every case of reject; distinct by SHA-1 of the case. walk: 16 (thorough 32) fixed "
        "visiting orders of all (q, d) with q*d <= 12 (16): descending, zigzag, there-and-back, arithmetic strides; every visit "
        "enumerates all 2^(q*d) multi-indices in batch, a strided sample in the single spellings, and the invalid sizes "
        "2^q - 1, 2^q + 1, 2^(q+1) - 1, 3*2^(q-1), 3*2^q. history: q 1..4(6), d 2..3, sizes from {2^(q-1), 2^q, 2^(q+1)} and the "
        "non-powers of two in (2^(q-1), 2^(q+2)); 4 functions x 4 argument spellings x 2 data variants per step; "
        "non-trivial = some invalid step follows a valid step (every case, by construction). dtype: q 1..4(5), d 1..4, q*d <= 10(14), "
        "ranks 1..4 (QTT side 1..3), element type per core from int64 / int32 / int16 / float32 (all cores alike, or drawn per core "
        "incl. float64), values small integers -3..3, 0/1, 0..9, -9..9 (exactly representable in every type; integer Gram matrix "
        "and integer merge cannot overflow by construction) or Gaussian (floating types), accuracy / cap families of convert, "
        "core-level arguments default / (e) / (e, r); non-trivial = q >= 2 and some integer core. layout: index part q 1..62, d 1..5, "
        "1..6(12) rows, argument dtypes of deep; conversion part q 1..4(5), d 1..3, q*d <= 9(12), ranks 1..3, Gaussian or small-integer "
        "cores, arguments default / (1e-6, 3) / (1e-10, 100) / (0, 1e12); every array in the 10 named layouts (C, F, T, rows2, cols2, "
        "both2, neg0, neg1, negall, F_neg_strided) and 3(6) drawn ones (axis permutation of the buffer, step in {1, 2, 3, -1, -2} and "
        "offset 0..2 per axis), skipped buffer elements filled with in-domain junk; non-trivial = index batch with >= 2 rows and d >= 2. "
        "gauge: q 1..5(7) (three quarters of the draws q >= 3), d 1..3, q*d <= 12(16), QTT ranks 1..3, unscaled cores Gaussian / integers -3..3 / "
        "tt_to_qtt(Gaussian TT of ranks 1..3; arguments default, (0, 100), (1e-10, 100), (1e-6, 3)); per mode an exponent vector from the families "
        "up (first core 2^-300..-700, prefixes rising to 2^+100..700), down (mirror image), walk (prefix exponents drawn in [-700, 700], half of them "
        "from {-700, -600, 0, 600, 700}), flat (|s| <= 40), single exponents clamped to |s| <= 1000; non-trivial = q >= 3 and some sub-product of >= 2 "
        "cores that is not a prefix has |exponent| >= 1100 (it is not a double).")
TOLERANCES = ("index maps: exact (compared as Python integers, for every q <= 62). consistency QTT vs qtt_to_tt(QTT): 2*32*(dq+sum r+2)*eps*E(|cores|) elementwise (== for "
              "small-integer cores). accuracy per core: 1.001*(sqrt(q)*e + q*4*S*sqrt(eps)*||G||_F) in regime T (e >= 100x that floor), "
              "1.001*(sqrt(q)*e + q*64*S*eps*||G||_F) in regime L (well-conditioned core, nothing cut), S = n*max(r1,r2) "
              "(see module docstring), tensor: prod(||G_k||+b_k) - prod||G_k|| in Frobenius norm; none when the cap may bind. "
              "history: the same bounds per step; a repeated identical valid call: index maps ==, conversions within the sum of "
              "the two accuracy bounds (no bit-for-bit claim on floats); optima_qtt: returned values vs own dense entry within "
              "2*K*eps*E(|cores|). dtype: integer cores = the float64 bounds on the float64 copy; float32 cores = the same formulas with "
              "eps32 = 2^-23, regime L from sigma_min(unfoldings) >= 32*q*sqrt(S*eps32)*||G||_F (observed error <= 0.006 of the bound); "
              "typed vs float64 copy: sum of the two bounds; merge of integer-valued cores: == (rounding bound with eps32 / eps otherwise). "
              "layout: index maps ==; merge / get_many of small-integer cores == and of Gaussian cores within 2x the elementwise abs-majorant "
              "rounding bound of the C-ordered result (no bit-for-bit claim on floats across stride patterns); core_tt_to_qtt / tt_to_qtt: "
              "the accuracy bounds of convert per layout, layout vs C-ordered copy within the sum of the two bounds, equal ranks in regime L. "
              "gauge: |H - 2^S*ref| <= 2^S*(2*32*(q + sum r + 2)*eps*Abs + 4*q*rmax*2^(700-1075)*B) elementwise (ref = own bit-by-bit chain on the "
              "unscaled cores, Abs = the same on their absolute values, second term = gradual-underflow allowance, about 1e-110); == for integer cores; "
              "re-gauged round trip: the per-core accuracy bound of convert + 2x that tolerance in Frobenius norm")
ASSUMPTIONS = ["TT side d >= 1 is evaluated with the harness' own dense chain; teneva.get_many is only called on tensors with >= 2 cores",
               "q >= 1 (mode size 1 = 2^0 is outside the quantifier)",
               "index maps: 1 <= q <= 62. The maps work on NumPy's default integer (signed 64-bit here): n = 2^q and every index "
               "must be representable, and the unmodified library serves exactly q <= 62 (q = 63: ValueError 'dimensions are too "
               "large' from unravel_index / ravel_multi_index, q >= 64: OverflowError); nothing is claimed about q >= 63. "
               "n is passed as a Python int or np.int64, q as a Python int, index / bit arrays as integer ndarrays or lists of ints",
               "cap r >= 1 and accuracy e >= 0",
               "accuracy is claimed only in regimes T/L of the module docstring and only if int(r) >= every structural rank; "
               "other cases are counted under the label accuracy_not_claimed / cap_may_bind",
               "history: Gaussian cores of O(1) magnitude, ranks <= 3, optima_qtt only with d >= 2; of optima_qtt only the shape of "
               "the result, the index ranges and value == entry at the returned index are asserted (optimality is C15)",
               "dtype: element types int64, int32, int16 (values small enough that max(r1*n, r2)*max|G|^2 and every partial product of a "
               "merge fit the type) and float32. bool, int8, uint8 and float16 cores are outside the quantifier: on the unmodified "
               "library bool cores are multiplied with logical or/and (A @ A.T and tensordot of bool arrays), 8-bit Gram matrices wrap "
               "around, float16 is rejected by numpy.linalg (TypeError)",
               "layout: array arguments are ndarrays of any strides (positive, negative, non-contiguous; no zero strides / broadcast views, "
               "no read-only flag, no ndarray subclasses), element types as in deep (index arrays) and float64 (cores)",
               "gauge: QTT-cores = (cores with entries of magnitude O(1)) x 2^s_j with, per mode, every prefix sum s_0 + ... + s_j (the total included) "
               "in [-700, 700] and |s_j| <= 1000, by construction. These are the intermediates of the documented chained contraction (core_qtt_to_tt "
               "starts from the first core and multiplies the next one from the right); on the unmodified library every such case is served without "
               "overflow or underflow. Nothing is assumed about the other sub-products (they are not representable in the non-trivial cases). "
               "Scales whose PREFIX products leave the double range are outside the quantifier (the unmodified library returns inf / 0 there)",
               "NumPy/LAPACK reference arithmetic is correct"]

SQ = math.sqrt(EPS)


# ------------------------------------------------------------------------------------------- own index arithmetic

def own_bits(I, q):
    """(m, d) multi-indices -> (m, d*q) little-endian bits, by shift and mask (not teneva, not unravel_index)."""
    I = np.asarray(I, dtype=np.int64)
    m, d = I.shape
    out = np.empty((m, d * q), dtype=np.int64)
    for k in range(d):
        for j in range(q):
            out[:, k * q + j] = (I[:, k] >> j) & 1
    return out


def own_unbits(B, q):
    B = np.asarray(B, dtype=np.int64)
    m, dq = B.shape
    d = dq // q
    out = np.zeros((m, d), dtype=np.int64)
    for k in range(d):
        for j in range(q):
            out[:, k] += B[:, k * q + j] << j
    return out


def all_indices(q, d, lo=0, hi=None):
    """Multi-indices number lo..hi-1 of shape [2^q]*d (mode 0 fastest; any bijection would do)."""
    hi = 2 ** (q * d) if hi is None else hi
    t = np.arange(lo, hi, dtype=np.int64)
    return np.stack([(t >> (q * k)) & (2 ** q - 1) for k in range(d)], axis=1)


def group(D, q, d):
    """Dense QTT array (axes: mode-major, least significant bit first) -> dense array of shape [2^q]*d."""
    D = np.asarray(D)
    perm = [k * q + (q - 1 - j) for k in range(d) for j in range(q)]
    return D.transpose(perm).reshape([2 ** q] * d)


def is_int_array(x, shape):
    return isinstance(x, np.ndarray) and x.shape == tuple(shape) and np.issubdtype(x.dtype, np.integer)


# ------------------------------------------------------------------------------------------- index maps (exhaustive)

BLOCK = 512


def index_blocks(tier, shard, nshards):
    lim = 12 if tier == "quick" else 16
    j = 0
    for q in range(1, lim + 1):
        for d in range(1, lim // q + 1):
            total = 2 ** (q * d)
            for lo in range(0, total, BLOCK):
                if j % nshards == shard:
                    yield {"q": q, "d": d, "lo": lo, "hi": min(total, lo + BLOCK)}
                j += 1


def prop_index(case, ctx):
    q, d, lo, hi = case["q"], case["d"], case["lo"], case["hi"]
    n = 2 ** q
    I = all_indices(q, d, lo, hi)
    m = I.shape[0]
    B = own_bits(I, q)
    ctx.label(f"q={q}", f"d={d}")
    ctx.nontrivial(q >= 2 and d >= 2)
    ctx.inner(m - 1)

    # batch spelling, ndarray
    got = ctx.lib(teneva.ind_tt_to_qtt, I.copy(), n)
    ctx.check(is_int_array(got, (m, d * q)), "ind_tt_to_qtt(batch): not an integer ndarray of shape [samples, d*q]",
              type=type(got).__name__, shape=getattr(got, "shape", None), dtype=str(getattr(got, "dtype", None)))
    ctx.check(bool(np.all((got == 0) | (got == 1))), "ind_tt_to_qtt: output is not a bit string")
    ctx.check(bool(np.all(own_unbits(got, q) == I)), "ind_tt_to_qtt: bits are not the little-endian expansion (sum b_j 2^j != i)",
              q=q, d=d, first_bad=_first_bad(own_unbits(got, q), I, I, got))
    ctx.check(bool(np.all(got == B)), "ind_tt_to_qtt(batch) differs from shift/mask bits", first_bad=_first_bad(got, B, I, got))
    ctx.check(len(np.unique(got, axis=0)) == m, "ind_tt_to_qtt is not injective on this block")
    back = ctx.lib(teneva.ind_qtt_to_tt, got.copy(), q)
    ctx.check(is_int_array(back, (m, d)), "ind_qtt_to_tt(batch): not an integer ndarray of shape [samples, d]",
              shape=getattr(back, "shape", None))
    ctx.check(bool(np.all(back == I)), "ind_qtt_to_tt(ind_tt_to_qtt(I)) != I", first_bad=_first_bad(back, I, I, got))
    # the inverse map on its own (independent of the forward map), and the other composition
    It = ctx.lib(teneva.ind_qtt_to_tt, B.copy(), q)
    ctx.check(is_int_array(It, (m, d)) and bool(np.all(It == I)), "ind_qtt_to_tt(bits) is not sum b_j 2^j",
              first_bad=_first_bad(It, I, I, B) if isinstance(It, np.ndarray) and It.shape == I.shape else None)
    B2 = ctx.lib(teneva.ind_tt_to_qtt, It, n)
    ctx.check(isinstance(B2, np.ndarray) and B2.shape == B.shape and bool(np.all(B2 == B)), "ind_tt_to_qtt(ind_qtt_to_tt(B)) != B")

    # batch spelling, list of lists; batch of one row keeps two axes
    gl = ctx.lib(teneva.ind_tt_to_qtt, I.tolist(), n)
    ctx.check(is_int_array(gl, (m, d * q)) and bool(np.all(gl == B)), "ind_tt_to_qtt(list of lists) differs from the ndarray spelling")
    bl = ctx.lib(teneva.ind_qtt_to_tt, B.tolist(), q)
    ctx.check(is_int_array(bl, (m, d)) and bool(np.all(bl == I)), "ind_qtt_to_tt(list of lists) differs from the ndarray spelling")
    g1 = ctx.lib(teneva.ind_tt_to_qtt, I[:1].copy(), n)
    ctx.check(is_int_array(g1, (1, d * q)) and bool(np.all(g1 == B[:1])), "ind_tt_to_qtt(batch of one) is not of shape [1, d*q]")
    b1 = ctx.lib(teneva.ind_qtt_to_tt, B[:1].copy(), q)
    ctx.check(is_int_array(b1, (1, d)) and bool(np.all(b1 == I[:1])), "ind_qtt_to_tt(batch of one) is not of shape [1, d]")

    # the same batch in other memory layouts (Fortran order, transposed view, every other row / column of a larger array with
    # reversed axes); the skipped elements of the buffer hold valid indices / bits (section "memory layout" below)
    for spec in ("F", "T", "both2", "F_neg_strided"):
        Il = relayout(I, spec, lambda sh: (np.arange(int(np.prod(sh)), dtype=np.int64).reshape(sh) * 7 + lo + 3) % n)
        gl = ctx.lib(teneva.ind_tt_to_qtt, Il, n)
        ctx.check(is_int_array(gl, (m, d * q)) and bool(np.all(gl == B)), "ind_tt_to_qtt(batch) depends on the memory layout of the batch",
                  layout=spec, strides=Il.strides, first_bad=_first_bad(gl, B, I, gl) if is_int_array(gl, (m, d * q)) else None)
        Bl = relayout(B, spec, lambda sh: (np.arange(int(np.prod(sh)), dtype=np.int64).reshape(sh) // 3 + lo) % 2)
        bl = ctx.lib(teneva.ind_qtt_to_tt, Bl, q)
        ctx.check(is_int_array(bl, (m, d)) and bool(np.all(bl == I)), "ind_qtt_to_tt(batch) depends on the memory layout of the batch",
                  layout=spec, strides=Bl.strides, first_bad=_first_bad(bl, I, I, B) if is_int_array(bl, (m, d)) else None)

    # single spelling for every index (alternating ndarray / list arguments)
    for t in range(m):
        as_list = (t + lo) % 2 == 1
        i_arg = [int(v) for v in I[t]] if as_list else I[t].copy()
        s = ctx.lib(teneva.ind_tt_to_qtt, i_arg, n)
        ctx.check(is_int_array(s, (d * q,)) and bool(np.all(s == B[t])), "ind_tt_to_qtt(single index) differs from the batch result",
                  i=I[t], got=s, ref=B[t], as_list=as_list)
        b_arg = [int(v) for v in B[t]] if as_list else B[t].copy()
        s = ctx.lib(teneva.ind_qtt_to_tt, b_arg, q)
        ctx.check(is_int_array(s, (d,)) and bool(np.all(s == I[t])), "ind_qtt_to_tt(single index) differs from the batch result",
                  bits=B[t], got=s, ref=I[t], as_list=as_list)


def _first_bad(got, ref, I, B):
    got = np.asarray(got)
    ref = np.asarray(ref)
    if got.shape != ref.shape:
        return {"shape": got.shape, "ref_shape": ref.shape}
    bad = np.nonzero(np.any(got != ref, axis=1))[0]
    if len(bad) == 0:
        return None
    t = int(bad[0])
    return {"i": np.asarray(I)[t], "bits": np.asarray(B)[t], "got": got[t], "ref": ref[t]}


# ------------------------------------------------------------------------------------------- index maps, deep quantisation

Q_MAX = 62            # n = 2^q and every index 0..n-1 must be a signed 64-bit integer (NumPy's default int on this platform)
DEEP_Q_EDGES = (13, 15, 16, 17, 23, 24, 25, 30, 31, 32, 33, 34, 47, 51, 52, 53, 54, 55, 56, 59, 60, 61, 62)
DEEP_K_EDGES = (7, 8, 15, 16, 23, 24, 31, 32, 33, 52, 53, 54, 61)


def py_bits(row, q):
    """Multi-index of Python ints -> little-endian bit list (Python big-integer arithmetic only, no NumPy, no floats)."""
    return [(int(v) >> j) & 1 for v in row for j in range(q)]


def py_unbits(bits, q):
    return [sum(int(b) << j for j, b in enumerate(bits[k * q:(k + 1) * q])) for k in range(len(bits) // q)]


def deep_specials(q):
    """Indices of [0, 2^q) at which 32-bit / 53-bit (float64 mantissa) / 64-bit intermediate arithmetic goes wrong."""
    n = 1 << q
    s = {0, 1, 2, n - 1, n - 2, n - 3, n // 2, n // 2 - 1, n // 2 + 1, n // 4 + 3, n // 2 + n // 4 - 1,
         0x5555555555555555 & (n - 1), 0xAAAAAAAAAAAAAAAA & (n - 1), 0x5555555555555555 & (n - 1) | n // 2,
         (n - 1) ^ (n // 4), (n - 1) ^ 1 ^ (n // 2)}
    for k in DEEP_K_EDGES:
        s |= {(1 << k) - 1, 1 << k, (1 << k) + 1, (n - 1) ^ (1 << k) if k < q else 0, n - 1 - ((1 << k) - 1) if k < q else 0}
    return sorted(v for v in s if 0 <= v < n)


@st.composite
def deep_values(draw, q):
    n = 1 << q
    kind = draw(st.integers(0, 5))
    if kind == 0:
        return draw(st.sampled_from(deep_specials(q)))
    if kind == 1:                                               # 2^k + small, 2^k - small
        k = draw(st.integers(0, q))
        v = (1 << k) + draw(st.integers(-3, 3))
        return min(max(v, 0), n - 1)
    v = draw(st.integers(0, n - 1))                             # random bit pattern
    if kind == 2:
        v |= 1 | (n >> 1)                                       # the set bits span all q binary digits
    elif kind == 3:
        v = (n - 1) ^ (v & draw(st.integers(0, n - 1)))         # mostly ones
    elif kind == 4:
        v &= draw(st.integers(0, n - 1))                        # mostly zeros
    return v


@st.composite
def deep_blocks(draw, tier):
    q = draw(st.one_of(st.integers(1, Q_MAX), st.integers(48, Q_MAX), st.integers(54, Q_MAX), st.sampled_from(DEEP_Q_EDGES)))
    d = draw(st.integers(1, 3))
    n = 1 << q
    m = draw(st.integers(1, 5 if tier == "quick" else 12))
    rows = [[draw(deep_values(q)) for _ in range(d)] for _ in range(m)]
    sp = deep_specials(q)
    a = draw(st.integers(0, len(sp) - 1))
    rows.append([n - 1] * d)                                    # the two corners of the index box are always there
    rows.append([0] * d)
    rows.append([sp[(a + 5 * k) % len(sp)] for k in range(d)])
    rows = draw(st.permutations(rows))
    fit = [t for t, bits in (("int64", 63), ("int32", 31), ("uint32", 32), ("int16", 15), ("uint8", 8), ("uint64", 64)) if q <= bits]
    return {"q": q, "d": d, "rows": [list(r) for r in rows],
            "n_kind": draw(st.sampled_from(["int", "int", "np.int64"])),
            "i_dtype": draw(st.sampled_from(["int64", "int64"] + fit)),
            "b_dtype": draw(st.sampled_from(["int64", "int64", "int32", "int8", "uint8"])),
            "first": draw(st.sampled_from(["tt_to_qtt", "qtt_to_tt"]))}


@st.composite
def deep_cases(draw, tier):
    return {"blocks": [draw(deep_blocks(tier)) for _ in range(draw(st.integers(1, 3)))]}


def _pylist(x):
    """Integer ndarray -> nested lists of Python ints (exact for every integer dtype)."""
    return np.asarray(x).tolist()


def _holds(x, top):
    """The integer dtype of x can represent 0..top."""
    return np.issubdtype(x.dtype, np.integer) and int(np.iinfo(x.dtype).max) >= top


_GUARDED = []


def _guard_memory(extra=2 << 30):
    """Cap the address space of this (per-shard, fresh) process at its present size + 2 GiB, once.

    The index maps of the unmodified library need O(samples * d * q) integers, a few kB here.  An implementation that
    materialises a table of all 2^q indices asks for tens of GiB per shard at q = 24..28 before it fails at q >= 29; with
    the cap it fails at once with MemoryError (reported as a violation: an in-domain call raised) instead of starving the
    other 15 shards and whatever else runs on the machine.  No effect on results, only on how fast such a change dies."""
    if _GUARDED:
        return
    _GUARDED.append(True)
    try:
        import resource
        with open("/proc/self/status") as f:
            vm = next(int(line.split()[1]) * 1024 for line in f if line.startswith("VmSize:"))
        soft, hard = resource.getrlimit(resource.RLIMIT_AS)
        lim = vm + extra if hard == resource.RLIM_INFINITY else min(vm + extra, hard)
        if soft == resource.RLIM_INFINITY or lim < soft:
            resource.setrlimit(resource.RLIMIT_AS, (lim, hard))
    except Exception:  # noqa: BLE001 - no /proc, no resource module: run unguarded
        pass


def prop_deep(case, ctx):
    _guard_memory()
    blocks = case["blocks"]
    ctx.nontrivial(any(b["q"] >= 13 for b in blocks))
    ctx.label(f"blocks={len(blocks)}")
    total = 0
    for t, blk in enumerate(blocks):
        q, d, rows = blk["q"], blk["d"], blk["rows"]
        n_py = 1 << q
        n = n_py if blk["n_kind"] == "int" else np.int64(n_py)
        m = len(rows)
        total += m
        B = [py_bits(r, q) for r in rows]                                        # reference, Python ints only
        ctx.check(all(py_unbits(b, q) == r for b, r in zip(B, rows)), "internal: the big-integer reference is not self-consistent")
        top = max(max(r) for r in rows)
        span = max(v.bit_length() - ((v & -v).bit_length() - 1) if v else 0 for r in rows for v in r)
        ctx.label("q<=12" if q <= 12 else "q13..31" if q <= 31 else "q32..53" if q <= 53 else "q54..62", f"d={d}",
                  "n:" + blk["n_kind"], "I:" + blk["i_dtype"], "bits:" + blk["b_dtype"],
                  "some_index_spans>53_bits" if span > 53 else "some_index_spans>32_bits" if span > 32 else "all_indices_span<=32_bits")
        where = dict(q=q, d=d, block=t, before=[(b["q"], b["d"]) for b in blocks[:t]], n_kind=blk["n_kind"])
        I_arr = np.array(rows, dtype=blk["i_dtype"])
        B_arr = np.array(B, dtype=blk["b_dtype"])
        ctx.check(_pylist(I_arr) == rows and _pylist(B_arr) == B, "internal: the argument arrays do not hold the drawn integers")

        def fwd(arg):
            return ctx.lib(teneva.ind_tt_to_qtt, arg, n)

        def bwd(arg):
            return ctx.lib(teneva.ind_qtt_to_tt, arg, q)

        def ok_bits(got, ref, shape, what, **kw):
            ctx.check(is_int_array(got, shape), f"ind_tt_to_qtt({what}): not an integer ndarray of shape {list(shape)}",
                      type=type(got).__name__, shape=getattr(got, "shape", None), dtype=str(getattr(got, "dtype", None)), **where)
            ctx.check(_pylist(got) == ref, f"ind_tt_to_qtt({what}) is not the little-endian bit string of the multi-index (big-integer reference)",
                      bad=_deep_bad(_pylist(got), ref, rows if len(shape) == 2 and shape[0] == m else None), **kw, **where)

        def ok_inds(got, ref, shape, what, **kw):
            ctx.check(is_int_array(got, shape), f"ind_qtt_to_tt({what}): not an integer ndarray of shape {list(shape)}",
                      type=type(got).__name__, shape=getattr(got, "shape", None), dtype=str(getattr(got, "dtype", None)), **where)
            ctx.check(_holds(got, n_py - 1), f"ind_qtt_to_tt({what}): the integer type of the result cannot hold the index 2^q - 1",
                      dtype=str(got.dtype), **where)
            ctx.check(_pylist(got) == ref, f"ind_qtt_to_tt({what}) is not sum b_j 2^j of the bit string (big-integer reference)",
                      bad=_deep_bad(_pylist(got), ref, None), **kw, **where)

        # both maps on their own against the reference (ndarray batch), in a drawn order
        if blk["first"] == "tt_to_qtt":
            got = fwd(I_arr.copy())
            back = bwd(B_arr.copy())
        else:
            back = bwd(B_arr.copy())
            got = fwd(I_arr.copy())
        ok_bits(got, B, (m, d * q), "batch")
        ok_inds(back, rows, (m, d), "batch")
        # the two compositions, on the library's own outputs
        ok_inds(bwd(got), rows, (m, d), "ind_tt_to_qtt(I)")
        ok_bits(fwd(back), B, (m, d * q), "ind_qtt_to_tt(B)")
        # lists of Python ints
        ok_bits(fwd([list(r) for r in rows]), B, (m, d * q), "list of lists")
        ok_inds(bwd([list(b) for b in B]), rows, (m, d), "list of lists")
        # batch of one and single index, ndarray / list alternating
        for k in range(m):
            as_list = (k + t) % 2 == 1
            ok_bits(fwd([list(rows[k])] if as_list else I_arr[k:k + 1].copy()), [B[k]], (1, d * q), "batch of one", i=rows[k])
            ok_inds(bwd([list(B[k])] if as_list else B_arr[k:k + 1].copy()), [rows[k]], (1, d), "batch of one", i=rows[k])
            ok_bits(fwd(I_arr[k].copy() if as_list else list(rows[k])), B[k], (d * q,), "single index", i=rows[k])
            ok_inds(bwd(B_arr[k].copy() if as_list else list(B[k])), rows[k], (d,), "single index", i=rows[k])
        ctx.label("top_index>=2^53" if top >= 1 << 53 else "top_index>=2^31" if top >= 1 << 31 else "top_index<2^31")
    ctx.inner(total - 1)


def _deep_bad(got, ref, rows):
    if not (isinstance(got, list) and isinstance(ref, list)) or len(got) != len(ref):
        return None
    if got and not isinstance(got[0], list):
        got, ref = [got], [ref]
    for k, (g, r) in enumerate(zip(got, ref)):
        if g != r:
            return {"row": k, "got": g, "ref": r, "i": rows[k] if rows else None}
    return None


# ------------------------------------------------------------------------------------------- accuracy model

def core_model(G, q, e, eps=EPS):
    """-> (regime or None, bound on ||merge(core_tt_to_qtt(G, e)) - G||_F, largest structural rank).

    G holds the values of the core in float64; eps is the unit roundoff of the arithmetic the library works in for this
    core (float64 for float64 and integer cores, float32 for float32 cores, see the `dtype` sub-check)."""
    G = np.asarray(G, dtype=float)
    r1, n, r2 = G.shape
    nG = fro(G)
    g = {q: min(r1 * n, r2)}
    for j in range(q - 1, 0, -1):
        g[j] = min(r1 * 2 ** j, 2 * g[j + 1])
    gmax = max(g.values())
    S = n * max(r1, r2)
    nu = 4.0 * S * math.sqrt(eps) * nG
    b = 1.001 * (math.sqrt(q) * e + q * nu)
    if nG == 0.0:
        return "zero", math.sqrt(q) * e, gmax
    if e >= 100.0 * nu:
        return "T", b, gmax
    smin = math.inf
    for j in range(1, q + 1):
        M = np.reshape(G, (r1 * 2 ** j, -1), order='F')     # rows: left rank and the j low bits
        s = np.linalg.svd(M, compute_uv=False)
        smin = min(smin, float(s[g[j] - 1]))
    # float64: the threshold of the module docstring.  float32: 100*q*nu exceeds ||G|| for every core, so the threshold is
    # taken from the mechanism itself (docstring of the `dtype` section): nothing is cut and nothing is at rounding level
    # iff every computed eigenvalue sigma^2 - ||dC||, ||dC|| <= 16*S*eps*||G||^2, stays above e^2.
    thr = 100.0 * q * nu if eps == EPS else 32.0 * q * math.sqrt(S * eps) * nG
    if smin >= thr and e <= smin / 2:
        return "L", 1.001 * (math.sqrt(q) * e + q * 64.0 * S * eps * nG), gmax
    return None, None, gmax


def product_bound(norms, bounds):
    """prod(N_k + b_k) - prod N_k  evaluated without cancellation."""
    tot = 0.0
    d = len(norms)
    for k in range(d):
        left = 1.0
        for j in range(k):
            left *= norms[j] + bounds[j]
        right = 1.0
        for j in range(k + 1, d):
            right *= norms[j]
        tot += left * bounds[k] * right
    return tot


def exact_ok(spec):
    return spec["fam"] == "smallint" or (spec["fam"] == "explicit" and all(float(v).is_integer() for c in spec["cores"] for v in c))


def check_qtt_form(ctx, Z, q, d, r_tt, cap, what):
    why = oracle.wellformed(Z, [2] * (q * d), finite=True)
    ctx.check(why is None, f"{what}: result is not a well-formed finite QTT-tensor with {q * d} modes of size 2: {why}")
    rz = ranks_of(Z)
    for k in range(d + 1):
        ctx.check(rz[k * q] == r_tt[k], f"{what}: bond between modes does not keep the TT-rank", k=k, got=rz, tt_ranks=r_tt, q=q)
    if cap is not None:
        lim = max(1, int(cap))
        for p, v in enumerate(rz):
            if p % q != 0:
                ctx.check(v <= lim, f"{what}: bond created inside a mode exceeds the rank cap", position=p, rank=v, cap=cap, ranks=rz)
    return rz


# ------------------------------------------------------------------------------------------- TT -> QTT -> TT

E_MODES = ("zero", "default", "tiny", "big", "mid", "abs")
R_MODES = ("default", "free", "huge", "bind", "frac")


def conv_sizes(tier):
    return dict(qd_max=10, q_max=4, r_max=6) if tier == "quick" else dict(qd_max=14, q_max=5, r_max=8)


@st.composite
def qd_pairs(draw, tier, d_cap=6):
    sz = conv_sizes(tier)
    q = draw(st.sampled_from([1] + list(range(2, sz["q_max"] + 1)) * 2))
    d_hi = max(2, min(d_cap, sz["qd_max"] // q))
    d = draw(st.integers(2, d_hi))
    if q >= 2 and draw(st.integers(0, 9)) == 0:    # d = 1 now and then; the QTT side always has >= 2 cores
        d = 1
    return q, d


@st.composite
def convert_cases(draw, tier):
    sz = conv_sizes(tier)
    q, d = draw(qd_pairs(tier))
    kw = dict(shape=[2 ** q] * d, r_max=sz["r_max"])
    if d == 1:
        kw["rank_families"] = ("rank1",)
    spec = draw(gen.tt_specs(**kw))
    return {"q": q, "d": d, "Y": spec,
            "e_mode": draw(st.sampled_from(E_MODES)), "e_u": draw(st.integers(0, 1000)) / 1000.0,
            "r_mode": draw(st.sampled_from(R_MODES)), "r_k": draw(st.integers(0, 5)),
            "core": draw(st.integers(0, d - 1))}


def resolve_e(case, norms):
    mode, u = case["e_mode"], case["e_u"]
    pos = [v for v in norms if v > 0] or [1.0]
    if mode == "zero":
        return 0.0
    if mode == "default":
        return None
    if mode == "tiny":
        return min(pos) * 10.0 ** (-15 + 5 * u)
    if mode == "big":
        return max(pos) * 10.0 ** (-2.5 + 2.5 * u)
    if mode == "mid":
        return min(pos) * 10.0 ** (-2.5 + 2.5 * u)
    return 10.0 ** (-14 + 16 * u)


def resolve_r(case, gmax):
    mode, k = case["r_mode"], case["r_k"]
    if mode == "default":
        return None
    if mode == "free":
        return gmax + k
    if mode == "huge":
        return 1.E+12
    if mode == "bind":
        return 1 + k
    return 1.5 + k


def prop_convert(case, ctx):
    q, d, spec = case["q"], case["d"], case["Y"]
    n = 2 ** q
    Y = gen.build_tt(spec)
    r_tt = spec["r"]
    F = dense(Y)
    norms = [fro(G) for G in Y]
    ctx.label(f"q={q}", f"d={min(d, 4)}{'+' if d > 4 else ''}", "fam:" + spec["fam"], "rfam:" + spec["rfam"],
              "e:" + case["e_mode"], "r:" + case["r_mode"])
    ctx.nontrivial(q >= 2 and d >= 2)

    e_arg = resolve_e(case, norms)
    e = 1.E-12 if e_arg is None else e_arg                       # documented default of tt_to_qtt
    models = [core_model(G, q, e) for G in Y]
    gmax = max(mm[2] for mm in models)
    r_arg = resolve_r(case, gmax)
    r = 100 if r_arg is None else r_arg                          # documented default of tt_to_qtt
    cap_free = int(r) >= gmax
    kw = {}
    if e_arg is not None:
        kw["e"] = e_arg
    if r_arg is not None:
        kw["r"] = r_arg
    ctx.label("cap_cannot_bind" if cap_free else "cap_may_bind")

    Y_in = [G.copy() for G in Y]
    if "r" in kw and "e" in kw and case["r_k"] % 2 == 0:
        Z = ctx.lib(teneva.tt_to_qtt, Y_in, kw["e"], kw["r"])   # positional spelling
    else:
        Z = ctx.lib(teneva.tt_to_qtt, Y_in, **kw)
    ctx.check(isinstance(Z, list) and len(Z) == q * d, "tt_to_qtt: not a list of d*q cores", got=len(Z) if isinstance(Z, list) else type(Z).__name__)
    rz = check_qtt_form(ctx, Z, q, d, r_tt, r, "tt_to_qtt")
    if max(rz[p] for p in range(len(rz)) if p % q != 0 or q == 1) >= 2:
        ctx.label("qtt_rank>=2")

    T = ctx.lib(teneva.qtt_to_tt, Z, q)
    why = oracle.wellformed(T, [n] * d, finite=True)
    ctx.check(why is None, f"qtt_to_tt(tt_to_qtt(Y)): not a well-formed finite TT-tensor of shape [2^q]*d: {why}")
    ctx.check(ranks_of(T) == r_tt, "qtt_to_tt(tt_to_qtt(Y)) does not have the TT-ranks of Y", got=ranks_of(T), ref=r_tt)

    # (1) no truncation between the QTT-tensor and its merge: entries at the binary expansion agree to rounding
    DZ = dense(Z)
    AZ = group(dense_abs(Z), q, d)
    DT = dense(T)
    tolZ = 2 * K_of(Z, extra=2) * EPS * AZ
    _close(ctx, DT, group(DZ, q, d), tolZ, "entry of qtt_to_tt(Z) vs entry of Z at the little-endian bits")
    I = all_indices(q, d)
    B = own_bits(I, q)
    Bt = ctx.lib(teneva.ind_tt_to_qtt, I.copy(), n)
    ctx.check(isinstance(Bt, np.ndarray) and Bt.shape == B.shape and bool(np.all(Bt == B)), "ind_tt_to_qtt differs from shift/mask bits")
    vals = np.asarray(ctx.lib(teneva.get_many, Z, Bt), dtype=float)
    ctx.check(vals.shape == (len(I),), "get_many(QTT): wrong shape", shape=vals.shape)
    idx = tuple(I.T)
    _close(ctx, vals, DT[idx], tolZ[idx], "get_many(Z, bits(I)) vs entry of qtt_to_tt(Z) at I")

    _core_defaults(case, ctx, Y, q)

    # (2) accuracy, per core and for the tensor
    elig = [mm[0] is not None for mm in models]
    for mm in models:
        ctx.label("regime:" + str(mm[0]))
    if not cap_free:
        return
    for k in range(d):
        if elig[k]:
            err = fro(T[k] - Y[k])
            ctx.check(err <= models[k][1], "core_qtt_to_tt(core_tt_to_qtt(G)) differs from G beyond sqrt(q)*e + q*floor",
                      k=k, err=err, bound=models[k][1], e=e, r=r, norm=norms[k], regime=models[k][0], shape=Y[k].shape)
    if not all(elig):
        ctx.label("accuracy_not_claimed")
        return
    ctx.label("accuracy_claimed")
    bounds = [mm[1] for mm in models]
    tolT = product_bound(norms, bounds) * (1 + 1e-9) + fro(oracle.tol_dense(Y)) + fro(oracle.tol_dense(T))
    err = fro(DT - F)
    ctx.check(err <= tolT, "qtt_to_tt(tt_to_qtt(Y)) does not denote Y within the requested accuracy",
              err=err, tol=tolT, e=e, r=r, norm=fro(F), regimes=[mm[0] for mm in models])
    err = fro(vals - F[idx])
    ctx.check(err <= tolT + fro(tolZ), "entries of tt_to_qtt(Y) at the binary expansions differ from the entries of Y",
              err=err, tol=tolT, e=e, r=r, norm=fro(F))


def _core_defaults(case, ctx, Y, q):
    # (3) the core-level functions with their own defaults (e = 0, r = 1e12: nothing may be cut beyond rounding)
    kc = case["core"]
    G = Y[kc]
    Q = ctx.lib(teneva.core_tt_to_qtt, G.copy())
    ctx.check(isinstance(Q, list) and len(Q) == q and all(isinstance(c, np.ndarray) and c.ndim == 3 and c.shape[1] == 2 for c in Q),
              "core_tt_to_qtt: not a list of q cores with mode size 2", got=[getattr(c, "shape", None) for c in Q] if isinstance(Q, list) else None)
    ctx.check(Q[0].shape[0] == G.shape[0] and Q[-1].shape[2] == G.shape[2] and all(Q[j].shape[2] == Q[j + 1].shape[0] for j in range(q - 1)),
              "core_tt_to_qtt: ranks do not chain from r1 to r2", got=[c.shape for c in Q], core=G.shape)
    ctx.check(all(np.all(np.isfinite(c)) for c in Q), "core_tt_to_qtt: non-finite entries")
    H = ctx.lib(teneva.core_qtt_to_tt, Q)
    ctx.check(isinstance(H, np.ndarray) and H.shape == G.shape, "core_qtt_to_tt(core_tt_to_qtt(G)): shape differs from G",
              got=getattr(H, "shape", None), ref=G.shape)
    reg0, b0, _ = core_model(G, q, 0.0)
    if reg0 is not None:
        err = fro(H - G)
        ctx.check(err <= b0, "core_qtt_to_tt(core_tt_to_qtt(G)) with default arguments differs from G beyond the rounding floor",
                  err=err, bound=b0, norm=fro(G), shape=G.shape, regime=reg0)
        ctx.label("core_default_checked")


def _close(ctx, got, ref, tol, what, exact=False, **kw):
    got = np.asarray(got, dtype=float)
    ref = np.asarray(ref, dtype=float)
    ctx.check(got.shape == ref.shape, f"{what}: shape {got.shape} != {ref.shape}", **kw)
    if exact:
        ctx.check(bool(np.all(got == ref)), f"{what}: not bit-for-bit equal on small-integer cores",
                  max_diff=float(np.max(np.abs(got - ref))) if got.size else 0.0, **kw)
        return
    bad = np.abs(got - ref) > tol
    if np.any(bad) or not np.all(np.isfinite(got)):
        j = int(np.argmax(np.abs(got - ref) - tol))
        ctx.check(False, f"{what}: differs beyond the rounding bound", at=[int(v) for v in np.unravel_index(j, got.shape)],
                  got=float(got.ravel()[j]), ref=float(ref.ravel()[j]), tol=float(np.asarray(tol).ravel()[j]), **kw)


# ------------------------------------------------------------------------------------------- QTT -> TT on arbitrary QTT-tensors

@st.composite
def merge_cases(draw, tier):
    sz = conv_sizes(tier)
    q, d = draw(qd_pairs(tier))
    spec = draw(gen.tt_specs(shape=[2] * (q * d), r_max=sz["r_max"] - 1))
    return {"q": q, "d": d, "Z": spec, "as_list": draw(st.booleans())}


def prop_merge(case, ctx):
    q, d, spec = case["q"], case["d"], case["Z"]
    n = 2 ** q
    Z = gen.build_tt(spec)
    rz = spec["r"]
    ctx.label(f"q={q}", f"d={min(d, 4)}{'+' if d > 4 else ''}", "fam:" + spec["fam"], "rfam:" + spec["rfam"])
    ctx.nontrivial(q >= 2 and d >= 2)
    DZ = dense(Z)
    AZ = dense_abs(Z)
    ex = exact_ok(spec) and float(np.max(AZ)) < 2.0 ** 52
    ref = group(DZ, q, d)
    tol = 2 * K_of(Z, extra=2) * EPS * group(AZ, q, d)

    T = ctx.lib(teneva.qtt_to_tt, [G.copy() for G in Z], q)
    why = oracle.wellformed(T, [n] * d, finite=True)
    ctx.check(why is None, f"qtt_to_tt: not a well-formed finite TT-tensor of shape [2^q]*d: {why}")
    ctx.check(ranks_of(T) == [rz[k * q] for k in range(d + 1)], "qtt_to_tt: TT-ranks are not the QTT bonds between the modes",
              got=ranks_of(T), qtt_ranks=rz, q=q)
    DT = dense(T)
    _close(ctx, DT, ref, tol, "entry of qtt_to_tt(Z) at I vs entry of Z at the little-endian bits of I", ex)
    for k in range(d):
        H = ctx.lib(teneva.core_qtt_to_tt, Z[k * q:(k + 1) * q])
        ctx.check(isinstance(H, np.ndarray) and H.shape == (rz[k * q], n, rz[(k + 1) * q]), "core_qtt_to_tt: shape is not q_0 x 2^q x q_q",
                  got=getattr(H, "shape", None))

    # the four functions together: index maps and conversions use the same bit order
    I = all_indices(q, d)
    idx = tuple(I.T)
    I_arg = I.tolist() if case["as_list"] else I.copy()
    Bt = ctx.lib(teneva.ind_tt_to_qtt, I_arg, n)
    ctx.check(isinstance(Bt, np.ndarray) and Bt.shape == (len(I), q * d), "ind_tt_to_qtt: wrong shape", shape=getattr(Bt, "shape", None))
    vz = np.asarray(ctx.lib(teneva.get_many, Z, Bt), dtype=float)
    _close(ctx, vz, DT[idx], tol[idx], "get_many(Z, ind_tt_to_qtt(I)) vs entry of qtt_to_tt(Z) at I", ex)
    B = own_bits(I, q)
    It = ctx.lib(teneva.ind_qtt_to_tt, B.tolist() if case["as_list"] else B.copy(), q)
    ctx.check(isinstance(It, np.ndarray) and It.shape == I.shape, "ind_qtt_to_tt: wrong shape", shape=getattr(It, "shape", None))
    if d >= 2:
        vt = np.asarray(ctx.lib(teneva.get_many, T, It), dtype=float)
    else:
        vt = DT[tuple(np.asarray(It).T)]
    _close(ctx, vt, DZ[tuple(B.T)], tol[idx], "entry of qtt_to_tt(Z) at ind_qtt_to_tt(B) vs entry of Z at B", ex)


# ------------------------------------------------------------------------------------------- element types of the cores
#
# A TT-tensor is "a list of 3-dimensional arrays"; nothing in the property restricts the element type of the cores to
# float64.  The conversions are served correctly by the unmodified library for int64 / int32 / int16 cores (as long as
# the integer Gram matrix of the first factorisation, entries <= max(r1*n, r2) * max|G|^2, fits into the type: by
# construction here) and float32 cores; not for bool / int8 / uint8 (ASSUMPTIONS), which are outside the quantifier here.
#
# Model.  Integer cores: the first Gram matrix is formed in exact integer arithmetic and handed to eigh as float64, every
# later step works on float64 factors: the float64 model of the module docstring applies to the float64 copy of the core.
# float32 cores: every step runs in float32 (Gram matrix, eigh, products), i.e. the same derivation with eps32.  Regime T
# carries over literally (e >= 100*nu32).  Regime L: a step returns U V = U U^T B (or B U U^T) with U the complete
# computed eigenvector matrix - the eigenvalues cancel between U*w and (1/w) U^T B row by row - provided no eigenvalue is
# cut or clamped to zero: computed eigenvalue >= sigma^2 - ||dC||, ||dC|| <= (k/2 + p(m))*eps32*||B||^2 <= 16*S*eps32*||G||^2
# (k <= S inner dimension of the Gram product, p(m) <= 15*m the eigh backward-error constant).  With
# sigma_min(every unfolding) >= 32*q*sqrt(S*eps32)*||G|| =: thr this is >= sigma_min^2*(1 - 1/64 - drift) > e^2 for
# e <= sigma_min/2 (drift of the singular values through the <= q earlier steps: q*64*S*eps32*||G|| <= 2*sqrt(S*eps32)*thr).
# Step error <= 64*S*eps32*||G||_F as in float64 (observed <= 1*S*eps32).
#
# Oracles: everything `convert` asserts (form, ranks between the modes, cap, QTT entry at the bits == entry of
# qtt_to_tt(QTT), accuracy against the dense tensor of the float64 copy), plus "same result as for the float64 copy":
# the two QTT-tensors denote the same tensor within the sum of the two accuracy bounds and, when nothing may be cut on
# either side (regime L, cap cannot bind), have the same ranks.  Merge side: qtt_to_tt / core_qtt_to_tt of integer QTT-cores
# is exact integer arithmetic (no overflow by construction: abs-majorant of every prefix product fits the narrowest type).

DT_INT = ("int64", "int32", "int16")
DT_POOL = DT_INT + ("float32",)
EPS32 = float(np.finfo(np.float32).eps)
DT_VALUES = ("smallint", "binary", "count", "wide", "gauss", "gauss")


def eps_of(dt):
    return EPS32 if dt == "float32" else EPS


@st.composite
def dtype_lists(draw, m):
    mode = draw(st.sampled_from(["same", "same", "mixed"]))
    if mode == "same":
        return [draw(st.sampled_from(DT_POOL))] * m
    dts = [draw(st.sampled_from(DT_POOL + ("float64",))) for _ in range(m)]
    dts[draw(st.integers(0, m - 1))] = draw(st.sampled_from(DT_POOL))
    return dts


@st.composite
def dtype_cases(draw, tier):
    sz = conv_sizes(tier)
    q = draw(st.sampled_from([1] + list(range(2, sz["q_max"] + 1)) * 3))
    d = draw(st.integers(1, max(1, min(4, sz["qd_max"] // q))))
    r = [1] + [draw(st.integers(1, 4)) for _ in range(d - 1)] + [1]
    rz = [1] + [draw(st.integers(1, 3)) for _ in range(q * d - 1)] + [1]
    return {"q": q, "d": d, "r": r, "dts": draw(dtype_lists(d)), "vfam": draw(st.sampled_from(DT_VALUES)),
            "rz": rz, "zdts": draw(dtype_lists(q * d)), "zfam": draw(st.sampled_from(("smallint", "binary", "gauss"))),
            "seed": draw(gen.seeds),
            "e_mode": draw(st.sampled_from(E_MODES)), "e_u": draw(st.integers(0, 1000)) / 1000.0,
            "r_mode": draw(st.sampled_from(R_MODES)), "r_k": draw(st.integers(0, 5)),
            "core_args": draw(st.sampled_from(["default", "e", "e_r"]))}


def dtype_values(rng, fam, dt, sh):
    """float64 array of values that the element type dt holds exactly."""
    if fam == "gauss" and dt.startswith("float"):
        G = rng.normal(size=sh)
        return G.astype(np.float32).astype(float) if dt == "float32" else G
    lo, hi = {"binary": (0, 2), "count": (0, 10), "wide": (-9, 10)}.get(fam, (-3, 4))
    return rng.integers(lo, hi, size=sh).astype(float)


def typed(G64, dt):
    G = G64.astype(dt)
    if not np.array_equal(G.astype(float), G64):
        raise harness.core.OracleFailure("internal: the element type does not hold the drawn values", {"dtype": dt})
    return G


def is_core_list(Q, m):
    return isinstance(Q, list) and len(Q) == m and all(isinstance(c, np.ndarray) and c.ndim == 3 and c.dtype.kind in "fiu" for c in Q)


def prop_dtype(case, ctx):
    q, d, r_tt, dts = case["q"], case["d"], case["r"], case["dts"]
    n = 2 ** q
    rng = np.random.default_rng(case["seed"])
    Y64 = [dtype_values(rng, case["vfam"], dts[k], (r_tt[k], n, r_tt[k + 1])) for k in range(d)]
    Yd = [typed(Y64[k], dts[k]) for k in range(d)]
    for k in range(d):                                           # the integer Gram matrix of the first step cannot overflow
        if dts[k] in DT_INT:
            top = max(r_tt[k] * n, r_tt[k + 1]) * float(np.max(np.abs(Y64[k]))) ** 2
            ctx.check(top <= np.iinfo(dts[k]).max, "internal: integer Gram matrix may overflow", top=top, dtype=dts[k])
    F = dense(Y64)
    norms = [fro(G) for G in Y64]
    ctx.label(f"q={q}", f"d={d}", "values:" + case["vfam"], "e:" + case["e_mode"], "r:" + case["r_mode"],
              "cores:" + ("mixed" if len(set(dts)) > 1 else dts[0]), *("core:" + t for t in dts))
    ctx.nontrivial(q >= 2 and any(t in DT_INT for t in dts))

    e_arg = resolve_e(case, norms)
    e = 1.E-12 if e_arg is None else e_arg
    eps_k = [eps_of(t) for t in dts]
    models = [core_model(Y64[k], q, e, eps_k[k]) for k in range(d)]
    models64 = [core_model(G, q, e) for G in Y64]
    gmax = max(mm[2] for mm in models)
    r_arg = resolve_r(case, gmax)
    r = 100 if r_arg is None else r_arg
    cap_free = int(r) >= gmax
    kw = {}
    if e_arg is not None:
        kw["e"] = e_arg
    if r_arg is not None:
        kw["r"] = r_arg
    ctx.label("cap_cannot_bind" if cap_free else "cap_may_bind")
    where = dict(dtypes=dts, q=q, ranks=r_tt, e=e, r=r)

    # ---- tensor level: the typed tensor and its float64 copy
    Z = ctx.lib(teneva.tt_to_qtt, [G.copy() for G in Yd], **kw)
    Z64 = ctx.lib(teneva.tt_to_qtt, [G.copy() for G in Y64], **kw)
    ctx.check(all(np.array_equal(a, b) and a.dtype == b.dtype for a, b in zip(Yd, [typed(Y64[k], dts[k]) for k in range(d)])),
              "internal: typed cores changed")
    rz = check_qtt_form(ctx, Z, q, d, r_tt, r, "tt_to_qtt(cores of dtype %s)" % "/".join(sorted(set(dts))))
    rz64 = check_qtt_form(ctx, Z64, q, d, r_tt, r, "tt_to_qtt(float64 copy)")
    eps_z = [EPS32 if c.dtype == np.float32 else EPS for c in Z]
    eps_case = max(eps_z)
    T = ctx.lib(teneva.qtt_to_tt, Z, q)
    why = oracle.wellformed(T, [n] * d, finite=True)
    ctx.check(why is None, f"qtt_to_tt(tt_to_qtt(Y)): not a well-formed finite TT-tensor of shape [2^q]*d: {why}", **where)
    ctx.check(ranks_of(T) == r_tt, "qtt_to_tt(tt_to_qtt(Y)) does not have the TT-ranks of Y", got=ranks_of(T), **where)
    DZ = group(dense(Z), q, d)
    DZ64 = group(dense(Z64), q, d)
    AZ = group(dense_abs(Z), q, d)
    DT = dense(T)
    tolZ = 2 * K_of(Z, extra=2) * eps_case * AZ
    _close(ctx, DT, DZ, tolZ, "entry of qtt_to_tt(Z) vs entry of Z at the little-endian bits", **where)
    I = all_indices(q, d)
    idx = tuple(I.T)
    Bt = ctx.lib(teneva.ind_tt_to_qtt, I.copy(), n)
    ctx.check(isinstance(Bt, np.ndarray) and Bt.shape == (len(I), q * d) and bool(np.all(Bt == own_bits(I, q))), "ind_tt_to_qtt differs from shift/mask bits")
    vals = np.asarray(ctx.lib(teneva.get_many, Z, Bt), dtype=float)
    ctx.check(vals.shape == (len(I),), "get_many(QTT): wrong shape", shape=vals.shape)
    _close(ctx, vals, DZ[idx], tolZ[idx], "get_many(Z, bits(I)) vs own entry of Z at the bits", **where)

    elig = [mm[0] is not None for mm in models]
    elig64 = [mm[0] is not None for mm in models64]
    for k in range(d):
        ctx.label(("regime32:" if dts[k] == "float32" else "regime:") + str(models[k][0]))
    if cap_free:
        for k in range(d):
            if elig[k]:
                err = fro(np.asarray(T[k], dtype=float) - Y64[k])
                ctx.check(err <= models[k][1], "core of qtt_to_tt(tt_to_qtt(Y)) differs from the core of Y beyond sqrt(q)*e + q*floor",
                          k=k, err=err, bound=models[k][1], norm=norms[k], regime=models[k][0], core_dtype=dts[k], **where)
        if all(elig):
            ctx.label("accuracy_claimed")
            bounds = [mm[1] for mm in models]
            tolT = product_bound(norms, bounds) * (1 + 1e-9) + fro(oracle.tol_dense(Y64)) + fro(tolZ)
            err = fro(DZ - F)
            ctx.check(err <= tolT, "tt_to_qtt(Y): entries at the binary expansions differ from the entries of Y beyond the requested accuracy",
                      err=err, tol=tolT, norm=fro(F), regimes=[mm[0] for mm in models], **where)
            err = fro(vals - F[idx])
            ctx.check(err <= tolT + fro(tolZ), "get_many(tt_to_qtt(Y), bits) differs from the entries of Y beyond the requested accuracy",
                      err=err, tol=tolT, norm=fro(F), **where)
            err = fro(DT - F)
            ctx.check(err <= tolT + fro(tolZ), "qtt_to_tt(tt_to_qtt(Y)) does not denote Y within the requested accuracy",
                      err=err, tol=tolT, norm=fro(F), **where)
            if all(elig64):
                tol64 = product_bound(norms, [mm[1] for mm in models64]) * (1 + 1e-9) + fro(oracle.tol_dense(Y64)) + fro(oracle.tol_dense(Z64))
                err = fro(DZ - DZ64)
                ctx.check(err <= tolT + tol64, "tt_to_qtt(Y) and tt_to_qtt(float64 copy of Y) denote different tensors",
                          err=err, tol=tolT + tol64, norm=fro(F), **where)
                ctx.label("same_as_float64_copy_checked")
        else:
            ctx.label("accuracy_not_claimed")
        if all(mm[0] == "L" for mm in models) and all(mm[0] == "L" for mm in models64):
            ctx.check(rz == rz64, "tt_to_qtt(Y) and tt_to_qtt(float64 copy of Y) have different ranks although nothing may be cut",
                      got=rz, float64=rz64, **where)
            ctx.label("same_ranks_checked")

    # ---- core level, every core: default arguments or (e) / (e, r) positionally
    for k in range(d):
        Gd, G64 = Yd[k], Y64[k]
        if case["core_args"] == "default":
            args, ec, rc = (), 0.0, 1.E+12
        elif case["core_args"] == "e":
            args, ec, rc = (e,), e, 1.E+12
        else:
            args, ec, rc = (e, r), e, r
        what = f"core_tt_to_qtt(core of dtype {dts[k]})"
        out = []
        for G, eps, name in ((Gd, eps_k[k], what), (G64, EPS, "core_tt_to_qtt(float64 copy)")):
            Q = ctx.lib(teneva.core_tt_to_qtt, G.copy(), *args)
            ctx.check(is_core_list(Q, q) and all(c.shape[1] == 2 and c.dtype.kind == "f" for c in Q), f"{name}: not a list of q floating-point cores with mode size 2",
                      got=[(getattr(c, "shape", None), str(getattr(c, "dtype", None))) for c in Q] if isinstance(Q, list) else None)
            ctx.check(Q[0].shape[0] == G.shape[0] and Q[-1].shape[2] == G.shape[2] and all(Q[j].shape[2] == Q[j + 1].shape[0] for j in range(q - 1)),
                      f"{name}: ranks do not chain from r1 to r2", got=[c.shape for c in Q], core=G.shape)
            ctx.check(all(np.all(np.isfinite(c)) for c in Q), f"{name}: non-finite entries")
            ctx.check(all(Q[j].shape[2] <= max(1, int(rc)) for j in range(q - 1)), f"{name}: bond created inside the mode exceeds the rank cap",
                      got=[c.shape for c in Q], cap=rc)
            H = ctx.lib(teneva.core_qtt_to_tt, Q)
            ctx.check(isinstance(H, np.ndarray) and H.shape == G.shape and H.dtype.kind == "f", f"{name}: core_qtt_to_tt of the result is not a floating-point array of the shape of G",
                      got=getattr(H, "shape", None), ref=G.shape)
            H = np.asarray(H, dtype=float)
            reg, b, gm = core_model(G64, q, ec, eps)
            if reg is None or int(rc) < gm:
                out.append((H, None, reg, [c.shape for c in Q]))
                continue
            err = fro(H - G64)
            ctx.check(err <= b, f"{name}: core_qtt_to_tt(core_tt_to_qtt(G)) differs from G beyond sqrt(q)*e + q*floor",
                      err=err, bound=b, e=ec, r=rc, norm=fro(G64), shape=G.shape, regime=reg, k=k)
            out.append((H, b, reg, [c.shape for c in Q]))
        (H1, b1, g1, s1), (H2, b2, g2, s2) = out
        if b1 is not None and b2 is not None:
            ctx.check(fro(H1 - H2) <= b1 + b2, f"{what}: the merged result differs from the merged result for the float64 copy of the core",
                      diff=fro(H1 - H2), tol=b1 + b2, norm=fro(G64), k=k, args=args)
            ctx.label("core_same_as_float64_copy_checked")
            if g1 == "L" and g2 == "L":
                ctx.check(s1 == s2, f"{what}: ranks differ from the ranks for the float64 copy although nothing may be cut", got=s1, float64=s2, k=k)

    _dtype_merge(case, ctx, rng)


def _dtype_merge(case, ctx, rng):
    """qtt_to_tt / core_qtt_to_tt on typed QTT-cores against the own dense chain of the float64 copy."""
    q, d, rz, zdts = case["q"], case["d"], case["rz"], case["zdts"]
    n = 2 ** q
    L = q * d
    Z64 = [dtype_values(rng, case["zfam"], zdts[k], (rz[k], 2, rz[k + 1])) for k in range(L)]
    Zd = [typed(Z64[k], zdts[k]) for k in range(L)]
    ctx.label("qtt_cores:" + ("mixed" if len(set(zdts)) > 1 else zdts[0]), "qtt_values:" + case["zfam"])
    AZ = dense_abs(Z64)
    integral = all(bool(np.all(G == np.round(G))) for G in Z64)
    narrow = min([np.iinfo(t).max for t in zdts if t in DT_INT] + [2 ** 24 if "float32" in zdts else 2 ** 52, 2 ** 52])
    top = 0.0
    for k in range(d):                                           # abs-majorant of every prefix product inside a mode
        P = np.abs(Z64[k * q])
        top = max(top, float(np.max(P)))
        for c in Z64[k * q + 1:(k + 1) * q]:
            P = np.tensordot(P, np.abs(c), 1)
            top = max(top, float(np.max(P)))
    if any(t in DT_INT for t in zdts):
        ctx.check(top <= narrow, "internal: integer merge may overflow", top=top, narrow=narrow)
    ex = integral and top <= narrow and float(np.max(AZ)) < 2.0 ** 52
    eps = EPS32 if "float32" in zdts else EPS
    ref = group(dense(Z64), q, d)
    tol = 2 * K_of(Z64, extra=2) * eps * group(AZ, q, d)
    ctx.label("merge_exact" if ex else "merge_rounding")
    T = ctx.lib(teneva.qtt_to_tt, [G.copy() for G in Zd], q)
    ctx.check(is_core_list(T, d), "qtt_to_tt(typed QTT-cores): not a list of d numeric 3-dimensional cores",
              got=[(getattr(c, "shape", None), str(getattr(c, "dtype", None))) for c in T] if isinstance(T, list) else type(T).__name__)
    ctx.check([c.shape for c in T] == [(rz[k * q], n, rz[(k + 1) * q]) for k in range(d)], "qtt_to_tt(typed QTT-cores): shapes are not q_0 x 2^q x q_q",
              got=[c.shape for c in T], qtt_ranks=rz, q=q)
    Tf = [np.asarray(c, dtype=float) for c in T]
    ctx.check(all(np.all(np.isfinite(c)) for c in Tf), "qtt_to_tt(typed QTT-cores): non-finite entries")
    _close(ctx, dense(Tf), ref, tol, "entry of qtt_to_tt(typed Z) at I vs entry of the float64 copy of Z at the little-endian bits of I", ex, dtypes=zdts)
    for k in range(d):
        H = ctx.lib(teneva.core_qtt_to_tt, [G.copy() for G in Zd[k * q:(k + 1) * q]])
        ctx.check(isinstance(H, np.ndarray) and H.shape == T[k].shape, "core_qtt_to_tt(typed QTT-cores): shape is not q_0 x 2^q x q_q", got=getattr(H, "shape", None))
        H64 = ctx.lib(teneva.core_qtt_to_tt, [G.copy() for G in Z64[k * q:(k + 1) * q]])
        Aloc = np.abs(Z64[k * q])
        for c in Z64[k * q + 1:(k + 1) * q]:
            Aloc = np.reshape(np.tensordot(Aloc, np.abs(c), 1), (Aloc.shape[0], -1, c.shape[2]), order='F')
        tl = 2 * 32.0 * (q + sum(c.shape[2] for c in Z64[k * q:(k + 1) * q]) + 2) * eps * Aloc
        _close(ctx, np.asarray(H, dtype=float), H64, tl, "core_qtt_to_tt(typed QTT-cores) vs core_qtt_to_tt(float64 copy)", ex, k=k, dtypes=zdts[k * q:(k + 1) * q])


# ------------------------------------------------------------------------------------------- rejection contract

def non_powers(hi):
    return [v for v in range(3, hi + 1) if v & (v - 1)]


@st.composite
def reject_cases(draw, tier):
    hi = 40 if tier == "quick" else 300
    n = draw(st.sampled_from(non_powers(hi)))
    d = draw(st.integers(2, 3))
    good = draw(st.sampled_from([2, 4, 8]))
    pos = draw(st.integers(0, d - 1))
    r = [1] + [draw(st.integers(1, 3)) for _ in range(d - 1)] + [1]
    m = draw(st.integers(1, 4))
    return {"n": n, "d": d, "good": good, "pos": pos, "r": r, "seed": draw(gen.seeds), "m": m,
            "I": [[draw(st.integers(0, n - 1)) for _ in range(d)] for _ in range(m)]}


def prop_reject(case, ctx):
    n, d, good, pos, r = case["n"], case["d"], case["good"], case["pos"], case["r"]
    rng = np.random.default_rng(case["seed"])
    ctx.label("n<16" if n < 16 else "n>=16", f"d={d}")
    ctx.nontrivial(True)

    def tt(shape):
        return [rng.normal(size=(r[k], shape[k], r[k + 1])) for k in range(d)]

    I = case["I"]
    ctx.raises(ValueError, teneva.ind_tt_to_qtt, np.array(I, dtype=int), n)
    ctx.raises(ValueError, teneva.ind_tt_to_qtt, I, n)
    ctx.raises(ValueError, teneva.ind_tt_to_qtt, I[0], n)
    ctx.raises(ValueError, teneva.ind_tt_to_qtt, [I[0][0]], n)                        # d = 1
    # index maps need no tensor: sizes next to a LARGE power of two (their float logarithm rounds to an integer) are not powers of two
    k = 20 + case["seed"] % 43                                                       # 2^20 .. 2^62
    for delta in (1, -1, 3, 1 << (k // 3), (1 << (k - 1)) - 1 if k < 62 else -5):
        big = (1 << k) + delta
        for sp in (int, np.int64):
            ctx.raises(ValueError, teneva.ind_tt_to_qtt, [[i % 7 for i in row] for row in I], sp(big))
    bits = ctx.lib(teneva.ind_tt_to_qtt, [[(1 << k) - 1] * d, [5 % (1 << k)] * d], 1 << k)
    ctx.check(isinstance(bits, np.ndarray) and bits.shape == (2, d * k) and bool(np.all(bits[0] == 1)) and bits[1].tolist() == ([1, 0, 1] + [0] * (k - 3)) * d,
              "ind_tt_to_qtt with a large power-of-two mode size: wrong bit strings", k=k)
    ctx.label("big_size:2^%d" % (k // 10 * 10))
    Y = tt([n] * d)
    for G in Y:
        ctx.raises(ValueError, teneva.core_tt_to_qtt, G)
    ctx.raises(ValueError, teneva.core_tt_to_qtt, Y[0], 1.E-6, 3)
    ctx.raises(ValueError, teneva.tt_to_qtt, Y)
    ctx.raises(ValueError, teneva.tt_to_qtt, Y, 1.E-6, 3)
    ctx.raises(ValueError, teneva.tt_to_qtt, Y[:1] if r[1] == 1 else [Y[0][:, :, :1]])  # d = 1
    ctx.raises(ValueError, teneva.optima_qtt, Y)
    ctx.raises(ValueError, teneva.optima_qtt, Y, 3, 1.E-6, 5)
    mixed = [good] * d
    mixed[pos] = n
    Ym = tt(mixed)
    ctx.raises(ValueError, teneva.tt_to_qtt, Ym)                                       # one bad mode among good ones
    ctx.raises(ValueError, teneva.optima_qtt, Ym)


# ------------------------------------------------------------------------------------------- shared: rejection in any state

def is_pow2(n):
    return n >= 1 and n & (n - 1) == 0


def reject_ind(ctx, n, d, sp, rows):
    """ind_tt_to_qtt must reject the non-power-of-two size n whatever was called before; rows = in-range multi-indices."""
    if sp == 0:
        ctx.raises(ValueError, teneva.ind_tt_to_qtt, np.array(rows, dtype=int), n)
    elif sp == 1:
        ctx.raises(ValueError, teneva.ind_tt_to_qtt, [list(map(int, v)) for v in rows], n)
    elif sp == 2:
        ctx.raises(ValueError, teneva.ind_tt_to_qtt, np.array(rows[0], dtype=int), n)
    else:
        ctx.raises(ValueError, teneva.ind_tt_to_qtt, [int(rows[0][0])], n)                 # d = 1


# ------------------------------------------------------------------------------------------- index maps, visiting orders

def walk_pairs(lim):
    return [(q, d) for q in range(1, lim + 1) for d in range(1, lim // q + 1)]


def walk_orders(tier):
    lim = 12 if tier == "quick" else 16
    P = walk_pairs(lim)
    L = len(P)
    desc = sorted(P, key=lambda p: (-p[0], -p[1]))
    out = [("desc_q_desc_d", desc),
           ("desc_q_asc_d", sorted(P, key=lambda p: (-p[0], p[1]))),
           ("asc_q_desc_d", sorted(P, key=lambda p: (p[0], -p[1]))),
           ("desc_bits", sorted(P, key=lambda p: (-p[0] * p[1], -p[0]))),
           ("desc_d", sorted(P, key=lambda p: (-p[1], -p[0])))]
    zig = []
    for j in range((L + 1) // 2):
        zig.append(desc[j])
        if L - 1 - j != j:
            zig.append(desc[L - 1 - j])
    out.append(("zigzag", zig))
    out.append(("zigzag_rev", zig[::-1]))
    out.append(("there_and_back", desc + desc[::-1][1:] + desc[1:]))
    strides = [a for a in (3, 5, 7, 11, 13, 17, 19, 23, 29, 31, 37, 41) if math.gcd(a, L) == 1][:8]
    for a in strides:
        out.append((f"stride{a}", [desc[(a * j + a) % L] for j in range(L)]))
    if tier != "quick":
        out = out + [(name + "_rev", order[::-1]) for name, order in out]
    return lim, out


def walk_cases(tier, shard, nshards):
    lim, orders = walk_orders(tier)
    for j, (name, order) in enumerate(orders):
        if j % nshards == shard:
            yield {"name": name, "lim": lim, "order": [list(p) for p in order], "phase": j}


def prop_walk(case, ctx):
    order, phase = case["order"], case["phase"]
    ctx.label("order:" + case["name"])
    ctx.nontrivial(True)
    total = 0
    for visit, (q, d) in enumerate(order):
        n = 2 ** q
        I = all_indices(q, d)
        m = I.shape[0]
        total += m
        B = own_bits(I, q)
        where = dict(q=q, d=d, visit=visit, order=case["name"], before=order[max(0, visit - 3):visit])
        if (visit + phase) % 2 == 0:                                  # which map is called first alternates
            got = ctx.lib(teneva.ind_tt_to_qtt, I.copy(), n)
            back = ctx.lib(teneva.ind_qtt_to_tt, B.copy(), q)
        else:
            back = ctx.lib(teneva.ind_qtt_to_tt, B.copy(), q)
            got = ctx.lib(teneva.ind_tt_to_qtt, I.copy(), n)
        ctx.check(is_int_array(got, (m, d * q)), "ind_tt_to_qtt(batch): not an integer ndarray of shape [samples, d*q]",
                  shape=getattr(got, "shape", None), dtype=str(getattr(got, "dtype", None)), **where)
        ctx.check(bool(np.all(got == B)), "ind_tt_to_qtt(batch) differs from shift/mask bits after calls with other (q, d)",
                  first_bad=_first_bad(got, B, I, got), **where)
        ctx.check(is_int_array(back, (m, d)), "ind_qtt_to_tt(batch): not an integer ndarray of shape [samples, d]",
                  shape=getattr(back, "shape", None), **where)
        ctx.check(bool(np.all(back == I)), "ind_qtt_to_tt(bits) is not sum b_j 2^j after calls with other (q, d)",
                  first_bad=_first_bad(back, I, I, B), **where)
        rt = ctx.lib(teneva.ind_qtt_to_tt, got, q)
        ctx.check(is_int_array(rt, (m, d)) and bool(np.all(rt == I)), "ind_qtt_to_tt(ind_tt_to_qtt(I)) != I", **where)
        # the other spellings on a sample that moves with the visit number: list of lists, batch of one, single
        k = min(m, 48)
        lo = (visit * 37 + phase * 11) % (m - k + 1)
        gl = ctx.lib(teneva.ind_tt_to_qtt, I[lo:lo + k].tolist(), n)
        ctx.check(is_int_array(gl, (k, d * q)) and bool(np.all(gl == B[lo:lo + k])), "ind_tt_to_qtt(list of lists) differs from shift/mask bits", **where)
        bl = ctx.lib(teneva.ind_qtt_to_tt, B[lo:lo + k].tolist(), q)
        ctx.check(is_int_array(bl, (k, d)) and bool(np.all(bl == I[lo:lo + k])), "ind_qtt_to_tt(list of lists) is not sum b_j 2^j", **where)
        step = max(1, m // 12)
        for t in sorted({0, m - 1} | set(range((visit + phase) % step, m, step))):
            as_list = (t + visit) % 2 == 1
            s1 = ctx.lib(teneva.ind_tt_to_qtt, [int(v) for v in I[t]] if as_list else I[t].copy(), n)
            ctx.check(is_int_array(s1, (d * q,)) and bool(np.all(s1 == B[t])), "ind_tt_to_qtt(single index) differs from shift/mask bits",
                      i=I[t], got=s1, ref=B[t], **where)
            s2 = ctx.lib(teneva.ind_qtt_to_tt, [int(v) for v in B[t]] if as_list else B[t].copy(), q)
            ctx.check(is_int_array(s2, (d,)) and bool(np.all(s2 == I[t])), "ind_qtt_to_tt(single index) is not sum b_j 2^j",
                      bits=B[t], got=s2, ref=I[t], **where)
            g1 = ctx.lib(teneva.ind_tt_to_qtt, I[t:t + 1].copy(), n)
            ctx.check(is_int_array(g1, (1, d * q)) and bool(np.all(g1 == B[t:t + 1])), "ind_tt_to_qtt(batch of one) is not of shape [1, d*q]", **where)
        # the sizes next to 2^q (same or neighbouring floor(log2)) are still rejected now that 2^q has been served
        for bad in sorted({n - 1, n + 1, 2 * n - 1, 3 * n // 2, 3 * n}):
            if bad >= 3 and not is_pow2(bad):
                rows = [[0] * d, [bad - 1] * d, [min(bad, n) - 1] * d]
                try:
                    reject_ind(ctx, bad, d, (visit + bad) % 4, rows[(visit + phase) % 3:] + rows[:(visit + phase) % 3])
                except harness.core.OracleFailure as exc:
                    raise harness.core.OracleFailure(f"n={bad} after the valid size {n} was served: {exc.args[0]}", where)
    ctx.inner(total - 1)


# ------------------------------------------------------------------------------------------- histories of calls

H_FUNCS = ("ind", "core", "tt", "optima")


def hist_sizes(tier):
    return dict(q_max=4, bits=13, body=8) if tier == "quick" else dict(q_max=6, bits=15, body=14)


def hist_pools(q):
    good = [2 ** j for j in (q - 1, q, q + 1) if j >= 1]
    bad = [v for v in range(max(3, 2 ** (q - 1) + 1), 2 ** (q + 2)) if not is_pow2(v)]
    same = [v for v in bad if 2 ** q < v < 2 ** (q + 1)]            # same floor(log2) as the valid size 2^q
    return good, bad, same


@st.composite
def history_cases(draw, tier):
    sz = hist_sizes(tier)
    q = draw(st.integers(1, sz["q_max"]))
    d = draw(st.integers(2, max(2, min(3, sz["bits"] // (q + 1)))))
    good, bad, same = hist_pools(q)
    r = [1] + [draw(st.integers(1, 3)) for _ in range(d - 1)] + [1]
    sp = st.integers(0, 3)
    var = st.integers(0, 1)
    bad_n = st.one_of(st.sampled_from(same), st.sampled_from(bad))
    funcs = draw(st.lists(st.sampled_from(H_FUNCS), min_size=1, max_size=4, unique=True)) if draw(st.integers(0, 3)) == 0 else list(H_FUNCS)
    warm = draw(st.permutations([(f, n) for f in funcs for n in good[-2:]]))
    steps = [[f, n, draw(sp), draw(var)] for f, n in warm]
    for _ in range(draw(st.integers(2, sz["body"]))):
        f = draw(st.sampled_from(H_FUNCS))
        n = draw(bad_n) if draw(st.booleans()) else draw(st.sampled_from(good))
        steps.append([f, n, draw(sp), draw(var)])
    for f in draw(st.permutations(H_FUNCS)):                         # invalid -> valid once more, for every function
        steps.append([f, draw(bad_n), draw(sp), draw(var)])
        steps.append([f, draw(st.sampled_from(good)), draw(sp), draw(var)])
    return {"q": q, "d": d, "r": r, "seed": draw(gen.seeds), "steps": steps}


def hist_data(case, n, var, store):
    """Inputs of a step depend on (seed, n, variant) only, not on the position of the step in the history."""
    key = (n, var)
    if key not in store:
        d, r = case["d"], case["r"]
        rng = np.random.default_rng([case["seed"], n, var])
        Y = [rng.normal(size=(r[k], n, r[k + 1])) for k in range(d)]
        I = rng.integers(0, n, size=(3, d))
        if n >= 4:
            I[1, :] = n - 1 - (I[1, :] % (n // 2))                   # a row in the upper half of the range (>= 2^floor(log2 n))
            I[2, :] = I[2, :] % (n // 2)                             # a row in the lower half
        good = 2 ** case["q"]
        mixed = [good] * d
        mixed[(case["seed"] + var) % d] = n
        Ym = [rng.normal(size=(r[k], mixed[k], r[k + 1])) for k in range(d)]
        store[key] = (Y, I, Ym)
    return store[key]


def check_core_call(ctx, G, q, args, what, as_is=False):
    """core_tt_to_qtt(G, *args) -> (merged core, accuracy bound or None); shape, rank chain, cap, accuracy.

    as_is: hand G itself to the library (ndarray.copy() returns a C-ordered array, i.e. drops the memory layout of G)."""
    e, r = (0.0, 1.E+12) if not args else args
    Q = ctx.lib(teneva.core_tt_to_qtt, G if as_is else G.copy(), *args)
    ctx.check(isinstance(Q, list) and len(Q) == q and all(isinstance(c, np.ndarray) and c.ndim == 3 and c.shape[1] == 2 for c in Q),
              f"{what}: not a list of q cores with mode size 2", got=[getattr(c, "shape", None) for c in Q] if isinstance(Q, list) else None)
    ctx.check(Q[0].shape[0] == G.shape[0] and Q[-1].shape[2] == G.shape[2] and all(Q[j].shape[2] == Q[j + 1].shape[0] for j in range(q - 1)),
              f"{what}: ranks do not chain from r1 to r2", got=[c.shape for c in Q], core=G.shape)
    ctx.check(all(np.all(np.isfinite(c)) for c in Q), f"{what}: non-finite entries")
    ctx.check(all(Q[j].shape[2] <= max(1, int(r)) for j in range(q - 1)), f"{what}: bond created inside the mode exceeds the rank cap",
              got=[c.shape for c in Q], cap=r)
    H = ctx.lib(teneva.core_qtt_to_tt, Q)
    ctx.check(isinstance(H, np.ndarray) and H.shape == G.shape, f"{what}: core_qtt_to_tt of the result has not the shape of G",
              got=getattr(H, "shape", None), ref=G.shape)
    reg, b, gmax = core_model(G, q, e)
    if reg is None or int(r) < gmax:
        return H, None
    err = fro(H - G)
    ctx.check(err <= b, f"{what}: core_qtt_to_tt(core_tt_to_qtt(G)) differs from G beyond sqrt(q)*e + q*floor",
              err=err, bound=b, e=e, r=r, norm=fro(G), shape=G.shape, regime=reg)
    return H, b


def check_tt_call(ctx, Y, Z, q, e, r, what):
    """Z = tt_to_qtt(Y, e, r) -> (dense of Z in TT layout, Frobenius bound or None); form, ranks, cap, accuracy."""
    d = len(Y)
    ctx.check(isinstance(Z, list) and len(Z) == q * d, f"{what}: not a list of d*q cores", got=len(Z) if isinstance(Z, list) else type(Z).__name__)
    check_qtt_form(ctx, Z, q, d, ranks_of(Y), r, what)
    DZ = group(dense(Z), q, d)
    models = [core_model(G, q, e) for G in Y]
    if int(r) < max(mm[2] for mm in models) or any(mm[0] is None for mm in models):
        return DZ, None
    norms = [fro(G) for G in Y]
    tol = product_bound(norms, [mm[1] for mm in models]) * (1 + 1e-9) + fro(oracle.tol_dense(Y)) + fro(oracle.tol_dense(Z))
    err = fro(DZ - dense(Y))
    ctx.check(err <= tol, f"{what}: the QTT-tensor does not denote Y at the binary expansions within the requested accuracy",
              err=err, tol=tol, e=e, r=r, regimes=[mm[0] for mm in models])
    return DZ, tol


def prop_history(case, ctx):
    q0, d, steps = case["q"], case["d"], case["steps"]
    store, seen = {}, {}
    served = {f: set() for f in H_FUNCS}          # floor(log2 n) of the valid sizes a function has handled so far
    n_bad = n_bad_same = n_repeat = n_acc = n_noacc = 0
    ctx.label(f"q={q0}", f"d={d}")
    ctx.nontrivial(True)
    ctx.inner(len(steps) - 1)
    for t, (f, n, sp, var) in enumerate(steps):
        Y, I, Ym = hist_data(case, n, var, store)
        q = n.bit_length() - 1
        what = f"step {t} {f}(n={n}, spelling {sp}) after {[(s[0], s[1]) for s in steps[max(0, t - 4):t]]}"
        if not is_pow2(n):
            n_bad += 1
            n_bad_same += q in served[f]
            try:
                _history_reject(ctx, f, n, sp, d, Y, I, Ym)
            except harness.core.OracleFailure as exc:
                raise harness.core.OracleFailure(f"{what}: {exc.args[0]}", {"steps_so_far": steps[:t + 1], "served": sorted(served[f])})
            continue
        served[f].add(q)
        key = (f, n, sp, var)
        if f == "ind":
            rows = I if sp < 2 else (I[0] if sp == 2 else I[0, :1])
            arg = rows.copy() if sp in (0, 2) else rows.tolist()
            ref = own_bits(np.atleast_2d(rows), q)
            ref = ref if sp < 2 else ref[0]
            got = ctx.lib(teneva.ind_tt_to_qtt, arg, n)
            ctx.check(is_int_array(got, ref.shape) and bool(np.all(got == ref)), f"{what}: ind_tt_to_qtt differs from shift/mask bits",
                      I=rows, got=got, ref=ref)
            back = ctx.lib(teneva.ind_qtt_to_tt, got.copy() if sp in (0, 2) else got.tolist(), q)
            ctx.check(is_int_array(back, np.shape(rows)) and bool(np.all(back == rows)), f"{what}: ind_qtt_to_tt(ind_tt_to_qtt(I)) != I",
                      I=rows, got=back)
            res, tol = got, 0
        elif f == "core":
            G = Y[sp % d]
            H, tol = check_core_call(ctx, G, q, () if sp < 2 else (1.E-6, 3), what)
            res = H
        elif f == "tt":
            if sp == 3:
                Yd = [Y[0][:, :, :1]]                                                        # d = 1
                res, tol = check_tt_call(ctx, Yd, ctx.lib(teneva.tt_to_qtt, [G.copy() for G in Yd]), q, 1.E-12, 100, what)
            else:
                args, e, r = [((), 1.E-12, 100), ((1.E-6, 3), 1.E-6, 3), ((1.E-10,), 1.E-10, 100)][sp]
                Z = ctx.lib(teneva.tt_to_qtt, [G.copy() for G in Y], *args)
                res, tol = check_tt_call(ctx, Y, Z, q, e, r, what)
                # entries of the QTT-tensor at the binary expansion (one more index-map call inside the history)
                Bt = ctx.lib(teneva.ind_tt_to_qtt, I.copy(), n)
                ctx.check(is_int_array(Bt, (len(I), q * d)) and bool(np.all(Bt == own_bits(I, q))), f"{what}: ind_tt_to_qtt differs from shift/mask bits")
                if tol is not None and len(Z) >= 2:
                    vals = np.asarray(ctx.lib(teneva.get_many, Z, Bt), dtype=float)
                    refv = dense(Y)[tuple(I.T)]
                    ctx.check(vals.shape == refv.shape and bool(np.all(np.abs(vals - refv) <= tol)),
                              f"{what}: entries of tt_to_qtt(Y) at the binary expansions differ from the entries of Y", got=vals, ref=refv, tol=tol)
        else:
            args = [(), (3, 1.E-6, 5), (2,), (100, 1.E-12, 100)][sp]
            out = ctx.lib(teneva.optima_qtt, [G.copy() for G in Y], *args)
            ctx.check(isinstance(out, tuple) and len(out) == 4, f"{what}: optima_qtt did not return a 4-tuple")
            F = dense(Y)
            tolF = 2 * oracle.tol_dense(Y, extra=2)
            for i, y, name in ((out[0], out[1], "min"), (out[2], out[3], "max")):
                ctx.check(is_int_array(i, (d,)) and bool(np.all((i >= 0) & (i < n))), f"{what}: optima_qtt i_{name} is not a multi-index of Y", got=i)
                at = tuple(int(v) for v in i)
                ctx.check(np.ndim(y) == 0 and abs(float(y) - F[at]) <= tolF[at], f"{what}: optima_qtt y_{name} is not the entry of Y at i_{name}",
                          i=i, y=y, entry=F[at], tol=tolF[at])
            res, tol = None, None
        n_acc += tol is not None and f != "ind"
        n_noacc += tol is None and f in ("core", "tt")
        # an identical valid call made earlier in this history gave the same answer
        if key in seen and res is not None:
            n_repeat += 1
            old, old_tol = seen[key]
            if f == "ind":
                ctx.check(bool(np.array_equal(old, res)), f"{what}: the result of an identical earlier call differs", before=old, now=res)
            elif tol is not None and old_tol is not None:
                ctx.check(old.shape == res.shape and fro(old - res) <= tol + old_tol,
                          f"{what}: the result of an identical earlier call denotes a different tensor", diff=fro(old - res), tol=tol + old_tol)
        if res is not None:
            seen[key] = (res, tol)
    ctx.label("invalid_steps>=4" if n_bad >= 4 else "invalid_steps<4",
              "invalid_after_valid_same_level" if n_bad_same else "no_invalid_after_valid_same_level",
              "repeated_valid_call" if n_repeat else "no_repeated_valid_call",
              "conversion_accuracy_claimed" if n_acc else "no_conversion_accuracy_claimed",
              "some_conversion_without_accuracy_claim" if n_noacc else "every_conversion_with_accuracy_claim")


def _history_reject(ctx, f, n, sp, d, Y, I, Ym):
    if f == "ind":
        reject_ind(ctx, n, d, sp, I[sp % 3:].tolist() + I[:sp % 3].tolist())
    elif f == "core":
        if sp < 2:
            ctx.raises(ValueError, teneva.core_tt_to_qtt, Y[sp % d].copy())
        else:
            ctx.raises(ValueError, teneva.core_tt_to_qtt, Y[sp % d].copy(), 1.E-6, 3)
    elif f == "tt":
        if sp == 0:
            ctx.raises(ValueError, teneva.tt_to_qtt, [G.copy() for G in Y])
        elif sp == 1:
            ctx.raises(ValueError, teneva.tt_to_qtt, [G.copy() for G in Y], 1.E-6, 3)
        elif sp == 2:
            ctx.raises(ValueError, teneva.tt_to_qtt, [G.copy() for G in Ym])                 # one bad mode among good ones
        else:
            ctx.raises(ValueError, teneva.tt_to_qtt, [Y[0][:, :, :1].copy()])                 # d = 1
    else:
        if sp == 0:
            ctx.raises(ValueError, teneva.optima_qtt, [G.copy() for G in Y])
        elif sp == 1:
            ctx.raises(ValueError, teneva.optima_qtt, [G.copy() for G in Y], 3, 1.E-6, 5)
        else:
            ctx.raises(ValueError, teneva.optima_qtt, [G.copy() for G in Ym])


# ------------------------------------------------------------------------------------------- memory layout of array arguments
#
# An ndarray argument is its shape, element type and LOGICAL contents a[i, j, ...]; the strides (C / Fortran order, a
# transposed view, every other row / column of a larger array, reversed axes) are a storage detail that no docstring
# mentions and that the property does not quantify away: "for single indices and batches alike", "a TT-tensor is a list
# of 3-dimensional arrays".  Every routine of this property that takes an array must therefore give, for every layout of
# the same logical contents, the result it gives for the C-ordered copy:
#   * index maps: == (integers), for batches and single indices;
#   * core_qtt_to_tt / qtt_to_tt / get_many on integer-valued cores: == (every partial sum is an exactly representable
#     integer, so the summation order that BLAS / einsum choose for a given stride pattern cannot matter);
#   * on Gaussian cores: elementwise within the abs-majorant rounding bound of `merge` (both results are roundings of the
#     same exact value; no bit-for-bit claim, BLAS may pick a different kernel for different strides);
#   * core_tt_to_qtt / tt_to_qtt: every state-independent oracle of `convert` / `history` (shape, rank chain, cap, accuracy),
#     the merged results for the layout and for the C-ordered copy within the sum of the two accuracy bounds, and equal ranks
#     when nothing may be cut (regime L, cap cannot bind).
# The elements of the underlying buffer that do not belong to the view (the skipped rows / columns) are filled with
# in-domain junk (valid indices, bits, core entries of the same magnitude), so that an implementation which reads the
# buffer in memory order returns wrong numbers rather than raising.

LAY_NAMED = ("C", "F", "T", "rows2", "cols2", "both2", "neg0", "neg1", "negall", "F_neg_strided")
LAY_STEPS = (1, 1, 2, 3, -1, -2)


def _perms(k):
    import itertools
    return [list(p) for p in itertools.permutations(range(k))]


def lay_spec(name, ndim):
    """Named layout -> {"perm": memory order of the axes (slowest first), "steps": stride factor per axis, "offs": offsets}."""
    c, f = list(range(ndim)), list(range(ndim))[::-1]
    one, zero = [1] * ndim, [0] * ndim
    last = min(1, ndim - 1)
    if name == "rows2":
        return {"perm": c, "steps": [2] + one[1:], "offs": [1] + zero[1:]}
    if name == "cols2":
        st_ = list(one)
        st_[last] = 2
        return {"perm": c, "steps": st_, "offs": zero}
    if name == "both2":
        return {"perm": c, "steps": [2] * ndim, "offs": [1] * ndim}
    if name == "neg0":
        return {"perm": c, "steps": [-1] + one[1:], "offs": zero}
    if name == "neg1":
        st_ = list(one)
        st_[last] = -1
        return {"perm": c, "steps": st_, "offs": zero}
    if name == "negall":
        return {"perm": c, "steps": [-1] * ndim, "offs": zero}
    if name == "F_neg_strided":
        return {"perm": f, "steps": ([-2, 2, -1] * ndim)[:ndim], "offs": [1] * ndim}
    raise ValueError(name)


@st.composite
def lay_specs(draw, ndim):
    """A named layout or a drawn one (memory order of the axes, step and offset per axis)."""
    if draw(st.integers(0, 2)) == 0:
        return draw(st.sampled_from(LAY_NAMED))
    return {"perm": draw(st.sampled_from(_perms(ndim))), "steps": [draw(st.sampled_from(LAY_STEPS)) for _ in range(ndim)],
            "offs": [draw(st.integers(0, 2)) for _ in range(ndim)]}


def relayout(A, spec, junk):
    """The array A (any layout) as an array with the same shape, dtype and logical contents in the memory layout `spec`.

    junk(shape) -> array of in-domain filler for the elements of the buffer that the view skips."""
    A = np.asarray(A)
    C = np.ascontiguousarray(A).copy()
    if spec == "C":
        out = C
    elif spec == "F":
        out = np.asfortranarray(C)
    elif spec == "T":                                            # np.array(cols).T: a transposed view of a C-ordered array
        out = np.array([np.array(c) for c in C.T]).T if C.ndim >= 2 else C[::-1].copy()[::-1]
    else:
        if isinstance(spec, str):
            spec = lay_spec(spec, C.ndim)
        perm, steps, offs = spec["perm"], spec["steps"], spec["offs"]
        big_shape = [abs(steps[a]) * C.shape[a] + offs[a] for a in range(C.ndim)]
        buf = np.ascontiguousarray(np.asarray(junk([big_shape[a] for a in perm])).astype(C.dtype))
        big = buf.transpose(np.argsort(perm))                    # axis a of `big` is axis perm.index(a) of the C-ordered buffer
        sl = []
        for a in range(C.ndim):
            k, o, L = steps[a], offs[a], C.shape[a]
            sl.append(slice(o, o + k * L, k) if k > 0 else slice(o + (-k) * (L - 1), None if o == 0 else o - 1, k))
        out = big[tuple(sl)]
        if out.shape != C.shape:
            raise harness.core.OracleFailure("internal: relayout produced a wrong shape", {"got": out.shape, "ref": C.shape, "spec": spec})
        out[...] = C
    if out.shape != C.shape or out.dtype != C.dtype or not np.array_equal(out, C):
        raise harness.core.OracleFailure("internal: relayout changed the logical contents", {"spec": spec})
    return out


def lay_kind(x):
    if x.ndim >= 2 and x.flags.c_contiguous and x.flags.f_contiguous:
        return "lay:both_C_and_F"
    if x.flags.c_contiguous:
        return "lay:C"
    if x.flags.f_contiguous:
        return "lay:F"
    return "lay:negative_stride" if any(s < 0 for s in x.strides) else "lay:non_contiguous"


def lay_sizes(tier):
    return dict(q_max=4, qd_max=9, m_max=6, extra=3) if tier == "quick" else dict(q_max=5, qd_max=12, m_max=12, extra=6)


@st.composite
def layout_cases(draw, tier):
    sz = lay_sizes(tier)
    # index maps: any quantisation level the maps serve
    qi = draw(st.one_of(st.integers(1, 6), st.integers(1, Q_MAX), st.sampled_from(DEEP_Q_EDGES)))
    di = draw(st.sampled_from([1, 2, 2, 3, 3, 4, 5]))
    mi = draw(st.integers(1, sz["m_max"]))
    fit = [t for t, bits in (("int64", 63), ("int32", 31), ("uint32", 32), ("int16", 15), ("uint8", 8)) if qi <= bits]
    # conversions
    q = draw(st.integers(1, sz["q_max"]))
    d = draw(st.integers(1, max(1, min(3, sz["qd_max"] // q))))
    r = [1] + [draw(st.integers(1, 3)) for _ in range(d - 1)] + [1]
    rz = [1] + [draw(st.integers(1, 3)) for _ in range(q * d - 1)] + [1]
    k = sz["extra"]
    return {"qi": qi, "di": di, "mi": mi, "i_dtype": draw(st.sampled_from(["int64", "int64"] + fit)),
            "b_dtype": draw(st.sampled_from(["int64", "int64", "int32", "int8", "uint8"])),
            "lay2": [draw(lay_specs(2)) for _ in range(k)], "lay1": [draw(lay_specs(1)) for _ in range(k)],
            "q": q, "d": d, "r": r, "rz": rz, "m": draw(st.integers(2, sz["m_max"])),
            "vfam": draw(st.sampled_from(["gauss", "gauss", "smallint"])), "zfam": draw(st.sampled_from(["gauss", "smallint", "smallint"])),
            "args": draw(st.sampled_from([[], [], [1.E-6, 3], [1.E-10, 100], [0.0, 1.E+12]])),
            "lay3": [draw(lay_specs(3)) for _ in range(k)],
            "lay_Y": [[draw(lay_specs(3)) for _ in range(d)] for _ in range(2)],
            "lay_Z": [[draw(lay_specs(3)) for _ in range(q * d)] for _ in range(2)],
            "seed": draw(gen.seeds)}


def _spec_name(spec):
    return spec if isinstance(spec, str) else "perm%s/steps%s/offs%s" % ("".join(map(str, spec["perm"])), spec["steps"], spec["offs"])


def prop_layout(case, ctx):
    _guard_memory()                                              # index part: q up to 62, as in `deep`
    rng = np.random.default_rng(case["seed"])
    ctx.nontrivial(case["di"] >= 2 and case["mi"] >= 2)
    n_calls = _layout_index(case, ctx, rng)
    n_calls += _layout_convert(case, ctx, rng)
    ctx.inner(n_calls - 1)


def _layout_index(case, ctx, rng):
    q, d, m = case["qi"], case["di"], case["mi"]
    n = 1 << q
    I = rng.integers(0, n, size=(m, d), dtype=np.int64)
    I[rng.integers(0, m), :] = n - 1 - rng.integers(0, min(n, 3), size=d)     # a row at the top of the range
    I = I.astype(case["i_dtype"])
    B = own_bits(I, q)
    ctx.check(bool(np.all(own_unbits(B, q) == I.astype(np.int64))), "internal: shift/mask reference is not self-consistent")
    Bd = B.astype(case["b_dtype"])
    ctx.label("ind:q<=12" if q <= 12 else "ind:q13..31" if q <= 31 else "ind:q32..62", f"ind:d={d}", "ind:m=1" if m == 1 else "ind:m>=2",
              "I:" + case["i_dtype"], "bits:" + case["b_dtype"])
    junk_i = lambda sh: rng.integers(0, n, size=sh, dtype=np.int64)
    junk_b = lambda sh: rng.integers(0, 2, size=sh, dtype=np.int64)
    ref_f = ctx.lib(teneva.ind_tt_to_qtt, np.ascontiguousarray(I).copy(), n)
    ref_b = ctx.lib(teneva.ind_qtt_to_tt, np.ascontiguousarray(Bd).copy(), q)
    ctx.check(is_int_array(ref_f, (m, d * q)) and bool(np.all(ref_f == B)), "ind_tt_to_qtt(C-ordered batch) differs from shift/mask bits", q=q, d=d)
    ctx.check(is_int_array(ref_b, (m, d)) and bool(np.all(ref_b == I)), "ind_qtt_to_tt(C-ordered batch) is not sum b_j 2^j", q=q, d=d)
    calls = 2
    for spec in list(LAY_NAMED) + case["lay2"]:
        name = _spec_name(spec)
        Il, Bl = relayout(I, spec, junk_i), relayout(Bd, spec, junk_b)
        ctx.label(lay_kind(Il))
        where = dict(layout=name, q=q, d=d, m=m, strides_I=Il.strides, strides_B=Bl.strides, flags_I=lay_kind(Il))
        got = ctx.lib(teneva.ind_tt_to_qtt, Il, n)
        ctx.check(is_int_array(got, (m, d * q)), "ind_tt_to_qtt(batch in another memory layout): not an integer ndarray of shape [samples, d*q]",
                  shape=getattr(got, "shape", None), **where)
        ctx.check(bool(np.all(got == ref_f)), "ind_tt_to_qtt(batch) depends on the memory layout of the batch (differs from the result for the C-ordered copy)",
                  first_bad=_first_bad(got, ref_f, I, got), **where)
        ctx.check(bool(np.all(got == B)), "ind_tt_to_qtt(batch in another memory layout) differs from shift/mask bits", first_bad=_first_bad(got, B, I, got), **where)
        back = ctx.lib(teneva.ind_qtt_to_tt, Bl, q)
        ctx.check(is_int_array(back, (m, d)), "ind_qtt_to_tt(batch in another memory layout): not an integer ndarray of shape [samples, d]",
                  shape=getattr(back, "shape", None), **where)
        ctx.check(bool(np.all(back == ref_b)), "ind_qtt_to_tt(batch) depends on the memory layout of the batch (differs from the result for the C-ordered copy)",
                  first_bad=_first_bad(back, ref_b, I, B), **where)
        ctx.check(bool(np.all(back == I)), "ind_qtt_to_tt(batch in another memory layout) is not sum b_j 2^j", first_bad=_first_bad(back, I, I, B), **where)
        # compositions: the output of one map for a laid-out argument, itself laid out, through the other map
        rt = ctx.lib(teneva.ind_qtt_to_tt, relayout(got, spec, junk_b), q)
        ctx.check(is_int_array(rt, (m, d)) and bool(np.all(rt == I)), "ind_qtt_to_tt(ind_tt_to_qtt(I)) != I for a batch in another memory layout", **where)
        rt = ctx.lib(teneva.ind_tt_to_qtt, relayout(back, spec, junk_i), n)
        ctx.check(is_int_array(rt, (m, d * q)) and bool(np.all(rt == B)), "ind_tt_to_qtt(ind_qtt_to_tt(B)) != B for a batch in another memory layout", **where)
        ctx.check(bool(np.array_equal(Il, I)) and bool(np.array_equal(Bl, Bd)), "internal: argument changed")
        calls += 4
    # single indices: rows of laid-out batches (strided 1-D views) and laid-out 1-D arrays
    for j, spec in enumerate(["neg0", "rows2", "F_neg_strided", "F"] + case["lay1"]):
        t = j % m
        if j < 4:
            i1, b1 = relayout(I, spec, junk_i)[t], relayout(Bd, spec, junk_b)[t]
        else:
            i1, b1 = relayout(I[t], spec, junk_i), relayout(Bd[t], spec, junk_b)
        where = dict(layout=_spec_name(spec), q=q, d=d, i=I[t], strides_i=i1.strides, strides_b=b1.strides)
        s = ctx.lib(teneva.ind_tt_to_qtt, i1, n)
        ctx.check(is_int_array(s, (d * q,)) and bool(np.all(s == B[t])), "ind_tt_to_qtt(single index as a strided view) differs from the batch result", got=s, ref=B[t], **where)
        s = ctx.lib(teneva.ind_qtt_to_tt, b1, q)
        ctx.check(is_int_array(s, (d,)) and bool(np.all(s == I[t])), "ind_qtt_to_tt(single index as a strided view) differs from the batch result", got=s, ref=I[t], **where)
        calls += 2
    return calls


def _rounding_tol(Zs, eps=EPS):
    """Elementwise bound for core_qtt_to_tt(Zs) computed in any summation order (abs-majorant, constant of `dtype`)."""
    A = np.abs(Zs[0])
    for c in Zs[1:]:
        A = np.reshape(np.tensordot(A, np.abs(c), 1), (A.shape[0], -1, c.shape[2]), order='F')
    return 2 * 32.0 * (len(Zs) + sum(c.shape[2] for c in Zs) + 2) * eps * A


def _layout_convert(case, ctx, rng):
    q, d, r_tt, rz, m = case["q"], case["d"], case["r"], case["rz"], case["m"]
    n = 2 ** q
    L = q * d
    args = tuple(case["args"])
    e_core, r_core = (0.0, 1.E+12) if not args else args
    e_tt, r_tt_cap = (1.E-12, 100) if not args else args
    vals = (lambda sh: rng.normal(size=sh)) if case["vfam"] == "gauss" else (lambda sh: rng.integers(-3, 4, size=sh).astype(float))
    zvals = (lambda sh: rng.normal(size=sh)) if case["zfam"] == "gauss" else (lambda sh: rng.integers(-3, 4, size=sh).astype(float))
    Y = [vals((r_tt[k], n, r_tt[k + 1])) for k in range(d)]
    Zq = [zvals((rz[k], 2, rz[k + 1])) for k in range(L)]
    ctx.label(f"q={q}", f"d={d}", "values:" + case["vfam"], "qtt_values:" + case["zfam"], "args:" + ("default" if not args else str(list(args))))
    calls = 0

    # ---- core_tt_to_qtt: every core, named and drawn layouts
    for k in range(d):
        G = Y[k]
        H0, b0 = check_core_call(ctx, G, q, args, f"core_tt_to_qtt(C-ordered core {k})")
        Q0 = ctx.lib(teneva.core_tt_to_qtt, G.copy(), *args)
        reg = core_model(G, q, e_core)
        free = reg[0] == "L" and int(r_core) >= reg[2]
        ctx.label("core_accuracy_claimed" if b0 is not None else "core_accuracy_not_claimed")
        specs = [s for s in LAY_NAMED if s != "C"] + case["lay3"]
        for spec in (specs if k == 0 else specs[k::d] + case["lay3"][:1]):
            Gl = relayout(G, spec, vals)
            ctx.label(lay_kind(Gl))
            what = f"core_tt_to_qtt(core {k} of shape {G.shape} in layout {_spec_name(spec)}, strides {Gl.strides})"
            H, b = check_core_call(ctx, Gl, q, args, what, as_is=True)
            calls += 1
            if b is not None and b0 is not None:
                ctx.check(fro(H - H0) <= b + b0, f"{what}: the merged result differs from the merged result for the C-ordered copy of the core",
                          diff=fro(H - H0), tol=b + b0, norm=fro(G))
            if free:
                Ql = ctx.lib(teneva.core_tt_to_qtt, Gl, *args)
                ctx.check([c.shape for c in Ql] == [c.shape for c in Q0], f"{what}: ranks differ from the ranks for the C-ordered copy although nothing may be cut",
                          got=[c.shape for c in Ql], ref=[c.shape for c in Q0])
            ctx.check(bool(np.array_equal(Gl, G)), "internal: argument changed")

    # ---- tt_to_qtt: cores in drawn layouts (and all Fortran-ordered / all transposed)
    Z0 = ctx.lib(teneva.tt_to_qtt, [G.copy() for G in Y], *args)
    D0, tol0 = check_tt_call(ctx, Y, Z0, q, e_tt, r_tt_cap, "tt_to_qtt(C-ordered cores)")
    models = [core_model(G, q, e_tt) for G in Y]
    free = all(mm[0] == "L" for mm in models) and int(r_tt_cap) >= max(mm[2] for mm in models)
    ctx.label("tt_accuracy_claimed" if tol0 is not None else "tt_accuracy_not_claimed")
    F = dense(Y)
    for lays in [["F"] * d, ["T"] * d, ["F_neg_strided"] * d] + case["lay_Y"]:
        Yl = [relayout(Y[k], lays[k], vals) for k in range(d)]
        what = f"tt_to_qtt(cores in layouts {[_spec_name(s) for s in lays]})"
        Zl = ctx.lib(teneva.tt_to_qtt, Yl, *args)
        calls += 1
        Dl, tol = check_tt_call(ctx, Y, Zl, q, e_tt, r_tt_cap, what)
        if tol is not None and tol0 is not None:
            ctx.check(fro(Dl - D0) <= tol + tol0, f"{what}: denotes a different tensor than the result for the C-ordered copies",
                      diff=fro(Dl - D0), tol=tol + tol0, norm=fro(F))
        if free:
            ctx.check(ranks_of(Zl) == ranks_of(Z0), f"{what}: ranks differ from the ranks for the C-ordered copies although nothing may be cut",
                      got=ranks_of(Zl), ref=ranks_of(Z0))

    # ---- core_qtt_to_tt / qtt_to_tt: QTT-cores in layouts
    ex = case["zfam"] == "smallint"                              # |entries| <= 3, ranks <= 3: every partial sum is an integer < 2^53
    ref = group(dense(Zq), q, d)
    tolq = 2 * K_of(Zq, extra=2) * EPS * group(dense_abs(Zq), q, d)
    T0 = ctx.lib(teneva.qtt_to_tt, [G.copy() for G in Zq], q)
    why = oracle.wellformed(T0, [n] * d, finite=True)
    ctx.check(why is None, f"qtt_to_tt(C-ordered cores): not a well-formed finite TT-tensor of shape [2^q]*d: {why}")
    _close(ctx, dense(T0), ref, tolq, "entry of qtt_to_tt(Z) at I vs entry of Z at the little-endian bits of I", ex)
    for lays in [["F"] * L, ["T"] * L, ["negall"] * L, ["F_neg_strided"] * L] + case["lay_Z"]:
        Zl = [relayout(Zq[k], lays[k], zvals) for k in range(L)]
        ctx.label(*sorted({lay_kind(c) for c in Zl}))
        names = [_spec_name(s) for s in lays]
        Tl = ctx.lib(teneva.qtt_to_tt, Zl, q)
        calls += 1
        why = oracle.wellformed(Tl, [n] * d, finite=True)
        ctx.check(why is None, f"qtt_to_tt(QTT-cores in other memory layouts): not a well-formed finite TT-tensor of shape [2^q]*d: {why}", layouts=names)
        ctx.check(ranks_of(Tl) == [rz[k * q] for k in range(d + 1)], "qtt_to_tt(QTT-cores in other memory layouts): TT-ranks are not the QTT bonds between the modes",
                  got=ranks_of(Tl), qtt_ranks=rz, layouts=names)
        _close(ctx, dense(Tl), ref, tolq, "entry of qtt_to_tt(Z) at I vs entry of Z at the little-endian bits of I, QTT-cores in other memory layouts", ex, layouts=names)
        for k in range(d):
            tl = _rounding_tol(Zq[k * q:(k + 1) * q])
            _close(ctx, Tl[k], T0[k], 2 * tl, "qtt_to_tt: core depends on the memory layout of the QTT-cores (vs the result for the C-ordered copies)", ex, k=k, layouts=names)
            H = ctx.lib(teneva.core_qtt_to_tt, Zl[k * q:(k + 1) * q])
            calls += 1
            ctx.check(isinstance(H, np.ndarray) and H.shape == (rz[k * q], n, rz[(k + 1) * q]), "core_qtt_to_tt(QTT-cores in other memory layouts): shape is not q_0 x 2^q x q_q",
                      got=getattr(H, "shape", None), layouts=names[k * q:(k + 1) * q])
            _close(ctx, H, T0[k], 2 * tl, "core_qtt_to_tt depends on the memory layout of the QTT-cores (vs the result for the C-ordered copies)", ex, k=k, layouts=names[k * q:(k + 1) * q])
        ctx.check(all(np.array_equal(a, b) for a, b in zip(Zl, Zq)), "internal: argument changed")

    # ---- entries at the binary expansion: multi-indices, bit strings and cores in layouts
    if L >= 2:
        I = rng.integers(0, n, size=(m, d), dtype=np.int64)
        I[0, :] = n - 1
        B = own_bits(I, q)
        idx = tuple(I.T)
        junk_i = lambda sh: rng.integers(0, n, size=sh, dtype=np.int64)
        junk_b = lambda sh: rng.integers(0, 2, size=sh, dtype=np.int64)
        DZq = dense(Zq)
        refq = DZq[tuple(B.T)]
        tq = tolq[idx]
        tz = 2 * K_of(Z0, extra=2) * EPS * group(dense_abs(Z0), q, d)[idx]
        for j, spec in enumerate(["F", "T", "both2", "negall", "F_neg_strided"] + case["lay2"]):
            name = _spec_name(spec)
            Il = relayout(I, spec, junk_i)
            Bt = ctx.lib(teneva.ind_tt_to_qtt, Il, n)
            ctx.check(is_int_array(Bt, (m, L)) and bool(np.all(Bt == B)), "ind_tt_to_qtt(batch in another memory layout) differs from shift/mask bits",
                      layout=name, strides=Il.strides, first_bad=_first_bad(Bt, B, I, Bt) if is_int_array(Bt, (m, L)) else None)
            Bl = relayout(Bt, spec, junk_b)
            Zl = [relayout(Zq[k], case["lay_Z"][j % 2][k], zvals) for k in range(L)]
            v = np.asarray(ctx.lib(teneva.get_many, Zl, Bl), dtype=float)
            _close(ctx, v, refq, tq, "get_many(Z, ind_tt_to_qtt(I)), arguments in other memory layouts, vs own entry of Z at the bits of I", ex, layout=name)
            v = np.asarray(ctx.lib(teneva.get_many, Z0, Bl), dtype=float)
            _close(ctx, v, D0[idx], tz, "get_many(tt_to_qtt(Y), ind_tt_to_qtt(I)), index arrays in other memory layouts, vs own entry of the QTT-tensor", layout=name)
            if tol0 is not None:
                err = fro(v - F[idx])
                ctx.check(err <= tol0 + fro(tz), "entries of tt_to_qtt(Y) at ind_tt_to_qtt(I) (I in another memory layout) differ from the entries of Y at I",
                          err=err, tol=tol0, layout=name, strides=Il.strides)
            It = ctx.lib(teneva.ind_qtt_to_tt, Bl, q)
            ctx.check(is_int_array(It, (m, d)) and bool(np.all(It == I)), "ind_qtt_to_tt(bits in another memory layout) is not sum b_j 2^j", layout=name, strides=Bl.strides)
            if d >= 2:
                v = np.asarray(ctx.lib(teneva.get_many, T0, relayout(It, spec, junk_i)), dtype=float)
                _close(ctx, v, refq, tq, "entry of qtt_to_tt(Z) at ind_qtt_to_tt(B) (arrays in other memory layouts) vs entry of Z at B", ex, layout=name)
            calls += 5
    return calls


# ------------------------------------------------------------------------------------------- gauge: scales inside a mode
#
# A QTT-tensor is invariant under a re-gauging of its cores: multiplying core j of mode k by c_kj multiplies every entry of
# the merged TT-core k by C_k = prod_j c_kj and changes nothing else.  With c_kj = 2^s_kj the statement is exact in floating
# point: the scaled cores are exactly representable, and qtt_to_tt / core_qtt_to_tt of the scaled cores must return
# 2^(S_k) * (merge of the unscaled cores), S_k = sum_j s_kj, up to the rounding of ONE evaluation of the chain - as long as
# the evaluation itself stays inside the double range.  The documented evaluation ("chained contraction", anchor of the
# property; teneva/core.py:core_qtt_to_tt starts from Q_list[0] and multiplies the next core from the right) forms the
# prefix products Q_0 ... Q_j and nothing else, so the domain is, by construction:
#     every prefix exponent P_kj = s_k0 + ... + s_kj (the total S_k = P_k,q-1 included) lies in [-G_PMAX, G_PMAX],
#     every single exponent |s_kj| <= G_SMAX (the scaled core itself is representable),
#     the unscaled cores have entries of magnitude O(1) (Gaussian, small integers, or what tt_to_qtt returned for such a TT).
# Nothing is required of the other sub-products (suffixes Q_j ... Q_q-1, inner blocks): their exponents P_kj - P_ki reach
# +-1400, i.e. they are NOT representable - an evaluation that forms them returns inf / nan or a silently zero core.
#
# Reference and tolerance.  base_kj := ldexp(scaled core, -s_kj) (exact; equal to the drawn core unless an entry of the
# scaled core is subnormal, in which case the scaled core - the actual argument - defines the tensor).  ref_k := own
# bit-by-bit chain of matrix products of the base cores (entries O(1), no range issue).  Then
#     | H_k - 2^S_k * ref_k |  <=  2^S_k * ( 2*32*(q + sum r + 2)*eps*Abs_k  +  U_k )          elementwise,
# Abs_k = the same chain on |base| (the rounding bound of `merge` / `layout`, scale-invariant because multiplication by a
# power of two commutes with rounding), U_k = gradual-underflow allowance: an operation of step j whose result falls
# below 2^-1022 commits an absolute error <= 2^-1075 at scale 2^P_kj >= 2^-G_PMAX, which reaches the result through the
# remaining cores, factor <= 2^(S_k - P_kj) * B_k with B_k = prod_j max(1, r_j * max|base_kj|) (bounds every partial
# abs-majorant); at most 4*r operations per entry and step:  U_k = 4*q*rmax * 2^(G_PMAX - 1075) * B_k  (~1e-110, i.e. nil).
# Overflow cannot occur: every intermediate is <= 2^G_PMAX * B_k < 2^1023 (B_k < 2^200 is asserted).
# Integer-valued base cores (|entries| <= 3, ranks <= 3, q <= 7): every partial sum of every evaluation order is an
# integer < 2^53 times a power of two >= 2^-G_PMAX: the comparison is ==.
# No bit-for-bit claim for Gaussian cores (H_k vs 2^S_k * core_qtt_to_tt(base)): it would hold for a fixed summation order,
# which BLAS does not promise across two calls.

G_PMAX = 700
G_SMAX = 1000
G_OUT = 1100          # |exponent| of a sub-product of O(1) cores beyond which it has left the double range (2^-1074 .. 2^1024)
G_KINDS = ("up", "down", "up", "down", "walk", "walk", "flat")
G_FAMS = ("gauss", "gauss", "smallint", "from_tt")


def gauge_sizes(tier):
    return dict(q_max=5, qd_max=12) if tier == "quick" else dict(q_max=7, qd_max=16)


@st.composite
def gauge_exponents(draw, q):
    """Exponents s_0..s_q-1 of one mode with every prefix sum in [-G_PMAX, G_PMAX] and |s_j| <= G_SMAX (by construction)."""
    kind = draw(st.sampled_from(G_KINDS))
    if kind == "flat":
        return kind, [draw(st.integers(-40, 40)) for _ in range(q)]
    if kind in ("up", "down"):
        lo = -draw(st.one_of(st.integers(600, G_PMAX), st.integers(300, G_PMAX)))
        hi = draw(st.one_of(st.integers(500, G_PMAX), st.integers(100, G_PMAX)))
        P = [lo] + sorted(draw(st.integers(lo, hi)) for _ in range(max(0, q - 2))) + ([hi] if q >= 2 else [])
        if kind == "down":
            P = [-v for v in P]
    else:
        P = [draw(st.one_of(st.integers(-G_PMAX, G_PMAX), st.sampled_from([-G_PMAX, -600, 0, 600, G_PMAX]))) for _ in range(q)]
    s, prev = [], 0
    for v in P:
        step = max(-G_SMAX, min(G_SMAX, v - prev))
        s.append(step)
        prev += step
    return kind, s


@st.composite
def gauge_cases(draw, tier):
    sz = gauge_sizes(tier)
    q = draw(st.sampled_from([1, 2] + list(range(3, sz["q_max"] + 1)) * 3))
    d = draw(st.integers(1, max(1, min(3, sz["qd_max"] // q))))
    fam = draw(st.sampled_from(G_FAMS))
    exps, kinds = [], []
    for _ in range(d):
        kind, s = draw(gauge_exponents(q))
        kinds.append(kind)
        exps.append(s)
    return {"q": q, "d": d, "fam": fam, "seed": draw(gen.seeds), "exps": exps, "kinds": kinds,
            "rz": [1] + [draw(st.integers(1, 3)) for _ in range(q * d - 1)] + [1],
            "r": [1] + [draw(st.integers(1, 3)) for _ in range(d - 1)] + [1],
            "tt_args": draw(st.sampled_from([[], [0.0, 100], [1.E-10, 100], [1.E-6, 3]]))}


def own_merge(Zs):
    """QTT-cores of one mode -> r_0 x 2^q x r_q core: entry at i is the product of the slices at the little-endian bits of i."""
    q = len(Zs)
    H = np.empty((Zs[0].shape[0], 2 ** q, Zs[-1].shape[2]))
    for i in range(2 ** q):
        M = Zs[0][:, i & 1, :]
        for j in range(1, q):
            M = M @ Zs[j][:, (i >> j) & 1, :]
        H[:, i, :] = M
    return H


def prop_gauge(case, ctx):
    q, d, fam, exps = case["q"], case["d"], case["fam"], case["exps"]
    n = 2 ** q
    L = q * d
    rng = np.random.default_rng(case["seed"])
    ctx.label(f"q={q}", f"d={d}", "values:" + fam, *("exps:" + k for k in case["kinds"]))

    # ---- the unscaled QTT-cores
    Y = models = None
    if fam == "from_tt":
        r_tt = case["r"]
        Y = [rng.normal(size=(r_tt[k], n, r_tt[k + 1])) for k in range(d)]
        args = tuple(case["tt_args"])
        e_tt, r_cap = (1.E-12, 100) if not args else args
        Z = ctx.lib(teneva.tt_to_qtt, [G.copy() for G in Y], *args)
        check_qtt_form(ctx, Z, q, d, r_tt, r_cap, "tt_to_qtt")
        Z = [np.array(c, dtype=float) for c in Z]
        models = [core_model(G, q, e_tt) for G in Y]
        if int(r_cap) < max(mm[2] for mm in models):
            models = None
    else:
        rz = case["rz"]
        draw_vals = (lambda sh: rng.normal(size=sh)) if fam == "gauss" else (lambda sh: rng.integers(-3, 4, size=sh).astype(float))
        Z = [draw_vals((rz[k], 2, rz[k + 1])) for k in range(L)]
    rz = ranks_of(Z)
    ex = fam == "smallint"

    # ---- the scaled cores (the argument), the base cores they define, exponent bookkeeping
    s_all = [s for mode in exps for s in mode]
    Zs = [np.ldexp(Z[k], s_all[k]) for k in range(L)]
    base = [np.ldexp(Zs[k], -s_all[k]) for k in range(L)]
    ctx.check(all(np.all(np.isfinite(c)) for c in Zs) and all(np.array_equal(np.ldexp(base[k], s_all[k]), Zs[k]) for k in range(L)),
              "internal: the scaled cores are not exact multiples of the base cores")
    if fam != "from_tt":
        ctx.check(all(np.array_equal(a, b) for a, b in zip(base, Z)), "internal: scaling by a power of two was not exact")
    worst_sub = 0
    for k in range(d):
        P = np.cumsum(exps[k]).tolist()
        ctx.check(all(abs(v) <= G_PMAX for v in P) and all(abs(v) <= G_SMAX for v in exps[k]), "internal: exponents outside the stated domain", exps=exps[k])
        pre = [0] + P
        sub = [pre[j + 1] - pre[i] for i in range(1, q) for j in range(i + 1, q)]       # sub-products of >= 2 cores that are not prefixes
        suf = [P[-1] - pre[i] for i in range(1, q - 1)]                                   # proper suffixes of >= 2 cores
        if any(v >= G_OUT for v in suf):
            ctx.label("suffix_product_overflows")
        if any(v <= -G_OUT for v in suf):
            ctx.label("suffix_product_underflows")
        if any(abs(v) >= G_OUT for v in sub):
            ctx.label("inner_product_out_of_range")
        worst_sub = max([worst_sub] + [abs(v) for v in sub])
    ctx.label("every_subproduct_representable" if worst_sub < G_OUT - 100 else "some_subproduct_not_representable" if worst_sub >= G_OUT else "subproduct_at_the_edge")
    ctx.nontrivial(q >= 3 and worst_sub >= G_OUT)

    # ---- qtt_to_tt on the whole tensor, core_qtt_to_tt mode by mode
    args_in = [c.copy() for c in Zs]
    T = ctx.lib(teneva.qtt_to_tt, args_in, q)
    ctx.check(all(np.array_equal(a, b) for a, b in zip(args_in, Zs)), "qtt_to_tt changed its argument")
    ctx.check(isinstance(T, list) and len(T) == d and all(isinstance(c, np.ndarray) for c in T), "qtt_to_tt: not a list of d cores",
              got=len(T) if isinstance(T, list) else type(T).__name__)
    for k in range(d):
        mode = slice(k * q, (k + 1) * q)
        S = int(sum(exps[k]))
        ref = own_merge(base[mode])
        rmax = max(c.shape[2] for c in base[mode])
        B = 1.0
        for c in base[mode]:
            B *= max(1.0, max(c.shape[0], c.shape[2]) * float(np.max(np.abs(c))))
        ctx.check(B < 2.0 ** 200, "internal: base cores are not of moderate magnitude", B=B)
        tol = _rounding_tol(base[mode]) + 4.0 * q * rmax * 2.0 ** (G_PMAX - 1075) * B
        want = np.ldexp(ref, S)
        H = ctx.lib(teneva.core_qtt_to_tt, [c.copy() for c in Zs[mode]])
        where = dict(k=k, q=q, exponents=exps[k], prefix_exponents=np.cumsum(exps[k]).tolist(), total_exponent=S, ranks=rz[k * q:(k + 1) * q + 1], values=fam)
        for got, what in ((T[k], "qtt_to_tt"), (H, "core_qtt_to_tt")):
            ctx.check(isinstance(got, np.ndarray) and got.shape == (rz[k * q], n, rz[(k + 1) * q]), f"{what}: core is not of shape q_0 x 2^q x q_q",
                      got=getattr(got, "shape", None), **where)
            ctx.check(bool(np.all(np.isfinite(got))), f"{what}: non-finite entries for QTT-cores scaled by powers of two inside the mode "
                      "(every prefix product and the result are representable)", want_max=float(np.max(np.abs(want))), **where)
            # compared at the scale of the base cores (division by 2^S is exact for every entry above 2^(S-1022); smaller ones
            # are below the underflow allowance anyway)
            _close(ctx, np.ldexp(np.asarray(got, dtype=float), -S), ref, tol,
                   f"{what}: merge of QTT-cores scaled by 2^s_j is not 2^(sum s_j) times the merge of the unscaled cores (shown divided by 2^(sum s_j))", ex, **where)
        if models is not None and models[k][0] is not None:
            err = fro(np.ldexp(np.asarray(T[k], dtype=float), -S) - Y[k])
            bound = models[k][1] + 2.0 * fro(tol)
            ctx.check(err <= bound, "qtt_to_tt of the re-gauged tt_to_qtt(Y), divided by the gauge factor, differs from the core of Y beyond sqrt(q)*e + q*floor",
                      err=err, bound=bound, regime=models[k][0], **where)
            ctx.label("round_trip_through_regauged_qtt_checked")
    ctx.inner(2 * d - 1)


SUBCHECKS = [
    Sub("index", prop_index, enumerate=index_blocks, exhaustive=True),
    Sub("convert", prop_convert, strategy=convert_cases, quick=400, thorough=4000),
    Sub("merge", prop_merge, strategy=merge_cases, quick=200, thorough=2500),
    Sub("reject", prop_reject, strategy=reject_cases, quick=40, thorough=300),
    Sub("walk", prop_walk, enumerate=walk_cases),
    Sub("deep", prop_deep, strategy=deep_cases, quick=120, thorough=1500),
    Sub("history", prop_history, strategy=history_cases, quick=40, thorough=600),
    Sub("dtype", prop_dtype, strategy=dtype_cases, quick=120, thorough=1500),
    Sub("layout", prop_layout, strategy=layout_cases, quick=60, thorough=600),
    Sub("gauge", prop_gauge, strategy=gauge_cases, quick=150, thorough=2000),
]
